(** Shared vocabulary: byte strings as [list N], a few string functions of Go's [strings] package. *)
From Coq Require Export List NArith ZArith Bool Lia.
Export ListNotations.
Open Scope N_scope.

Definition str := list N.

Definition c_slash : N := 47.
Definition c_colon : N := 58.
Definition c_dot : N := 46.
Definition c_at : N := 64.

Fixpoint str_eqb (a b : str) : bool :=
  match a, b with
  | [], [] => true
  | x :: a', y :: b' => (x =? y) && str_eqb a' b'
  | _, _ => false
  end.

Fixpoint has_prefix (p s : str) : bool :=
  match p, s with
  | [], _ => true
  | x :: p', y :: s' => (x =? y) && has_prefix p' s'
  | _ :: _, [] => false
  end.

Fixpoint contains_byte (c : N) (s : str) : bool :=
  match s with [] => false | x :: s' => (x =? c) || contains_byte c s' end.

(** [split_first c s] = strings.IndexByte: [Some (before, after)] around the first [c]. *)
Fixpoint split_first (c : N) (s : str) : option (str * str) :=
  match s with
  | [] => None
  | x :: s' => if x =? c then Some ([], s')
               else match split_first c s' with
                    | Some (a, b) => Some (x :: a, b)
                    | None => None
                    end
  end.

(** [split_last c s] = strings.LastIndexByte: [(before, Some after)] around the last [c], or [(s, None)]. *)
Fixpoint split_last (c : N) (s : str) : str * option str :=
  match s with
  | [] => ([], None)
  | x :: s' => match split_last c s' with
               | (a, Some n) => (x :: a, Some n)
               | (a, None) => if x =? c then ([], Some a) else (x :: a, None)
               end
  end.

(** [split_on c s] = strings.Split(s, c): always at least one component. *)
Fixpoint split_on (c : N) (s : str) : list str :=
  match s with
  | [] => [[]]
  | x :: s' => match split_on c s' with
               | [] => [[]] (* unreachable *)
               | h :: t => if x =? c then [] :: h :: t else (x :: h) :: t
               end
  end.

Fixpoint join_with (c : N) (l : list str) : str :=
  match l with
  | [] => []
  | [a] => a
  | a :: l' => a ++ c :: join_with c l'
  end.

Lemma str_eqb_spec a b : reflect (a = b) (str_eqb a b).
Proof.
  revert b; induction a as [|x a IH]; intros [|y b]; simpl; try (constructor; congruence).
  destruct (N.eqb_spec x y); simpl.
  - destruct (IH b); constructor; congruence.
  - constructor; congruence.
Qed.

Lemma str_eqb_refl a : str_eqb a a = true.
Proof. destruct (str_eqb_spec a a); congruence. Qed.
