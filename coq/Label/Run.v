(** Case evaluation for the C12 correspondence check: the harness writes the implementation's answers,
    this file recomputes them with the model and returns the indices of disagreeing cases. *)
From Dawn Require Import Label.Model.

Inductive case :=
| CParse (inp : str) (exp : option (label * str))
| CRel (inp pkg : str) (exp : option (label * str))
| CClean (inp : str) (exp : option str)
| CSplit (inp : str) (exp : list str)
| CNew (k pr pk n : str) (exp : option label)
| CJoin (a b : str) (exp : option str)
| CRsp (pkg sp : str) (exp : option str)
| CSlabel (pkg sp : str) (exp : option label)
| CTip (l : label) (exp : str)
| CSite (root pkg g : str) (exp_gen exp_src : option str)
| CSiteSame (root pkg g : str) (exp : option str)
| CDep (pkg s : str) (exp : option str)
| CFind (defs : list str) (pkg s : str) (exp_get exp_load : option str).

Definition opt_eqb {A} (eqb : A -> A -> bool) (a b : option A) : bool :=
  match a, b with
  | None, None => true
  | Some x, Some y => eqb x y
  | _, _ => false
  end.

Fixpoint list_eqb {A} (eqb : A -> A -> bool) (a b : list A) : bool :=
  match a, b with
  | [], [] => true
  | x :: a', y :: b' => eqb x y && list_eqb eqb a' b'
  | _, _ => false
  end.

Definition ls_eqb (a b : label * str) : bool := label_eqb (fst a) (fst b) && str_eqb (snd a) (snd b).

Definition with_string (o : option label) : option (label * str) :=
  match o with None => None | Some l => Some (l, to_string l) end.

Definition check_case (c : case) : bool :=
  match c with
  | CParse inp exp => opt_eqb ls_eqb (with_string (parse inp)) exp
  | CRel inp pkg exp =>
      opt_eqb ls_eqb (with_string (match parse inp with None => None | Some l => relative_to l pkg end)) exp
  | CClean inp exp => opt_eqb str_eqb (clean inp) exp
  | CSplit inp exp => list_eqb str_eqb (split_pkg inp) exp
  | CNew k pr pk n exp => opt_eqb label_eqb (new_label k pr pk n) exp
  | CJoin a b exp => opt_eqb str_eqb (join2 a b) exp
  | CRsp pkg sp exp => opt_eqb str_eqb (repo_source_path pkg sp) exp
  | CSlabel pkg sp exp => opt_eqb label_eqb (source_label pkg sp) exp
  | CTip l exp => let (d, f) := target_info_path l in str_eqb (d ++ c_slash :: f) exp
  | CSite root pkg g eg es =>
      opt_eqb str_eqb (site_gen root pkg g) eg && opt_eqb str_eqb (site_src root pkg g) es
  | CSiteSame root pkg g e =>
      opt_eqb str_eqb (site_gen root pkg g) e && opt_eqb str_eqb (site_src root pkg g) e
  | CDep pkg s e => opt_eqb str_eqb (site_dep pkg s) e
  | CFind defs pkg s eg el =>
      opt_eqb str_eqb (site_get defs pkg s) eg && opt_eqb str_eqb (site_load_target defs s) el
  end.

Definition mismatches (cs : list (N * case)) : list N :=
  map fst (filter (fun ic => negb (check_case (snd ic))) cs).
