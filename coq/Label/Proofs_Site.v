(** Proofs about the two call sites that turn an accepted source / generated-file path into an OS location
    (model: [site_gen], [site_src] in Label/Model.v): the location is the cleaned project root followed by
    components none of which is "..".  Used by Props_C12.v (theorems 4b, 4c). *)
From Dawn Require Import Base.Bytes Label.Model Label.Proofs Label.Proofs_Path.
Open Scope N_scope.

(** * path.Clean's component walk on concatenations and on ".."-free input *)

Definition keep (c : str) : bool := match c with [] => false | _ => negb (is_dot c) end.

Lemma gp_walk_app rt a : forall b st,
  gp_walk rt (a ++ b) st = gp_walk rt b (rev (gp_walk rt a st)).
Proof.
  induction a as [|c cs IH]; intros b st.
  - simpl. rewrite rev_involutive. reflexivity.
  - simpl. destruct c as [|x c']; [apply IH|].
    remember (x :: c') as c.
    destruct (is_dot c); [apply IH|].
    destruct (is_dotdot c).
    + destruct st as [|top rest].
      * destruct rt; apply IH.
      * destruct (is_dotdot top); apply IH.
    + apply IH.
Qed.

Lemma gp_walk_nodotdot rt b : forall st,
  ~ In dotdot b -> gp_walk rt b st = rev st ++ filter keep b.
Proof.
  induction b as [|c cs IH]; intros st H.
  - simpl. rewrite app_nil_r. reflexivity.
  - assert (~ In dotdot cs) as Hcs by (intros I; apply H; right; assumption).
    simpl. destruct c as [|x c']; [apply IH; assumption|].
    remember (x :: c') as c.
    assert (keep c = negb (is_dot c)) as K by (subst c; reflexivity).
    rewrite K.
    destruct (is_dot c); simpl; [apply IH; assumption|].
    destruct (is_dotdot c) eqn:D.
    + exfalso. apply H. left. apply is_dotdot_true in D. assumption.
    + rewrite IH by assumption. simpl. rewrite <- app_assoc. reflexivity.
Qed.

Lemma filter_keep_nodotdot l : ~ In dotdot l -> ~ In dotdot (filter keep l).
Proof. intros H I. apply filter_In in I. tauto. Qed.

(** * filepath.Join *)

Lemma drop_empty_incl l : forall x, In x (drop_empty l) -> In x l.
Proof.
  induction l as [|a l IH]; intros x I; [assumption|].
  destruct a; [right; apply IH; exact I | exact I].
Qed.

Lemma gp_walk_slashfree rt comps :
  slashfree comps -> slashfree (gp_walk rt comps []).
Proof.
  intros H.
  destruct (gp_walk_inv rt comps []) as (st & E & Hsf & _); try assumption.
  - intros y [].
  - exact I.
  - intros _ [].
  - rewrite E. intros y Iy. apply Hsf. apply in_rev. assumption.
Qed.

(** the components of a cleaned string are those of the walk (plus "" / "." markers) *)
Lemma gp_clean_split p :
  ~ In dotdot (gp_clean_comps p) -> ~ In dotdot (split_on c_slash (gp_clean p)).
Proof.
  unfold gp_clean. destruct p as [|x p'].
  { intros _ [E|[]]. discriminate E. }
  remember (x :: p') as p. intros H.
  assert (slashfree (gp_clean_comps p)) as Hsf.
  { unfold gp_clean_comps. apply gp_walk_slashfree. intros y Iy. eapply split_on_comp_nosep; eassumption. }
  destruct (gp_is_abs p).
  - change (c_slash :: join_with c_slash (gp_clean_comps p))
      with ([] ++ c_slash :: join_with c_slash (gp_clean_comps p)).
    rewrite split_on_app. simpl split_on at 1.
    destruct (gp_clean_comps p) as [|a t] eqn:E.
    + simpl. intros [E'|[E'|[]]]; discriminate.
    + rewrite split_on_join; [|discriminate | assumption].
      intros [E'|I]; [discriminate | exact (H I)].
  - destruct (gp_clean_comps p) as [|a t] eqn:E.
    + intros [E'|[]]. discriminate E'.
    + rewrite split_on_join; [|discriminate | assumption]. exact H.
Qed.

Lemma os_join_nodotdot l :
  ~ In dotdot l -> slashfree l -> ~ In dotdot (split_on c_slash (os_join l)).
Proof.
  intros Hnd Hsf. unfold os_join.
  destruct (drop_empty l) as [|a t] eqn:E.
  { simpl. intros [E'|[]]. discriminate E'. }
  assert (forall y, In y (a :: t) -> In y l) as Hin by (intros y Iy; apply drop_empty_incl; rewrite E; exact Iy).
  apply gp_clean_split. unfold gp_clean_comps.
  rewrite split_on_join; [|discriminate | intros y Iy; apply Hsf; apply Hin; exact Iy].
  rewrite gp_walk_nodotdot by (intros I; apply Hnd; apply Hin; exact I).
  cbn [rev app]. apply filter_keep_nodotdot. intros I. apply Hnd. apply Hin. exact I.
Qed.

(** [filepath.Join(root, rest...)] for an absolute root and ".."-free remaining elements *)
Lemma gp_clean_under root tail_ :
  gp_is_abs root = true ->
  ~ In dotdot (split_on c_slash tail_) ->
  gp_clean (root ++ c_slash :: tail_) =
  c_slash :: join_with c_slash (gp_clean_comps root ++ filter keep (split_on c_slash tail_)).
Proof.
  intros Habs Hnd.
  destruct root as [|r0 root']; [discriminate|].
  unfold gp_clean. cbn [app].
  assert (gp_is_abs (r0 :: root' ++ c_slash :: tail_) = true) as A by (destruct r0; exact Habs).
  rewrite A. f_equal. f_equal.
  unfold gp_clean_comps. rewrite A, Habs.
  change (r0 :: root' ++ c_slash :: tail_) with ((r0 :: root') ++ c_slash :: tail_).
  rewrite split_on_app, gp_walk_app, gp_walk_nodotdot by assumption.
  rewrite rev_involutive. reflexivity.
Qed.

(** * generates= *)

Lemma generated_inside_root_proof : forall root pkg g p,
  gp_is_abs root = true -> site_gen root pkg g = Some p ->
  exists rest, ~ In dotdot rest /\ p = c_slash :: join_with c_slash (gp_clean_comps root ++ rest).
Proof.
  intros root pkg g p Habs. unfold site_gen.
  destruct (repo_source_path pkg g) as [q|] eqn:Q; [|discriminate].
  destruct (str_eqb q [c_dot] || str_eqb q [c_slash]); [discriminate|].
  intros H. inversion H as [Hp]. clear H.
  assert (~ In dotdot (split_on c_slash q)) as Hq.
  { destruct g as [|g0 g']; [discriminate Q|].
    unfold repo_source_path in Q. cbv beta iota zeta in Q.
    match type of Q with context [gp_clean ?e] => remember e as sp1 end.
    destruct (str_eqb (gp_clean sp1) dotdot || has_prefix (dotdot ++ [c_slash]) (gp_clean sp1)) eqn:C;
      [discriminate|].
    inversion Q. apply gp_clean_confined. assumption. }
  set (inner := os_join (split_on c_slash q)).
  assert (~ In dotdot (split_on c_slash inner)) as Hin.
  { apply os_join_nodotdot; [assumption|]. intros y Iy. eapply split_on_comp_nosep; eassumption. }
  exists (filter keep (split_on c_slash inner)). split; [apply filter_keep_nodotdot; assumption|].
  unfold os_join at 1. destruct root as [|r0 root']; [discriminate|].
  cbn [drop_empty join_with].
  apply gp_clean_under; assumption.
Qed.

(** * label.Clean only drops empty components (when it accepts) *)

Definition ne (c : str) : bool := match c with [] => false | _ => true end.

Lemma split_slash_cons X :
  filter ne (split_on c_slash (c_slash :: X)) = filter ne (split_on c_slash X).
Proof.
  change (c_slash :: X) with ([] ++ c_slash :: X). rewrite split_on_app. reflexivity.
Qed.

Lemma clean_loop_shape s : forall r,
  clean_loop false true s = Some r -> r = [] \/ exists X, r = c_slash :: X.
Proof.
  induction s as [|c s' IH]; intros r H.
  - simpl in H. inversion H. left; reflexivity.
  - rewrite clean_loop_cons in H.
    destruct (c =? c_colon); [discriminate|].
    destruct (c =? c_slash); [apply IH; assumption|].
    destruct (dot_elem (c :: s')); [discriminate|].
    apply option_map_some in H. destruct H as (x & _ & ->). right. eexists. reflexivity.
Qed.

Lemma clean_loop_comps s :
  (forall hv r, clean_loop false hv s = Some r ->
     filter ne (split_on c_slash r) = filter ne (split_on c_slash s)) /\
  (forall r pre, clean_loop true true s = Some r ->
     filter ne (split_on c_slash (pre ++ r)) = filter ne (split_on c_slash (pre ++ s))).
Proof.
  induction s as [|c s' [IHF IHT]]; split.
  - intros hv r H. simpl in H. inversion H. reflexivity.
  - intros r pre H. simpl in H. inversion H. reflexivity.
  - intros hv r H. rewrite clean_loop_cons in H.
    destruct (N.eqb_spec c c_colon); [discriminate|].
    destruct (N.eqb_spec c c_slash) as [->|Hs].
    + rewrite (IHF _ _ H). symmetry. apply split_slash_cons.
    + destruct (dot_elem (c :: s')); [discriminate|].
      apply option_map_some in H. destruct H as (rt & E & ->).
      specialize (IHT rt [c] E). cbn [app] in IHT.
      destruct hv; cbn [app]; [rewrite split_slash_cons|]; exact IHT.
  - intros r pre H. rewrite clean_loop_cons in H.
    destruct (N.eqb_spec c c_colon); [discriminate|].
    destruct (N.eqb_spec c c_slash) as [->|Hs].
    + rewrite split_on_app, filter_app. specialize (IHF _ _ H).
      destruct (clean_loop_shape _ _ H) as [->|(X & ->)].
      * rewrite app_nil_r, <- IHF. cbn [split_on filter ne]. rewrite app_nil_r. reflexivity.
      * rewrite split_on_app, filter_app. f_equal. rewrite <- IHF. symmetry. apply split_slash_cons.
    + apply option_map_some in H. destruct H as (rt & E & ->).
      specialize (IHT rt (pre ++ [c]) E). rewrite <- !app_assoc in IHT. exact IHT.
Qed.

Lemma clean_rooted_comps body q :
  clean (c_slash :: c_slash :: body) = Some q ->
  tl (split_pkg q) = filter ne (split_on c_slash body).
Proof.
  rewrite clean_unfold, rooted_ss. intros H.
  apply option_map_some in H. destruct H as (r & E & ->).
  unfold split_pkg. rewrite rooted_ss. cbn [skipn app tl].
  cbn [skipn] in E. exact (proj1 (clean_loop_comps body) _ _ E).
Qed.

Lemma new_label_some k pr pk n l :
  new_label k pr pk n = Some l ->
  exists pk', clean pk = Some pk' /\ l = mkLabel k pr pk' n /\ ~ In c_slash n.
Proof.
  unfold new_label.
  destruct (contains_byte c_colon k || contains_byte c_slash k); [discriminate|].
  destruct (contains_byte c_colon pr); [discriminate|].
  destruct (clean pk) as [pk'|]; [|discriminate].
  destruct (negb match pr with [] => true | _ => false end && negb (rooted pk')); [discriminate|].
  destruct (contains_byte c_colon n || contains_byte c_slash n) eqn:C; [discriminate|].
  intros H. inversion H. exists pk'. repeat split.
  apply Bool.orb_false_elim in C. apply contains_byte_false. tauto.
Qed.

Lemma rsp_nodotdot pkg g q : repo_source_path pkg g = Some q -> ~ In dotdot (split_on c_slash q).
Proof.
  intros Q. destruct g as [|g0 g']; [discriminate Q|].
  unfold repo_source_path in Q. cbv beta iota zeta in Q.
  match type of Q with context [gp_clean ?e] => remember e as sp1 end.
  destruct (str_eqb (gp_clean sp1) dotdot || has_prefix (dotdot ++ [c_slash]) (gp_clean sp1)) eqn:C;
    [discriminate|].
  inversion Q. apply gp_clean_confined. assumption.
Qed.

(** [filepath.Join(root, filepath.Join(comps...), name)] *)
Lemma site_join_under root comps name :
  gp_is_abs root = true -> ~ In dotdot comps -> slashfree comps -> ~ In c_slash name -> name <> dotdot ->
  exists rest, ~ In dotdot rest /\
    os_join [root; os_join comps; name] = c_slash :: join_with c_slash (gp_clean_comps root ++ rest).
Proof.
  intros Habs Hnd Hsf Hns Hnn.
  set (inner := os_join comps).
  assert (~ In dotdot (split_on c_slash (inner ++ c_slash :: name))) as Hin.
  { rewrite split_on_app, (split_on_nosep _ name Hns). intros I. apply in_app_or in I.
    destruct I as [I|[E|[]]]; [|congruence].
    revert I. apply os_join_nodotdot; assumption. }
  exists (filter keep (split_on c_slash (inner ++ c_slash :: name))).
  split; [apply filter_keep_nodotdot; assumption|].
  unfold os_join at 1. destruct root as [|r0 root']; [discriminate|].
  cbn [drop_empty join_with].
  apply gp_clean_under; assumption.
Qed.

(** * sources= *)

Lemma source_inside_root_proof : forall root pkg g p,
  gp_is_abs root = true -> site_src root pkg g = Some p ->
  exists rest, ~ In dotdot rest /\ p = c_slash :: join_with c_slash (gp_clean_comps root ++ rest).
Proof.
  intros root pkg g p Habs. unfold site_src.
  destruct (source_label pkg g) as [l|] eqn:SL; [|discriminate].
  intros H. inversion H as [Hp]. clear H Hp.
  unfold source_label in SL.
  destruct (repo_source_path pkg g) as [q|] eqn:Q; [|discriminate].
  pose proof (rsp_nodotdot _ _ _ Q) as Hq.
  destruct (split_last c_slash q) as [dir [base|]] eqn:SP.
  - apply split_last_inv in SP. destruct SP as [-> Hb].
    apply new_label_some in SL. destruct SL as (pk' & C & -> & _). cbn [l_package l_name].
    rewrite (clean_rooted_comps _ _ C).
    rewrite split_on_app, (split_on_nosep _ base Hb) in Hq.
    apply site_join_under; try assumption.
    + intros I. apply filter_In in I. apply Hq. apply in_or_app. left. tauto.
    + intros y I. apply filter_In in I. eapply split_on_comp_nosep. exact (proj1 I).
    + intros ->. apply Hq. apply in_or_app. right. left. reflexivity.
  - apply split_last_inv in SP. destruct SP as [-> Hb].
    apply new_label_some in SL. destruct SL as (pk' & C & -> & _). cbn [l_package l_name].
    rewrite (clean_rooted_comps [] _ C).
    rewrite (split_on_nosep _ q Hb) in Hq.
    apply site_join_under; try assumption.
    + intros I. apply filter_In in I. destruct I as [[E|[]] _]. discriminate E.
    + intros y I. apply filter_In in I. destruct I as [[E|[]] N]. subst y. cbv in N. discriminate N.
    + intros ->. apply Hq. left. reflexivity.
Qed.
