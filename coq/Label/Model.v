(** Executable model of label/label.go (Parse, New, String, Clean, Join, RelativeTo, Split, Parent, Dir),
    of Go's path.Clean / path.Join / path.IsAbs as used by dawn, of sourceFile.go's
    repoSourcePath / sourceLabel, of the two call sites that turn an accepted path into an OS location
    (builtin_target's generates= loop and loadSourceFile), of project.go's targetInfoPath, and of the call sites
    that turn a label spelled by the user into a key (builtin_target's deps= loop, get_target, LoadTarget).
    No proofs in this file. *)
From Dawn Require Export Base.Bytes.

Record label := mkLabel { l_kind : str; l_project : str; l_package : str; l_name : str }.

Definition label_eqb (a b : label) : bool :=
  str_eqb (l_kind a) (l_kind b) && str_eqb (l_project a) (l_project b) &&
  str_eqb (l_package a) (l_package b) && str_eqb (l_name a) (l_name b).

(** ** label.Clean *)

(** [dot_elem s]: the element starting at [s] is "." or "..": the two error cases of Clean's switch. *)
Definition dot_elem (s : str) : bool :=
  match s with
  | [46] => true
  | 46 :: 47 :: _ => true
  | [46; 46] => true
  | 46 :: 46 :: 47 :: _ => true
  | _ => false
  end.

(** The main loop of Clean. [in_elem]: we are inside the "copy element" inner loop. [have]: at least one
    element has been written (Go: [out.w != 2] / [out.w != 0]). The lazybuf is modelled by the list of
    bytes it denotes, built front to back. *)
Fixpoint clean_loop (in_elem have : bool) (s : str) : option str :=
  match s with
  | [] => Some []
  | c :: s' =>
      if c =? c_colon then None
      else if c =? c_slash then clean_loop false have s'
      else if in_elem then option_map (cons c) (clean_loop true true s')
      else if dot_elem s then None
      else option_map (fun r => (if have then [c_slash] else []) ++ c :: r) (clean_loop true true s')
  end.

Definition rooted (pkg : str) : bool :=
  match pkg with 47 :: 47 :: _ => true | _ => false end.

Definition clean (pkg : str) : option str :=
  match pkg with
  | [] => Some []
  | c :: _ =>
      if rooted pkg then option_map (fun r => c_slash :: c_slash :: r) (clean_loop false false (skipn 2 pkg))
      else if c =? c_slash then None
      else clean_loop false false pkg
  end.

(** ** label.Parse *)

(** strings.Index(s, "//") *)
Fixpoint split_dslash (s : str) : option (str * str) :=
  match s with
  | [] => None
  | a :: s' =>
      if rooted s then Some ([], s)
      else match split_dslash s' with
           | Some (p, q) => Some (a :: p, q)
           | None => None
           end
  end.

Definition parse (raw : str) : option label :=
  let (kpp, nameo) := split_last c_colon raw in
  let (kind, pp) := match split_first c_colon kpp with
                    | Some (k, r) => (k, r)
                    | None => ([], kpp)
                    end in
  let (project, pkg) := match split_dslash pp with
                        | Some (p, q) => (p, q)
                        | None => ([], pp)
                        end in
  if contains_byte c_colon project then None else
  match clean pkg with
  | None => None
  | Some pkg' =>
      let name := match nameo with Some n => n | None => [] end in
      if contains_byte c_slash name then None
      else if negb (match project with [] => true | _ => false end) && negb (rooted pkg') then None
      else Some (mkLabel kind project pkg' name)
  end.

Definition to_string (l : label) : str :=
  (match l_kind l with [] => [] | k => k ++ [c_colon] end) ++
  l_project l ++ l_package l ++
  (match l_name l with [] => [] | n => c_colon :: n end).

Definition is_abs (l : label) : bool := rooted (l_package l).

(** label.New *)
Definition new_label (kind project pkg name : str) : option label :=
  if contains_byte c_colon kind || contains_byte c_slash kind then None
  else if contains_byte c_colon project then None
  else match clean pkg with
       | None => None
       | Some pkg' =>
           if negb (match project with [] => true | _ => false end) && negb (rooted pkg') then None
           else if contains_byte c_colon name || contains_byte c_slash name then None
           else Some (mkLabel kind project pkg' name)
       end.

(** label.Join (two-element form, the only one dawn uses) *)
Definition join2 (a b : str) : option str :=
  match a, b with
  | [], [] => Some []
  | [], _ => clean b
  | _, [] => clean a
  | _, _ => clean (a ++ c_slash :: b)
  end.

Definition relative_to (l : label) (pkg : str) : option label :=
  if is_abs l then Some l
  else match join2 pkg (l_package l) with
       | None => None
       | Some p => Some (mkLabel (l_kind l) (l_project l) p (l_name l))
       end.

(** label.Split *)
Definition split_pkg (pkg : str) : list str :=
  let body := if rooted pkg then skipn 2 pkg else pkg in
  (if rooted pkg then [[c_slash; c_slash]] else []) ++
  filter (fun c => match c with [] => false | _ => true end) (split_on c_slash body).

(** ** Go's path.Clean / path.Join, at the level of components.
    Validated against the real functions by the correspondence check (exhaustive on short strings). *)

Definition dotdot : str := [c_dot; c_dot].
Definition is_dotdot (c : str) : bool := str_eqb c dotdot.
Definition is_dot (c : str) : bool := str_eqb c [c_dot].

(** stack is kept reversed (top first) *)
Fixpoint gp_walk (is_rooted : bool) (comps : list str) (stack : list str) : list str :=
  match comps with
  | [] => rev stack
  | c :: cs =>
      match c with
      | [] => gp_walk is_rooted cs stack
      | _ =>
          if is_dot c then gp_walk is_rooted cs stack
          else if is_dotdot c then
            match stack with
            | top :: rest => if is_dotdot top then gp_walk is_rooted cs (c :: stack)
                             else gp_walk is_rooted cs rest
            | [] => if is_rooted then gp_walk is_rooted cs [] else gp_walk is_rooted cs [c]
            end
          else gp_walk is_rooted cs (c :: stack)
      end
  end.

Definition gp_is_abs (p : str) : bool := match p with 47 :: _ => true | _ => false end.

Definition gp_clean_comps (p : str) : list str := gp_walk (gp_is_abs p) (split_on c_slash p) [].

Definition gp_clean (p : str) : str :=
  match p with
  | [] => [c_dot]
  | _ =>
      let st := gp_clean_comps p in
      if gp_is_abs p then c_slash :: join_with c_slash st
      else match st with [] => [c_dot] | _ => join_with c_slash st end
  end.

Definition gp_join2 (a b : str) : str :=
  match a, b with
  | [], [] => []
  | [], _ => gp_clean b
  | _, [] => gp_clean a
  | _, _ => gp_clean (a ++ c_slash :: b)
  end.

(** ** sourceFile.go *)

(** repoSourcePath(pkg, sourcePath); [pkg] is a module's package and always starts with "//"
    (otherwise [pkg[2:]] would be out of range: that precondition is [rooted pkg = true]). *)
Definition repo_source_path (pkg sp : str) : option str :=
  match sp with
  | [] => None
  | _ =>
      let sp1 := if gp_is_abs sp then sp else gp_join2 (skipn 2 pkg) sp in
      let sp2 := gp_clean sp1 in
      if str_eqb sp2 dotdot || has_prefix (dotdot ++ [c_slash]) sp2 then None
      else Some sp2
  end.

Definition source_kind : str := [115; 111; 117; 114; 99; 101]. (* "source" *)

Definition source_label (pkg sp : str) : option label :=
  match repo_source_path pkg sp with
  | None => None
  | Some p =>
      match split_last c_slash p with
      | (dir, Some base) => new_label source_kind [] (c_slash :: c_slash :: dir) base
      | (_, None) => new_label source_kind [] [c_slash; c_slash] p
      end
  end.

(** ** Where accepted paths end up on disk (project_builtins.go builtin_target, project.go loadSourceFile)

    [filepath.Join(elem...)] on a '/'-separated OS (and [path.Join]): leading empty elements are skipped,
    the rest is joined with "/" and cleaned; no non-empty element gives "". *)
Fixpoint drop_empty (l : list str) : list str :=
  match l with
  | [] :: l' => drop_empty l'
  | _ => l
  end.

Definition os_join (l : list str) : str :=
  match drop_empty l with
  | [] => []
  | l' => gp_clean (join_with c_slash l')
  end.

(** generates=[g] in package [pkg] of the project at [root]:
      path, err := repoSourcePath(pkg, g);
      if path == "." || path == "/" { error: the entry names the project root itself, not a file }
      components := strings.Split(path, "/");
      filepath.Join(proj.root, filepath.Join(components...)) *)
Definition site_gen (root pkg g : str) : option str :=
  match repo_source_path pkg g with
  | None => None
  | Some q =>
      if str_eqb q [c_dot] || str_eqb q [c_slash] then None
      else Some (os_join [root; os_join (split_on c_slash q)])
  end.

(** sources=[g]: label, err := sourceLabel(pkg, g); loadSourceFile(label).path =
      filepath.Join(proj.root, filepath.Join(label.Split(l.Package)[1:]...), l.Name) *)
Definition site_src (root pkg g : str) : option str :=
  match source_label pkg g with
  | None => None
  | Some l => Some (os_join [root; os_join (tl (split_pkg (l_package l))); l_name l])
  end.

(** ** url.PathEscape and targetInfoPath *)

Definition hex_digit (n : N) : N := if n <? 10 then 48 + n else 55 + n. (* '0'.. / 'A'.. *)

Definition is_alnum (c : N) : bool :=
  ((48 <=? c) && (c <=? 57)) || ((65 <=? c) && (c <=? 90)) || ((97 <=? c) && (c <=? 122)).

(** net/url shouldEscape(c, encodePathSegment) *)
Definition should_escape (c : N) : bool :=
  if is_alnum c then false
  else if (c =? 45) || (c =? 95) || (c =? 46) || (c =? 126) then false   (* - _ . ~ *)
  else if (c =? 36) || (c =? 38) || (c =? 43) || (c =? 61) || (c =? 58) || (c =? 64) then false (* $ & + = : @ *)
  else true.

Fixpoint path_escape (s : str) : str :=
  match s with
  | [] => []
  | c :: s' => if should_escape c then 37 :: hex_digit (c / 16) :: hex_digit (c mod 16) :: path_escape s'
               else c :: path_escape s'
  end.

Definition build_dawn : str := [66; 85; 73; 76; 68; 46; 100; 97; 119; 110]. (* "BUILD.dawn" *)
Definition target_kind : str := [116; 97; 114; 103; 101; 116]. (* "target" *)

(** targetInfoPath relative to the work directory: (directory, file name) *)
Definition target_info_path (l : label) : str * str :=
  let kind := match l_kind l with [] => target_kind | k => k end in
  let name := match l_name l with [] => build_dawn | n => n end in
  (kind ++ [115], path_escape (skipn 2 (l_package l) ++ c_slash :: name)).

(** ** Where a label SPELLED BY THE USER becomes an identity (project_builtins.go builtin_target deps= loop,
    builtin_get_target, builtin_run; project.go LoadTarget / Target)

    deps=[s] in package [pkg]:  l := Parse(s); l = l.RelativeTo(pkg); dependencies = append(dependencies, l.String()).
    The string stored in the dependency list is the key under which the runner asks for the target and under
    which the dependency is persisted in the record of the dependent. *)
Definition site_dep (pkg s : str) : option str :=
  match parse s with
  | None => None
  | Some l => option_map to_string (relative_to l pkg)
  end.

Fixpoint str_mem (x : str) (l : list str) : bool :=
  match l with
  | [] => false
  | y :: l' => str_eqb x y || str_mem x l'
  end.

(** The target table is a map from printed labels to targets; [defs] lists its keys.
    get_target(s) / run(s) in package [pkg]: Parse, RelativeTo, proj.targets[l.String()].  The result is the key
    that was hit (the implementation returns the target stored under it). *)
Definition site_get (defs : list str) (pkg s : str) : option str :=
  match site_dep pkg s with
  | Some d => if str_mem d defs then Some d else None
  | None => None
  end.

(** Project.LoadTarget(raw) (what the runner calls with a dependency string): Parse, proj.targets[l.String()]. *)
Definition site_load_target (defs : list str) (s : str) : option str :=
  match parse s with
  | Some l => let d := to_string l in if str_mem d defs then Some d else None
  | None => None
  end.

(** the table itself, for the statement "a lookup finds THE target of that label": keys are printed labels *)
Fixpoint table_find {A} (tbl : list (str * A)) (k : str) : option A :=
  match tbl with
  | [] => None
  | (k', v) :: t => if str_eqb k k' then Some v else table_find t k
  end.

Definition table_of (defs : list label) : list (str * label) := map (fun l => (to_string l, l)) defs.
