(** Proofs about label.Parse / String / Clean / Join / RelativeTo (model in Label/Model.v).
    Used by Props_C12.v (theorems 1-3 and 7). *)
From Dawn Require Import Base.Bytes Label.Model.
Open Scope N_scope.

(** * Generic facts on the Bytes vocabulary *)

Lemma contains_byte_false c s : contains_byte c s = false <-> ~ In c s.
Proof.
  induction s as [|x s IH]; simpl.
  - split; auto.
  - destruct (N.eqb_spec x c); simpl.
    + split; [discriminate | intros H; exfalso; apply H; left; assumption].
    + rewrite IH. split; intros H; [intros [E|I]; [congruence|auto] | intros I; apply H; right; exact I].
Qed.

Lemma contains_byte_true c s : contains_byte c s = true <-> In c s.
Proof.
  induction s as [|x s IH]; simpl.
  - split; [discriminate | tauto].
  - destruct (N.eqb_spec x c); simpl.
    + split; auto.
    + rewrite IH. split; [auto | intros [E|I]; [congruence | exact I]].
Qed.

(** ** split_last *)

Lemma split_last_nosep c s : ~ In c s -> split_last c s = (s, None).
Proof.
  induction s as [|x s IH]; simpl; intros H; [reflexivity|].
  rewrite IH by tauto.
  destruct (N.eqb_spec x c); [exfalso; apply H; left; assumption | reflexivity].
Qed.

Lemma split_last_app c a n : ~ In c n -> split_last c (a ++ c :: n) = (a, Some n).
Proof.
  intros H. induction a as [|x a IH]; simpl.
  - rewrite split_last_nosep by assumption. rewrite N.eqb_refl. reflexivity.
  - rewrite IH. reflexivity.
Qed.

Lemma split_last_inv c s a o :
  split_last c s = (a, o) ->
  match o with
  | None => a = s /\ ~ In c s
  | Some n => s = a ++ c :: n /\ ~ In c n
  end.
Proof.
  revert a o. induction s as [|x s IH]; simpl; intros a o H.
  - inversion H; subst. split; auto.
  - destruct (split_last c s) as [a' [n'|]] eqn:E.
    + inversion H; subst. destruct (IH _ _ eq_refl) as [E1 E2]. subst s. split; auto.
    + destruct (IH _ _ eq_refl) as [E1 E2]. subst a'.
      destruct (N.eqb_spec x c).
      * inversion H; subst. split; auto.
      * inversion H; subst. split; auto. intros [E'|I]; auto.
Qed.

(** ** split_first *)

Lemma split_first_nosep c s : ~ In c s -> split_first c s = None.
Proof.
  induction s as [|x s IH]; simpl; intros H; [reflexivity|].
  destruct (N.eqb_spec x c); [exfalso; apply H; left; assumption|].
  rewrite IH by tauto. reflexivity.
Qed.

Lemma split_first_app c a b : ~ In c a -> split_first c (a ++ c :: b) = Some (a, b).
Proof.
  induction a as [|x a IH]; simpl; intros H.
  - rewrite N.eqb_refl. reflexivity.
  - destruct (N.eqb_spec x c); [exfalso; apply H; left; assumption|].
    rewrite IH by tauto. reflexivity.
Qed.

Lemma split_first_some c s a b : split_first c s = Some (a, b) -> s = a ++ c :: b /\ ~ In c a.
Proof.
  revert a b. induction s as [|x s IH]; simpl; intros a b H; [discriminate|].
  destruct (N.eqb_spec x c).
  - inversion H; subst. split; auto.
  - destruct (split_first c s) as [[a' b']|]; [|discriminate].
    inversion H; subst. destruct (IH _ _ eq_refl) as [E1 E2]. subst s. split; auto.
    intros [E|I]; auto.
Qed.

(** * Matching on byte literals: boolean characterisations *)

Ltac kill_pos p := repeat (destruct p as [p|p|]; try reflexivity; try congruence).

Lemma rooted_eq s :
  rooted s = match s with a :: b :: _ => (a =? 47) && (b =? 47) | _ => false end.
Proof.
  destruct s as [|a [|b t]]; try reflexivity.
  - unfold rooted. destruct a as [|p]; [reflexivity|]. kill_pos p.
  - destruct (N.eqb_spec a 47) as [->|Ha].
    + destruct (N.eqb_spec b 47) as [->|Hb]; [reflexivity|].
      unfold rooted. destruct b as [|p]; [reflexivity|]. kill_pos p.
    + unfold rooted. destruct a as [|p]; [reflexivity|]. kill_pos p.
Qed.

Lemma rooted_inv s : rooted s = true -> exists t, s = c_slash :: c_slash :: t.
Proof.
  rewrite rooted_eq. destruct s as [|a [|b t]]; try discriminate.
  destruct (N.eqb_spec a 47) as [->|]; [|discriminate].
  destruct (N.eqb_spec b 47) as [->|]; [|discriminate]. intros _. exists t. reflexivity.
Qed.

Lemma rooted_ss t : rooted (c_slash :: c_slash :: t) = true.
Proof. reflexivity. Qed.

Lemma rooted_head_false c t : c <> c_slash -> rooted (c :: t) = false.
Proof.
  intros H. rewrite rooted_eq. destruct t; [reflexivity|].
  destruct (N.eqb_spec c 47); [contradiction | reflexivity].
Qed.

(** the part of [dot_elem] that looks behind the first byte *)
Definition tail_dot (t : str) : bool :=
  match t with
  | [] => true
  | b :: t' => (b =? 47) || ((b =? 46) && match t' with [] => true | d :: _ => d =? 47 end)
  end.

Lemma dot_elem_eq c t : dot_elem (c :: t) = (c =? 46) && tail_dot t.
Proof.
  destruct (N.eqb_spec c 46) as [->|Hc].
  2:{ unfold dot_elem. destruct c as [|p]; [reflexivity|]. kill_pos p. }
  rewrite andb_true_l.
  destruct t as [|b t']; [reflexivity|]. unfold tail_dot.
  destruct (N.eqb_spec b 47) as [->|Hb47]; [reflexivity|]. rewrite orb_false_l.
  destruct (N.eqb_spec b 46) as [->|Hb46].
  2:{ unfold dot_elem. destruct b as [|p]; [reflexivity|]. kill_pos p. }
  rewrite andb_true_l.
  destruct t' as [|d t'']; [reflexivity|].
  destruct (N.eqb_spec d 47) as [->|Hd]; [reflexivity|].
  unfold dot_elem. destruct d as [|p]; [reflexivity|]. kill_pos p.
Qed.

(** * split_dslash (strings.Index(s, "//")) *)

Lemma split_dslash_cons a s :
  split_dslash (a :: s) =
  if rooted (a :: s) then Some ([], a :: s)
  else match split_dslash s with Some (p, q) => Some (a :: p, q) | None => None end.
Proof. reflexivity. Qed.

Lemma split_dslash_rooted s : rooted s = true -> split_dslash s = Some ([], s).
Proof.
  destruct s as [|a s]; [discriminate|]. intros H. rewrite split_dslash_cons, H. reflexivity.
Qed.

(** the project part found by Parse can be re-found in front of any other absolute package *)
Lemma split_dslash_some pp : forall p q,
  split_dslash pp = Some (p, q) ->
  rooted q = true /\ pp = p ++ q /\
  forall q', rooted q' = true -> split_dslash (p ++ q') = Some (p, q').
Proof.
  induction pp as [|a s IH]; intros p q H; [discriminate|].
  rewrite split_dslash_cons in H.
  destruct (rooted (a :: s)) eqn:R.
  - inversion H; subst. split; [assumption|]. split; [reflexivity|].
    intros q' Hq'. simpl. apply split_dslash_rooted. assumption.
  - destruct (split_dslash s) as [[p' q0]|] eqn:E; [|discriminate].
    inversion H; subst. destruct (IH _ _ eq_refl) as (Rq & Es & Hre). subst s.
    split; [assumption|]. split; [reflexivity|].
    intros q' Hq'. rewrite <- app_comm_cons, split_dslash_cons.
    assert (rooted (a :: p' ++ q') = false) as ->.
    { destruct (rooted_inv _ Rq) as [t ->]. destruct (rooted_inv _ Hq') as [t' ->].
      rewrite rooted_eq in R |- *.
      destruct p' as [|b [|b' p'']]; simpl in *; assumption. }
    rewrite (Hre _ Hq'). reflexivity.
Qed.

(** * label.Clean *)

Lemma clean_loop_cons ie hv c s' :
  clean_loop ie hv (c :: s') =
  if c =? c_colon then None
  else if c =? c_slash then clean_loop false hv s'
  else if ie then option_map (cons c) (clean_loop true true s')
  else if dot_elem (c :: s') then None
  else option_map (fun r => (if hv then [c_slash] else []) ++ c :: r) (clean_loop true true s').
Proof. reflexivity. Qed.

Lemma option_map_some {A B} (f : A -> B) o y :
  option_map f o = Some y -> exists x, o = Some x /\ y = f x.
Proof. destruct o; simpl; intros H; inversion H; eauto. Qed.

(** the output of the loop contains no ':' *)
Lemma clean_loop_nocolon s : forall ie hv r, clean_loop ie hv s = Some r -> ~ In c_colon r.
Proof.
  induction s as [|c s IH]; intros ie hv r H.
  - inversion H. auto.
  - rewrite clean_loop_cons in H.
    destruct (N.eqb_spec c c_colon) as [|Hc]; [discriminate|].
    destruct (N.eqb_spec c c_slash) as [|Hs]; [eauto|].
    destruct ie.
    + apply option_map_some in H. destruct H as (r' & E & ->).
      intros [E'|I]; [congruence | exact (IH _ _ _ E I)].
    + destruct (dot_elem (c :: s)); [discriminate|].
      apply option_map_some in H. destruct H as (r' & E & ->).
      intros I. apply in_app_or in I. destruct I as [I|[E'|I]].
      * destruct hv; simpl in I; [destruct I as [I|[]]; discriminate I | contradiction].
      * congruence.
      * exact (IH _ _ _ E I).
Qed.

(** the output of the loop contains no "//" *)
Lemma clean_loop_nodslash s : forall ie hv r, clean_loop ie hv s = Some r -> split_dslash r = None.
Proof.
  induction s as [|c s IH]; intros ie hv r H.
  - inversion H. reflexivity.
  - rewrite clean_loop_cons in H.
    destruct (N.eqb_spec c c_colon) as [|Hc]; [discriminate|].
    destruct (N.eqb_spec c c_slash) as [|Hs]; [eauto|].
    assert (forall r', split_dslash r' = None -> split_dslash (c :: r') = None) as Hcons.
    { intros r' E. rewrite split_dslash_cons, rooted_head_false by assumption. rewrite E. reflexivity. }
    destruct ie.
    + apply option_map_some in H. destruct H as (r' & E & ->). eauto.
    + destruct (dot_elem (c :: s)); [discriminate|].
      apply option_map_some in H. destruct H as (r' & E & ->).
      destruct hv; cbn [app]; [|eauto].
      rewrite split_dslash_cons.
      assert (rooted (c_slash :: c :: r') = false) as ->.
      { rewrite rooted_eq. destruct (N.eqb_spec c 47); [contradiction|]. apply andb_false_r. }
      rewrite (Hcons _ (IH _ _ _ E)). reflexivity.
Qed.

(** a relative cleaned package does not start with '/' *)
Lemma clean_loop_head s : forall d r, clean_loop false false s = Some (d :: r) -> d <> c_slash.
Proof.
  induction s as [|c s IH]; intros d r H.
  - inversion H.
  - rewrite clean_loop_cons in H.
    destruct (N.eqb_spec c c_colon) as [|Hc]; [discriminate|].
    destruct (N.eqb_spec c c_slash) as [|Hs]; [eauto|].
    destruct (dot_elem (c :: s)); [discriminate|].
    apply option_map_some in H. destruct H as (r' & E & E'). simpl in E'. inversion E'; subst. assumption.
Qed.

(** the "." / ".." test gives the same verdict on the cleaned element *)
Lemma tail_dot_clean s r : clean_loop true true s = Some r -> tail_dot s = false -> tail_dot r = false.
Proof.
  intros H T. destruct s as [|b t]; [discriminate|].
  rewrite clean_loop_cons in H. unfold tail_dot in T.
  destruct (N.eqb_spec b c_colon) as [|Hc]; [discriminate|].
  destruct (N.eqb_spec b 47) as [|Hb]; [discriminate|].
  destruct (N.eqb_spec b c_slash) as [|_]; [contradiction|].
  apply option_map_some in H. destruct H as (r' & E & ->).
  unfold tail_dot. destruct (N.eqb_spec b 47); [contradiction|]. rewrite orb_false_l in *.
  destruct (N.eqb_spec b 46) as [_|]; [|reflexivity]. rewrite andb_true_l in *.
  destruct t as [|d t']; [discriminate|].
  rewrite clean_loop_cons in E.
  destruct (N.eqb_spec d c_colon) as [|Hd]; [discriminate|].
  destruct (N.eqb_spec d 47) as [|Hd']; [discriminate|].
  destruct (N.eqb_spec d c_slash) as [|_]; [contradiction|].
  apply option_map_some in E. destruct E as (r'' & _ & ->).
  destruct (N.eqb_spec d 47); [contradiction | reflexivity].
Qed.

Lemma dot_elem_clean c s r :
  clean_loop true true s = Some r -> dot_elem (c :: s) = false -> dot_elem (c :: r) = false.
Proof.
  intros H D. rewrite dot_elem_eq in *. apply andb_false_iff in D. apply andb_false_iff.
  destruct D as [D|D]; [left; assumption | right; eapply tail_dot_clean; eassumption].
Qed.

(** the loop is idempotent (three entry states at once) *)
Lemma clean_loop_idem s : forall r,
  (clean_loop true true s = Some r -> clean_loop true true r = Some r) /\
  (clean_loop false true s = Some r -> clean_loop true true r = Some r) /\
  (clean_loop false false s = Some r -> clean_loop false false r = Some r).
Proof.
  induction s as [|c s IH]; intros r.
  - simpl. repeat split; intros H; inversion H; reflexivity.
  - rewrite !clean_loop_cons.
    destruct (N.eqb_spec c c_colon) as [|Hc]; [repeat split; discriminate|].
    destruct (N.eqb_spec c c_slash) as [|Hs].
    { destruct (IH r) as (I1 & I2 & I3). repeat split; assumption. }
    assert (forall r', clean_loop true true s = Some r' -> clean_loop true true r' = Some r') as I1
      by (intros r'; apply (IH r')).
    split; [|split].
    + intros H. apply option_map_some in H. destruct H as (r' & E & ->).
      rewrite clean_loop_cons.
      destruct (N.eqb_spec c c_colon); [contradiction|]. destruct (N.eqb_spec c c_slash); [contradiction|].
      rewrite (I1 _ E). reflexivity.
    + intros H. destruct (dot_elem (c :: s)) eqn:D; [discriminate|].
      apply option_map_some in H. destruct H as (r' & E & ->). cbn [app].
      rewrite clean_loop_cons. change (c_slash =? c_colon) with false. rewrite N.eqb_refl.
      rewrite clean_loop_cons.
      destruct (N.eqb_spec c c_colon); [contradiction|]. destruct (N.eqb_spec c c_slash); [contradiction|].
      rewrite (dot_elem_clean _ _ _ E D), (I1 _ E). reflexivity.
    + intros H. destruct (dot_elem (c :: s)) eqn:D; [discriminate|].
      apply option_map_some in H. destruct H as (r' & E & ->). cbn [app].
      rewrite clean_loop_cons.
      destruct (N.eqb_spec c c_colon); [contradiction|]. destruct (N.eqb_spec c c_slash); [contradiction|].
      rewrite (dot_elem_clean _ _ _ E D), (I1 _ E). reflexivity.
Qed.

Lemma clean_unfold pkg :
  clean pkg =
  match pkg with
  | [] => Some []
  | c :: _ =>
      if rooted pkg then option_map (fun r => c_slash :: c_slash :: r) (clean_loop false false (skipn 2 pkg))
      else if c =? c_slash then None
      else clean_loop false false pkg
  end.
Proof. reflexivity. Qed.

(** shape of an accepted package *)
Lemma clean_some p q :
  clean p = Some q ->
  (q = [] /\ rooted q = false) \/
  (exists r, q = c_slash :: c_slash :: r /\ clean_loop false false r = Some r /\ ~ In c_colon r) \/
  (exists d r, q = d :: r /\ d <> c_slash /\ clean_loop false false q = Some q /\ ~ In c_colon q /\
               split_dslash q = None).
Proof.
  rewrite clean_unfold. destruct p as [|c p'].
  - intros H; inversion H. left. split; reflexivity.
  - destruct (rooted (c :: p')) eqn:R.
    + intros H. apply option_map_some in H. destruct H as (r & E & ->).
      right; left. exists r. split; [reflexivity|]. split.
      * destruct (clean_loop_idem (skipn 2 (c :: p')) r) as (_ & _ & I3). auto.
      * eapply clean_loop_nocolon; eassumption.
    + destruct (N.eqb_spec c c_slash); [discriminate|]. intros H.
      destruct q as [|d r]; [left; split; reflexivity|].
      right; right. exists d, r. split; [reflexivity|]. split; [eapply clean_loop_head; eassumption|].
      split; [destruct (clean_loop_idem (c :: p') (d :: r)) as (_ & _ & I3); auto|].
      split; [eapply clean_loop_nocolon; eassumption | eapply clean_loop_nodslash; eassumption].
Qed.

Lemma clean_idem p q : clean p = Some q -> clean q = Some q.
Proof.
  intros H. destruct (clean_some _ _ H) as [[-> _]|[(r & -> & E & _)|(d & r & -> & Hd & E & _)]].
  - reflexivity.
  - rewrite clean_unfold, rooted_ss. simpl skipn. rewrite E. reflexivity.
  - rewrite clean_unfold, rooted_head_false by assumption.
    destruct (N.eqb_spec d c_slash); [contradiction | assumption].
Qed.

Lemma clean_nocolon p q : clean p = Some q -> ~ In c_colon q.
Proof.
  intros H. destruct (clean_some _ _ H) as [[-> _]|[(r & -> & _ & N)|(d & r & -> & _ & _ & N & _)]].
  - auto.
  - intros [E|[E|I]]; [discriminate E | discriminate E | exact (N I)].
  - assumption.
Qed.

Lemma clean_nodslash p q : clean p = Some q -> rooted q = false -> split_dslash q = None.
Proof.
  intros H R. destruct (clean_some _ _ H) as [[-> _]|[(r & -> & _)|(d & r & -> & _ & _ & _ & N)]].
  - reflexivity.
  - discriminate R.
  - assumption.
Qed.

(** * Well-formed labels: what Parse guarantees, and what suffices to re-parse *)

Definition wf (l : label) : Prop :=
  ~ In c_colon (l_kind l) /\
  ~ In c_colon (l_project l) /\
  (l_project l = [] \/
   (rooted (l_package l) = true /\
    forall q', rooted q' = true -> split_dslash (l_project l ++ q') = Some (l_project l, q'))) /\
  clean (l_package l) = Some (l_package l) /\
  ~ In c_colon (l_name l) /\ ~ In c_slash (l_name l).

Definition name_of (o : option str) : str := match o with Some n => n | None => [] end.

Definition parse_fin (kind project pkg : str) (nameo : option str) : option label :=
  if contains_byte c_colon project then None else
  match clean pkg with
  | None => None
  | Some pkg' =>
      if contains_byte c_slash (name_of nameo) then None
      else if negb (match project with [] => true | _ => false end) && negb (rooted pkg') then None
      else Some (mkLabel kind project pkg' (name_of nameo))
  end.

Definition parse_core (kind pp : str) (nameo : option str) : option label :=
  match split_dslash pp with
  | Some (p, q) => parse_fin kind p q nameo
  | None => parse_fin kind [] pp nameo
  end.

Lemma parse_unfold raw :
  parse raw =
  let (kpp, nameo) := split_last c_colon raw in
  match split_first c_colon kpp with
  | Some (k, r) => parse_core k r nameo
  | None => parse_core [] kpp nameo
  end.
Proof.
  unfold parse, parse_core, parse_fin, name_of.
  destruct (split_last c_colon raw) as [kpp nameo].
  destruct (split_first c_colon kpp) as [[k r]|].
  - destruct (split_dslash r) as [[p q]|]; reflexivity.
  - destruct (split_dslash kpp) as [[p q]|]; reflexivity.
Qed.

Lemma parse_fin_some k p q no l :
  parse_fin k p q no = Some l ->
  exists q', clean q = Some q' /\ l = mkLabel k p q' (name_of no) /\
             ~ In c_colon p /\ ~ In c_slash (name_of no) /\ (p = [] \/ rooted q' = true).
Proof.
  unfold parse_fin.
  destruct (contains_byte c_colon p) eqn:Cp; [discriminate|].
  destruct (clean q) as [q'|]; [|discriminate].
  destruct (contains_byte c_slash (name_of no)) eqn:Cn; [discriminate|].
  intros H. exists q'. split; [reflexivity|].
  apply contains_byte_false in Cp. apply contains_byte_false in Cn.
  destruct p as [|x p'].
  - simpl in H. inversion H. repeat split; auto.
  - destruct (rooted q') eqn:R; simpl in H; [|discriminate].
    inversion H. repeat split; auto.
Qed.

Lemma parse_core_wf k pp no l :
  ~ In c_colon k -> ~ In c_colon (name_of no) -> parse_core k pp no = Some l -> wf l.
Proof.
  intros Hk Hn H. unfold parse_core in H.
  destruct (split_dslash pp) as [[p q]|] eqn:E.
  - apply parse_fin_some in H. destruct H as (q' & C & -> & Hp & Hs & Hr).
    destruct (split_dslash_some _ _ _ E) as (_ & _ & Hre).
    unfold wf; simpl. repeat split; auto.
    + destruct Hr as [->|Hr]; [left; reflexivity | right; split; assumption].
    + eapply clean_idem; eassumption.
  - apply parse_fin_some in H. destruct H as (q' & C & -> & Hp & Hs & Hr).
    unfold wf; simpl. repeat split; auto.
    eapply clean_idem; eassumption.
Qed.

Lemma parse_wf s l : parse s = Some l -> wf l.
Proof.
  rewrite parse_unfold.
  destruct (split_last c_colon s) as [kpp nameo] eqn:E1.
  assert (~ In c_colon (name_of nameo)) as Hn.
  { pose proof (split_last_inv _ _ _ _ E1) as I. destruct nameo; simpl; [tauto | auto]. }
  destruct (split_first c_colon kpp) as [[k r]|] eqn:E2.
  - apply split_first_some in E2. apply parse_core_wf; tauto.
  - apply parse_core_wf; auto.
Qed.

Lemma parse_core_ok k p q no :
  ~ In c_colon p ->
  (p = [] \/ (rooted q = true /\ forall q', rooted q' = true -> split_dslash (p ++ q') = Some (p, q'))) ->
  clean q = Some q ->
  ~ In c_slash (name_of no) ->
  parse_core k (p ++ q) no = Some (mkLabel k p q (name_of no)).
Proof.
  intros Hp Hpr Hc Hn. apply contains_byte_false in Hp. apply contains_byte_false in Hn.
  unfold parse_core.
  assert (parse_fin k [] q no = Some (mkLabel k [] q (name_of no))) as Hnil.
  { unfold parse_fin. simpl contains_byte. rewrite Hc, Hn. reflexivity. }
  destruct p as [|x p'].
  - simpl. destruct (rooted q) eqn:R.
    + rewrite split_dslash_rooted by assumption. exact Hnil.
    + rewrite (clean_nodslash _ _ Hc R). exact Hnil.
  - destruct Hpr as [Hpr|[R Hre]]; [discriminate|].
    rewrite (Hre _ R). unfold parse_fin. rewrite Hp, Hc, Hn, R. reflexivity.
Qed.

Lemma wf_roundtrip l :
  wf l -> (l_name l <> [] \/ l_kind l = []) -> parse (to_string l) = Some l.
Proof.
  destruct l as [k p q n]. unfold wf. cbn [l_kind l_project l_package l_name].
  intros (Hk & Hp & Hpr & Hc & Hnc & Hns) Hcond.
  pose proof (clean_nocolon _ _ Hc) as Hqc.
  assert (~ In c_colon (p ++ q)) as Hpq by (intros I; apply in_app_or in I; tauto).
  rewrite parse_unfold.
  destruct n as [|n0 n'].
  - destruct Hcond as [Hcond| ->]; [congruence|].
    change (to_string (mkLabel [] p q [])) with ([] ++ p ++ q ++ []).
    rewrite app_nil_l, app_nil_r.
    rewrite split_last_nosep by assumption. rewrite split_first_nosep by assumption.
    apply (parse_core_ok [] p q None); auto.
  - destruct k as [|k0 k'].
    + change (to_string (mkLabel [] p q (n0 :: n'))) with ([] ++ p ++ q ++ c_colon :: (n0 :: n')).
      remember (n0 :: n') as n.
      rewrite app_nil_l, app_assoc. rewrite split_last_app by assumption.
      rewrite split_first_nosep by assumption.
      apply (parse_core_ok [] p q (Some n)); auto.
    + change (to_string (mkLabel (k0 :: k') p q (n0 :: n')))
        with (((k0 :: k') ++ [c_colon]) ++ p ++ q ++ c_colon :: (n0 :: n')).
      remember (n0 :: n') as n. remember (k0 :: k') as k.
      replace ((k ++ [c_colon]) ++ p ++ q ++ c_colon :: n) with ((k ++ c_colon :: (p ++ q)) ++ c_colon :: n)
        by (rewrite <- !app_assoc; simpl; rewrite <- ?app_assoc; reflexivity).
      rewrite split_last_app by assumption.
      rewrite split_first_app by assumption.
      apply (parse_core_ok k p q (Some n)); auto.
Qed.

(** * Theorems 1-3 *)

Lemma parse_print_roundtrip_proof : forall s l,
  parse s = Some l -> (l_name l <> [] \/ l_kind l = []) -> parse (to_string l) = Some l.
Proof. intros s l H C. apply wf_roundtrip; [eapply parse_wf; eassumption | assumption]. Qed.

Lemma print_canonical_proof : forall s1 s2 l1 l2,
  parse s1 = Some l1 -> parse s2 = Some l2 ->
  (l_name l1 <> [] \/ l_kind l1 = []) -> (l_name l2 <> [] \/ l_kind l2 = []) ->
  to_string l1 = to_string l2 -> l1 = l2.
Proof.
  intros s1 s2 l1 l2 H1 H2 C1 C2 E.
  pose proof (parse_print_roundtrip_proof _ _ H1 C1) as R1.
  pose proof (parse_print_roundtrip_proof _ _ H2 C2) as R2.
  rewrite E in R1. congruence.
Qed.

Lemma join2_clean a b p : join2 a b = Some p -> clean p = Some p.
Proof.
  unfold join2. destruct a, b; intros H.
  - inversion H. reflexivity.
  - eapply clean_idem; eassumption.
  - eapply clean_idem; eassumption.
  - eapply clean_idem; eassumption.
Qed.

Lemma relative_wf l pkg r : wf l -> relative_to l pkg = Some r -> wf r.
Proof.
  unfold relative_to, is_abs. intros W H.
  destruct (rooted (l_package l)) eqn:R.
  - inversion H; subst; assumption.
  - destruct (join2 pkg (l_package l)) as [p|] eqn:J; [|discriminate].
    inversion H; subst r. destruct W as (Hk & Hp & Hpr & Hc & Hn).
    unfold wf; simpl. split; [assumption|]. split; [assumption|].
    split; [left; destruct Hpr as [E|[R' _]]; [assumption | congruence]|].
    split; [eapply join2_clean; eassumption | assumption].
Qed.

(** No hypothesis on [pkg] is needed: a label that is not absolute has no project, and Join cleans
    (or returns "") whatever package it is given, so the result is again well formed. *)
Lemma relative_roundtrip_proof : forall s pkg l r,
  parse s = Some l -> relative_to l pkg = Some r ->
  (l_name r <> [] \/ l_kind r = []) -> parse (to_string r) = Some r.
Proof.
  intros s pkg l r H R C. apply wf_roundtrip; [|assumption].
  eapply relative_wf; [eapply parse_wf|]; eassumption.
Qed.

(** * Theorem 7 *)

Lemma clean_idempotent_proof : forall p q, clean p = Some q -> clean q = Some q.
Proof. exact clean_idem. Qed.

Lemma parse_total_proof : forall s, parse s = None \/ exists l, parse s = Some l.
Proof. intros s. destruct (parse s) as [l|]; [right; exists l; reflexivity | left; reflexivity]. Qed.
