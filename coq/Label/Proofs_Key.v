(** C12, identity keys: the string under which a user-spelled label is stored / looked up. *)
From Dawn Require Import Base.Bytes Label.Model Label.Proofs.
Open Scope N_scope.

Definition eligible (l : label) : Prop := l_name l <> [] \/ l_kind l = [].

Lemma clean_rooted p q : rooted p = true -> clean p = Some q -> rooted q = true.
Proof.
  intros R H. rewrite clean_unfold in H. destruct p as [|c p']; [discriminate R|].
  rewrite R in H. apply option_map_some in H. destruct H as (r & _ & ->). apply rooted_ss.
Qed.

Lemma rooted_app a b : rooted a = true -> rooted (a ++ b) = true.
Proof. intros R. destruct (rooted_inv _ R) as (t & ->). apply rooted_ss. Qed.

Lemma join2_rooted a b p : rooted a = true -> join2 a b = Some p -> rooted p = true.
Proof.
  intros R. unfold join2. destruct a as [|x a']; [discriminate R|]. destruct b as [|y b'].
  - apply clean_rooted; assumption.
  - apply clean_rooted. apply rooted_app. assumption.
Qed.

Lemma relative_abs l pkg r : rooted pkg = true -> relative_to l pkg = Some r -> is_abs r = true.
Proof.
  unfold relative_to. intros R H. destruct (is_abs l) eqn:A.
  - inversion H; subst; assumption.
  - destruct (join2 pkg (l_package l)) as [p|] eqn:J; [|discriminate].
    inversion H; subst r. unfold is_abs; simpl. eapply join2_rooted; eassumption.
Qed.

Lemma site_dep_some pkg s l r :
  parse s = Some l -> relative_to l pkg = Some r -> site_dep pkg s = Some (to_string r).
Proof. unfold site_dep. intros -> ->. reflexivity. Qed.

Lemma site_dep_inv pkg s d :
  site_dep pkg s = Some d -> exists l r, parse s = Some l /\ relative_to l pkg = Some r /\ d = to_string r.
Proof.
  unfold site_dep. destruct (parse s) as [l|]; [|discriminate].
  destruct (relative_to l pkg) as [r|] eqn:L; [|discriminate]. intros H; inversion H.
  exists l, r. split; [reflexivity|]. split; [assumption | reflexivity].
Qed.

(** The stored key is a printed label, and a fixed point: whoever re-parses it (LoadTarget) and whatever package it
    is resolved against again, it names the same label and prints back to itself. *)
Lemma dependency_key_stable_proof : forall pkg s l r,
  rooted pkg = true -> parse s = Some l -> relative_to l pkg = Some r -> eligible r ->
  site_dep pkg s = Some (to_string r) /\
  parse (to_string r) = Some r /\
  forall pkg', site_dep pkg' (to_string r) = Some (to_string r).
Proof.
  intros pkg s l r R P L E.
  pose proof (relative_roundtrip_proof _ _ _ _ P L E) as RT.
  split; [apply site_dep_some with l; assumption|]. split; [assumption|].
  intros pkg'. unfold site_dep. rewrite RT. unfold relative_to.
  rewrite (relative_abs _ _ _ R L). reflexivity.
Qed.

(** Canonical keys: two spellings (from any two packages) are stored under the same key exactly when they denote
    the same label. *)
Lemma dependency_key_canonical_proof : forall pkg1 pkg2 s1 s2 l1 l2 r1 r2,
  parse s1 = Some l1 -> relative_to l1 pkg1 = Some r1 -> eligible r1 ->
  parse s2 = Some l2 -> relative_to l2 pkg2 = Some r2 -> eligible r2 ->
  (site_dep pkg1 s1 = site_dep pkg2 s2 <-> r1 = r2).
Proof.
  intros pkg1 pkg2 s1 s2 l1 l2 r1 r2 P1 L1 E1 P2 L2 E2.
  rewrite (site_dep_some _ _ _ _ P1 L1), (site_dep_some _ _ _ _ P2 L2).
  split; [|intros ->; reflexivity].
  intros H. inversion H as [H'].
  pose proof (relative_roundtrip_proof _ _ _ _ P1 L1 E1) as R1.
  pose proof (relative_roundtrip_proof _ _ _ _ P2 L2 E2) as R2.
  rewrite H' in R1. congruence.
Qed.

Lemma str_mem_In x l : str_mem x l = true <-> In x l.
Proof.
  induction l as [|y l IH]; simpl; [split; [discriminate | intros []]|].
  rewrite Bool.orb_true_iff, IH. destruct (str_eqb_spec x y); split.
  - intros _. left. congruence.
  - intros _. left. reflexivity.
  - intros [H|H]; [discriminate | right; assumption].
  - intros [H|H]; [congruence | right; assumption].
Qed.

(** A table keyed by printed labels is found by ANY accepted spelling of a label it holds, and the entry found is
    the one of that label (not of another label that prints alike). *)
Definition reparses (l : label) : Prop := parse (to_string l) = Some l.

Lemma table_find_own : forall defs r,
  (forall l, In l defs -> reparses l) -> In r defs -> table_find (table_of defs) (to_string r) = Some r.
Proof.
  induction defs as [|l0 defs IH]; intros r A I; [destruct I|].
  simpl. destruct (str_eqb_spec (to_string r) (to_string l0)) as [E|N].
  - f_equal. pose proof (A l0 (or_introl eq_refl)) as R0.
    assert (Rr : reparses r) by (apply A; assumption).
    unfold reparses in *. rewrite <- E in R0. congruence.
  - destruct I as [->|I]; [congruence|]. apply IH; [|assumption].
    intros l Hl. apply A. right. assumption.
Qed.

Lemma table_find_only : forall defs k v,
  table_find (table_of defs) k = Some v -> In v defs /\ k = to_string v.
Proof.
  induction defs as [|l0 defs IH]; intros k v H; [discriminate|].
  simpl in H. destruct (str_eqb_spec k (to_string l0)) as [E|N].
  - inversion H; subst. split; [left; reflexivity | reflexivity].
  - destruct (IH _ _ H). split; [right; assumption | assumption].
Qed.

Lemma lookup_by_any_spelling_proof : forall defs pkg s l r,
  (forall d, In d defs -> reparses d) ->
  parse s = Some l -> relative_to l pkg = Some r -> eligible r ->
  (In r defs ->
     site_get (map to_string defs) pkg s = Some (to_string r) /\
     table_find (table_of defs) (to_string r) = Some r) /\
  (forall v, site_dep pkg s = Some (to_string v) -> In v defs -> v = r).
Proof.
  intros defs pkg s l r A P L E. split.
  - intros I. split; [|apply table_find_own; assumption].
    unfold site_get. rewrite (site_dep_some _ _ _ _ P L).
    assert (M : str_mem (to_string r) (map to_string defs) = true)
      by (apply str_mem_In, in_map; assumption).
    rewrite M. reflexivity.
  - intros v H I. rewrite (site_dep_some _ _ _ _ P L) in H. inversion H as [H'].
    pose proof (relative_roundtrip_proof _ _ _ _ P L E) as Rr.
    pose proof (A v I) as Rv. unfold reparses in Rv. rewrite <- H' in Rv. congruence.
Qed.

(** The runner's view: LoadTarget re-parses a stored key and finds the entry of the label it was printed from. *)
Lemma load_target_finds_key_proof : forall defs pkg s l r,
  rooted pkg = true -> parse s = Some l -> relative_to l pkg = Some r -> eligible r -> In r defs ->
  forall d, site_dep pkg s = Some d -> site_load_target (map to_string defs) d = Some d.
Proof.
  intros defs pkg s l r R P L E I d H.
  destruct (dependency_key_stable_proof _ _ _ _ R P L E) as (H1 & H2 & _).
  rewrite H1 in H. inversion H; subst d.
  unfold site_load_target. rewrite H2.
  assert (M : str_mem (to_string r) (map to_string defs) = true)
    by (apply str_mem_In, in_map; assumption).
  cbv zeta. rewrite M. reflexivity.
Qed.
