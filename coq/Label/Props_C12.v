(** C12 - Labels are canonical, stable identities confined to the project.
    Statements only; the proofs are in Label/Proofs.v, Proofs_Path.v, Proofs_Site.v, Proofs_Record.v, Proofs_Key.v. *)
From Dawn Require Import Base.Bytes Label.Model Label.Proofs Label.Proofs_Path Label.Proofs_Site Label.Proofs_Record Label.Proofs_Key.
Open Scope N_scope.

(** 1. Every accepted label that has a name or has no kind re-parses, from its printed form, to itself. *)
Theorem parse_print_roundtrip : forall s l,
  parse s = Some l -> (l_name l <> [] \/ l_kind l = []) -> parse (to_string l) = Some l.
Proof. exact parse_print_roundtrip_proof. Qed.
Print Assumptions parse_print_roundtrip.

(** 2. Printing is canonical: two such labels print equal only if they are equal. *)
Theorem print_canonical : forall s1 s2 l1 l2,
  parse s1 = Some l1 -> parse s2 = Some l2 ->
  (l_name l1 <> [] \/ l_kind l1 = []) -> (l_name l2 <> [] \/ l_kind l2 = []) ->
  to_string l1 = to_string l2 -> l1 = l2.
Proof. exact print_canonical_proof. Qed.
Print Assumptions print_canonical.

(** 3. The same after resolving against ANY package string [pkg] for which RelativeTo succeeds.
    No cleanliness hypothesis on [pkg] is needed (the unrestricted statement was first tested by
    vm_compute over all strings of length <= 6 on {a . / : @} and 14 packages incl. "/", ":", "a//a",
    then proved): a non-absolute label has no project and Join cleans its result. *)
Theorem relative_roundtrip : forall s pkg l r,
  parse s = Some l -> relative_to l pkg = Some r ->
  (l_name r <> [] \/ l_kind r = []) -> parse (to_string r) = Some r.
Proof. exact relative_roundtrip_proof. Qed.
Print Assumptions relative_roundtrip.

(** 3b. The printed label as an identity.  [site_dep pkg s] is what builtin_target stores in a target's dependency list
    for deps=[s] written in package [pkg] (Parse, RelativeTo, String): the string the runner asks its host for and the
    key of the dependency in the dependent's record.  It is the printed form of the label the spelling denotes; it
    re-parses to that label; and it is a fixed point -- resolved again from any package it is stored as itself. *)
Theorem dependency_key_stable : forall pkg s l r,
  rooted pkg = true -> parse s = Some l -> relative_to l pkg = Some r -> (l_name r <> [] \/ l_kind r = []) ->
  site_dep pkg s = Some (to_string r) /\
  parse (to_string r) = Some r /\
  forall pkg', site_dep pkg' (to_string r) = Some (to_string r).
Proof. exact dependency_key_stable_proof. Qed.
Print Assumptions dependency_key_stable.

(** 3c. Keys are canonical: two spellings, written in any two packages, are stored under the same string exactly when
    they denote the same label. *)
Theorem dependency_key_canonical : forall pkg1 pkg2 s1 s2 l1 l2 r1 r2,
  parse s1 = Some l1 -> relative_to l1 pkg1 = Some r1 -> (l_name r1 <> [] \/ l_kind r1 = []) ->
  parse s2 = Some l2 -> relative_to l2 pkg2 = Some r2 -> (l_name r2 <> [] \/ l_kind r2 = []) ->
  (site_dep pkg1 s1 = site_dep pkg2 s2 <-> r1 = r2).
Proof. exact dependency_key_canonical_proof. Qed.
Print Assumptions dependency_key_canonical.

(** 3d. A target table keyed by printed labels ([table_of defs]; every label in it re-parses from its print, which
    theorems 1 and 3 give for accepted labels) is found by ANY accepted spelling of a label it holds
    ([site_get] = get_target / run: Parse, RelativeTo, table[String]), the entry found is the one of that label, and
    no spelling reaches the entry of a different label. *)
Theorem lookup_by_any_spelling : forall defs pkg s l r,
  (forall d, In d defs -> parse (to_string d) = Some d) ->
  parse s = Some l -> relative_to l pkg = Some r -> (l_name r <> [] \/ l_kind r = []) ->
  (In r defs ->
     site_get (map to_string defs) pkg s = Some (to_string r) /\
     table_find (table_of defs) (to_string r) = Some r) /\
  (forall v, site_dep pkg s = Some (to_string v) -> In v defs -> v = r).
Proof. exact lookup_by_any_spelling_proof. Qed.
Print Assumptions lookup_by_any_spelling.

(** 3e. The runner's view: Project.LoadTarget re-parses a stored dependency string ([site_load_target]: Parse,
    table[String]) and finds exactly the key it was given. *)
Theorem load_target_finds_key : forall defs pkg s l r,
  rooted pkg = true -> parse s = Some l -> relative_to l pkg = Some r -> (l_name r <> [] \/ l_kind r = []) ->
  In r defs ->
  forall d, site_dep pkg s = Some d -> site_load_target (map to_string defs) d = Some d.
Proof. exact load_target_finds_key_proof. Qed.
Print Assumptions load_target_finds_key.

(** 4. An accepted source / generated-file path has no ".." component: joined under the project
    root it stays inside it.  ([rooted pkg] is the precondition under which Go's [pkg[2:]] is defined;
    the proof does not use it.) *)
Theorem source_confined : forall pkg sp q,
  rooted pkg = true -> repo_source_path pkg sp = Some q -> ~ In dotdot (split_on c_slash q).
Proof. exact source_confined_proof. Qed.
Print Assumptions source_confined.

(** 4b. Where an accepted generates= entry ends up on disk.  [site_gen root pkg g] is builtin_target's loop:
    repoSourcePath, rejection of an entry that names the root itself, strings.Split,
    filepath.Join(root, filepath.Join(components...)).  For a project at ANY
    absolute [root], the stored OS path is "/" followed by the components of the cleaned root followed by zero or
    more components none of which is "..": the root itself or a location below it, element-wise (a sibling
    directory whose name merely extends the root's name is not of that form). *)
Theorem generated_inside_root : forall root pkg g p,
  gp_is_abs root = true -> site_gen root pkg g = Some p ->
  exists rest, ~ In dotdot rest /\ p = c_slash :: join_with c_slash (gp_clean_comps root ++ rest).
Proof. exact generated_inside_root_proof. Qed.
Print Assumptions generated_inside_root.

(** 4c. The same for sources=: [site_src root pkg g] is sourceLabel followed by loadSourceFile's
    filepath.Join(root, filepath.Join(label.Split(package)[1:]...), name).  (Uses: label.Clean, when it accepts,
    only drops empty components.) *)
Theorem source_inside_root : forall root pkg g p,
  gp_is_abs root = true -> site_src root pkg g = Some p ->
  exists rest, ~ In dotdot rest /\ p = c_slash :: join_with c_slash (gp_clean_comps root ++ rest).
Proof. exact source_inside_root_proof. Qed.
Print Assumptions source_inside_root.

(** 5. url.PathEscape is injective on byte strings. *)
Theorem path_escape_injective : forall a b,
  (forall c, In c a -> c < 256) -> (forall c, In c b -> c < 256) ->
  path_escape a = path_escape b -> a = b.
Proof. exact path_escape_injective_proof. Qed.
Print Assumptions path_escape_injective.

(** 6. Distinct persisted labels have distinct record files.
    [persisted l] (Proofs_Record.v) :=
      (l_kind l = [] \/ l_kind l = source_kind) /\ l_project l = [] /\ rooted (l_package l) = true /\
      l_name l <> [] /\ ~ In c_slash (l_name l) /\
      (forall c, In c (l_package l) -> c < 256) /\ (forall c, In c (l_name l) -> c < 256).
    [l_project l = []] because targetInfoPath ignores the project; [l_name l <> []] because the
    empty name is stored as "BUILD.dawn" (the one stated collision, [build_dawn_collision] below). *)
Theorem record_path_injective : forall l1 l2,
  persisted l1 -> persisted l2 -> target_info_path l1 = target_info_path l2 -> l1 = l2.
Proof. exact record_path_injective_proof. Qed.
Print Assumptions record_path_injective.

(** ... and the record file name is a single path component. *)
Theorem path_escape_no_slash : forall s, ~ In c_slash (path_escape s).
Proof. exact path_escape_no_slash_proof. Qed.
Print Assumptions path_escape_no_slash.

(** 7. Clean is idempotent; Parse is a total function whose only outcomes are a label or an error. *)
Theorem clean_idempotent : forall p q, clean p = Some q -> clean q = Some q.
Proof. exact clean_idempotent_proof. Qed.
Print Assumptions clean_idempotent.

Theorem parse_total : forall s, parse s = None \/ exists l, parse s = Some l.
Proof. exact parse_total_proof. Qed.
Print Assumptions parse_total.

(** * The hypotheses are satisfiable / the exclusions are real *)

(* "k:p//a/b:n" parses with kind k, project p, package //a/b, name n, and round-trips *)
Example ex_full_label :
  parse [107;58;112;47;47;97;47;98;58;110] = Some (mkLabel [107] [112] [47;47;97;47;98] [110]) /\
  to_string (mkLabel [107] [112] [47;47;97;47;98] [110]) = [107;58;112;47;47;97;47;98;58;110].
Proof. vm_compute. split; reflexivity. Qed.

(* "k://a//b/:n" is accepted with the package cleaned to //a/b; its print is the canonical "k://a/b:n" *)
Example ex_cleaned :
  parse [107;58;47;47;97;47;47;98;47;58;110] = Some (mkLabel [107] [] [47;47;97;47;98] [110]) /\
  to_string (mkLabel [107] [] [47;47;97;47;98] [110]) = [107;58;47;47;97;47;98;58;110].
Proof. vm_compute. split; reflexivity. Qed.

(* the excluded case is real: "k::" has kind k and no name, prints as "k:" which parses as name-less
   relative package... i.e. a different label *)
Example ex_kind_without_name :
  parse [107;58;58] = Some (mkLabel [107] [] [] []) /\
  parse (to_string (mkLabel [107] [] [] [])) = Some (mkLabel [] [] [107] []).
Proof. vm_compute. split; reflexivity. Qed.

(* ":n" relative to "//a/b" is "//a/b:n"; relative to the unclean "//a//b/" as well *)
Example ex_relative :
  relative_to (mkLabel [] [] [] [110]) [47;47;97;47;98] = Some (mkLabel [] [] [47;47;97;47;98] [110]) /\
  relative_to (mkLabel [] [] [] [110]) [47;47;97;47;47;98;47] = Some (mkLabel [] [] [47;47;97;47;98] [110]).
Proof. vm_compute. split; reflexivity. Qed.

(* package //a: "../b" is accepted as "b", "../../b" is rejected, "/x/../y" is accepted as "/y" *)
Example ex_source_paths :
  repo_source_path [47;47;97] [46;46;47;98] = Some [98] /\
  repo_source_path [47;47;97] [46;46;47;46;46;47;98] = None /\
  repo_source_path [47;47;97] [47;120;47;46;46;47;121] = Some [47;121] /\
  split_on c_slash [47;121] = [[]; [121]].
Proof. vm_compute. repeat split; reflexivity. Qed.

(* project at /w/proj: from package // the entry "../proj-o/x" (a sibling whose name extends the root's) is
   rejected and the rooted "/../proj-o/x" is clamped to /w/proj/proj-o/x; from //s, "../x" is /w/proj/x and
   sources= resolve alike; "." from // names the root itself: rejected for generates= (it names no file), accepted
   for sources= (a source may be a directory) *)
Example ex_sites :
  site_gen [47;119;47;112;114;111;106] [47;47] [46;46;47;112;114;111;106;45;111;47;120] = None /\
  site_src [47;119;47;112;114;111;106] [47;47] [46;46;47;112;114;111;106;45;111;47;120] = None /\
  site_gen [47;119;47;112;114;111;106] [47;47] [47;46;46;47;112;114;111;106;45;111;47;120] = Some [47;119;47;112;114;111;106;47;112;114;111;106;45;111;47;120] /\
  site_src [47;119;47;112;114;111;106] [47;47] [47;46;46;47;112;114;111;106;45;111;47;120] = Some [47;119;47;112;114;111;106;47;112;114;111;106;45;111;47;120] /\
  site_gen [47;119;47;112;114;111;106] [47;47;115] [46;46;47;120] = Some [47;119;47;112;114;111;106;47;120] /\
  site_src [47;119;47;112;114;111;106] [47;47;115] [46;46;47;120] = Some [47;119;47;112;114;111;106;47;120] /\
  site_gen [47;119;47;112;114;111;106] [47;47] [46] = None /\
  site_src [47;119;47;112;114;111;106] [47;47] [46] = Some [47;119;47;112;114;111;106] /\
  gp_clean_comps [47;119;47;112;114;111;106] = [[119]; [112;114;111;106]].
Proof. vm_compute. repeat split; reflexivity. Qed.

(* deps=["///sub:gen"] (what package + "/sub:gen" evaluates to in the root BUILD.dawn), deps=["//sub/:gen"] and, from
   //sub, deps=[":gen"] are all stored as "//sub:gen" *)
Example ex_dep_keys :
  site_dep [47;47] [47;47;47;115;117;98;58;103;101;110] = Some [47;47;115;117;98;58;103;101;110] /\
  site_dep [47;47] [47;47;115;117;98;47;58;103;101;110] = Some [47;47;115;117;98;58;103;101;110] /\
  site_dep [47;47;115;117;98] [58;103;101;110] = Some [47;47;115;117;98;58;103;101;110] /\
  site_load_target [[47;47;115;117;98;58;103;101;110]] [47;47;115;117;98;58;103;101;110] = Some [47;47;115;117;98;58;103;101;110].
Proof. vm_compute. repeat split; reflexivity. Qed.

(* //a:x is a persisted label; its record is targets/a%2Fx *)
Example ex_persisted :
  persisted (mkLabel [] [] [47;47;97] [120]) /\
  target_info_path (mkLabel [] [] [47;47;97] [120]) = ([116;97;114;103;101;116;115], [97;37;50;70;120]).
Proof.
  split; [|vm_compute; reflexivity].
  unfold persisted; simpl. repeat split; try (left; reflexivity); try discriminate.
  - intros [E|[]]; discriminate E.
  - intros c [<-|[<-|[<-|[]]]]; reflexivity.
  - intros c [<-|[]]; reflexivity.
Qed.

(* the stated collision: //a (default target) and //a:BUILD.dawn share a record file *)
Example build_dawn_collision :
  target_info_path (mkLabel [] [] [47;47;97] []) = target_info_path (mkLabel [] [] [47;47;97] build_dawn).
Proof. vm_compute. reflexivity. Qed.
