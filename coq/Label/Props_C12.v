From Dawn Require Import Label.Model.
Theorem parse_total : forall s, exists r, parse s = r.
Proof. intros s; eexists; reflexivity. Qed.
Print Assumptions parse_total.
