(** Proofs about Go's path.Clean (component model) and repoSourcePath: an accepted path has no ".."
    component.  Used by Props_C12.v (theorem 4). *)
From Dawn Require Import Base.Bytes Label.Model.
Open Scope N_scope.

(** * strings.Split / strings.Join *)

Lemma split_on_nonnil c s : split_on c s <> [].
Proof.
  induction s as [|x s IH]; simpl; [discriminate|].
  destruct (split_on c s); [discriminate|]. destruct (x =? c); discriminate.
Qed.

Lemma split_on_nosep c a : ~ In c a -> split_on c a = [a].
Proof.
  induction a as [|x a IH]; simpl; intros H; [reflexivity|].
  rewrite IH by tauto. destruct (N.eqb_spec x c); [exfalso; apply H; left; assumption | reflexivity].
Qed.

Lemma split_on_app c a b : split_on c (a ++ c :: b) = split_on c a ++ split_on c b.
Proof.
  induction a as [|x a IH].
  - simpl. destruct (split_on c b) eqn:E; [exfalso; eapply split_on_nonnil; eassumption|].
    rewrite N.eqb_refl. reflexivity.
  - simpl. rewrite IH.
    destruct (split_on c a) as [|h t] eqn:E; [exfalso; eapply split_on_nonnil; eassumption|].
    simpl. destruct (x =? c); reflexivity.
Qed.

Lemma split_on_comp_nosep c s : forall x, In x (split_on c s) -> ~ In c x.
Proof.
  induction s as [|y s IH]; simpl; intros x H.
  - destruct H as [<-|[]]. auto.
  - destruct (split_on c s) as [|h t] eqn:E; [exfalso; eapply split_on_nonnil; eassumption|].
    destruct (N.eqb_spec y c).
    + destruct H as [<-|H]; [auto | apply IH; assumption].
    + destruct H as [<-|H]; [|apply IH; right; assumption].
      intros [E'|I]; [congruence|]. apply (IH h); [left; reflexivity | assumption].
Qed.

Lemma join_with_cons2 c a b l : join_with c (a :: b :: l) = a ++ c :: join_with c (b :: l).
Proof. reflexivity. Qed.

Lemma split_on_join c st :
  st <> [] -> (forall x, In x st -> ~ In c x) -> split_on c (join_with c st) = st.
Proof.
  induction st as [|a st IH]; intros Hne Hsf; [congruence|].
  destruct st as [|b st'].
  - simpl. apply split_on_nosep. apply Hsf. left; reflexivity.
  - rewrite join_with_cons2, split_on_app.
    rewrite split_on_nosep by (apply Hsf; left; reflexivity). cbn [app]. f_equal.
    apply IH; [discriminate|]. intros x I. apply Hsf. right; assumption.
Qed.

(** * The component stack of path.Clean *)

(** [okstack] (top first): below a ".." there are only ".."s. *)
Fixpoint okstack (st : list str) : Prop :=
  match st with
  | [] => True
  | c :: rest => if is_dotdot c then Forall (fun x => x = dotdot) rest else okstack rest
  end.

Definition slashfree (st : list str) : Prop := forall x, In x st -> ~ In c_slash x.

Lemma is_dotdot_true c : is_dotdot c = true -> c = dotdot.
Proof. unfold is_dotdot. destruct (str_eqb_spec c dotdot); [auto | discriminate]. Qed.

Lemma is_dotdot_false c : is_dotdot c = false -> c <> dotdot.
Proof. unfold is_dotdot. destruct (str_eqb_spec c dotdot); [discriminate | auto]. Qed.

Lemma gp_walk_inv rt comps : forall stack,
  slashfree comps -> slashfree stack -> okstack stack -> (rt = true -> ~ In dotdot stack) ->
  exists st, gp_walk rt comps stack = rev st /\ slashfree st /\ okstack st /\ (rt = true -> ~ In dotdot st).
Proof.
  induction comps as [|c cs IH]; intros stack Hc Hs Hok Hrt.
  - exists stack. simpl. auto.
  - assert (slashfree cs) as Hcs by (intros x I; apply Hc; right; assumption).
    assert (~ In c_slash c) as Hcc by (apply Hc; left; reflexivity).
    assert (slashfree (c :: stack)) as Hpush by (intros x [<-|I]; [assumption | apply Hs; assumption]).
    simpl. destruct c as [|x c']; [apply IH; assumption|].
    remember (x :: c') as c.
    destruct (is_dot c); [apply IH; assumption|].
    destruct (is_dotdot c) eqn:D.
    + apply is_dotdot_true in D.
      destruct stack as [|top rest].
      * destruct rt.
        -- apply IH; assumption.
        -- apply IH; try assumption.
           ++ simpl. subst c. rewrite D. simpl. constructor.
           ++ discriminate.
      * destruct (is_dotdot top) eqn:T.
        -- apply is_dotdot_true in T.
           apply IH; try assumption.
           ++ simpl in Hok. rewrite T in Hok. simpl in Hok.
              simpl. rewrite D. simpl. constructor; assumption.
           ++ intros R. exfalso. apply (Hrt R). left. assumption.
        -- apply IH; try assumption.
           ++ intros y I. apply Hs. right; assumption.
           ++ simpl in Hok. rewrite T in Hok. assumption.
           ++ intros R I. apply (Hrt R). right; assumption.
    + apply IH; try assumption.
      * simpl. rewrite D. assumption.
      * intros R [E|I]; [apply is_dotdot_false in D; congruence | exact (Hrt R I)].
Qed.

(** if a well-formed stack contains "..", its bottom element is ".." *)
Lemma okstack_bottom st : okstack st -> In dotdot st -> exists t, rev st = dotdot :: t.
Proof.
  induction st as [|c rest IH]; intros Hok I; [destruct I|].
  simpl in Hok. destruct (is_dotdot c) eqn:D.
  - apply is_dotdot_true in D. subst c. simpl.
    destruct (rev rest) as [|d t] eqn:E.
    + exists []. reflexivity.
    + exists (t ++ [dotdot]). simpl.
      assert (In d rest) as Id by (apply in_rev; rewrite E; left; reflexivity).
      rewrite Forall_forall in Hok. rewrite (Hok _ Id). reflexivity.
  - destruct I as [E|I]; [apply is_dotdot_false in D; congruence|].
    destruct (IH Hok I) as [t Ht]. simpl. rewrite Ht. exists (t ++ [c]). reflexivity.
Qed.

(** * path.Clean and repoSourcePath *)

Lemma gp_clean_confined p :
  str_eqb (gp_clean p) dotdot || has_prefix (dotdot ++ [c_slash]) (gp_clean p) = false ->
  ~ In dotdot (split_on c_slash (gp_clean p)).
Proof.
  unfold gp_clean. destruct p as [|x p'].
  { intros _ [E|[]]. discriminate E. }
  remember (x :: p') as p. unfold gp_clean_comps.
  destruct (gp_walk_inv (gp_is_abs p) (split_on c_slash p) []) as (st & -> & Hsf & Hok & Hrt).
  { intros y I. eapply split_on_comp_nosep; eassumption. }
  { intros y []. }
  { exact I. }
  { intros _ []. }
  assert (slashfree (rev st)) as Hsf' by (intros y I; apply Hsf; apply in_rev; assumption).
  destruct (gp_is_abs p).
  - intros _.
    change (c_slash :: join_with c_slash (rev st)) with ([] ++ c_slash :: join_with c_slash (rev st)).
    rewrite split_on_app. simpl split_on at 1.
    destruct (rev st) as [|a t] eqn:E.
    + simpl. intros [E'|[E'|[]]]; discriminate.
    + rewrite split_on_join; [|discriminate | assumption].
      intros [E'|I]; [discriminate|].
      apply (Hrt eq_refl). apply in_rev. rewrite E. assumption.
  - destruct (rev st) as [|a t] eqn:E.
    + intros _ [E'|[]]. discriminate E'.
    + rewrite <- E in *. intros Hchk.
      rewrite split_on_join; [|rewrite E; discriminate | assumption].
      intros I. apply in_rev in I. destruct (okstack_bottom _ Hok I) as [t' Ht'].
      rewrite Ht' in Hchk. destruct t' as [|b t''].
      * simpl in Hchk. discriminate.
      * rewrite join_with_cons2 in Hchk. simpl in Hchk. discriminate.
Qed.

Lemma source_confined_proof : forall pkg sp q,
  rooted pkg = true -> repo_source_path pkg sp = Some q -> ~ In dotdot (split_on c_slash q).
Proof.
  intros pkg sp q _. unfold repo_source_path. destruct sp as [|x sp']; [discriminate|].
  cbv beta iota zeta. remember (x :: sp') as sp.
  match goal with |- context [gp_clean ?e] => remember e as sp1 end.
  destruct (str_eqb (gp_clean sp1) dotdot || has_prefix (dotdot ++ [c_slash]) (gp_clean sp1)) eqn:C;
    [discriminate|].
  intros H. inversion H. apply gp_clean_confined. assumption.
Qed.
