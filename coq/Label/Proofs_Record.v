(** Proofs about url.PathEscape (model) and targetInfoPath: the escape is injective on byte strings,
    never produces '/', and so distinct persisted labels get distinct record files.
    Used by Props_C12.v (theorems 5 and 6). *)
From Dawn Require Import Base.Bytes Label.Model Label.Proofs.
From Coq Require Import ZifyBool ZifyNat ZifyN.
Open Scope N_scope.

(** * A left inverse of path_escape *)

Definition unhex (d : N) : N := if d <? 58 then d - 48 else d - 55.

Fixpoint unescape (s : str) : str :=
  match s with
  | [] => []
  | c :: s' =>
      if c =? 37 then
        match s' with
        | h :: l :: s'' => (unhex h * 16 + unhex l) :: unescape s''
        | _ => c :: unescape s'
        end
      else c :: unescape s'
  end.

Lemma unescape_cons c s' :
  unescape (c :: s') =
  if c =? 37 then
    match s' with
    | h :: l :: s'' => (unhex h * 16 + unhex l) :: unescape s''
    | _ => c :: unescape s'
    end
  else c :: unescape s'.
Proof. reflexivity. Qed.

Lemma path_escape_cons c s' :
  path_escape (c :: s') =
  if should_escape c then 37 :: hex_digit (c / 16) :: hex_digit (c mod 16) :: path_escape s'
  else c :: path_escape s'.
Proof. reflexivity. Qed.

(** the per-byte fact, swept over the 256 bytes *)
Definition byte_ok (c : N) : bool :=
  if should_escape c then unhex (hex_digit (c / 16)) * 16 + unhex (hex_digit (c mod 16)) =? c
  else negb (c =? 37).

Definition all_bytes : list N := map N.of_nat (seq 0 256).

Lemma all_bytes_ok : forallb byte_ok all_bytes = true.
Proof. vm_compute. reflexivity. Qed.

Lemma in_all_bytes c : c < 256 -> In c all_bytes.
Proof.
  intros H. unfold all_bytes. rewrite <- (N2Nat.id c). apply in_map. apply in_seq. lia.
Qed.

Lemma byte_ok_all c : c < 256 -> byte_ok c = true.
Proof.
  intros H. pose proof all_bytes_ok as A. rewrite forallb_forall in A. apply A. apply in_all_bytes. assumption.
Qed.

Lemma unescape_escape s : (forall c, In c s -> c < 256) -> unescape (path_escape s) = s.
Proof.
  induction s as [|c s IH]; intros H; [reflexivity|].
  assert (byte_ok c = true) as B by (apply byte_ok_all; apply H; left; reflexivity).
  assert (unescape (path_escape s) = s) as IH' by (apply IH; intros d I; apply H; right; assumption).
  unfold byte_ok in B. rewrite path_escape_cons.
  destruct (should_escape c).
  - rewrite unescape_cons. change (37 =? 37) with true. cbv iota.
    apply N.eqb_eq in B. rewrite B, IH'. reflexivity.
  - rewrite unescape_cons. destruct (c =? 37); [discriminate|]. rewrite IH'. reflexivity.
Qed.

Lemma path_escape_injective_proof : forall a b,
  (forall c, In c a -> c < 256) -> (forall c, In c b -> c < 256) ->
  path_escape a = path_escape b -> a = b.
Proof.
  intros a b Ha Hb E. rewrite <- (unescape_escape a Ha), <- (unescape_escape b Hb), E. reflexivity.
Qed.

(** * The escaped record name is a single path component *)

Lemma hex_digit_not_slash n : hex_digit n <> c_slash.
Proof. unfold hex_digit, c_slash. destruct (n <? 10); lia. Qed.

Lemma path_escape_no_slash_proof : forall s, ~ In c_slash (path_escape s).
Proof.
  induction s as [|c s IH]; [intros []|].
  rewrite path_escape_cons. destruct (should_escape c) eqn:E.
  - intros [E'|[E'|[E'|I]]].
    + discriminate E'.
    + exact (hex_digit_not_slash _ E').
    + exact (hex_digit_not_slash _ E').
    + exact (IH I).
  - intros [E'|I]; [|exact (IH I)]. subst c. vm_compute in E. discriminate.
Qed.

(** * targetInfoPath *)

(** The labels dawn persists records for: kind "" (a target) or "source", no project (targetInfoPath
    ignores it), an absolute package, a non-empty name without '/' (the empty name is written as
    "BUILD.dawn": that one collision is excluded here and exhibited in Props_C12.v), bytes < 256. *)
Definition persisted (l : label) : Prop :=
  (l_kind l = [] \/ l_kind l = source_kind) /\
  l_project l = [] /\
  rooted (l_package l) = true /\
  l_name l <> [] /\ ~ In c_slash (l_name l) /\
  (forall c, In c (l_package l) -> c < 256) /\ (forall c, In c (l_name l) -> c < 256).

Lemma record_path_injective_proof : forall l1 l2,
  persisted l1 -> persisted l2 -> target_info_path l1 = target_info_path l2 -> l1 = l2.
Proof.
  intros [k1 p1 q1 n1] [k2 p2 q2 n2].
  unfold persisted, target_info_path. cbn [l_kind l_project l_package l_name].
  intros (K1 & -> & R1 & N1 & S1 & B1 & C1) (K2 & -> & R2 & N2 & S2 & B2 & C2) E.
  destruct (rooted_inv _ R1) as [t1 ->]. destruct (rooted_inv _ R2) as [t2 ->].
  cbn [skipn] in E.
  destruct n1 as [|a1 m1]; [congruence|]. destruct n2 as [|a2 m2]; [congruence|].
  cbv beta iota in E. remember (a1 :: m1) as n1. remember (a2 :: m2) as n2.
  injection E as Ek Ep.
  assert (k1 = k2) as ->.
  { destruct K1 as [-> | ->], K2 as [-> | ->]; try reflexivity; vm_compute in Ek; discriminate. }
  apply path_escape_injective_proof in Ep.
  - apply (f_equal (split_last c_slash)) in Ep.
    rewrite !split_last_app in Ep by assumption. inversion Ep. reflexivity.
  - intros c I. apply in_app_or in I. destruct I as [I|[<-|I]].
    + apply B1. right; right; assumption.
    + reflexivity.
    + apply C1; assumption.
  - intros c I. apply in_app_or in I. destruct I as [I|[<-|I]].
    + apply B2. right; right; assumption.
    + reflexivity.
    + apply C2; assumption.
Qed.
