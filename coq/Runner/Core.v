(** The core coherence invariant of the runner model and its preservation. *)
From Coq Require Import List Arith Bool Lia.
From Dawn Require Import Runner.Model Runner.Lemmas.
Import ListNotations.

Definition publ_pc (p : pc) : bool :=
  match p with PWalk _ _ | PCycle | PWait _ | PClear => true | _ => false end.

Definition st_ok (p : pc) (r : status) : Prop :=
  match p with
  | PExit2 | PDone => is_final r = true
  | PFinish o => r = Running /\ is_final o = true
  | _ => r = Running
  end.

Definition started_upto (cfg : config) (l : label) (p : pc) : nat :=
  match p with PEnter | PLoad | PExit1 => 0 | PStart i => i | _ => length (deps cfg l) end.

Definition pc_wf (cfg : config) (l : label) (t : thread) : Prop :=
  match t_pc t with
  | PStart i => i < length (deps cfg l) /\ t_res t = []
  | PWait i => i < length (deps cfg l) /\ length (t_res t) = i
  | PClear | PEnter2 | PBody | PFinish _ | PExit2 | PDone => length (t_res t) = length (deps cfg l)
  | PEnter | PLoad => t_res t = []
  | PExit1 => t_res t = [] /\ unknown cfg l = false
  | PPublish | PWalk _ _ | PCycle => t_res t = []
  end.

Definition tcore (cfg : config) (s : state) (l : label) (t : thread) : Prop :=
  st_ok (t_pc t) (st s l) /\
  waiting s l = (if publ_pc (t_pc t) then Some (deps cfg l) else None) /\
  (forall j d, nth_error (deps cfg l) j = Some d -> j < started_upto cfg l (t_pc t) -> st s d <> Idle) /\
  pc_wf cfg l t.

Definition core (cfg : config) (s : state) : Prop :=
  NoDup (spawned s) /\
  (forall l, In l (spawned s) <-> thr s l <> None) /\
  (forall l, thr s l = None -> st s l = Idle /\ waiting s l = None) /\
  (forall l t, thr s l = Some t -> tcore cfg s l t).

Lemma deps_unknown cfg l : unknown cfg l = true -> deps cfg l = [].
Proof. unfold deps. intros ->. reflexivity. Qed.

Lemma goto_start_cases cfg l i :
  (i < length (deps cfg l) /\ goto_start cfg l i = PStart i) \/
  (length (deps cfg l) <= i /\ goto_start cfg l i = PPublish).
Proof. unfold goto_start. destruct (Nat.ltb_spec i (length (deps cfg l))); [left|right]; auto. Qed.

Lemma goto_wait_cases cfg l i :
  (i < length (deps cfg l) /\ goto_wait cfg l i = PWait i) \/
  (length (deps cfg l) <= i /\ goto_wait cfg l i = PClear).
Proof. unfold goto_wait. destruct (Nat.ltb_spec i (length (deps cfg l))); [left|right]; auto. Qed.

Lemma walk_goto_cases cfg l w :
  (exists d fr, walk_goto cfg l w = PWalk d fr) \/ walk_goto cfg l w = PCycle \/
  (exists i, walk_goto cfg l w = PWait i /\ i = 0 /\ 0 < length (deps cfg l)) \/
  (walk_goto cfg l w = PClear /\ length (deps cfg l) = 0).
Proof.
  destruct w; simpl; eauto.
  destruct (goto_wait_cases cfg l 0) as [[H ->]|[H ->]].
  - right; right; left. exists 0. auto.
  - right; right; right. split; [reflexivity|lia].
Qed.

Lemma is_final_not_idle r : is_final r = true -> r <> Idle.
Proof. destruct r; simpl; congruence. Qed.

Lemma is_idle_true r : is_idle r = true -> r = Idle.
Proof. destruct r; simpl; congruence. Qed.

Lemma is_idle_false r : is_idle r = false -> r <> Idle.
Proof. destruct r; simpl; congruence. Qed.

Lemma body_outcome_final cfg l r : is_final (body_outcome cfg l r) = true.
Proof. unfold body_outcome. destruct (existsb is_failed r); [reflexivity|]. destruct (failing cfg l); reflexivity. Qed.

(* what a step does to statuses: Idle -> Running (with a new thread), or Running -> final by the owner *)
Lemma core_thr_some cfg s l t : core cfg s -> thr s l = Some t -> st s l <> Idle.
Proof.
  intros (_ & _ & _ & H) Ht. destruct (H l t Ht) as (Hst & _).
  destruct (t_pc t); simpl in Hst; try (rewrite Hst; discriminate);
    try (apply is_final_not_idle; exact Hst).
  destruct Hst as [-> _]. discriminate.
Qed.

Lemma core_idle_none cfg s l : core cfg s -> st s l = Idle -> thr s l = None.
Proof.
  intros Hc Hi. destruct (thr s l) eqn:E; [|reflexivity].
  exfalso. eapply core_thr_some; eauto.
Qed.

Ltac simp_state :=
  cbn [st waiting cap thr spawned mainpc clock pub ftime nload neval nbody nenter nexit
       tick set_thr gate_enter gate_exit set_main set_waiting set_status count_load count_body
       t_pc t_res t_seen] in *.

Lemma start_target_idle s d : is_idle (st s d) = true ->
  start_target s d =
  mkState (upd (st s) d Running) (waiting s) (cap s) (upd (thr s) d (Some new_thread)) (d :: spawned s) (mainpc s)
          (clock s) (pub s) (ftime s) (nload s) (neval s) (nbody s) (nenter s) (nexit s).
Proof. unfold start_target. intros ->. reflexivity. Qed.

Lemma start_target_noop s d : is_idle (st s d) = false -> start_target s d = s.
Proof. unfold start_target. intros ->. reflexivity. Qed.

(* tcore of an untouched thread survives when its own status/waiting are unchanged and no status became Idle *)
Lemma tcore_frame cfg s s' l t :
  tcore cfg s l t -> st s' l = st s l -> waiting s' l = waiting s l ->
  (forall d, st s d <> Idle -> st s' d <> Idle) -> tcore cfg s' l t.
Proof.
  intros (H1 & H2 & H3 & H4) Es Ew Hm. unfold tcore. rewrite Es, Ew.
  split; [exact H1|split; [exact H2|split; [|exact H4]]]. intros j d Hn Hj. apply Hm. eapply H3; eauto.
Qed.

Lemma core_start_target cfg s d : core cfg s -> core cfg (start_target s d).
Proof.
  intros Hc. destruct (is_idle (st s d)) eqn:E.
  2:{ rewrite start_target_noop by exact E. exact Hc. }
  rewrite start_target_idle by exact E. apply is_idle_true in E.
  pose proof (core_idle_none _ _ _ Hc E) as Hn.
  destruct Hc as (Hnd & Hin & Hnone & Hsome).
  assert (Hmono : forall x, st s x <> Idle -> upd (st s) d Running x <> Idle).
  { intros x Hx. upd_cases x d; [discriminate|exact Hx]. }
  unfold core; simp_state. split; [|split; [|split]].
  - constructor; [|exact Hnd]. intros Hi. apply Hin in Hi. contradiction.
  - intros l; split.
    + intros [->|Hi]; [rewrite upd_same; discriminate|].
      upd_cases l d; [discriminate|]. apply Hin. exact Hi.
    + intros Hx. upd_cases l d; [left; reflexivity|right; apply Hin; exact Hx].
  - intros l Hl. upd_cases l d; [discriminate|]. apply Hnone. assumption.
  - intros l t Ht. upd_cases l d.
    + inversion Ht; subst t. unfold tcore, new_thread; simp_state. simpl.
      rewrite upd_same. split; [reflexivity|split; [apply Hnone; exact Hn|split; [|reflexivity]]].
      intros j d0 _ Hj. lia.
    + eapply tcore_frame; [apply Hsome; exact Ht| | |]; simp_state.
      * rewrite upd_other by assumption. reflexivity.
      * reflexivity.
      * exact Hmono.
Qed.


Lemma start_target_started s d : st (start_target s d) d <> Idle.
Proof.
  unfold start_target. destruct (is_idle (st s d)) eqn:E.
  - simp_state. rewrite upd_same. discriminate.
  - apply is_idle_false. exact E.
Qed.

Lemma start_target_mono s d x : st s x <> Idle -> st (start_target s d) x <> Idle.
Proof.
  unfold start_target. destruct (is_idle (st s d)) eqn:E; [|auto].
  simp_state. intros H. upd_cases x d; [discriminate|exact H].
Qed.

Lemma start_target_keeps cfg s d l t : core cfg s -> thr s l = Some t ->
  thr (start_target s d) l = Some t /\ st (start_target s d) l = st s l /\ waiting (start_target s d) l = waiting s l.
Proof.
  intros Hc Ht. unfold start_target. destruct (is_idle (st s d)) eqn:E; [|auto].
  simp_state. apply is_idle_true in E.
  assert (l <> d). { intros ->. rewrite (core_idle_none _ _ _ Hc E) in Ht. discriminate. }
  rewrite !upd_other by assumption. auto.
Qed.

(* replacing the thread record of an existing thread, together with a change of the shared state that
   leaves the other labels' status and waiting set alone *)
Lemma core_update cfg s s' l t t' :
  core cfg s -> thr s l = Some t ->
  spawned s' = spawned s -> thr s' = upd (thr s) l (Some t') ->
  (forall x, x <> l -> st s' x = st s x /\ waiting s' x = waiting s x) ->
  (forall d, st s d <> Idle -> st s' d <> Idle) ->
  tcore cfg s' l t' -> core cfg s'.
Proof.
  intros (Hnd & Hin & Hnone & Hsome) Ht Hsp Hthr Hoth Hmono Hnew. unfold core. rewrite Hsp, Hthr.
  split; [exact Hnd|split; [|split]].
  - intros l0; split.
    + intros Hi. upd_cases l0 l; [discriminate|apply Hin; exact Hi].
    + intros Hx. upd_cases l0 l; [apply Hin; congruence|apply Hin; exact Hx].
  - intros l0 Hl0. upd_cases l0 l; [discriminate|].
    rewrite (proj1 (Hoth _ n)), (proj2 (Hoth _ n)). apply Hnone; assumption.
  - intros x tx Hx. upd_cases x l.
    + inversion Hx; subst tx. exact Hnew.
    + eapply tcore_frame; [exact (Hsome _ _ Hx)|apply Hoth; assumption|apply Hoth; assumption|exact Hmono].
Qed.

Lemma nth_error_lt {A} (l : list A) i x : nth_error l i = Some x -> i < length l.
Proof. intros H. apply nth_error_Some. congruence. Qed.

Ltac core_upd Hc H s :=
  eapply (core_update _ s _ _ _ _ Hc H);
  [reflexivity|reflexivity| intros x Hx; simp_state; try rewrite !upd_other by assumption; split; reflexivity
  | intros x Hx; simp_state; try exact Hx |].

Theorem core_step cfg s t s' : core cfg s -> step cfg s t = Some s' -> core cfg s'.
Proof.
  intros Hc Hs. apply step_shapes in Hs. destruct Hs as (s0 & Hsh & ->).
  assert (Hgoal : core cfg s0); [|exact Hgoal].
  destruct Hsh;
    try (pose proof Hc as (_ & _ & _ & Hsome); destruct (Hsome _ _ H) as (A & B & C & D); clear Hsome).
  - (* main start *) apply (core_start_target cfg s (c_root cfg)) in Hc. exact Hc.
  - exact Hc.
  - (* enter *)
    core_upd Hc H s. unfold tcore, pc_wf in *; simp_state. simpl in *. auto.
  - (* load unknown *)
    core_upd Hc H s.
    unfold tcore, pc_wf in *; simp_state. simpl in *. rewrite (deps_unknown _ _ H0). subst r.
    repeat split; auto. intros j d Hn. destruct j; discriminate.
  - (* load *)
    core_upd Hc H s. unfold tcore, pc_wf in *; simp_state. simpl in *. auto.
  - (* exit1 *)
    core_upd Hc H s.
    unfold tcore, pc_wf in *; simp_state. simpl in *. destruct D as [D1 D2].
    destruct (goto_start_cases cfg l 0) as [[Hl ->]|[Hl ->]]; simpl; repeat split; auto.
    intros j d Hn _. apply nth_error_lt in Hn. lia.
  - (* start *)
    pose proof (core_start_target cfg s d Hc) as Hc1.
    destruct (start_target_keeps cfg s d l _ Hc H) as (K1 & K2 & K3).
    core_upd Hc1 K1 (start_target s d).
    unfold tcore, pc_wf in *; simp_state. simpl in *. rewrite K2, K3. destruct D as [D1 D2].
    assert (Hst : forall j d0, nth_error (deps cfg l) j = Some d0 -> j < S i -> st (start_target s d) d0 <> Idle).
    { intros j d0 Hn Hj. destruct (Nat.eq_dec j i) as [->|Hne].
      - rewrite H0 in Hn. inversion Hn; subst. apply start_target_started.
      - apply start_target_mono. eapply C; [exact Hn|lia]. }
    destruct (goto_start_cases cfg l (S i)) as [[Hl ->]|[Hl ->]]; simpl; repeat split; auto.
    intros j d0 Hn _. apply (Hst j d0 Hn). apply nth_error_lt in Hn. lia.
  - (* publish *)
    set (w := walk_next _ _ _) in *; clearbody w.
    core_upd Hc H s.
    unfold tcore, pc_wf in *; simp_state. simpl in *. rewrite upd_same.
    destruct (walk_goto_cases cfg l w) as [(d & fr & ->)|[->|[(i & -> & -> & Hl)|[-> Hl]]]];
      simpl; repeat split; auto; rewrite D; simpl; lia.
  - (* walk *)
    set (w := walk_next _ _ _) in *; clearbody w.
    core_upd Hc H s.
    unfold tcore, pc_wf in *; simp_state. simpl in *.
    destruct (walk_goto_cases cfg l w) as [(d' & fr' & ->)|[->|[(i & -> & -> & Hl)|[-> Hl]]]];
      simpl; repeat split; auto; rewrite D; simpl; lia.
  - (* cycle *)
    core_upd Hc H s.
    unfold tcore, pc_wf in *; simp_state. simpl in *. repeat split; auto. apply map_length.
  - (* wait *)
    core_upd Hc H s.
    unfold tcore, pc_wf in *; simp_state. simpl in *. destruct D as [D1 D2].
    destruct (goto_wait_cases cfg l (S i)) as [[Hl ->]|[Hl ->]]; simpl; repeat split; auto;
      rewrite app_length; simpl; lia.
  - (* clear *)
    core_upd Hc H s.
    unfold tcore, pc_wf in *; simp_state. simpl in *. rewrite upd_same. auto.
  - (* enter2 *)
    core_upd Hc H s. unfold tcore, pc_wf in *; simp_state. simpl in *. auto.
  - (* body *)
    pose proof (body_outcome_final cfg l r) as Hf. set (o := body_outcome cfg l r) in *. clearbody o.
    destruct (existsb is_failed r); core_upd Hc H s;
      unfold tcore, pc_wf in *; simp_state; simpl in *; repeat split; auto.
  - (* finish *)
    core_upd Hc H s.
    + upd_cases x l; [|exact Hx]. destruct A as [_ A]. apply is_final_not_idle. exact A.
    + unfold tcore, pc_wf in *; simp_state. simpl in *. rewrite upd_same. destruct A as [A1 A2].
      repeat split; auto. intros j d Hn Hj. upd_cases d l; [apply is_final_not_idle; exact A2|eauto].
  - (* exit2 *)
    core_upd Hc H s. unfold tcore, pc_wf in *; simp_state. simpl in *. auto.
Qed.

Theorem core_reachable cfg s : reachable cfg s -> core cfg s.
Proof.
  apply reachable_ind'.
  - unfold core, init; simpl. split; [constructor|split; [|split]].
    + intros l; split; [contradiction|intros H; exfalso; apply H; reflexivity].
    + auto.
    + discriminate.
  - intros s0 t s' _ Hc Hs. eapply core_step; eauto.
Qed.

(* -- how statuses and other threads evolve in one step ---------------------------------------- *)

Definition st_evolves (s s' : state) : Prop :=
  forall d, st s' d = st s d \/ (st s d = Idle /\ st s' d = Running) \/ (st s d = Running /\ is_final (st s' d) = true).

Lemma start_target_evolves s d : st_evolves s (start_target s d).
Proof.
  intros x. unfold start_target. destruct (is_idle (st s d)) eqn:E; [|left; reflexivity].
  simp_state. upd_cases x d; [|left; reflexivity]. right; left. split; [apply is_idle_true; exact E|reflexivity].
Qed.

Lemma shape_evolves cfg s t s0 : core cfg s -> step_shape cfg s t s0 -> st_evolves s s0.
Proof.
  intros Hc Hsh. destruct Hsh; try (intros x; left; reflexivity);
    try (intros x; simp_state; apply start_target_evolves).
  - destruct (existsb is_failed r); intros x; left; reflexivity.
  - destruct Hc as (_ & _ & _ & Hsome). destruct (Hsome _ _ H) as ((A1 & A2) & _).
    intros x. simp_state. upd_cases x l; [right; right; auto|left; reflexivity].
Qed.

Lemma evolves_final s s' d : st_evolves s s' -> is_final (st s d) = true -> st s' d = st s d.
Proof.
  intros H Hf. destruct (H d) as [E|[[E _]|[E _]]]; [exact E| |]; rewrite E in Hf; discriminate.
Qed.

Lemma evolves_not_idle s s' d : st_evolves s s' -> st s d <> Idle -> st s' d <> Idle.
Proof.
  intros H Hf. destruct (H d) as [E|[[E _]|[_ E]]]; [congruence|contradiction|]. apply is_final_not_idle. exact E.
Qed.

(* the thread records of the labels that do not take the step *)
Lemma start_target_thr s d x :
  thr (start_target s d) x = thr s x \/ (x = d /\ st s d = Idle /\ thr (start_target s d) x = Some new_thread).
Proof.
  unfold start_target. destruct (is_idle (st s d)) eqn:E; [|left; reflexivity]. simp_state.
  upd_cases x d; [right|left; reflexivity]. split; [reflexivity|split; [apply is_idle_true; exact E|reflexivity]].
Qed.

Lemma shape_thr_other cfg s t s0 x : step_shape cfg s t s0 -> t <> T x ->
  thr s0 x = thr s x \/ (st s x = Idle /\ thr s0 x = Some new_thread).
Proof.
  intros Hsh Hne. destruct Hsh; simp_state;
    try (assert (x <> l) by congruence; rewrite upd_other by assumption);
    try (left; reflexivity);
    try (match goal with |- context [start_target s ?d] => destruct (start_target_thr s d x) as [E|(-> & E1 & E2)] end;
         [left; exact E|right; auto]).
  destruct (existsb is_failed r); left; reflexivity.
Qed.

(* the acting thread's record before and after *)
Lemma shape_thr_self cfg s l s0 : step_shape cfg s (T l) s0 -> exists t t', thr s l = Some t /\ thr s0 l = Some t'.
Proof.
  intros Hsh. inversion Hsh; subst; simp_state; rewrite upd_same; eauto.
Qed.
