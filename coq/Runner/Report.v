(** What a target does with the results of EvaluateTargets (dawn's target.go, runTarget.Evaluate), as far as reporting is
    concerned: it walks the results in dependency order and stops at the FIRST failed one.  Only if that one is the
    cyclic-dependency error is the cycle reported (Events.TargetFailed); any other first failure is passed on as
    "dependency ... failed".  So "a cyclic-dependency error is reported" needs the error in first-failed position of some
    target's results, not merely somewhere among them.  Definitions only (model extension); proofs in Proofs_C05r.v. *)
From Coq Require Import List Arith Bool.
From Dawn Require Import Runner.Model.
Import ListNotations.

Fixpoint first_failed (res : list status) : option err :=
  match res with
  | [] => None
  | Failed e :: _ => Some e
  | _ :: rest => first_failed rest
  end.

Definition reports_cycle (res : list status) : bool :=
  match first_failed res with Some ECyclic => true | _ => false end.

(* the class of one result as the harness observes it: 0 no error, 1 an error, 2 the cyclic-dependency error *)
Definition res_class (r : status) : nat :=
  match r with Failed ECyclic => 2 | Failed _ => 1 | _ => 0 end.

(* the program counters after a cycle was found or after the waits: the results are complete *)
Definition results_complete (p : pc) : bool :=
  match p with PClear | PEnter2 | PBody | PFinish _ | PExit2 | PDone => true | _ => false end.
