(** C04, project level: from "once per LABEL" to "once per TARGET", and what the guarantee of the dependency request does
    not cover.

    The runner (Runner/Model.v) identifies a target with the label string it is asked for: one record, one goroutine,
    one LoadTarget / Evaluate / body per label.  dawn's Project.LoadTarget then resolves the string to a target object
    ([resolve]).  "Every target is loaded and evaluated at most once however many dependents request it" is therefore a
    statement about [map resolve (spawned s)], and it holds exactly as far as the strings that reach the runner name
    distinct targets ([names_distinct]): that is what the declaration sites of dawn (target(deps=, sources=), the link
    from a generated file to its generator, Project.Run) have to establish by writing every label in one canonical
    form, and what the project-level harness (harness/overlay/root/zz_verif_c04_project_test.go) observes on real
    builds, where one target is requested under every spelling dawn accepts.

    Second part: [continues_after_deps] speaks about a target that is PAST its dependency request.  The part of
    Target.Evaluate that runs before the request (between LoadTarget and the gate.exit that opens EvaluateTargets, pc
    PExit1 in the model) has no such guarantee: [before_request_deps_unfinished] exhibits a reachable state in which a
    target is there and its dependency has not even been started.  Whatever a target does that looks at its
    dependencies' outputs (for a source file: hashing the file its generator writes) must come after the request. *)
From Coq Require Import List Arith Bool Lia.
From Dawn Require Import Runner.Model Runner.Lemmas Runner.Core Runner.Proofs_C04.
Import ListNotations.

Section Resolve.
  Variable resolve : label -> nat.       (* the target object Project.LoadTarget returns for a label string *)

  (* the label strings for which the runner created a goroutine name pairwise different targets *)
  Definition names_distinct (s : state) : Prop :=
    forall a b, In a (spawned s) -> In b (spawned s) -> resolve a = resolve b -> a = b.

  Definition labels_of (s : state) (t : nat) : list label := filter (fun l => Nat.eqb (resolve l) t) (spawned s).

  (* how often target t was loaded / evaluated / had its body run, over all the labels it was requested under *)
  Definition loads_of (s : state) (t : nat) : nat := list_sum (map (nload s) (labels_of s t)).
  Definition evals_of (s : state) (t : nat) : nat := list_sum (map (neval s) (labels_of s t)).
  Definition bodies_of (s : state) (t : nat) : nat := list_sum (map (nbody s) (labels_of s t)).

  Lemma nodup_map_inj_on (l : list label) :
    NoDup l -> (forall a b, In a l -> In b l -> resolve a = resolve b -> a = b) -> NoDup (map resolve l).
  Proof.
    induction 1 as [|x l Hx Hn IH]; intros Hinj; simpl; constructor.
    - intros Hin. apply in_map_iff in Hin. destruct Hin as (y & Hy & Hyl).
      assert (y = x) by (apply Hinj; [right; exact Hyl|left; reflexivity|exact Hy]). subst y. contradiction.
    - apply IH. intros a b Ha Hb. apply Hinj; right; assumption.
  Qed.

  Theorem one_goroutine_per_target cfg s : reachable cfg s -> names_distinct s -> NoDup (map resolve (spawned s)).
  Proof. intros Hr Hd. apply nodup_map_inj_on; [apply (started_at_most_once cfg s Hr)|exact Hd]. Qed.

  Lemma filter_short (l : list label) t :
    NoDup l -> (forall a b, In a l -> In b l -> resolve a = resolve b -> a = b) ->
    length (filter (fun x => Nat.eqb (resolve x) t) l) <= 1.
  Proof.
    induction 1 as [|x l Hx Hn IH]; intros Hinj; simpl; [lia|].
    assert (IH' : length (filter (fun x => Nat.eqb (resolve x) t) l) <= 1)
      by (apply IH; intros a b Ha Hb; apply Hinj; right; assumption).
    destruct (Nat.eqb (resolve x) t) eqn:E; [|exact IH'].
    simpl. destruct (filter (fun x => Nat.eqb (resolve x) t) l) as [|y r] eqn:F; [simpl; lia|].
    exfalso. assert (Hy : In y (filter (fun x => Nat.eqb (resolve x) t) l)) by (rewrite F; left; reflexivity).
    apply filter_In in Hy. destruct Hy as [Hyl Hyt]. apply Nat.eqb_eq in E. apply Nat.eqb_eq in Hyt.
    assert (y = x) by (apply Hinj; [right; exact Hyl|left; reflexivity|congruence]). subst y. contradiction.
  Qed.

  Lemma sum_short (f : label -> nat) (l : list label) : length l <= 1 -> (forall x, f x <= 1) -> list_sum (map f l) <= 1.
  Proof.
    intros Hl Hf. destruct l as [|x [|y r]]; simpl in *; try lia. specialize (Hf x). lia.
  Qed.

  Theorem once_per_target cfg s t : reachable cfg s -> names_distinct s ->
    loads_of s t <= 1 /\ evals_of s t <= 1 /\ bodies_of s t <= 1.
  Proof.
    intros Hr Hd.
    assert (Hlen : length (labels_of s t) <= 1)
      by (apply filter_short; [apply (started_at_most_once cfg s Hr)|exact Hd]).
    repeat split; apply sum_short; try exact Hlen; intro x;
      destruct (loaded_and_evaluated_at_most_once cfg s x Hr) as (A & B & C); assumption.
  Qed.

  (* nothing is counted outside [spawned]: a label without a goroutine was never loaded, evaluated or run *)
  Theorem counted_labels_are_spawned cfg s l : reachable cfg s -> 0 < nload s l + neval s l + nbody s l -> In l (spawned s).
  Proof.
    intros Hr Hpos. pose proof (core_reachable cfg s Hr) as (_ & Hsp & _).
    apply Hsp. intros Hnone. pose proof (cnt_reachable cfg s Hr l) as Hc. rewrite Hnone in Hc. lia.
  Qed.
End Resolve.

(* -- the hypothesis is needed: two strings for one target ---------------------------------------------------------- *)

(* //:all requests labels 1 and 2; both are spellings of the same target (say "//lib:gen" and "//lib/:gen") *)
Definition two_spellings : config := mkConfig 0 [(0, [1; 2])] [] [] 2.
Definition same_target (l : label) : nat := match l with 2 => 1 | _ => l end.

Fixpoint first_enabled' (cfg : config) (s : state) (ts : list tid) : option (tid * state) :=
  match ts with
  | [] => None
  | t :: rest => match step cfg s t with Some s' => Some (t, s') | None => first_enabled' cfg s rest end
  end.

Fixpoint auto_sched' (cfg : config) (fuel : nat) (s : state) : list tid :=
  match fuel with
  | 0 => []
  | S f => match first_enabled' cfg s [TMain; T 0; T 1; T 2] with
           | Some (t, s') => t :: auto_sched' cfg f s'
           | None => []
           end
  end.

Definition two_spellings_sched : list tid := Eval vm_compute in auto_sched' two_spellings 100 (init two_spellings).

Theorem two_spellings_run_twice :
  exists s, reachable two_spellings s /\ finished s = true /\
            loads_of same_target s 1 = 2 /\ evals_of same_target s 1 = 2 /\ bodies_of same_target s 1 = 2 /\
            ~ NoDup (map same_target (spawned s)).
Proof.
  destruct (run two_spellings (init two_spellings) two_spellings_sched) as [s|] eqn:E; [|vm_compute in E; discriminate].
  exists s. split; [exists two_spellings_sched; exact E|].
  vm_compute in E. injection E as <-.
  split; [vm_compute; reflexivity|]. split; [vm_compute; reflexivity|]. split; [vm_compute; reflexivity|].
  split; [vm_compute; reflexivity|].
  vm_compute. intros H. inversion H as [|x l Hx Hn]; subst. apply Hx. simpl. auto.
Qed.

(* -- before the request there is no guarantee ---------------------------------------------------------------------- *)

Definition gen_chain : config := mkConfig 0 [(0, [1])] [] [] 2.   (* 0 = a generated source file, 1 = its generator *)

Theorem before_request_deps_unfinished :
  exists s t, reachable gen_chain s /\ thr s 0 = Some t /\ t_pc t = PExit1 /\ neval s 0 = 1 /\
              In 1 (deps gen_chain 0) /\ st s 1 = Idle /\ past_request (t_pc t) = false.
Proof.
  destruct (run gen_chain (init gen_chain) [TMain; T 0; T 0]) as [s|] eqn:E; [|vm_compute in E; discriminate].
  assert (Hr : reachable gen_chain s) by (exists [TMain; T 0; T 0]; exact E).
  vm_compute in E. injection E as <-.
  eexists. eexists. split; [exact Hr|]. split; [vm_compute; reflexivity|].
  repeat split; try (vm_compute; reflexivity). vm_compute. auto.
Qed.
