(** C09 - Parallelism limit is respected and slots are conserved.
    Model: Runner/Model.v (interleaving model of /repo/runner/runner.go); [reachable cfg s] = some schedule leads
    from the initial state to [s]; all statements are for every configuration (graph, unknown/failing sets,
    limit) and every schedule.  [holders s] counts goroutines between a gate.enter and the matching gate.exit,
    [executing s] those inside LoadTarget or inside Evaluate but outside EvaluateTargets, [held s l] =
    enters - exits performed by l's goroutine. *)
From Coq Require Import List Arith Bool.
From Dawn Require Import Runner.Model Runner.Lemmas Runner.Core Runner.Proofs_C09 Runner.Proofs_C05.

Theorem slot_conservation : forall cfg s, reachable cfg s -> cap s + holders s = c_limit cfg.
Proof. exact Proofs_C09.slot_conservation. Qed.
Print Assumptions slot_conservation.

Theorem executing_le_limit : forall cfg s, reachable cfg s -> executing s <= c_limit cfg.
Proof. exact Proofs_C09.executing_le_limit. Qed.
Print Assumptions executing_le_limit.

Theorem slots_per_thread : forall cfg s l t, reachable cfg s -> thr s l = Some t ->
  nexit s l <= nenter s l /\ held s l = (if holder_pc (t_pc t) then 1 else 0).
Proof. exact Proofs_C09.slots_per_thread. Qed.
Print Assumptions slots_per_thread.

Theorem waiting_holds_no_slot : forall cfg s l t, reachable cfg s -> thr s l = Some t ->
  blocked_pc (t_pc t) = true -> held s l = 0 /\ nenter s l = nexit s l.
Proof. exact Proofs_C09.waiting_holds_no_slot. Qed.
Print Assumptions waiting_holds_no_slot.

Theorem balanced_at_end : forall cfg s, reachable cfg s -> finished s = true ->
  cap s = c_limit cfg /\ forall l, nenter s l = nexit s l.
Proof. exact Proofs_C09.balanced_at_end. Qed.
Print Assumptions balanced_at_end.

(* waiting on dependencies holds no slot, so a build makes progress even with a limit of one *)
Theorem limit_one_completes : forall cfg s, c_limit cfg = 1 -> reachable cfg s -> finished s = false ->
  exists t, step cfg s t <> None.
Proof. exact Proofs_C05.limit_one_completes. Qed.
Print Assumptions limit_one_completes.
