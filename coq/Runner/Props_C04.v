(** C04 - Each target runs at most once, after its dependencies.
    Model: Runner/Model.v.  [spawned s] lists every goroutine creation so far; [nload]/[neval]/[nbody] count the
    LoadTarget / Evaluate / body executions per label; [t_res t] are the results handed to a dependent. *)
From Coq Require Import List Arith Bool.
From Dawn Require Import Runner.Model Runner.Lemmas Runner.Core Runner.Proofs_C04.

Theorem started_at_most_once : forall cfg s, reachable cfg s -> NoDup (spawned s).
Proof. exact Proofs_C04.started_at_most_once. Qed.
Print Assumptions started_at_most_once.

Theorem spawn_only_from_idle : forall cfg s t s', step cfg s t = Some s' ->
  spawned s' = spawned s \/ exists d, spawned s' = d :: spawned s /\ st s d = Idle /\ st s' d = Running.
Proof. exact Proofs_C04.spawn_only_from_idle. Qed.
Print Assumptions spawn_only_from_idle.

Theorem loaded_and_evaluated_at_most_once : forall cfg s l, reachable cfg s ->
  nload s l <= 1 /\ neval s l <= 1 /\ nbody s l <= 1.
Proof. exact Proofs_C04.loaded_and_evaluated_at_most_once. Qed.
Print Assumptions loaded_and_evaluated_at_most_once.

Theorem final_status_stable : forall cfg sched s s' l, reachable cfg s -> run cfg s sched = Some s' ->
  is_final (st s l) = true -> st s' l = st s l.
Proof. exact Proofs_C04.final_status_stable. Qed.
Print Assumptions final_status_stable.

Theorem results_are_actual : forall cfg s l t i r, reachable cfg s -> thr s l = Some t ->
  nth_error (t_res t) i = Some r -> r <> Failed ECyclic ->
  exists d, nth_error (deps cfg l) i = Some d /\ st s d = r /\ is_final r = true.
Proof. exact Proofs_C04.results_are_actual. Qed.
Print Assumptions results_are_actual.

Theorem continues_after_deps : forall cfg s l t d, reachable cfg s -> thr s l = Some t ->
  past_request (t_pc t) = true -> ~ In (Failed ECyclic) (t_res t) -> In d (deps cfg l) ->
  is_final (st s d) = true.
Proof. exact Proofs_C04.continues_after_deps. Qed.
Print Assumptions continues_after_deps.

Theorem run_result_is_root : forall cfg s r, reachable cfg s -> mainpc s = MDone r ->
  st s (c_root cfg) = r /\ is_final r = true.
Proof. exact Proofs_C04.run_result_is_root. Qed.
Print Assumptions run_result_is_root.
