(** C04 - Each target runs at most once, after its dependencies.
    Model: Runner/Model.v.  [spawned s] lists every goroutine creation so far; [nload]/[neval]/[nbody] count the
    LoadTarget / Evaluate / body executions per label; [t_res t] are the results handed to a dependent.
    Project level (Runner/Proofs_C04p.v): [resolve] is Project.LoadTarget (label string -> target object);
    [names_distinct resolve s]: the strings that reached the runner name pairwise different targets;
    [loads_of]/[evals_of]/[bodies_of resolve s t]: the counters of target t summed over all labels it was requested under. *)
From Coq Require Import List Arith Bool.
From Dawn Require Import Runner.Model Runner.Lemmas Runner.Core Runner.Proofs_C04 Runner.Proofs_C04p.

Theorem started_at_most_once : forall cfg s, reachable cfg s -> NoDup (spawned s).
Proof. exact Proofs_C04.started_at_most_once. Qed.
Print Assumptions started_at_most_once.

Theorem spawn_only_from_idle : forall cfg s t s', step cfg s t = Some s' ->
  spawned s' = spawned s \/ exists d, spawned s' = d :: spawned s /\ st s d = Idle /\ st s' d = Running.
Proof. exact Proofs_C04.spawn_only_from_idle. Qed.
Print Assumptions spawn_only_from_idle.

Theorem loaded_and_evaluated_at_most_once : forall cfg s l, reachable cfg s ->
  nload s l <= 1 /\ neval s l <= 1 /\ nbody s l <= 1.
Proof. exact Proofs_C04.loaded_and_evaluated_at_most_once. Qed.
Print Assumptions loaded_and_evaluated_at_most_once.

Theorem final_status_stable : forall cfg sched s s' l, reachable cfg s -> run cfg s sched = Some s' ->
  is_final (st s l) = true -> st s' l = st s l.
Proof. exact Proofs_C04.final_status_stable. Qed.
Print Assumptions final_status_stable.

Theorem results_are_actual : forall cfg s l t i r, reachable cfg s -> thr s l = Some t ->
  nth_error (t_res t) i = Some r -> r <> Failed ECyclic ->
  exists d, nth_error (deps cfg l) i = Some d /\ st s d = r /\ is_final r = true.
Proof. exact Proofs_C04.results_are_actual. Qed.
Print Assumptions results_are_actual.

Theorem continues_after_deps : forall cfg s l t d, reachable cfg s -> thr s l = Some t ->
  past_request (t_pc t) = true -> ~ In (Failed ECyclic) (t_res t) -> In d (deps cfg l) ->
  is_final (st s d) = true.
Proof. exact Proofs_C04.continues_after_deps. Qed.
Print Assumptions continues_after_deps.

Theorem run_result_is_root : forall cfg s r, reachable cfg s -> mainpc s = MDone r ->
  st s (c_root cfg) = r /\ is_final r = true.
Proof. exact Proofs_C04.run_result_is_root. Qed.
Print Assumptions run_result_is_root.

(* -- project level: once per label is once per target as far as the labels that reach the runner are distinct names -- *)

Theorem one_goroutine_per_target : forall (resolve : label -> nat) cfg s, reachable cfg s -> names_distinct resolve s ->
  NoDup (map resolve (spawned s)).
Proof. exact Proofs_C04p.one_goroutine_per_target. Qed.
Print Assumptions one_goroutine_per_target.

Theorem once_per_target : forall (resolve : label -> nat) cfg s t, reachable cfg s -> names_distinct resolve s ->
  loads_of resolve s t <= 1 /\ evals_of resolve s t <= 1 /\ bodies_of resolve s t <= 1.
Proof. exact Proofs_C04p.once_per_target. Qed.
Print Assumptions once_per_target.

Theorem counted_labels_are_spawned : forall cfg s l, reachable cfg s -> 0 < nload s l + neval s l + nbody s l -> In l (spawned s).
Proof. exact Proofs_C04p.counted_labels_are_spawned. Qed.
Print Assumptions counted_labels_are_spawned.

(* the hypothesis is needed: one target requested under two strings is loaded, evaluated and run twice (the
   statement fails without [names_distinct]: dawn must hand the runner one spelling per target) *)
Theorem two_spellings_run_twice :
  exists s, reachable two_spellings s /\ finished s = true /\
            loads_of same_target s 1 = 2 /\ evals_of same_target s 1 = 2 /\ bodies_of same_target s 1 = 2 /\
            ~ NoDup (map same_target (spawned s)).
Proof. exact Proofs_C04p.two_spellings_run_twice. Qed.
Print Assumptions two_spellings_run_twice.

(* [continues_after_deps] does not extend to the part of Evaluate before the request: a target that has been loaded and is
   being evaluated (pc PExit1) may find its dependency not even started *)
Theorem before_request_deps_unfinished :
  exists s t, reachable gen_chain s /\ thr s 0 = Some t /\ t_pc t = PExit1 /\ neval s 0 = 1 /\
              In 1 (deps gen_chain 0) /\ st s 1 = Idle /\ past_request (t_pc t) = false.
Proof. exact Proofs_C04p.before_request_deps_unfinished. Qed.
Print Assumptions before_request_deps_unfinished.
