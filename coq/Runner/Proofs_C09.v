(** C09: gate capacity + holders = limit, executing <= limit, waiters hold no slot. *)
From Coq Require Import List Arith Bool Lia.
From Dawn Require Import Runner.Model Runner.Lemmas Runner.Core.
Import ListNotations.

Definition b2n (b : bool) : nat := if b then 1 else 0.

Definition held (s : state) (l : label) : nat := nenter s l - nexit s l.

Lemma filter_upd_in (g g' : label -> bool) l ls :
  NoDup ls -> In l ls -> (forall x, x <> l -> g' x = g x) ->
  length (filter g' ls) + b2n (g l) = length (filter g ls) + b2n (g' l).
Proof.
  induction ls as [|a ls IH]; intros Hnd Hin Hag; [contradiction|].
  inversion Hnd as [|? ? Hna Hnd']; subst. simpl.
  destruct Hin as [->|Hin].
  - assert (E : filter g' ls = filter g ls).
    { clear IH Hnd Hnd'. induction ls as [|b ls IH]; [reflexivity|]. simpl.
      rewrite Hag by (intros ->; apply Hna; left; reflexivity).
      rewrite IH; [reflexivity|]. intros Hi. apply Hna. right. exact Hi. }
    rewrite E. destruct (g' l), (g l); simpl; lia.
  - assert (a <> l) by (intros ->; contradiction).
    rewrite (Hag a) by assumption. specialize (IH Hnd' Hin Hag).
    destruct (g a); simpl; lia.
Qed.

Lemma filter_upd_notin (g g' : label -> bool) l ls :
  ~ In l ls -> (forall x, x <> l -> g' x = g x) -> filter g' ls = filter g ls.
Proof.
  induction ls as [|a ls IH]; intros Hni Hag; [reflexivity|]. simpl.
  rewrite Hag by (intros ->; apply Hni; left; reflexivity).
  rewrite IH; [reflexivity| |exact Hag]. intros Hi. apply Hni. right. exact Hi.
Qed.

Definition pcsel (f : pc -> bool) (s : state) (l : label) : bool :=
  match pc_of s l with Some p => f p | None => false end.

Lemma count_pc_eq f s : count_pc f s = length (filter (pcsel f s) (spawned s)).
Proof. reflexivity. Qed.

Lemma count_pc_update cfg f s s' l t t' :
  core cfg s -> thr s l = Some t ->
  spawned s' = spawned s -> thr s' = upd (thr s) l (Some t') ->
  count_pc f s' + b2n (f (t_pc t)) = count_pc f s + b2n (f (t_pc t')).
Proof.
  intros (Hnd & Hin & _) Ht Hsp Hthr. rewrite !count_pc_eq, Hsp.
  pose proof (filter_upd_in (pcsel f s) (pcsel f s') l (spawned s) Hnd) as L.
  assert (E1 : pcsel f s l = f (t_pc t)) by (unfold pcsel, pc_of; rewrite Ht; reflexivity).
  assert (E2 : pcsel f s' l = f (t_pc t')) by (unfold pcsel, pc_of; rewrite Hthr, upd_same; reflexivity).
  rewrite <- E1, <- E2. apply L.
  - apply Hin. congruence.
  - intros x Hx. unfold pcsel, pc_of. rewrite Hthr, upd_other by assumption. reflexivity.
Qed.

Lemma count_pc_start cfg f s d :
  core cfg s -> count_pc f (start_target s d) = count_pc f s + (if is_idle (st s d) then b2n (f PEnter) else 0).
Proof.
  intros Hc. destruct (is_idle (st s d)) eqn:E.
  - rewrite start_target_idle by exact E. apply is_idle_true in E.
    pose proof (core_idle_none _ _ _ Hc E) as Hn. destruct Hc as (Hnd & Hin & _).
    rewrite !count_pc_eq. simp_state. simpl.
    assert (Hni : ~ In d (spawned s)). { intros Hi. apply Hin in Hi. contradiction. }
    match goal with |- context [filter ?g' (spawned s)] =>
      rewrite (filter_upd_notin (pcsel f s) g' d (spawned s) Hni) end.
    + unfold pcsel at 1, pc_of. simp_state. rewrite upd_same. simpl.
      destruct (f PEnter); simpl; lia.
    + intros x Hx. unfold pcsel, pc_of. simp_state. rewrite upd_other by assumption. reflexivity.
  - rewrite start_target_noop by exact E. lia.
Qed.

Definition gate_inv (cfg : config) (s : state) : Prop :=
  cap s + holders s = c_limit cfg /\
  (forall l, thr s l = None -> nenter s l = 0 /\ nexit s l = 0) /\
  (forall l t, thr s l = Some t -> nenter s l = nexit s l + b2n (holder_pc (t_pc t))).

Lemma start_target_gate s d :
  cap (start_target s d) = cap s /\ nenter (start_target s d) = nenter s /\ nexit (start_target s d) = nexit s.
Proof. unfold start_target. destruct (is_idle (st s d)); auto. Qed.

Lemma gate_inv_start cfg s d : core cfg s -> gate_inv cfg s -> gate_inv cfg (start_target s d).
Proof.
  intros Hc (G1 & G2 & G3). destruct (start_target_gate s d) as (E1 & E2 & E3).
  unfold gate_inv, holders. rewrite (count_pc_start cfg) by exact Hc. rewrite E1, E2, E3.
  split; [|split].
  - fold (holders s). destruct (is_idle (st s d)); simpl; lia.
  - intros l Hl. apply G2. unfold start_target in Hl. destruct (is_idle (st s d)); [|exact Hl].
    simp_state. upd_cases l d; [discriminate|exact Hl].
  - intros l t Hl. unfold start_target in Hl. destruct (is_idle (st s d)) eqn:E; [|apply G3; exact Hl].
    simp_state. upd_cases l d; [|apply G3; exact Hl].
    inversion Hl; subst t. simpl. apply is_idle_true in E.
    destruct (G2 d (core_idle_none _ _ _ Hc E)) as [-> ->]. reflexivity.
Qed.

(* a step of thread l that leaves the spawned set alone *)
Lemma gate_inv_update cfg s s' l t t' :
  core cfg s -> gate_inv cfg s -> thr s l = Some t ->
  spawned s' = spawned s -> thr s' = upd (thr s) l (Some t') ->
  (forall x, x <> l -> nenter s' x = nenter s x /\ nexit s' x = nexit s x) ->
  cap s' + b2n (holder_pc (t_pc t')) = cap s + b2n (holder_pc (t_pc t)) ->
  nenter s' l = nexit s' l + b2n (holder_pc (t_pc t')) ->
  gate_inv cfg s'.
Proof.
  intros Hc (G1 & G2 & G3) Ht Hsp Hthr Hoth Hcap Hl.
  pose proof (count_pc_update cfg holder_pc s s' l t t' Hc Ht Hsp Hthr) as Hcnt.
  unfold gate_inv, holders in *. split; [lia|split].
  - intros x Hx. rewrite Hthr in Hx. upd_cases x l; [discriminate|].
    destruct (Hoth x n) as [-> ->]. apply G2. exact Hx.
  - intros x tx Hx. rewrite Hthr in Hx. upd_cases x l.
    + inversion Hx; subst tx. exact Hl.
    + destruct (Hoth x n) as [-> ->]. apply G3. exact Hx.
Qed.

Ltac gate_upd Hc Hg H s :=
  eapply (gate_inv_update _ s _ _ _ _ Hc Hg H);
  [reflexivity|reflexivity| intros x Hx; simp_state; try rewrite !upd_other by assumption; split; reflexivity | |].

Theorem gate_step cfg s t s' : core cfg s -> gate_inv cfg s -> step cfg s t = Some s' -> gate_inv cfg s'.
Proof.
  intros Hc Hg Hs. apply step_shapes in Hs. destruct Hs as (s0 & Hsh & ->).
  assert (Hgoal : gate_inv cfg s0); [|exact Hgoal].
  destruct Hsh; try (pose proof Hg as (_ & _ & G3); pose proof (G3 _ _ H) as Hl; clear G3; simpl in Hl).
  - apply (gate_inv_start cfg s (c_root cfg) Hc Hg).
  - exact Hg.
  - gate_upd Hc Hg H s; simp_state; simpl; try rewrite upd_same; lia.
  - gate_upd Hc Hg H s; simp_state; simpl; lia.
  - gate_upd Hc Hg H s; simp_state; simpl; lia.
  - gate_upd Hc Hg H s; simp_state; try rewrite upd_same;
      destruct (goto_start_cases cfg l 0) as [[_ ->]|[_ ->]]; simpl; lia.
  - pose proof (gate_inv_start cfg s d Hc Hg) as Hg1.
    pose proof (core_start_target cfg s d Hc) as Hc1.
    destruct (start_target_keeps cfg s d l _ Hc H) as (K1 & _).
    destruct (start_target_gate s d) as (E1 & E2 & E3).
    gate_upd Hc1 Hg1 K1 (start_target s d); simp_state; rewrite ?E1, ?E2, ?E3;
      destruct (goto_start_cases cfg l (S i)) as [[_ ->]|[_ ->]]; simpl; lia.
  - set (w := walk_next _ _ _) in *; clearbody w.
    gate_upd Hc Hg H s; simp_state;
      destruct (walk_goto_cases cfg l w) as [(d' & fr' & ->)|[->|[(i & -> & _)|[-> _]]]]; simpl; lia.
  - set (w := walk_next _ _ _) in *; clearbody w.
    gate_upd Hc Hg H s; simp_state;
      destruct (walk_goto_cases cfg l w) as [(d' & fr' & ->)|[->|[(i & -> & _)|[-> _]]]]; simpl; lia.
  - gate_upd Hc Hg H s; simp_state; simpl; lia.
  - gate_upd Hc Hg H s; simp_state;
      destruct (goto_wait_cases cfg l (S i)) as [[_ ->]|[_ ->]]; simpl; lia.
  - gate_upd Hc Hg H s; simp_state; simpl; lia.
  - gate_upd Hc Hg H s; simp_state; simpl; try rewrite upd_same; lia.
  - destruct (existsb is_failed r); gate_upd Hc Hg H s; simp_state; simpl; lia.
  - gate_upd Hc Hg H s; simp_state; simpl; lia.
  - gate_upd Hc Hg H s; simp_state; simpl; try rewrite upd_same; lia.
Qed.

Theorem gate_reachable cfg s : reachable cfg s -> gate_inv cfg s.
Proof.
  intros Hr. pattern s. revert s Hr. apply reachable_ind'.
  - unfold gate_inv, init, holders, count_pc; simpl. split; [lia|split]; [auto|discriminate].
  - intros s t s' Hr Hg Hs. eapply gate_step; eauto. apply core_reachable. exact Hr.
Qed.

(* -- the theorems --------------------------------------------------------------------------- *)

Theorem slot_conservation cfg s : reachable cfg s -> cap s + holders s = c_limit cfg.
Proof. intros Hr. apply (gate_reachable cfg s Hr). Qed.

Lemma filter_le (g g' : label -> bool) ls : (forall x, g x = true -> g' x = true) ->
  length (filter g ls) <= length (filter g' ls).
Proof.
  intros Hi. induction ls as [|a ls IH]; [simpl; lia|]. simpl.
  destruct (g a) eqn:E; [rewrite (Hi a E); simpl; lia|].
  destruct (g' a); simpl; lia.
Qed.

Theorem executing_le_limit cfg s : reachable cfg s -> executing s <= c_limit cfg.
Proof.
  intros Hr. pose proof (slot_conservation cfg s Hr).
  assert (executing s <= holders s); [|lia].
  unfold executing, holders, count_pc. apply filter_le.
  intros x. destruct (pc_of s x) as [p|]; [|auto]. destruct p; simpl; auto.
Qed.

(* a thread's own gate operations: it holds exactly one slot between an enter and the matching exit,
   none otherwise; never more exits than enters *)
Theorem slots_per_thread cfg s l t : reachable cfg s -> thr s l = Some t ->
  nexit s l <= nenter s l /\ held s l = b2n (holder_pc (t_pc t)).
Proof.
  intros Hr Ht. destruct (gate_reachable cfg s Hr) as (_ & _ & G3). specialize (G3 l t Ht).
  unfold held. lia.
Qed.

Theorem waiting_holds_no_slot cfg s l t : reachable cfg s -> thr s l = Some t ->
  blocked_pc (t_pc t) = true -> held s l = 0 /\ nenter s l = nexit s l.
Proof.
  intros Hr Ht Hb. destruct (slots_per_thread cfg s l t Hr Ht) as [H1 H2].
  assert (holder_pc (t_pc t) = false) by (destruct (t_pc t); simpl in *; congruence).
  rewrite H in H2. simpl in H2. unfold held in *. lia.
Qed.

Lemma count_zero f s : (forall l, In l (spawned s) -> pcsel f s l = false) -> count_pc f s = 0.
Proof.
  intros H. rewrite count_pc_eq. induction (spawned s) as [|a ls IH]; [reflexivity|]. simpl.
  rewrite (H a) by (left; reflexivity). apply IH. intros l Hl. apply H. right. exact Hl.
Qed.

Theorem balanced_at_end cfg s : reachable cfg s -> finished s = true ->
  cap s = c_limit cfg /\ forall l, nenter s l = nexit s l.
Proof.
  intros Hr Hf. destruct (gate_reachable cfg s Hr) as (G1 & G2 & G3).
  unfold finished in Hf. apply andb_true_iff in Hf. destruct Hf as [_ Hf]. rewrite forallb_forall in Hf.
  pose proof (core_reachable cfg s Hr) as (_ & Hin & _).
  assert (Hd : forall l t, thr s l = Some t -> t_pc t = PDone).
  { intros l t Ht. assert (Hi : In l (spawned s)) by (apply Hin; congruence).
    specialize (Hf l Hi). unfold thread_done in Hf. rewrite Ht in Hf. destruct (t_pc t); congruence. }
  split.
  - assert (holders s = 0); [|lia]. apply count_zero. intros l Hl. unfold pcsel, pc_of.
    destruct (thr s l) as [t|] eqn:Ht; [|reflexivity]. rewrite (Hd l t Ht). reflexivity.
  - intros l. destruct (thr s l) as [t|] eqn:Ht.
    + rewrite (G3 l t Ht), (Hd l t Ht). simpl. lia.
    + destruct (G2 l Ht) as [-> ->]. reflexivity.
Qed.
