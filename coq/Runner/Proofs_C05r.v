(** C05, reporting: a cyclic result is handed out uniformly (every result of that call is the cyclic-dependency error), so
    it is the first failed result of the target that found the cycle, which is what target.go reports. *)
From Coq Require Import List Arith Bool Lia.
From Dawn Require Import Runner.Model Runner.Lemmas Runner.Core Runner.Walk Runner.Reach Runner.Cyc Runner.Report.
Import ListNotations.

Definition uni_inv (cfg : config) (s : state) : Prop :=
  (forall l, st s l <> Failed ECyclic) /\
  (forall l t o, thr s l = Some t -> t_pc t = PFinish o -> o <> Failed ECyclic) /\
  (forall l t, thr s l = Some t -> In (Failed ECyclic) (t_res t) ->
     results_complete (t_pc t) = true /\ t_res t = map (fun _ => Failed ECyclic) (deps cfg l)).

Lemma body_outcome_not_cyclic cfg l r : body_outcome cfg l r <> Failed ECyclic.
Proof. unfold body_outcome. destruct (existsb is_failed r); [discriminate|]. destruct (failing cfg l); discriminate. Qed.

Lemma start_target_st_cyc s d : (forall l, st s l <> Failed ECyclic) -> forall l, st (start_target s d) l <> Failed ECyclic.
Proof.
  intros H l. unfold start_target. destruct (is_idle (st s d)); [|apply H]. simp_state.
  upd_cases l d; [discriminate|apply H].
Qed.

Lemma uni_step cfg s t s' : core cfg s -> uni_inv cfg s -> step cfg s t = Some s' -> uni_inv cfg s'.
Proof.
  intros Hc (Ia & Ib & Ic) Hs. apply step_shapes in Hs. destruct Hs as (s0 & Hsh & ->).
  assert (Hgoal : uni_inv cfg s0); [|exact Hgoal].
  split; [|split].
  - (* statuses *)
    inversion Hsh; subst; simp_state; try exact Ia; try (apply start_target_st_cyc; exact Ia).
    + destruct (existsb is_failed r); simp_state; exact Ia.
    + intros x. upd_cases x l; [|apply Ia]. eapply Ib; [eassumption|reflexivity].
  - (* a finishing outcome is never the cyclic error *)
    intros x tx o Hx Hpc. destruct (tid_eq_dec t (T x)) as [->|Hne].
    + inversion Hsh; subst; simp_state; rewrite upd_same in Hx; inversion Hx; subst tx; clear Hx; cbn [t_pc] in Hpc;
        try discriminate.
      * inversion Hpc. discriminate.
      * destruct (goto_start_cases cfg x 0) as [[_ E]|[_ E]]; rewrite E in Hpc; discriminate.
      * destruct (goto_start_cases cfg x (S i)) as [[_ E]|[_ E]]; rewrite E in Hpc; discriminate.
      * match type of Hpc with context [walk_goto cfg x ?w] =>
          destruct (walk_goto_cases cfg x w) as [(d' & fr' & E)|[E|[(j & E & _)|[E _]]]] end; rewrite E in Hpc; discriminate.
      * match type of Hpc with context [walk_goto cfg x ?w] =>
          destruct (walk_goto_cases cfg x w) as [(d' & fr' & E)|[E|[(j & E & _)|[E _]]]] end; rewrite E in Hpc; discriminate.
      * destruct (goto_wait_cases cfg x (S i)) as [[_ E]|[_ E]]; rewrite E in Hpc; discriminate.
      * inversion Hpc. apply body_outcome_not_cyclic.
    + destruct (shape_thr_other cfg s t s0 x Hsh Hne) as [E|[_ E]]; rewrite E in Hx.
      * eapply Ib; eauto.
      * inversion Hx; subst tx. discriminate.
  - (* uniform results *)
    intros x tx Hx Hin. destruct (tid_eq_dec t (T x)) as [->|Hne].
    + inversion Hsh; subst; simp_state; rewrite upd_same in Hx; inversion Hx; subst tx; clear Hx; cbn [t_pc t_res] in *;
        try (destruct (Ic x _ H0 Hin) as [Hp Hr]; cbn [t_pc t_res] in Hp, Hr; first [discriminate Hp | split; [reflexivity|exact Hr]]).
      * (* cycle *) split; reflexivity.
      * (* wait *) apply in_app_or in Hin. destruct Hin as [Hin|[Hin|[]]].
        -- destruct (Ic x _ H0 Hin) as [Hp _]. discriminate Hp.
        -- exfalso. exact (Ia d Hin).
    + destruct (shape_thr_other cfg s t s0 x Hsh Hne) as [E|[_ E]]; rewrite E in Hx.
      * eapply Ic; eauto.
      * inversion Hx; subst tx. destruct Hin.
Qed.

Lemma uni_reachable cfg s : reachable cfg s -> uni_inv cfg s.
Proof.
  intros Hr. pattern s. revert s Hr. apply reachable_ind'.
  - split; [|split].
    + intros l. discriminate.
    + intros l t o Ht. discriminate.
    + intros l t Ht. discriminate.
  - intros s t s' Hr Hi Hs. eapply uni_step; eauto. apply core_reachable. exact Hr.
Qed.

(** Every result of a call that found a cycle is the cyclic-dependency error; results are never mixed. *)
Theorem cyclic_results_uniform cfg s l t : reachable cfg s -> thr s l = Some t -> In (Failed ECyclic) (t_res t) ->
  t_res t = map (fun _ => Failed ECyclic) (deps cfg l).
Proof. intros Hr Ht Hin. destruct (uni_reachable cfg s Hr) as (_ & _ & Ic). exact (proj2 (Ic l t Ht Hin)). Qed.

Lemma reports_uniform (ds : list label) : ds <> [] -> reports_cycle (map (fun _ => Failed ECyclic) ds) = true.
Proof. destruct ds; [congruence|reflexivity]. Qed.

Lemma first_failed_in res e : first_failed res = Some e -> In (Failed e) res.
Proof.
  induction res as [|r res IH]; simpl; [discriminate|].
  destruct r; try (intros H; right; apply IH; exact H). intros H. inversion H. left. reflexivity.
Qed.

(** If a dependency cycle is reachable from the requested target then, by the time the root has finished (in particular
    when Run returns), some target has the cyclic-dependency error as its FIRST failed result: that target reports it. *)
Theorem cycle_reported_first cfg s : reachable cfg s -> has_cycle cfg -> is_final (st s (c_root cfg)) = true ->
  exists l t, thr s l = Some t /\ reports_cycle (t_res t) = true.
Proof.
  intros Hr Hcyc Hf. destruct (cycle_reported cfg s Hr Hcyc Hf) as (l & t & Ht & Hin).
  exists l, t. split; [exact Ht|]. rewrite (cyclic_results_uniform cfg s l t Hr Ht Hin).
  apply reports_uniform. intros E. rewrite (cyclic_results_uniform cfg s l t Hr Ht Hin), E in Hin. destruct Hin.
Qed.

(** ... and in an acyclic build no target ever reports one. *)
Theorem acyclic_never_reports cfg s l t : acyclic cfg -> reachable cfg s -> thr s l = Some t ->
  reports_cycle (t_res t) = false.
Proof.
  intros Ha Hr Ht. destruct (acyclic_never_cyclic cfg s l t Ha Hr Ht) as (_ & Hn & _).
  unfold reports_cycle. destruct (first_failed (t_res t)) as [e|] eqn:E; [|reflexivity].
  destruct e; try reflexivity. exfalso. apply Hn. apply first_failed_in. exact E.
Qed.
