(** No false cycle reports, and the bound on the walk: every edge the walk follows is a declared
    dependency; the visited set is duplicate-free and contains only started labels. *)
From Coq Require Import List Arith Bool Lia Relations.
From Dawn Require Import Runner.Model Runner.Lemmas Runner.Core Runner.Walk.
Import ListNotations.

Definition edge (cfg : config) (x y : label) : Prop := In y (deps cfg x).
Definition path (cfg : config) : label -> label -> Prop := clos_trans label (edge cfg).
Definition path0 (cfg : config) : label -> label -> Prop := clos_refl_trans label (edge cfg).

Lemma path_step cfg x y z : path cfg x y -> edge cfg y z -> path cfg x z.
Proof. intros H E. eapply t_trans; [exact H|apply t_step; exact E]. Qed.

Lemma path0_step cfg x y z : path0 cfg x y -> edge cfg y z -> path0 cfg x z.
Proof. intros H E. eapply rt_trans; [exact H|apply rt_step; exact E]. Qed.

Lemma waiting_static cfg s d ds : core cfg s -> waiting s d = Some ds -> ds = deps cfg d.
Proof.
  intros (_ & _ & Hnone & Hsome) Hw. destruct (thr s d) as [t|] eqn:Ht.
  - destruct (Hsome d t Ht) as (_ & W & _). rewrite Hw in W. destruct (publ_pc (t_pc t)); congruence.
  - destruct (Hnone d Ht) as [_ W]. congruence.
Qed.

Lemma waiting_started cfg s d ds y : core cfg s -> waiting s d = Some ds -> In y ds -> st s y <> Idle.
Proof.
  intros Hc Hw Hy. pose proof (waiting_static cfg s d ds Hc Hw) as ->.
  destruct Hc as (_ & _ & Hnone & Hsome). destruct (thr s d) as [t|] eqn:Ht.
  - destruct (Hsome d t Ht) as (_ & W & C & _). rewrite Hw in W.
    apply In_nth_error in Hy. destruct Hy as [j Hj]. apply (C j y Hj).
    destruct (t_pc t); simpl in W; try discriminate; simpl; eapply nth_error_lt; eauto.
  - destruct (Hnone d Ht) as [_ W]. congruence.
Qed.

Definition not_cyc (r : status) : Prop := r <> Failed ECyclic.

(* thread-local part *)
Definition rinv (cfg : config) (s : state) (l : label) (t : thread) : Prop :=
  match t_pc t with
  | PWalk d fr => (forall y, In y (d :: concat fr) -> path cfg l y /\ st s y <> Idle) /\ ~ In d (t_seen t)
  | PCycle => path cfg l l
  | PFinish o => not_cyc o
  | _ => True
  end /\
  (In (Failed ECyclic) (t_res t) -> path cfg l l) /\
  NoDup (t_seen t) /\ (forall x, In x (t_seen t) -> st s x <> Idle).

Definition reach_inv (cfg : config) (s : state) : Prop :=
  (forall l, In l (spawned s) -> path0 cfg (c_root cfg) l) /\
  (forall l, not_cyc (st s l)) /\
  (forall l t, thr s l = Some t -> rinv cfg s l t).

Lemma rinv_frame cfg s s0 l t : st_evolves s s0 -> rinv cfg s l t -> rinv cfg s0 l t.
Proof.
  intros He (A & B & C & D). unfold rinv. repeat split; auto.
  - destruct (t_pc t); auto. destruct A as [A1 A2]. split; [|exact A2].
    intros y Hy. destruct (A1 y Hy). split; [assumption|]. eapply evolves_not_idle; eauto.
  - intros x Hx. eapply evolves_not_idle; eauto.
Qed.

Lemma start_target_spawned s d x : In x (spawned (start_target s d)) -> x = d \/ In x (spawned s).
Proof.
  unfold start_target. destruct (is_idle (st s d)); [|auto]. simp_state. intros [<-|H]; auto.
Qed.

Lemma start_target_not_cyc s d : (forall l, not_cyc (st s l)) -> forall l, not_cyc (st (start_target s d) l).
Proof.
  intros H l. unfold start_target. destruct (is_idle (st s d)); [|apply H]. simp_state.
  upd_cases l d; [discriminate|apply H].
Qed.

Lemma body_outcome_not_cyc cfg l r : not_cyc (body_outcome cfg l r).
Proof. unfold body_outcome, not_cyc. destruct (existsb is_failed r); [discriminate|]. destruct (failing cfg l); discriminate. Qed.

Lemma in_concat_cons {A} (x : A) f up : In x (concat (f :: up)) <-> In x f \/ In x (concat up).
Proof. simpl. rewrite in_app_iff. reflexivity. Qed.

(* the new pc after a scan satisfies the walk part of rinv *)
Lemma rinv_after_scan cfg s l seen fr :
  (forall y, In y (concat fr) -> path cfg l y /\ st s y <> Idle) ->
  match walk_goto cfg l (walk_next l seen fr) with
  | PWalk d fr' => (forall y, In y (d :: concat fr') -> path cfg l y /\ st s y <> Idle) /\ ~ In d seen
  | PCycle => path cfg l l
  | PFinish o => not_cyc o
  | _ => True
  end.
Proof.
  intros H. pose proof (walk_next_spec l seen fr) as Hs. destruct (walk_next l seen fr) as [| |d fr']; cbn [walk_goto].
  - destruct (goto_wait_cases cfg l 0) as [[_ ->]|[_ ->]]; exact I.
  - apply H. exact Hs.
  - destruct Hs as (A & B & C & D & E). split; [|exact B].
    intros y [<-|Hy]; apply H; [exact C|apply D; exact Hy].
Qed.

Theorem reach_step cfg s t s' : core cfg s -> reach_inv cfg s -> step cfg s t = Some s' -> reach_inv cfg s'.
Proof.
  intros Hc (R1 & R4 & R2) Hs. apply step_shapes in Hs. destruct Hs as (s0 & Hsh & ->).
  assert (Hgoal : reach_inv cfg s0); [|exact Hgoal].
  pose proof (shape_evolves cfg s t s0 Hc Hsh) as He.
  pose proof Hc as (_ & Hin & _ & Hsome).
  split; [|split].
  - (* spawned labels are reachable from the root *)
    inversion Hsh; subst; simp_state; try exact R1.
    + intros l Hl. apply start_target_spawned in Hl. destruct Hl as [->|Hl]; [apply rt_refl|apply R1; exact Hl].
    + intros x Hx. apply start_target_spawned in Hx. destruct Hx as [->|Hx]; [|apply R1; exact Hx].
      apply (path0_step cfg _ l); [apply R1; apply Hin; congruence|]. eapply nth_error_In; eauto.
    + destruct (existsb is_failed r); exact R1.
  - (* no status is the cyclic error *)
    inversion Hsh; subst; simp_state; try exact R4; try (apply start_target_not_cyc; exact R4).
    + destruct (existsb is_failed r); exact R4.
    + intros x. upd_cases x l; [|apply R4]. destruct (R2 _ _ H) as (A & _). exact A.
  - intros x tx Hx. destruct (tid_eq_dec t (T x)) as [->|Hne].
    2:{ destruct (shape_thr_other cfg s t s0 x Hsh Hne) as [E|[_ E]]; rewrite E in Hx.
        - eapply rinv_frame; eauto.
        - inversion Hx. unfold rinv, new_thread; simpl. repeat split; auto; try constructor; contradiction. }
    inversion Hsh; subst; simp_state; rewrite upd_same in Hx; apply some_inj in Hx; subst tx;
      pose proof (rinv_frame cfg s _ x _ He (R2 x _ H0)) as (A & B & C & D); unfold rinv in *; cbn [t_pc t_res t_seen] in *;
      try (split; [exact I|split; [exact B|split; [exact C|exact D]]]).
    + split; [discriminate|auto].
    + destruct (goto_start_cases cfg x 0) as [[_ ->]|[_ ->]]; auto.
    + destruct (goto_start_cases cfg x (S i)) as [[_ ->]|[_ ->]]; auto.
    + (* publish *)
      split; [|split; [exact B|split; [constructor|intros ? []]]].
      apply rinv_after_scan. intros y Hy. simpl in Hy. rewrite app_nil_r in Hy. split.
      * apply t_step. exact Hy.
      * destruct (Hsome _ _ H0) as (_ & _ & C' & _). cbn [t_pc started_upto] in C'.
        apply In_nth_error in Hy. destruct Hy as [j Hj]. eapply evolves_not_idle; [exact He|].
        apply (C' j y Hj). eapply nth_error_lt; eauto.
    + (* walk *)
      destruct A as [A1 A2].
      split; [|split; [exact B|split; [constructor; assumption|]]].
      * apply rinv_after_scan. intros y Hy.
        destruct (waiting s d) as [ds|] eqn:Hw; [|apply A1; right; exact Hy].
        apply in_concat_cons in Hy. destruct Hy as [Hy|Hy]; [|apply A1; right; exact Hy].
        pose proof (waiting_static cfg s d ds Hc Hw) as Eds. split.
        -- eapply path_step; [apply A1; left; reflexivity|]. unfold edge. rewrite <- Eds. exact Hy.
        -- exact (waiting_started cfg s d ds y Hc Hw Hy).
      * intros y [<-|Hy]; [apply A1; left; reflexivity|apply D; exact Hy].
    + (* cycle *)
      split; [exact I|split; [intros _; exact A|split; [exact C|exact D]]].
    + (* wait *)
      split; [destruct (goto_wait_cases cfg x (S i)) as [[_ ->]|[_ ->]]; exact I|].
      split; [|split; [exact C|exact D]].
      intros Hi. apply in_app_or in Hi. destruct Hi as [Hi|[Hi|[]]]; [apply B; exact Hi|].
      exfalso. apply (R4 d). exact Hi.
    + (* body *)
      destruct (existsb is_failed r); (split; [apply body_outcome_not_cyc|split; [exact B|split; [exact C|exact D]]]).
Qed.

Theorem reach_reachable cfg s : reachable cfg s -> reach_inv cfg s.
Proof.
  intros Hr. pattern s. revert s Hr. apply reachable_ind'.
  - split; [intros l []|split; [intros l; discriminate|intros l t Ht; discriminate]].
  - intros s t s' Hr Hi Hs. eapply reach_step; eauto. apply core_reachable. exact Hr.
Qed.

(** A cyclic-dependency error is produced (a thread reaches PCycle, or holds a Cyclic result) only if the
    declared dependency relation has a cycle through that target, and the target is reachable from the root. *)
Theorem no_false_cycle cfg s l t : reachable cfg s -> thr s l = Some t ->
  t_pc t = PCycle \/ In (Failed ECyclic) (t_res t) ->
  path cfg l l /\ path0 cfg (c_root cfg) l.
Proof.
  intros Hr Ht Hc. destruct (reach_reachable cfg s Hr) as (R1 & _ & R2).
  destruct (R2 l t Ht) as (A & B & _). split.
  - destruct Hc as [E|Hc]; [rewrite E in A; exact A|apply B; exact Hc].
  - apply R1. apply (core_reachable cfg s Hr). congruence.
Qed.

Definition acyclic (cfg : config) : Prop := forall l, path0 cfg (c_root cfg) l -> ~ path cfg l l.

Corollary acyclic_never_cyclic cfg s l t : acyclic cfg -> reachable cfg s -> thr s l = Some t ->
  t_pc t <> PCycle /\ ~ In (Failed ECyclic) (t_res t) /\ (forall x, st s x <> Failed ECyclic).
Proof.
  intros Ha Hr Ht. repeat split.
  - intros E. destruct (no_false_cycle cfg s l t Hr Ht (or_introl E)) as [P Q]. exact (Ha l Q P).
  - intros E. destruct (no_false_cycle cfg s l t Hr Ht (or_intror E)) as [P Q]. exact (Ha l Q P).
  - intros x. apply (reach_reachable cfg s Hr).
Qed.

(* -- the bound on the walk --------------------------------------------------------------------- *)

Definition labels (cfg : config) : list label := c_root cfg :: flat_map snd (c_deps cfg).
Arguments labels : simpl never.

Lemma assoc_in x m ds : assoc x m = Some ds -> In (x, ds) m.
Proof.
  induction m as [|[k v] m IH]; simpl; [discriminate|]. destruct (Nat.eqb_spec x k) as [->|_].
  - intros H; inversion H; left; reflexivity.
  - intros H; right; apply IH; exact H.
Qed.

Lemma deps_in_labels cfg l d : In d (deps cfg l) -> In d (labels cfg).
Proof.
  unfold deps, labels. destruct (unknown cfg l); [intros []|].
  destruct (assoc l (c_deps cfg)) as [ds|] eqn:E; [|intros []]. intros Hd. right.
  apply in_flat_map. exists (l, ds). split; [apply assoc_in; exact E|exact Hd].
Qed.

Lemma path0_in_labels cfg l : path0 cfg (c_root cfg) l -> In l (labels cfg).
Proof.
  intros H. apply clos_rt_rtn1 in H. destruct H as [|y z E _]; [left; reflexivity|].
  eapply deps_in_labels. exact E.
Qed.

Lemma spawned_le_labels cfg s : reachable cfg s -> length (spawned s) <= length (labels cfg).
Proof.
  intros Hr. apply NoDup_incl_length; [apply (core_reachable cfg s Hr)|].
  intros l Hl. apply path0_in_labels. apply (reach_reachable cfg s Hr). exact Hl.
Qed.

Lemma seen_le_spawned cfg s l t : reachable cfg s -> thr s l = Some t ->
  length (t_seen t) + (match t_pc t with PWalk _ _ => 1 | _ => 0 end) <= length (spawned s).
Proof.
  intros Hr Ht. destruct (reach_reachable cfg s Hr) as (_ & _ & R2). destruct (R2 l t Ht) as (A & _ & C & D).
  pose proof (core_reachable cfg s Hr) as Hc. pose proof Hc as (_ & Hin & _).
  assert (Hsp : forall x, st s x <> Idle -> In x (spawned s)).
  { intros x Hx. apply Hin. intros E. destruct Hc as (_ & _ & Hnone & _). destruct (Hnone x E). contradiction. }
  destruct (t_pc t) eqn:Ep; try (rewrite Nat.add_0_r; apply NoDup_incl_length; [exact C|intros x Hx; apply Hsp; apply D; exact Hx]).
  destruct A as [A1 A2].
  assert (length (d :: t_seen t) <= length (spawned s)); [|simpl in *; lia].
  apply NoDup_incl_length; [constructor; assumption|].
  intros x [<-|Hx]; apply Hsp; [apply A1; left; reflexivity|apply D; exact Hx].
Qed.

(** The number of waiting-set loads a walk performs (= the size of its visited set: each Walk step adds the
    loaded label to it) is bounded by the number of labels of the configuration. *)
Theorem walk_bounded cfg s l t : reachable cfg s -> thr s l = Some t ->
  NoDup (t_seen t) /\ length (t_seen t) <= length (labels cfg).
Proof.
  intros Hr Ht. split.
  - destruct (reach_reachable cfg s Hr) as (_ & _ & R2). apply (R2 l t Ht).
  - pose proof (seen_le_spawned cfg s l t Hr Ht). pose proof (spawned_le_labels cfg s Hr). lia.
Qed.
