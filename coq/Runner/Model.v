(** Executable model of /repo/runner/runner.go (the target runner), at the code's atomicity.

    One model thread per started target (a goroutine running [target.run]) plus [TMain] (the caller of
    [Run]).  A model step is one access to shared memory (a critical section of [target.m] / [gate.m],
    or one atomic operation on [target.waiting]) together with the goroutine-local computation that
    follows it.  The correspondence to source lines and to hook points:

      PEnter     gate.enter() in run            (guard: capacity > 0)           hook gate.enter
      PLoad      targetLoader.LoadTarget        (unknown label -> PFinish)      hook run.loaded
      PExit1     gate.exit() in EvaluateTargets                                 hook gate.exit
      PStart i   getTarget + start of labels[i] (test-and-set Idle->Running, go run)   start.run / start.noop
      PPublish   root.waiting.Swap(&targets); the walk's visited set starts empty publish.pre/post
      PWalk d fr dep.waiting.Load() for the next not-yet-seen dep d; fr = the remaining DFS frames
                 (one frame of remaining siblings per active checkDeps call)    walk.pre / walk.load
      PCycle     check reached dep == root: every result of the call := Cyclic  walk.cycle
      PWait i    targets[i].wait()  (guard: status <> Running)                  wait.end
      PClear     deferred root.waiting.Swap(nil)                                clear.pre/post
      PEnter2    deferred gate.enter()          (LIFO: after the clear)         gate.enter
      PBody      the rest of Target.Evaluate: a failed dependency result => fail without running the
                 body (dawn's target.go returns before evaluate()); otherwise the body's outcome
      PFinish o  t.status, t.err = o under t.m; broadcast                       run.finished
      PExit2     deferred gate.exit() of run; the goroutine ends                gate.exit

    Goroutine-local work between two shared accesses (skipping already-seen deps, popping exhausted
    frames, deciding whether any dependency remains) is attached to the preceding step ([walk_next],
    [goto_start], [goto_wait]); it touches no shared memory, so this does not change the interleavings.

    dawn's Target.Evaluate (target.go) calls EvaluateTargets exactly once, with all dependencies
    (also when there are none); this is the usage modelled.

    Ghost fields (never read by [step]'s control flow): [clock] (number of steps taken so far), [pub]
    (clock at a target's publication), [ftime] (clock at its Finish), [nload]/[neval]/[nbody] (how many
    times LoadTarget / Evaluate / the body ran for a label), [nenter]/[nexit] (gate operations completed by a
    label's goroutine).  NO proofs in this file. *)
From Coq Require Import List Arith Bool.
Import ListNotations.

Definition label := nat.

Inductive err := EUnknown | ECyclic | EBody | EDepFailed.
Inductive status := Idle | Running | Succeeded | Failed (e : err).

Record config := mkConfig {
  c_root : label;
  c_deps : list (label * list label);   (* declared dependencies, in declaration order, duplicates allowed *)
  c_unknown : list label;               (* LoadTarget fails *)
  c_failing : list label;               (* the body fails *)
  c_limit : nat                         (* gate capacity (number of CPUs) *)
}.

Definition mem (x : label) (l : list label) : bool := existsb (Nat.eqb x) l.

Fixpoint assoc (x : label) (m : list (label * list label)) : option (list label) :=
  match m with
  | [] => None
  | (k, v) :: m' => if Nat.eqb x k then Some v else assoc x m'
  end.

Definition unknown (cfg : config) (l : label) : bool := mem l (c_unknown cfg).
Definition failing (cfg : config) (l : label) : bool := mem l (c_failing cfg).
Definition deps (cfg : config) (l : label) : list label :=
  if unknown cfg l then [] else match assoc l (c_deps cfg) with Some ds => ds | None => [] end.

Inductive pc :=
| PEnter | PLoad | PExit1
| PStart (i : nat)
| PPublish
| PWalk (d : label) (fr : list (list label))
| PCycle
| PWait (i : nat)
| PClear | PEnter2 | PBody
| PFinish (o : status)
| PExit2 | PDone.

Record thread := mkThread {
  t_pc : pc;
  t_res : list status;     (* results received so far, in dependency order *)
  t_seen : list label      (* the walk's visited set (most recent first); kept after the walk as a ghost *)
}.

Inductive mpc := MStart | MWait | MDone (r : status).

Inductive tid := TMain | T (l : label).

Record state := mkState {
  st : label -> status;
  waiting : label -> option (list label);
  cap : nat;
  thr : label -> option thread;
  spawned : list label;                (* goroutines created so far, most recent first *)
  mainpc : mpc;
  (* ghosts *)
  clock : nat;
  pub : label -> nat;
  ftime : label -> nat;
  nload : label -> nat;
  neval : label -> nat;
  nbody : label -> nat;
  nenter : label -> nat;                (* gate.enter calls completed by the goroutine of a label *)
  nexit : label -> nat                  (* gate.exit calls completed by it *)
}.

Definition upd {A} (f : label -> A) (k : label) (v : A) : label -> A :=
  fun x => if Nat.eqb x k then v else f x.

Definition init (cfg : config) : state :=
  mkState (fun _ => Idle) (fun _ => None) (c_limit cfg) (fun _ => None) [] MStart
          0 (fun _ => 0) (fun _ => 0) (fun _ => 0) (fun _ => 0) (fun _ => 0) (fun _ => 0) (fun _ => 0).

Definition new_thread : thread := mkThread PEnter [] [].

(* -- goroutine-local helpers --------------------------------------------------------------- *)

Definition goto_start (cfg : config) (l : label) (i : nat) : pc :=
  if i <? length (deps cfg l) then PStart i else PPublish.

Definition goto_wait (cfg : config) (l : label) (i : nat) : pc :=
  if i <? length (deps cfg l) then PWait i else PClear.

Inductive scan := FrameDone | FrameCycle | FrameFound (d : label) (rest : list label).

(* one checkDeps loop: the next dep of this frame that check() does not dismiss at once *)
Fixpoint scan_frame (l : label) (seen : list label) (f : list label) : scan :=
  match f with
  | [] => FrameDone
  | d :: rest =>
      if Nat.eqb d l then FrameCycle                      (* dep == e.root *)
      else if mem d seen then scan_frame l seen rest      (* already in seen: return nil *)
      else FrameFound d rest
  end.

Inductive wnext := WDone | WCycle | WLoad (d : label) (fr : list (list label)).

Fixpoint walk_next (l : label) (seen : list label) (fr : list (list label)) : wnext :=
  match fr with
  | [] => WDone
  | f :: up =>
      match scan_frame l seen f with
      | FrameDone => walk_next l seen up                  (* checkDeps returned nil to its caller *)
      | FrameCycle => WCycle
      | FrameFound d rest => WLoad d (rest :: up)
      end
  end.

Definition walk_goto (cfg : config) (l : label) (w : wnext) : pc :=
  match w with
  | WDone => goto_wait cfg l 0
  | WCycle => PCycle
  | WLoad d fr => PWalk d fr
  end.

Definition is_failed (r : status) : bool := match r with Failed _ => true | _ => false end.

Definition body_outcome (cfg : config) (l : label) (res : list status) : status :=
  if existsb is_failed res then Failed EDepFailed
  else if failing cfg l then Failed EBody else Succeeded.

Definition is_running (r : status) : bool := match r with Running => true | _ => false end.
Definition is_idle (r : status) : bool := match r with Idle => true | _ => false end.

(* -- state setters -------------------------------------------------------------------------- *)

Definition tick (s : state) : state :=
  mkState (st s) (waiting s) (cap s) (thr s) (spawned s) (mainpc s)
          (S (clock s)) (pub s) (ftime s) (nload s) (neval s) (nbody s) (nenter s) (nexit s).

Definition set_thr (s : state) (l : label) (t : thread) : state :=
  mkState (st s) (waiting s) (cap s) (upd (thr s) l (Some t)) (spawned s) (mainpc s)
          (clock s) (pub s) (ftime s) (nload s) (neval s) (nbody s) (nenter s) (nexit s).

(* gate.enter / gate.exit performed by the goroutine of [l] *)
Definition gate_enter (s : state) (l : label) (c : nat) : state :=
  mkState (st s) (waiting s) c (thr s) (spawned s) (mainpc s)
          (clock s) (pub s) (ftime s) (nload s) (neval s) (nbody s) (upd (nenter s) l (S (nenter s l))) (nexit s).

Definition gate_exit (s : state) (l : label) : state :=
  mkState (st s) (waiting s) (S (cap s)) (thr s) (spawned s) (mainpc s)
          (clock s) (pub s) (ftime s) (nload s) (neval s) (nbody s) (nenter s) (upd (nexit s) l (S (nexit s l))).

Definition set_main (s : state) (m : mpc) : state :=
  mkState (st s) (waiting s) (cap s) (thr s) (spawned s) m
          (clock s) (pub s) (ftime s) (nload s) (neval s) (nbody s) (nenter s) (nexit s).

Definition set_waiting (s : state) (l : label) (w : option (list label)) : state :=
  mkState (st s) (upd (waiting s) l w) (cap s) (thr s) (spawned s) (mainpc s)
          (clock s) (if w then upd (pub s) l (clock s) else pub s) (ftime s) (nload s) (neval s) (nbody s) (nenter s) (nexit s).

Definition set_status (s : state) (l : label) (o : status) : state :=
  mkState (upd (st s) l o) (waiting s) (cap s) (thr s) (spawned s) (mainpc s)
          (clock s) (pub s) (upd (ftime s) l (clock s)) (nload s) (neval s) (nbody s) (nenter s) (nexit s).

(* target.start: under t.m, if status = Idle then status := Running and `go t.run` *)
Definition start_target (s : state) (d : label) : state :=
  if is_idle (st s d) then
    mkState (upd (st s) d Running) (waiting s) (cap s) (upd (thr s) d (Some new_thread)) (d :: spawned s) (mainpc s)
            (clock s) (pub s) (ftime s) (nload s) (neval s) (nbody s) (nenter s) (nexit s)
  else s.

Definition count_load (s : state) (l : label) (ok : bool) : state :=
  mkState (st s) (waiting s) (cap s) (thr s) (spawned s) (mainpc s)
          (clock s) (pub s) (ftime s) (upd (nload s) l (S (nload s l)))
          (if ok then upd (neval s) l (S (neval s l)) else neval s) (nbody s) (nenter s) (nexit s).

Definition count_body (s : state) (l : label) : state :=
  mkState (st s) (waiting s) (cap s) (thr s) (spawned s) (mainpc s)
          (clock s) (pub s) (ftime s) (nload s) (neval s) (upd (nbody s) l (S (nbody s l))) (nenter s) (nexit s).

(* -- the step function ---------------------------------------------------------------------- *)

Definition step_thread (cfg : config) (s : state) (l : label) (t : thread) : option state :=
  let goto p := mkThread p (t_res t) (t_seen t) in
  match t_pc t with
  | PEnter =>
      match cap s with
      | 0 => None
      | S c => Some (set_thr (gate_enter s l c) l (goto PLoad))
      end
  | PLoad =>
      if unknown cfg l
      then Some (set_thr (count_load s l false) l (goto (PFinish (Failed EUnknown))))
      else Some (set_thr (count_load s l true) l (goto PExit1))
  | PExit1 => Some (set_thr (gate_exit s l) l (goto (goto_start cfg l 0)))
  | PStart i =>
      match nth_error (deps cfg l) i with
      | None => None
      | Some d => Some (set_thr (start_target s d) l (goto (goto_start cfg l (S i))))
      end
  | PPublish =>
      (* the walk starts with a fresh visited set: checkDeps(targets, map[*target]struct{}{}) *)
      Some (set_thr (set_waiting s l (Some (deps cfg l))) l
                    (mkThread (walk_goto cfg l (walk_next l [] [deps cfg l])) (t_res t) []))
  | PWalk d fr =>
      let seen' := d :: t_seen t in
      let fr' := match waiting s d with Some ds => ds :: fr | None => fr end in
      Some (set_thr s l (mkThread (walk_goto cfg l (walk_next l seen' fr')) (t_res t) seen'))
  | PCycle =>
      Some (set_thr s l (mkThread PClear (map (fun _ => Failed ECyclic) (deps cfg l)) (t_seen t)))
  | PWait i =>
      match nth_error (deps cfg l) i with
      | None => None
      | Some d =>
          if is_running (st s d) then None
          else Some (set_thr s l (mkThread (goto_wait cfg l (S i)) (t_res t ++ [st s d]) (t_seen t)))
      end
  | PClear => Some (set_thr (set_waiting s l None) l (goto PEnter2))
  | PEnter2 =>
      match cap s with
      | 0 => None
      | S c => Some (set_thr (gate_enter s l c) l (goto PBody))
      end
  | PBody =>
      let o := body_outcome cfg l (t_res t) in
      Some (set_thr (if existsb is_failed (t_res t) then s else count_body s l) l (goto (PFinish o)))
  | PFinish o => Some (set_thr (set_status s l o) l (goto PExit2))
  | PExit2 => Some (set_thr (gate_exit s l) l (goto PDone))
  | PDone => None
  end.

Definition step_main (cfg : config) (s : state) : option state :=
  match mainpc s with
  | MStart => Some (set_main (start_target s (c_root cfg)) MWait)
  | MWait => if is_running (st s (c_root cfg)) then None else Some (set_main s (MDone (st s (c_root cfg))))
  | MDone _ => None
  end.

Definition step (cfg : config) (s : state) (t : tid) : option state :=
  match
    match t with
    | TMain => step_main cfg s
    | T l => match thr s l with Some th => step_thread cfg s l th | None => None end
    end
  with
  | Some s' => Some (tick s')
  | None => None
  end.

Fixpoint run (cfg : config) (s : state) (sched : list tid) : option state :=
  match sched with
  | [] => Some s
  | t :: rest => match step cfg s t with Some s' => run cfg s' rest | None => None end
  end.

(* -- observers ------------------------------------------------------------------------------ *)

Definition thread_done (s : state) (l : label) : bool :=
  match thr s l with Some t => match t_pc t with PDone => true | _ => false end | None => true end.

Definition main_done (s : state) : bool := match mainpc s with MDone _ => true | _ => false end.

(* quiescence: main has returned and every goroutine has ended *)
Definition finished (s : state) : bool := main_done s && forallb (thread_done s) (spawned s).

(* a holder is between a gate.enter and the matching gate.exit *)
Definition holder_pc (p : pc) : bool :=
  match p with PLoad | PExit1 | PBody | PFinish _ | PExit2 => true | _ => false end.
(* executing: inside LoadTarget, or inside Evaluate but outside EvaluateTargets *)
Definition executing_pc (p : pc) : bool :=
  match p with PLoad | PExit1 | PBody => true | _ => false end.
Definition blocked_pc (p : pc) : bool :=
  match p with PWalk _ _ | PCycle | PWait _ => true | _ => false end.

Definition pc_of (s : state) (l : label) : option pc :=
  match thr s l with Some t => Some (t_pc t) | None => None end.

Definition count_pc (f : pc -> bool) (s : state) : nat :=
  length (filter (fun l => match pc_of s l with Some p => f p | None => false end) (spawned s)).

Definition holders (s : state) : nat := count_pc holder_pc s.
Definition executing (s : state) : nat := count_pc executing_pc s.
