(** C05 - Builds terminate: dependency cycles are reported, never deadlock.
    Model: Runner/Model.v (the code as it is now: engine.check threads a visited set).  All statements are for
    every configuration (every directed graph incl. self-loops and overlapping cycles, unknown and failing
    targets), every schedule, every limit >= 1.  [path cfg x y] = a non-empty chain of declared dependencies,
    [path0] its reflexive closure, [finished s] = Run has returned and every goroutine has ended. *)
From Coq Require Import List Arith Bool.
From Dawn Require Import Runner.Model Runner.Lemmas Runner.Core Runner.Walk Runner.Reach Runner.Term Runner.Cyc
     Runner.Proofs_C05 Runner.Examples Runner.Report Runner.Proofs_C05r.
Import ListNotations.

Theorem deadlock_free : forall cfg s, 1 <= c_limit cfg -> reachable cfg s -> finished s = false ->
  exists t, step cfg s t <> None.
Proof. exact Proofs_C05.deadlock_free. Qed.
Print Assumptions deadlock_free.

Theorem run_not_returned_progress : forall cfg s, 1 <= c_limit cfg -> reachable cfg s -> main_done s = false ->
  exists t, step cfg s t <> None.
Proof. exact Proofs_C05.run_not_returned_progress. Qed.
Print Assumptions run_not_returned_progress.

Theorem terminates : forall cfg sched s, run cfg (init cfg) sched = Some s -> length sched <= bound cfg.
Proof. exact Term.terminates. Qed.
Print Assumptions terminates.

Theorem walk_bounded : forall cfg s l t, reachable cfg s -> thr s l = Some t ->
  NoDup (t_seen t) /\ length (t_seen t) <= length (labels cfg).
Proof. exact Reach.walk_bounded. Qed.
Print Assumptions walk_bounded.

Theorem no_false_cycle : forall cfg s l t, reachable cfg s -> thr s l = Some t ->
  t_pc t = PCycle \/ In (Failed ECyclic) (t_res t) ->
  path cfg l l /\ path0 cfg (c_root cfg) l.
Proof. exact Reach.no_false_cycle. Qed.
Print Assumptions no_false_cycle.

Theorem acyclic_never_cyclic : forall cfg s l t, acyclic cfg -> reachable cfg s -> thr s l = Some t ->
  t_pc t <> PCycle /\ ~ In (Failed ECyclic) (t_res t) /\ (forall x, st s x <> Failed ECyclic).
Proof. exact Reach.acyclic_never_cyclic. Qed.
Print Assumptions acyclic_never_cyclic.

Theorem cyclic_build_fails : forall cfg s r, reachable cfg s -> has_cycle cfg -> mainpc s = MDone r ->
  exists e, r = Failed e.
Proof. exact Cyc.cyclic_build_fails. Qed.
Print Assumptions cyclic_build_fails.

Theorem cycle_reported : forall cfg s, reachable cfg s -> has_cycle cfg -> is_final (st s (c_root cfg)) = true ->
  exists l t, thr s l = Some t /\ In (Failed ECyclic) (t_res t).
Proof. exact Cyc.cycle_reported. Qed.
Print Assumptions cycle_reported.

(* "Reported" as dawn's target.go does it: a target walks the results of EvaluateTargets in dependency order and acts on the
   FIRST failed one; [reports_cycle res] = that one is the cyclic-dependency error (Runner/Report.v).  A call that found a
   cycle hands the error out for every dependency, so the target that found it reports it whatever else it depends on. *)
Theorem cyclic_results_uniform : forall cfg s l t, reachable cfg s -> thr s l = Some t -> In (Failed ECyclic) (t_res t) ->
  t_res t = map (fun _ => Failed ECyclic) (deps cfg l).
Proof. exact Proofs_C05r.cyclic_results_uniform. Qed.
Print Assumptions cyclic_results_uniform.

Theorem cycle_reported_first : forall cfg s, reachable cfg s -> has_cycle cfg -> is_final (st s (c_root cfg)) = true ->
  exists l t, thr s l = Some t /\ reports_cycle (t_res t) = true.
Proof. exact Proofs_C05r.cycle_reported_first. Qed.
Print Assumptions cycle_reported_first.

Theorem acyclic_never_reports : forall cfg s l t, acyclic cfg -> reachable cfg s -> thr s l = Some t ->
  reports_cycle (t_res t) = false.
Proof. exact Proofs_C05r.acyclic_never_reports. Qed.
Print Assumptions acyclic_never_reports.

(* the cyclic error behind another failed result is not a report; in first-failed position it is *)
Example first_failed_decides :
  reports_cycle [Failed EBody; Failed ECyclic] = false /\ reports_cycle [Succeeded; Failed ECyclic; Failed EBody] = true.
Proof. split; reflexivity. Qed.

(* non-vacuity: a cyclic configuration with limit 1 and a schedule that ends quiescent with the root Failed and a
   Cyclic result; exhaustive explorations (tests) are in Runner/Examples.v *)
Example cycle2_has_failing_schedule :
  exists sched s, run (cycle2 1) (init (cycle2 1)) sched = Some s /\ finished s = true /\
                  st s 0 = Failed EDepFailed /\ mainpc s = MDone (Failed EDepFailed) /\ has_cyc s 0 = true /\
                  cap s = 1.
Proof. exact Examples.cycle2_has_failing_schedule. Qed.
