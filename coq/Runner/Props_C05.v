From Dawn Require Import Runner.Model.
Theorem pipeline_placeholder_C05 : forall cfg, cap (init cfg) = c_limit cfg.
Proof. reflexivity. Qed.
Print Assumptions pipeline_placeholder_C05.
