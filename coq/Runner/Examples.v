(** Non-vacuity witnesses and TESTS (bounded, by vm_compute) of the runner model.  Nothing here is used by the
    theorems; the exhaustive explorations are tests of the model on tiny configurations, not proofs of the property. *)
From Coq Require Import List Arith Bool Lia.
From Dawn Require Import Runner.Model Runner.Lemmas Runner.Cyc Runner.Proofs_C05.
Import ListNotations.

(* -- a deterministic scheduler: always the first enabled thread ------------------------------- *)

Fixpoint first_enabled (cfg : config) (s : state) (ts : list tid) : option (tid * state) :=
  match ts with
  | [] => None
  | t :: rest => match step cfg s t with Some s' => Some (t, s') | None => first_enabled cfg s rest end
  end.

Fixpoint auto_sched (cfg : config) (fuel : nat) (s : state) : list tid :=
  match fuel with
  | 0 => []
  | S f => match first_enabled cfg s (all_tids s) with
           | Some (t, s') => t :: auto_sched cfg f s'
           | None => []
           end
  end.

Definition cycle2 (k : nat) : config := mkConfig 0 [(0, [1]); (1, [0])] [] [] k.
Definition selfloop : config := mkConfig 0 [(0, [0])] [] [] 1.
Definition fan_fail : config := mkConfig 0 [(0, [1; 2])] [] [2] 1.
Definition chain_unknown : config := mkConfig 0 [(0, [1]); (1, [2])] [2] [] 2.

Definition status_eqb (a b : status) : bool :=
  match a, b with
  | Idle, Idle | Running, Running | Succeeded, Succeeded => true
  | Failed EUnknown, Failed EUnknown | Failed ECyclic, Failed ECyclic
  | Failed EBody, Failed EBody | Failed EDepFailed, Failed EDepFailed => true
  | _, _ => false
  end.

Definition ends_with (cfg : config) (sched : list tid) (root_status : status) (cyc_at : option label) : bool :=
  match run cfg (init cfg) sched with
  | Some s => finished s && status_eqb (st s (c_root cfg)) root_status &&
              match mainpc s with MDone r => status_eqb r root_status | _ => false end &&
              match cyc_at with Some l => has_cyc s l | None => true end &&
              Nat.eqb (cap s) (c_limit cfg)
  | None => false
  end.

(** Non-vacuity: the 2-cycle configuration (limit 1) has a schedule that ends quiescent, with the root Failed,
    Run returning that failure, target 0 having been handed a Cyclic result, and the gate full again. *)
Definition cycle2_sched : list tid := Eval vm_compute in auto_sched (cycle2 1) 200 (init (cycle2 1)).

Example cycle2_has_failing_schedule :
  exists sched s, run (cycle2 1) (init (cycle2 1)) sched = Some s /\ finished s = true /\
                  st s 0 = Failed EDepFailed /\ mainpc s = MDone (Failed EDepFailed) /\ has_cyc s 0 = true /\
                  cap s = 1.
Proof.
  assert (H : ends_with (cycle2 1) cycle2_sched (Failed EDepFailed) (Some 0) = true) by (vm_compute; reflexivity).
  unfold ends_with in H. destruct (run (cycle2 1) (init (cycle2 1)) cycle2_sched) as [s|] eqn:E; [|discriminate].
  exists cycle2_sched, s. split; [exact E|]. clear E.
  apply andb_true_iff in H. destruct H as [H H5]. apply andb_true_iff in H. destruct H as [H H4].
  apply andb_true_iff in H. destruct H as [H H3]. apply andb_true_iff in H. destruct H as [H1 H2].
  change (c_root (cycle2 1)) with 0 in H2. change (c_limit (cycle2 1)) with 1 in H5.
  split; [exact H1|split; [|split; [|split; [exact H4|apply Nat.eqb_eq; exact H5]]]].
  - destruct (st s 0) as [| | |[]]; try discriminate H2; reflexivity.
  - destruct (mainpc s) as [| |[| | |[]]]; try discriminate H3; reflexivity.
Qed.

(* the self-loop: the root itself is handed the Cyclic result *)
Example selfloop_reports_cycle :
  ends_with selfloop (auto_sched selfloop 100 (init selfloop)) (Failed EDepFailed) (Some 0) = true.
Proof. vm_compute. reflexivity. Qed.

(* the hypotheses of the acyclic statements are satisfiable, and such builds can succeed *)
Example chain_succeeds :
  let cfg := mkConfig 0 [(0, [1]); (1, [2])] [] [] 1 in
  ends_with cfg (auto_sched cfg 200 (init cfg)) Succeeded None = true.
Proof. vm_compute. reflexivity. Qed.

(* -- TEST: exhaustive exploration of every schedule of tiny configurations ---------------------- *)

Definition enc_status (r : status) : nat :=
  match r with Idle => 0 | Running => 1 | Succeeded => 2 | Failed EUnknown => 3 | Failed ECyclic => 4
             | Failed EBody => 5 | Failed EDepFailed => 6 end.

Definition enc_list (l : list nat) : list nat := length l :: l.

Definition enc_pc (p : pc) : list nat :=
  match p with
  | PEnter => [0] | PLoad => [1] | PExit1 => [2] | PStart i => [3; i] | PPublish => [4]
  | PWalk d fr => 5 :: d :: length fr :: flat_map enc_list fr
  | PCycle => [6] | PWait i => [7; i] | PClear => [8] | PEnter2 => [9] | PBody => [10]
  | PFinish o => [11; enc_status o] | PExit2 => [12] | PDone => [13]
  end.

Definition enc_thread (o : option thread) : list nat :=
  match o with
  | None => [0]
  | Some t => 1 :: enc_pc (t_pc t) ++ enc_list (map enc_status (t_res t)) ++ enc_list (t_seen t)
  end.

(* everything the step function reads (the ghosts are not part of the key) *)
Definition key (ls : list label) (s : state) : list nat :=
  cap s :: match mainpc s with MStart => 0 | MWait => 1 | MDone r => 2 + enc_status r end ::
  flat_map (fun l => enc_status (st s l) ::
                     match waiting s l with None => [0] | Some ds => 1 :: enc_list ds end ++
                     enc_thread (thr s l)) ls.

Fixpoint key_eqb (a b : list nat) : bool :=
  match a, b with
  | [], [] => true
  | x :: a', y :: b' => Nat.eqb x y && key_eqb a' b'
  | _, _ => false
  end.

Definition seen_key (k : list nat) (vs : list (list nat)) : bool := existsb (key_eqb k) vs.

Definition successors (cfg : config) (s : state) : list state :=
  flat_map (fun t => match step cfg s t with Some s' => [s'] | None => [] end) (all_tids s).

(* per-state test: slot conservation, executing <= limit, stuck => quiescent with the expected outcome *)
Definition state_ok (cfg : config) (expect : state -> bool) (s : state) : bool :=
  Nat.eqb (cap s + holders s) (c_limit cfg) && (executing s <=? c_limit cfg) &&
  match successors cfg s with
  | [] => finished s && expect s
  | _ => true
  end.

(* worklist exploration; returns (all states ok, number of distinct states, exhausted the state space) *)
Fixpoint explore (cfg : config) (ls : list label) (expect : state -> bool) (fuel : nat)
         (visited : list (list nat)) (work : list state) (ok : bool) (n : nat) : bool * nat * bool :=
  match fuel with
  | 0 => (ok, n, false)
  | S f =>
      match work with
      | [] => (ok, n, true)
      | s :: rest =>
          let k := key ls s in
          if seen_key k visited then explore cfg ls expect f visited rest ok n
          else explore cfg ls expect f (k :: visited) (successors cfg s ++ rest)
                       (ok && state_ok cfg expect s) (S n)
      end
  end.

Definition explore_all (cfg : config) (ls : list label) (expect : state -> bool) (fuel : nat) :=
  explore cfg ls expect fuel [] [init cfg] true 0.

Definition root_failed_and_cyc (cfg : config) (ls : list label) (s : state) : bool :=
  is_failed (st s (c_root cfg)) && existsb (has_cyc s) ls && Nat.eqb (cap s) (c_limit cfg).


Definition explore_fuel : nat := 400 * 400.
Definition inner_cycle : config := mkConfig 0 [(0, [1]); (1, [2]); (2, [1])] [] [] 2.

(** TEST (exhaustive over ALL schedules of these tiny configurations, by vm_compute): every reachable state
    conserves slots and respects the limit, every state without an enabled thread is quiescent, and in every
    such final state the root has Failed, some target holds a Cyclic result and the gate is full.
    The three components are (all states ok, number of distinct states, state space exhausted). *)
Example test_all_schedules_cycle2_limit1 :
  explore_all (cycle2 1) [0; 1] (root_failed_and_cyc (cycle2 1) [0; 1]) explore_fuel = (true, 134, true).
Proof. vm_compute. reflexivity. Qed.

Example test_all_schedules_cycle2_limit2 :
  explore_all (cycle2 2) [0; 1] (root_failed_and_cyc (cycle2 2) [0; 1]) explore_fuel = (true, 160, true).
Proof. vm_compute. reflexivity. Qed.

Example test_all_schedules_selfloop :
  explore_all selfloop [0] (root_failed_and_cyc selfloop [0]) explore_fuel = (true, 15, true).
Proof. vm_compute. reflexivity. Qed.

Example test_all_schedules_inner_cycle_limit2 :
  explore_all inner_cycle [0; 1; 2] (root_failed_and_cyc inner_cycle [0; 1; 2]) explore_fuel = (true, 1092, true).
Proof. vm_compute. reflexivity. Qed.

(* an acyclic configuration with a failing leaf, limit 1: every final state has the root Failed (DepFailed),
   no Cyclic result anywhere, and the gate full *)
Example test_all_schedules_fan_fail_limit1 :
  explore_all fan_fail [0; 1; 2]
              (fun s => status_eqb (st s 0) (Failed EDepFailed) && negb (existsb (has_cyc s) [0; 1; 2]) &&
                        Nat.eqb (cap s) 1) explore_fuel = (true, 342, true).
Proof. vm_compute. reflexivity. Qed.
