(** Facts about the cycle-detection walk and the invariant that makes deadlock impossible:
    when a thread has completed its walk without finding a cycle, its visited set is closed under
    every waiting edge that was published no later than its own publication and is still published. *)
From Coq Require Import List Arith Bool Lia.
From Dawn Require Import Runner.Model Runner.Lemmas Runner.Core.
Import ListNotations.

Lemma some_inj {A} (a b : A) : Some a = Some b -> a = b.
Proof. intros H. injection H. auto. Qed.

Lemma mem_In x l : mem x l = true <-> In x l.
Proof.
  unfold mem. rewrite existsb_exists. split.
  - intros (y & Hy & E). apply Nat.eqb_eq in E. subst. exact Hy.
  - intros H. exists x. split; [exact H|apply Nat.eqb_refl].
Qed.

Lemma mem_false_In x l : mem x l = false <-> ~ In x l.
Proof. rewrite <- mem_In. destruct (mem x l); split; congruence. Qed.

Lemma scan_frame_spec l seen f :
  match scan_frame l seen f with
  | FrameDone => forall y, In y f -> In y seen /\ y <> l
  | FrameCycle => In l f
  | FrameFound d rest =>
      d <> l /\ ~ In d seen /\ In d f /\ incl rest f /\ forall y, In y f -> In y seen \/ y = d \/ In y rest
  end.
Proof.
  induction f as [|a f IH]; simpl.
  - intros y [].
  - destruct (Nat.eqb_spec a l) as [->|Hne].
    + left; reflexivity.
    + destruct (mem a seen) eqn:Em.
      * destruct (scan_frame l seen f) as [| |d rest].
        -- intros y [<-|Hy]; [split; [apply mem_In; exact Em|exact Hne]|apply IH; exact Hy].
        -- right; exact IH.
        -- destruct IH as (A & B & C & D & E). repeat split; auto.
           ++ intros y Hy. right. apply D. exact Hy.
           ++ intros y [<-|Hy]; [left; apply mem_In; exact Em|apply E; exact Hy].
      * repeat split; auto.
        -- apply mem_false_In. exact Em.
        -- intros y Hy. right. exact Hy.
        -- intros y [<-|Hy]; auto.
Qed.

Definition pend_of (w : wnext) : list label :=
  match w with WLoad d fr => d :: concat fr | _ => [] end.

Lemma walk_next_spec l seen fr :
  match walk_next l seen fr with
  | WDone => forall y, In y (concat fr) -> In y seen /\ y <> l
  | WCycle => In l (concat fr)
  | WLoad d fr' =>
      d <> l /\ ~ In d seen /\ In d (concat fr) /\ incl (concat fr') (concat fr) /\
      forall y, In y (concat fr) -> In y seen \/ y = d \/ In y (concat fr')
  end.
Proof.
  induction fr as [|f up IH]; simpl.
  - intros y [].
  - pose proof (scan_frame_spec l seen f) as Hf. destruct (scan_frame l seen f) as [| |d rest].
    + destruct (walk_next l seen up) as [| |d fr'].
      * intros y Hy. apply in_app_or in Hy. destruct Hy as [Hy|Hy]; [apply Hf|apply IH]; exact Hy.
      * apply in_or_app. right. exact IH.
      * destruct IH as (A & B & C & D & E). repeat split; auto.
        -- apply in_or_app. right. exact C.
        -- intros y Hy. apply in_or_app. right. apply D. exact Hy.
        -- intros y Hy. apply in_app_or in Hy. destruct Hy as [Hy|Hy]; [left; apply Hf; exact Hy|apply E; exact Hy].
    + apply in_or_app. left. exact Hf.
    + destruct Hf as (A & B & C & D & E). simpl. repeat split; auto.
      * apply in_or_app. left. exact C.
      * intros y Hy. apply in_app_or in Hy. apply in_or_app. destruct Hy as [Hy|Hy]; [left; apply D; exact Hy|right; exact Hy].
      * intros y Hy. apply in_app_or in Hy. destruct Hy as [Hy|Hy].
        -- destruct (E y Hy) as [?|[?|?]]; auto. right; right. apply in_or_app. left. assumption.
        -- right; right. apply in_or_app. right. exact Hy.
Qed.

(* every pending element of the old frames is visited or still pending after the scan *)
Lemma walk_next_covers l seen fr y : walk_next l seen fr <> WCycle -> In y (concat fr) ->
  In y seen \/ In y (pend_of (walk_next l seen fr)).
Proof.
  intros Hnc Hy. pose proof (walk_next_spec l seen fr) as H. destruct (walk_next l seen fr) as [| |d fr'].
  - left. apply H. exact Hy.
  - contradiction.
  - destruct H as (_ & _ & _ & _ & E). destruct (E y Hy) as [?|[->|?]]; [left; assumption|right; left; reflexivity|right; right; assumption].
Qed.

(* -- the closure invariant -------------------------------------------------------------------- *)

Definition closure (cfg : config) (s : state) (l : label) (S P : list label) : Prop :=
  ~ In l S /\
  (forall y, In y (deps cfg l) -> In y S \/ In y P) /\
  (forall x ds y, In x S -> waiting s x = Some ds -> pub s x <= pub s l -> In y ds -> In y S \/ In y P).

Definition winv (cfg : config) (s : state) (l : label) (t : thread) : Prop :=
  (publ_pc (t_pc t) = true -> pub s l < clock s) /\
  match t_pc t with
  | PWalk d fr => d <> l /\ closure cfg s l (t_seen t) (d :: concat fr)
  | PWait _ => closure cfg s l (t_seen t) []
  | _ => True
  end.

Definition walk_inv (cfg : config) (s : state) : Prop :=
  forall l t, thr s l = Some t -> winv cfg s l t.

(* what a step does to waiting sets and publication times *)
Lemma start_target_wp s d : waiting (start_target s d) = waiting s /\ pub (start_target s d) = pub s /\
  clock (start_target s d) = clock s.
Proof. unfold start_target. destruct (is_idle (st s d)); auto. Qed.

Lemma shape_wp cfg s t s0 : step_shape cfg s t s0 ->
  clock s0 = clock s /\
  ((waiting s0 = waiting s /\ pub s0 = pub s) \/
   (exists l, t = T l /\ waiting s0 = upd (waiting s) l (Some (deps cfg l)) /\ pub s0 = upd (pub s) l (clock s)) \/
   (exists l, t = T l /\ waiting s0 = upd (waiting s) l None /\ pub s0 = pub s)).
Proof.
  intros Hsh. destruct Hsh; simp_state;
    try (match goal with |- context [start_target s ?d] => destruct (start_target_wp s d) as (-> & -> & ->) end);
    try (split; [reflexivity|left; split; reflexivity]).
  - split; [reflexivity|]. right; left. exists l. auto.
  - split; [reflexivity|]. right; right. exists l. auto.
  - destruct (existsb is_failed r); split; try reflexivity; left; split; reflexivity.
Qed.

Lemma closure_frame cfg s s0 l S P :
  closure cfg s l S P -> pub s0 l = pub s l ->
  (forall x ds, waiting s0 x = Some ds -> pub s0 x <= pub s l -> waiting s x = Some ds /\ pub s x <= pub s l) ->
  closure cfg s0 l S P.
Proof.
  intros (A & B & C) Ep Hw. split; [exact A|split; [exact B|]].
  intros x ds y Hx Hwx Hp Hy. rewrite Ep in Hp. destruct (Hw x ds Hwx Hp) as [W1 W2]. eapply C; eauto.
Qed.

(* frame: a thread that does not take the step keeps its winv *)
Lemma winv_other cfg s t s0 l th :
  step_shape cfg s t s0 -> t <> T l -> winv cfg s l th -> winv cfg (tick s0) l th.
Proof.
  intros Hsh Hne (W1 & W2). destruct (shape_wp cfg s t s0 Hsh) as (Ec & Hwp).
  assert (Hpl : pub s0 l = pub s l).
  { destruct Hwp as [[_ ->]|[(x & -> & _ & ->)|(x & -> & _ & ->)]]; try reflexivity.
    apply upd_other. congruence. }
  assert (Hcl : forall S P, publ_pc (t_pc th) = true -> closure cfg s l S P -> closure cfg (tick s0) l S P).
  { intros S P Hpub Hcl. apply (closure_frame cfg s); [exact Hcl|exact Hpl|]. cbn [waiting pub tick].
    specialize (W1 Hpub).
    destruct Hwp as [[-> ->]|[(x0 & -> & -> & ->)|(x0 & -> & -> & ->)]]; intros x ds Hx Hp.
    - auto.
    - upd_cases x x0; [lia|auto].
    - upd_cases x x0; [discriminate|auto]. }
  split.
  - intros Hpub. cbn [pub clock tick]. rewrite Hpl, Ec. specialize (W1 Hpub). lia.
  - destruct (t_pc th) eqn:Epc; try exact I.
    + destruct W2 as [W2 W3]. split; [exact W2|]. apply Hcl; [reflexivity|exact W3].
    + apply Hcl; [reflexivity|exact W2].
Qed.

Lemma winv_new cfg s l : winv cfg s l new_thread.
Proof. split; [discriminate|exact I]. Qed.

Lemma closure_tick cfg s l S P : closure cfg (tick s) l S P <-> closure cfg s l S P.
Proof. reflexivity. Qed.

Theorem walk_step cfg s t s' : core cfg s -> walk_inv cfg s -> step cfg s t = Some s' -> walk_inv cfg s'.
Proof.
  intros Hc Hi Hs. apply step_shapes in Hs. destruct Hs as (s0 & Hsh & ->).
  intros x tx Hx. cbn [thr tick] in Hx.
  destruct (tid_eq_dec t (T x)) as [->|Hne].
  2:{ destruct (shape_thr_other cfg s t s0 x Hsh Hne) as [E|[_ E]]; rewrite E in Hx.
      - eapply winv_other; eauto.
      - inversion Hx. apply winv_new. }
  pose proof Hc as (_ & _ & _ & Hsome).
  inversion Hsh; subst; simp_state; rewrite upd_same in Hx; apply some_inj in Hx; subst tx;
    pose proof (Hi x _ H0) as (W1 & W2); cbn [t_pc t_seen t_res] in *;
    try (split; [try discriminate; intros _; cbn [pub clock tick]; simp_state; specialize (W1 eq_refl); lia|exact I]).
  - (* exit1 *) destruct (goto_start_cases cfg x 0) as [[_ ->]|[_ ->]]; split; try discriminate; exact I.
  - (* start *) destruct (goto_start_cases cfg x (S i)) as [[_ ->]|[_ ->]]; split; try discriminate; exact I.
  - (* publish *)
    pose proof (walk_next_spec x [] [deps cfg x]) as Hspec.
    set (w := walk_next x [] [deps cfg x]) in *. clearbody w.
    unfold winv. cbn [t_pc t_seen pub clock tick set_thr set_waiting]. rewrite upd_same.
    split; [intros _; lia|].
    destruct w as [| |d fr']; cbn [walk_goto].
    + destruct (goto_wait_cases cfg x 0) as [[_ ->]|[_ ->]]; [|exact I].
      split; [intros []|split].
      * intros y Hy. left. apply Hspec. simpl. rewrite app_nil_r. exact Hy.
      * intros ? ? ? [].
    + exact I.
    + destruct Hspec as (A & B & C & D & E). split; [exact A|]. split; [intros []|split].
      * intros y Hy. right. simpl in E. rewrite app_nil_r in E. destruct (E y Hy) as [[]|[->|?]]; [left; reflexivity|right; assumption].
      * intros ? ? ? [].
  - (* walk *)
    destruct W2 as (Hdl & (C1 & C2 & C3)).
    set (fr2 := match waiting s d with Some ds => ds :: fr | None => fr end).
    assert (Hsub : forall y, In y (concat fr) -> In y (concat fr2)).
    { intros y Hy. unfold fr2. destruct (waiting s d); [simpl; apply in_or_app; right|]; exact Hy. }
    pose proof (walk_next_spec x (d :: sn) fr2) as Hspec.
    pose proof (walk_next_covers x (d :: sn) fr2) as Hcov.
    assert (Hnew : walk_next x (d :: sn) fr2 <> WCycle ->
                   closure cfg s x (d :: sn) (pend_of (walk_next x (d :: sn) fr2))).
    { intros Hnc. split; [|split].
      - intros [E|Hin]; [congruence|contradiction].
      - intros y Hy. destruct (C2 y Hy) as [Hs|[<-|Hp]].
        + left; right; exact Hs.
        + left; left; reflexivity.
        + apply Hcov; [exact Hnc|apply Hsub; exact Hp].
      - intros x0 ds y [<-|Hx0] Hw Hp Hy.
        + apply Hcov; [exact Hnc|]. unfold fr2. rewrite Hw. simpl. apply in_or_app. left. exact Hy.
        + destruct (C3 x0 ds y Hx0 Hw Hp Hy) as [Hs|[<-|Hq]].
          * left; right; exact Hs.
          * left; left; reflexivity.
          * apply Hcov; [exact Hnc|apply Hsub; exact Hq]. }
    fold fr2. set (w := walk_next x (d :: sn) fr2) in *. clearbody w.
    unfold winv. cbn [t_pc t_seen pub clock tick set_thr].
    destruct w as [| |d' fr']; cbn [walk_goto].
    + destruct (goto_wait_cases cfg x 0) as [[_ ->]|[_ ->]].
      * split; [intros _; specialize (W1 eq_refl); lia|]. apply Hnew. discriminate.
      * split; [intros _; specialize (W1 eq_refl); lia|exact I].
    + split; [intros _; specialize (W1 eq_refl); lia|exact I].
    + split; [intros _; specialize (W1 eq_refl); lia|]. destruct Hspec as (A & _). split; [exact A|].
      apply Hnew. discriminate.
  - (* wait *)
    unfold winv. cbn [t_pc t_seen pub clock tick set_thr].
    destruct (goto_wait_cases cfg x (S i)) as [[_ ->]|[_ ->]];
      (split; [intros _; specialize (W1 eq_refl); lia|]); [exact W2|exact I].
Qed.

Theorem walk_reachable cfg s : reachable cfg s -> walk_inv cfg s.
Proof.
  intros Hr. pattern s. revert s Hr. apply reachable_ind'.
  - intros l t Ht. discriminate.
  - intros s t s' Hr Hi Hs. eapply walk_step; eauto. apply core_reachable. exact Hr.
Qed.
