(** Trace acceptance for the runner: maps each logged hook event of a real run of /repo/runner to the
    model step it witnesses, checks that the step is enabled in the model and that the values the
    implementation observed (capacity after a gate operation, nil/non-nil of a waiting load, whether a
    start found the target Idle, the result of a wait, a finishing status ...) equal the model's.
    A trace is accepted when every event is, and the final model state is quiescent with the gate full. *)
From Coq Require Import List Arith Bool ZArith NArith.
From Dawn Require Import Runner.Model Runner.Report.
Import ListNotations.

Inductive event :=
| EvGateEnter (t : tid) (capAfter : Z)
| EvGateExit (t : tid) (capAfter : Z)
| EvLoaded (l : label) (ok : bool)
| EvEvalBegin (l : label) (labels : list label)
| EvStart (t : tid) (d : label) (ran : bool)
| EvPublish (l : label) (labels : list label)
| EvWalkLoad (l d : label) (nonnil : bool)
| EvWalkCycle (l d : label)
| EvWaitEnd (l d : label) (ok : bool)
| EvClear (l : label)
| EvResults (l : label) (classes : list nat)  (* what Evaluate was handed, per dependency: 0 ok, 1 failed, 2 cyclic-dependency error *)
| EvBody (l : label) (kind : nat)        (* 0 body ran ok, 1 body failed, 2 skipped: a dependency failed *)
| EvFinished (l : label) (code : nat)    (* the Go status constant: 2 succeeded, 3 failed *)
| EvMainReturned
| EvMainResult (ok : bool).

Fixpoint list_eqb (a b : list label) : bool :=
  match a, b with
  | [], [] => true
  | x :: a', y :: b' => Nat.eqb x y && list_eqb a' b'
  | _, _ => false
  end.

Definition guard (b : bool) (s : state) : option state := if b then Some s else None.

Definition is_some {A} (o : option A) : bool := match o with Some _ => true | None => false end.

Definition status_ok (r : status) : bool := match r with Failed _ => false | _ => true end.

Definition outcome_kind (o : status) : nat :=
  match o with Succeeded => 0 | Failed EBody => 1 | Failed EDepFailed => 2 | _ => 3 end.

Definition status_code (o : status) : nat :=
  match o with Idle => 0 | Running => 1 | Succeeded => 2 | Failed _ => 3 end.

Definition nth_is (cfg : config) (l : label) (i : nat) (d : label) : bool :=
  match nth_error (deps cfg l) i with Some d' => Nat.eqb d d' | None => false end.

(* step thread [l], which must be at a pc satisfying [want]; then check [post] on the new state *)
Definition at_pc (cfg : config) (s : state) (l : label) (want : pc -> bool) (post : state -> bool) : option state :=
  match pc_of s l with
  | Some p =>
      if want p then
        match step cfg s (T l) with
        | Some s' => guard (post s') s'
        | None => None
        end
      else None
  | None => None
  end.

Definition replay1 (cfg : config) (s : state) (e : event) : option state :=
  match e with
  | EvGateEnter (T l) c =>
      at_pc cfg s l (fun p => match p with PEnter | PEnter2 => true | _ => false end)
            (fun s' => Z.eqb (Z.of_nat (cap s')) c)
  | EvGateEnter TMain _ => None
  | EvGateExit (T l) c =>
      at_pc cfg s l (fun p => match p with PExit1 | PExit2 => true | _ => false end)
            (fun s' => Z.eqb (Z.of_nat (cap s')) c)
  | EvGateExit TMain _ => None
  | EvLoaded l ok =>
      at_pc cfg s l (fun p => match p with PLoad => Bool.eqb ok (negb (unknown cfg l)) | _ => false end)
            (fun _ => true)
  | EvEvalBegin l labels =>
      match pc_of s l with
      | Some PExit1 => guard (list_eqb labels (deps cfg l)) s
      | _ => None
      end
  | EvStart TMain d ran =>
      match mainpc s with
      | MStart =>
          if Nat.eqb d (c_root cfg) && Bool.eqb ran (is_idle (st s d)) then step cfg s TMain else None
      | _ => None
      end
  | EvStart (T l) d ran =>
      at_pc cfg s l (fun p => match p with
                              | PStart i => nth_is cfg l i d && Bool.eqb ran (is_idle (st s d))
                              | _ => false end)
            (fun _ => true)
  | EvPublish l labels =>
      at_pc cfg s l (fun p => match p with PPublish => list_eqb labels (deps cfg l) | _ => false end)
            (fun _ => true)
  | EvWalkLoad l d nonnil =>
      at_pc cfg s l (fun p => match p with
                              | PWalk d' _ => Nat.eqb d d' && Bool.eqb nonnil (is_some (waiting s d))
                              | _ => false end)
            (fun _ => true)
  | EvWalkCycle l d =>
      at_pc cfg s l (fun p => match p with PCycle => Nat.eqb d l | _ => false end) (fun _ => true)
  | EvWaitEnd l d ok =>
      at_pc cfg s l (fun p => match p with
                              | PWait i => nth_is cfg l i d && Bool.eqb ok (status_ok (st s d))
                              | _ => false end)
            (fun _ => true)
  | EvClear l =>
      at_pc cfg s l (fun p => match p with PClear => true | _ => false end) (fun _ => true)
  | EvResults l classes =>
      (* logged by the (fake) target after EvaluateTargets returned, before it acts on the results: no model step *)
      match thr s l with
      | Some t =>
          match t_pc t with
          | PBody => guard (list_eqb classes (map res_class (t_res t))) s
          | _ => None
          end
      | None => None
      end
  | EvBody l k =>
      at_pc cfg s l (fun p => match p with PBody => true | _ => false end)
            (fun s' => match pc_of s' l with Some (PFinish o) => Nat.eqb (outcome_kind o) k | _ => false end)
  | EvFinished l code =>
      at_pc cfg s l (fun p => match p with PFinish o => Nat.eqb (status_code o) code | _ => false end)
            (fun _ => true)
  | EvMainReturned =>
      match mainpc s with MWait => step cfg s TMain | _ => None end
  | EvMainResult ok =>
      match mainpc s with
      | MDone r => guard (Bool.eqb ok (status_ok r) && negb (is_idle r)) s
      | _ => None
      end
  end.

Fixpoint replay (cfg : config) (s : state) (evs : list event) : option state :=
  match evs with
  | [] => Some s
  | e :: rest => match replay1 cfg s e with Some s' => replay cfg s' rest | None => None end
  end.

(* index (from 1) of the first rejected event; 0 = all accepted but the final state is not quiescent
   with a full gate; None = accepted *)
Fixpoint replay_at (cfg : config) (s : state) (evs : list event) (i : N) : option N :=
  match evs with
  | [] => if finished s && Nat.eqb (cap s) (c_limit cfg) then None else Some 0%N
  | e :: rest =>
      match replay1 cfg s e with
      | Some s' => replay_at cfg s' rest (N.succ i)
      | None => Some i
      end
  end.

Definition accept (cfg : config) (evs : list event) : option N := replay_at cfg (init cfg) evs 1%N.

(* the check's entry point: each case is (trace number, config, events); the answer lists
   trace number * 100000 + index of the first rejected event for every rejected trace *)
Definition rejected (cases : list (N * config * list event)) : list N :=
  flat_map (fun c => match c with
                     | (n, cfg, evs) =>
                         match accept cfg evs with
                         | None => []
                         | Some i => [(n * 100000 + i)%N]
                         end
                     end) cases.
