(** C05: deadlock freedom, no false cycle reports, bounded walks, termination, cyclic builds fail. *)
From Coq Require Import List Arith Bool Lia Relations.
From Dawn Require Import Runner.Model Runner.Lemmas Runner.Core Runner.Proofs_C09 Runner.Proofs_C04 Runner.Walk.
Import ListNotations.

(* ============================================================================================ *)
(** * Deadlock freedom *)

Lemma filter_len_le (g : label -> bool) W : length (filter g W) <= length W.
Proof. induction W as [|a W IH]; simpl; [lia|]. destruct (g a); simpl; lia. Qed.

Lemma filter_length_lt (g : label -> bool) m W : In m W -> g m = false -> length (filter g W) < length W.
Proof.
  induction W as [|a W IH]; intros Hin Hg; [contradiction|]. simpl.
  destruct Hin as [->|Hin].
  - rewrite Hg. pose proof (filter_len_le g W). lia.
  - specialize (IH Hin Hg). destruct (g a); simpl; lia.
Qed.

Lemma list_max_by (f : label -> nat) W : W <> [] -> exists m, In m W /\ forall x, In x W -> f x <= f m.
Proof.
  induction W as [|a W IH]; intros Hne; [contradiction|].
  destruct W as [|b W'].
  - exists a. split; [left; reflexivity|]. intros x [<-|[]]. lia.
  - destruct IH as (m & Hm & Hmax); [discriminate|].
    destruct (Nat.le_gt_cases (f a) (f m)).
    + exists m. split; [right; exact Hm|]. intros x [<-|Hx]; [assumption|apply Hmax; exact Hx].
    + exists a. split; [left; reflexivity|]. intros x [<-|Hx]; [lia|]. specialize (Hmax x Hx). lia.
Qed.

(** No set of threads can wait on each other in a closed pattern: the member that published last has a visited
    set that is closed under the waiting edges of the others, contains its dependencies and not itself. *)
Lemma no_wait_cycle cfg s : core cfg s -> walk_inv cfg s -> forall n W, length W <= n ->
  (forall l, In l W -> exists t i d,
      thr s l = Some t /\ t_pc t = PWait i /\ nth_error (deps cfg l) i = Some d /\ In d W) ->
  W = [].
Proof.
  intros Hc Hw. induction n as [|n IH]; intros W Hlen Hcl.
  - destruct W; [reflexivity|simpl in Hlen; lia].
  - destruct W as [|a W0]; [reflexivity|exfalso].
    set (W := a :: W0) in *.
    destruct (list_max_by (pub s) W) as (m & Hm & Hmax); [discriminate|].
    destruct (Hcl m Hm) as (tm & im & dm & Htm & Hpm & Hnm & Hdm).
    pose proof (Hw m tm Htm) as (_ & Wm). rewrite Hpm in Wm. destruct Wm as (C1 & C2 & C3).
    set (S := t_seen tm) in *.
    set (W' := filter (fun x => mem x S) W).
    assert (HW' : W' = []).
    { apply IH.
      - assert (length W' < length W); [|lia]. apply (filter_length_lt _ m); [exact Hm|].
        apply mem_false_In. exact C1.
      - intros l Hl. apply filter_In in Hl. destruct Hl as [HlW HlS]. apply mem_In in HlS.
        destruct (Hcl l HlW) as (t & i & d & Ht & Hp & Hn & Hd).
        exists t, i, d. repeat split; auto. apply filter_In. split; [exact Hd|]. apply mem_In.
        destruct Hc as (_ & _ & _ & Hsome). destruct (Hsome l t Ht) as (_ & Hwt & _). rewrite Hp in Hwt. simpl in Hwt.
        destruct (C3 l (deps cfg l) d HlS Hwt (Hmax l HlW)) as [?|[]]; [|assumption].
        eapply nth_error_In; eauto. }
    assert (In dm W').
    { apply filter_In. split; [exact Hdm|]. apply mem_In. destruct (C2 dm) as [?|[]]; [|assumption].
      eapply nth_error_In; eauto. }
    rewrite HW' in H. contradiction.
Qed.

(* when is a thread unable to step? *)
Lemma thread_blocked_cases cfg s l t : core cfg s -> thr s l = Some t -> step cfg s (T l) = None ->
  ((t_pc t = PEnter \/ t_pc t = PEnter2) /\ cap s = 0) \/
  (exists i d, t_pc t = PWait i /\ nth_error (deps cfg l) i = Some d /\ st s d = Running) \/
  t_pc t = PDone.
Proof.
  intros (_ & _ & _ & Hsome) Ht Hs. destruct (Hsome l t Ht) as (_ & _ & _ & D).
  unfold step in Hs. rewrite Ht in Hs. destruct t as [p r sn]. unfold step_thread in Hs. unfold pc_wf in D.
  cbn [t_pc t_res t_seen] in *. destruct p; try discriminate.
  - left. split; [left; reflexivity|]. destruct (cap s); [reflexivity|discriminate].
  - destruct (unknown cfg l); discriminate.
  - destruct D as [D _]. apply nth_error_Some in D. destruct (nth_error (deps cfg l) i); [discriminate|congruence].
  - right; left. destruct D as [D _]. apply nth_error_Some in D.
    destruct (nth_error (deps cfg l) i) as [d|] eqn:En; [|congruence].
    exists i, d. split; [reflexivity|split; [exact En|]].
    destruct (st s d); simpl in Hs; try discriminate. reflexivity.
  - left. split; [right; reflexivity|]. destruct (cap s); [reflexivity|discriminate].
  - right; right. reflexivity.
Qed.

Lemma holder_enabled cfg s l t : thr s l = Some t -> holder_pc (t_pc t) = true -> step cfg s (T l) <> None.
Proof.
  intros Ht Hh. unfold step. rewrite Ht. destruct t as [p r sn]. unfold step_thread. cbn [t_pc t_res t_seen] in *.
  destruct p; simpl in Hh; try discriminate; try (destruct (unknown cfg l)); discriminate.
Qed.

Lemma count_pos_exists f s : 0 < count_pc f s -> exists l t, thr s l = Some t /\ f (t_pc t) = true.
Proof.
  rewrite count_pc_eq. intros H. destruct (filter (pcsel f s) (spawned s)) as [|l ls] eqn:E; [simpl in H; lia|].
  assert (Hin : In l (filter (pcsel f s) (spawned s))) by (rewrite E; left; reflexivity).
  apply filter_In in Hin. destruct Hin as [_ Hp]. unfold pcsel, pc_of in Hp.
  destruct (thr s l) as [t|] eqn:Ht; [|discriminate]. eauto.
Qed.

Definition stuck (cfg : config) (s : state) : Prop := forall t, step cfg s t = None.

(* in a stuck state every live thread sits in Wait on a Running dependency *)
Lemma stuck_threads_wait cfg s l t : 1 <= c_limit cfg -> core cfg s -> gate_inv cfg s -> stuck cfg s ->
  thr s l = Some t ->
  (exists i d, t_pc t = PWait i /\ nth_error (deps cfg l) i = Some d /\ st s d = Running) \/ t_pc t = PDone.
Proof.
  intros Hlim Hc (G1 & _) Hst Ht.
  destruct (thread_blocked_cases cfg s l t Hc Ht (Hst (T l))) as [[_ Hcap]|H]; [exfalso|exact H].
  assert (0 < holders s) by lia.
  destruct (count_pos_exists holder_pc s H) as (l' & t' & Ht' & Hh).
  apply (holder_enabled cfg s l' t' Ht' Hh). apply Hst.
Qed.

Lemma running_thread_waits cfg s d : 1 <= c_limit cfg -> core cfg s -> gate_inv cfg s -> stuck cfg s ->
  st s d = Running ->
  exists t i d', thr s d = Some t /\ t_pc t = PWait i /\ nth_error (deps cfg d) i = Some d' /\ st s d' = Running.
Proof.
  intros Hlim Hc Hg Hst Hr. pose proof Hc as (_ & _ & Hnone & Hsome).
  destruct (thr s d) as [t|] eqn:Ht.
  - destruct (stuck_threads_wait cfg s d t Hlim Hc Hg Hst Ht) as [(i & d' & A & B & C)|Hd].
    + exists t, i, d'. auto.
    + destruct (Hsome d t Ht) as (Hok & _). rewrite Hd in Hok. simpl in Hok. rewrite Hr in Hok. discriminate.
  - destruct (Hnone d Ht) as [E _]. congruence.
Qed.

Definition at_wait (s : state) (l : label) : bool :=
  match pc_of s l with Some (PWait _) => true | _ => false end.

Theorem stuck_is_finished cfg s : 1 <= c_limit cfg -> reachable cfg s -> stuck cfg s -> finished s = true.
Proof.
  intros Hlim Hr Hst.
  pose proof (core_reachable cfg s Hr) as Hc. pose proof (gate_reachable cfg s Hr) as Hg.
  pose proof (walk_reachable cfg s Hr) as Hw.
  set (W := filter (at_wait s) (spawned s)).
  assert (HW : W = []).
  { apply (no_wait_cycle cfg s Hc Hw (length W) W (le_n _)).
    intros l Hl. apply filter_In in Hl. destruct Hl as [Hsp Haw]. unfold at_wait, pc_of in Haw.
    destruct (thr s l) as [t|] eqn:Ht; [|discriminate].
    destruct (stuck_threads_wait cfg s l t Hlim Hc Hg Hst Ht) as [(i & d & A & B & C)|Hd].
    - exists t, i, d. repeat split; auto.
      destruct (running_thread_waits cfg s d Hlim Hc Hg Hst C) as (td & j & d' & Htd & Hpd & _).
      apply filter_In. split.
      + destruct Hc as (_ & Hin & _). apply Hin. congruence.
      + unfold at_wait, pc_of. rewrite Htd, Hpd. reflexivity.
    - rewrite Hd in Haw. discriminate. }
  assert (Hnw : forall l, st s l = Running -> False).
  { intros l Hl. destruct (running_thread_waits cfg s l Hlim Hc Hg Hst Hl) as (t & i & d' & Ht & Hp & _).
    assert (In l W); [|rewrite HW in H; contradiction].
    apply filter_In. split.
    - destruct Hc as (_ & Hin & _). apply Hin. congruence.
    - unfold at_wait, pc_of. rewrite Ht, Hp. reflexivity. }
  unfold finished. apply andb_true_iff. split.
  - pose proof (Hst TMain) as Hm. unfold step, step_main in Hm. unfold main_done.
    destruct (mainpc s); [discriminate| |reflexivity].
    destruct (st s (c_root cfg)) eqn:E; simpl in Hm; try discriminate. exfalso. eapply Hnw; eauto.
  - apply forallb_forall. intros l Hl. unfold thread_done. destruct (thr s l) as [t|] eqn:Ht; [|reflexivity].
    destruct (stuck_threads_wait cfg s l t Hlim Hc Hg Hst Ht) as [(i & d & A & B & C)|Hd].
    + exfalso. eapply Hnw; eauto.
    + rewrite Hd. reflexivity.
Qed.

Definition all_tids (s : state) : list tid := TMain :: map T (spawned s).

Definition can_step (cfg : config) (s : state) (t : tid) : bool :=
  match step cfg s t with Some _ => true | None => false end.

(** Every reachable state that is not quiescent has an enabled thread (for every limit >= 1). *)
Theorem deadlock_free cfg s : 1 <= c_limit cfg -> reachable cfg s -> finished s = false ->
  exists t, step cfg s t <> None.
Proof.
  intros Hlim Hr Hnf.
  destruct (existsb (can_step cfg s) (all_tids s)) eqn:E.
  - apply existsb_exists in E. destruct E as (t & _ & Ht). exists t. unfold can_step in Ht.
    destruct (step cfg s t); [discriminate|discriminate].
  - exfalso. assert (Hst : stuck cfg s).
    { intros t. destruct (step cfg s t) eqn:Es; [|reflexivity]. exfalso.
      assert (In t (all_tids s)).
      { destruct t as [|l]; [left; reflexivity|]. right. apply in_map.
        pose proof (core_reachable cfg s Hr) as (_ & Hin & _). apply Hin.
        unfold step in Es. destruct (thr s l); [discriminate|discriminate]. }
      assert (existsb (can_step cfg s) (all_tids s) = true); [|congruence].
      apply existsb_exists. exists t. split; [assumption|]. unfold can_step. rewrite Es. reflexivity. }
    rewrite (stuck_is_finished cfg s Hlim Hr Hst) in Hnf. discriminate.
Qed.

(* in particular: as long as Run has not returned, something can move *)
Corollary run_not_returned_progress cfg s : 1 <= c_limit cfg -> reachable cfg s -> main_done s = false ->
  exists t, step cfg s t <> None.
Proof.
  intros Hlim Hr Hm. apply deadlock_free; auto. unfold finished. rewrite Hm. reflexivity.
Qed.

Corollary limit_one_completes cfg s : c_limit cfg = 1 -> reachable cfg s -> finished s = false ->
  exists t, step cfg s t <> None.
Proof. intros H. apply deadlock_free. rewrite H. apply le_n. Qed.
