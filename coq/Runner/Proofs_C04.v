(** C04: at most one goroutine / LoadTarget / Evaluate / body per label; final statuses are stable;
    results handed to a dependent are the dependency's actual outcome; Run's result is the root's. *)
From Coq Require Import List Arith Bool Lia.
From Dawn Require Import Runner.Model Runner.Lemmas Runner.Core Runner.Proofs_C09.
Import ListNotations.

(* -- goroutines ----------------------------------------------------------------------------- *)

Theorem started_at_most_once cfg s : reachable cfg s -> NoDup (spawned s).
Proof. intros Hr. apply (core_reachable cfg s Hr). Qed.

Lemma start_target_spawn s d :
  (spawned (start_target s d) = spawned s /\ thr (start_target s d) = thr s) \/
  (spawned (start_target s d) = d :: spawned s /\ st s d = Idle /\ st (start_target s d) d = Running).
Proof.
  unfold start_target. destruct (is_idle (st s d)) eqn:E; [right|left; auto]. simp_state.
  rewrite upd_same. split; [reflexivity|split; [apply is_idle_true; exact E|reflexivity]].
Qed.

(* a goroutine is created only by the atomic Idle -> Running transition of its label *)
Theorem spawn_only_from_idle cfg s t s' : step cfg s t = Some s' ->
  spawned s' = spawned s \/ exists d, spawned s' = d :: spawned s /\ st s d = Idle /\ st s' d = Running.
Proof.
  intros Hs. apply step_shapes in Hs. destruct Hs as (s0 & Hsh & ->).
  destruct Hsh; simp_state; try (left; reflexivity);
    try (match goal with |- context [start_target s ?d] => destruct (start_target_spawn s d) as [[E _]|(E1 & E2 & E3)] end;
         [left; exact E|right; eauto]).
  destruct (existsb is_failed r); left; reflexivity.
Qed.

(* -- counters ------------------------------------------------------------------------------- *)

Definition loaded_pc (p : pc) : bool := match p with PEnter | PLoad => false | _ => true end.
Definition bodied_pc (p : pc) : bool := match p with PFinish _ | PExit2 | PDone => true | _ => false end.

Definition cnt_inv (s : state) : Prop :=
  forall l, match thr s l with
            | None => nload s l = 0 /\ neval s l = 0 /\ nbody s l = 0
            | Some t => nload s l = b2n (loaded_pc (t_pc t)) /\ neval s l <= nload s l /\
                        nbody s l <= b2n (bodied_pc (t_pc t))
            end.

Lemma start_target_counters s d :
  nload (start_target s d) = nload s /\ neval (start_target s d) = neval s /\ nbody (start_target s d) = nbody s.
Proof. unfold start_target. destruct (is_idle (st s d)); auto. Qed.

Lemma shape_counters_other cfg s t s0 x : step_shape cfg s t s0 -> t <> T x ->
  nload s0 x = nload s x /\ neval s0 x = neval s x /\ nbody s0 x = nbody s x.
Proof.
  intros Hsh Hne. destruct Hsh; simp_state;
    try (assert (x <> l) by congruence);
    try (destruct (start_target_counters s (c_root cfg)) as (-> & -> & ->));
    try (match goal with |- context [start_target s ?d] => destruct (start_target_counters s d) as (-> & -> & ->) end);
    try rewrite !upd_other by assumption; auto.
  destruct (existsb is_failed r); simp_state; try rewrite !upd_other by assumption; auto.
Qed.

Lemma cnt_step cfg s t s' : core cfg s -> cnt_inv s -> step cfg s t = Some s' -> cnt_inv s'.
Proof.
  intros Hc Hi Hs. apply step_shapes in Hs. destruct Hs as (s0 & Hsh & ->).
  assert (Hgoal : cnt_inv s0); [|exact Hgoal].
  intros x. destruct (tid_eq_dec t (T x)) as [->|Hne].
  - specialize (Hi x). inversion Hsh; subst; rewrite H0 in Hi; simp_state; rewrite ?upd_same;
      try (destruct (start_target_counters s d) as (-> & -> & ->));
      cbn [t_pc loaded_pc bodied_pc b2n] in *; try lia.
    + destruct (goto_start_cases cfg x 0) as [[_ ->]|[_ ->]]; simpl; lia.
    + destruct (goto_start_cases cfg x (S i)) as [[_ ->]|[_ ->]]; simpl; lia.
    + match goal with |- context [walk_goto cfg x ?w] =>
        destruct (walk_goto_cases cfg x w) as [(d' & fr' & ->)|[->|[(i & -> & _)|[-> _]]]] end; simpl; lia.
    + match goal with |- context [walk_goto cfg x ?w] =>
        destruct (walk_goto_cases cfg x w) as [(d' & fr' & ->)|[->|[(i & -> & _)|[-> _]]]] end; simpl; lia.
    + destruct (goto_wait_cases cfg x (S i)) as [[_ ->]|[_ ->]]; simpl; lia.
    + destruct (existsb is_failed r); simp_state; rewrite ?upd_same; simpl; lia.
  - destruct (shape_counters_other cfg s t s0 x Hsh Hne) as (-> & -> & ->).
    destruct (shape_thr_other cfg s t s0 x Hsh Hne) as [->|[E1 ->]]; [apply Hi|].
    specialize (Hi x). rewrite (core_idle_none _ _ _ Hc E1) in Hi. simpl. lia.
Qed.

Lemma cnt_reachable cfg s : reachable cfg s -> cnt_inv s.
Proof.
  intros Hr. pattern s. revert s Hr. apply reachable_ind'.
  - intros l. simpl. auto.
  - intros s t s' Hr Hi Hs. eapply cnt_step; eauto. apply core_reachable. exact Hr.
Qed.

Theorem loaded_and_evaluated_at_most_once cfg s l : reachable cfg s ->
  nload s l <= 1 /\ neval s l <= 1 /\ nbody s l <= 1.
Proof.
  intros Hr. pose proof (cnt_reachable cfg s Hr l) as H.
  destruct (thr s l) as [t|]; [|lia].
  destruct (loaded_pc (t_pc t)), (bodied_pc (t_pc t)); simpl in H; lia.
Qed.

(* -- statuses ------------------------------------------------------------------------------- *)

Theorem final_status_stable_step cfg s t s' l : reachable cfg s -> step cfg s t = Some s' ->
  is_final (st s l) = true -> st s' l = st s l.
Proof.
  intros Hr Hs Hf. apply step_shapes in Hs. destruct Hs as (s0 & Hsh & ->).
  change (st s0 l = st s l). eapply evolves_final; [|exact Hf].
  eapply shape_evolves; [apply core_reachable; exact Hr|exact Hsh].
Qed.

Theorem final_status_stable cfg sched : forall s s' l, reachable cfg s -> run cfg s sched = Some s' ->
  is_final (st s l) = true -> st s' l = st s l.
Proof.
  induction sched as [|t sched IH]; intros s s' l Hr Hrun Hf; simpl in Hrun.
  - inversion Hrun. reflexivity.
  - destruct (step cfg s t) as [s1|] eqn:Hs; [|discriminate].
    pose proof (final_status_stable_step cfg s t s1 l Hr Hs Hf) as E1.
    rewrite <- E1. apply IH; [eapply reachable_step; eauto|exact Hrun|rewrite E1; exact Hf].
Qed.

(* -- results -------------------------------------------------------------------------------- *)

Definition res_inv (cfg : config) (s : state) : Prop :=
  forall l t, thr s l = Some t -> forall i r, nth_error (t_res t) i = Some r ->
    r = Failed ECyclic \/ exists d, nth_error (deps cfg l) i = Some d /\ st s d = r /\ is_final r = true.

Lemma not_running_idle_final r : is_running r = false -> r <> Idle -> is_final r = true.
Proof. destruct r; simpl; congruence. Qed.

Lemma res_frame cfg s s0 l (res : list status) : st_evolves s s0 ->
  (forall i r, nth_error res i = Some r ->
    r = Failed ECyclic \/ exists d, nth_error (deps cfg l) i = Some d /\ st s d = r /\ is_final r = true) ->
  (forall i r, nth_error res i = Some r ->
    r = Failed ECyclic \/ exists d, nth_error (deps cfg l) i = Some d /\ st s0 d = r /\ is_final r = true).
Proof.
  intros He H i r Hn. destruct (H i r Hn) as [E|(d & A & B & C)]; [left; exact E|right].
  exists d. split; [exact A|split; [|exact C]]. rewrite <- B in C. rewrite (evolves_final _ _ _ He C). exact B.
Qed.

Lemma res_step cfg s t s' : core cfg s -> res_inv cfg s -> step cfg s t = Some s' -> res_inv cfg s'.
Proof.
  intros Hc Hi Hs. apply step_shapes in Hs. destruct Hs as (s0 & Hsh & ->).
  assert (Hgoal : res_inv cfg s0); [|exact Hgoal].
  pose proof (shape_evolves cfg s t s0 Hc Hsh) as He.
  intros x tx Hx. destruct (tid_eq_dec t (T x)) as [->|Hne].
  - pose proof Hc as (_ & _ & _ & Hsome).
    inversion Hsh; subst; simp_state; rewrite upd_same in Hx; inversion Hx; subst tx; clear Hx; cbn [t_res];
      try (exact (res_frame cfg s _ x _ He (Hi x _ H0))).
    + (* cycle *) intros i r0 Hn. left. apply nth_error_In in Hn. apply in_map_iff in Hn. destruct Hn as (? & <- & _). reflexivity.
    + (* wait *) destruct (Hsome _ _ H0) as (_ & _ & C & (D1 & D2)). cbn [t_pc t_res started_upto] in *.
      intros j r0 Hn. destruct (Nat.lt_ge_cases j (length r)) as [Hlt|Hge].
      * rewrite nth_error_app1 in Hn by exact Hlt. exact (Hi x _ H0 j r0 Hn).
      * rewrite nth_error_app2 in Hn by exact Hge. destruct (j - length r) as [|k] eqn:Ek.
        -- simpl in Hn. inversion Hn; subst r0. right. exists d. assert (j = i) by lia. subst j.
           split; [assumption|split; [reflexivity|]]. apply not_running_idle_final; [assumption|].
           eapply C; [eassumption|lia].
        -- simpl in Hn. destruct k; discriminate.
  - destruct (shape_thr_other cfg s t s0 x Hsh Hne) as [E|[_ E]]; rewrite E in Hx.
    + eapply res_frame; [exact He|]. exact (Hi x tx Hx).
    + inversion Hx; subst tx. intros i r Hn. destruct i; discriminate.
Qed.

Lemma res_reachable cfg s : reachable cfg s -> res_inv cfg s.
Proof.
  intros Hr. pattern s. revert s Hr. apply reachable_ind'.
  - intros l t Ht. discriminate.
  - intros s t s' Hr Hi Hs. eapply res_step; eauto. apply core_reachable. exact Hr.
Qed.

(* a result that is not the cyclic-dependency error is the dependency's actual, final status *)
Theorem results_are_actual cfg s l t i r : reachable cfg s -> thr s l = Some t ->
  nth_error (t_res t) i = Some r -> r <> Failed ECyclic ->
  exists d, nth_error (deps cfg l) i = Some d /\ st s d = r /\ is_final r = true.
Proof.
  intros Hr Ht Hn Hne. destruct (res_reachable cfg s Hr l t Ht i r Hn) as [E|H]; [contradiction|exact H].
Qed.

Definition past_request (p : pc) : bool :=
  match p with PEnter2 | PBody | PFinish _ | PExit2 | PDone => true | _ => false end.

(* a target continues past EvaluateTargets only after every requested dependency has finished
   (unless the call reported a cycle) *)
Theorem continues_after_deps cfg s l t d : reachable cfg s -> thr s l = Some t ->
  past_request (t_pc t) = true -> ~ In (Failed ECyclic) (t_res t) -> In d (deps cfg l) ->
  is_final (st s d) = true.
Proof.
  intros Hr Ht Hp Hnc Hd.
  pose proof (core_reachable cfg s Hr) as (_ & _ & _ & Hsome). destruct (Hsome l t Ht) as (_ & _ & _ & D).
  assert (Hlen : length (t_res t) = length (deps cfg l)).
  { unfold pc_wf in D. destruct (t_pc t); simpl in Hp; try discriminate; exact D. }
  apply In_nth_error in Hd. destruct Hd as [i Hi].
  assert (Hlt : i < length (t_res t)) by (rewrite Hlen; eapply nth_error_lt; eauto).
  destruct (nth_error (t_res t) i) as [r|] eqn:Hn; [|apply nth_error_None in Hn; lia].
  destruct (results_are_actual cfg s l t i r Hr Ht Hn) as (d' & A & B & C).
  - intros ->. apply Hnc. eapply nth_error_In; eauto.
  - rewrite Hi in A. inversion A; subst d'. rewrite B. exact C.
Qed.

(* -- main ----------------------------------------------------------------------------------- *)

Definition main_inv (cfg : config) (s : state) : Prop :=
  match mainpc s with
  | MStart => True
  | MWait => st s (c_root cfg) <> Idle
  | MDone r => st s (c_root cfg) = r /\ is_final r = true
  end.

Lemma shape_mainpc_thread cfg s l s0 : step_shape cfg s (T l) s0 -> mainpc s0 = mainpc s.
Proof.
  intros Hsh. inversion Hsh; subst; simp_state; try reflexivity.
  - unfold start_target. destruct (is_idle (st s d)); reflexivity.
  - destruct (existsb is_failed r); reflexivity.
Qed.

Lemma main_step cfg s t s' : core cfg s -> main_inv cfg s -> step cfg s t = Some s' -> main_inv cfg s'.
Proof.
  intros Hc Hi Hs. apply step_shapes in Hs. destruct Hs as (s0 & Hsh & ->).
  assert (Hgoal : main_inv cfg s0); [|exact Hgoal].
  pose proof (shape_evolves cfg s t s0 Hc Hsh) as He.
  destruct t as [|l].
  - inversion Hsh; subst; unfold main_inv in *; simp_state.
    + apply start_target_started.
    + match goal with Hm : mainpc s = MWait |- _ => rewrite Hm in Hi end.
      split; [reflexivity|]. apply not_running_idle_final; assumption.
  - unfold main_inv in *. rewrite (shape_mainpc_thread cfg s l s0 Hsh). destruct (mainpc s); [exact I| |].
    + eapply evolves_not_idle; eauto.
    + destruct Hi as [Hi1 Hi2]. split; [|exact Hi2]. rewrite <- Hi1 in Hi2.
      rewrite (evolves_final _ _ _ He Hi2). exact Hi1.
Qed.

Lemma main_reachable cfg s : reachable cfg s -> main_inv cfg s.
Proof.
  intros Hr. pattern s. revert s Hr. apply reachable_ind'.
  - exact I.
  - intros s t s' Hr Hi Hs. eapply main_step; eauto. apply core_reachable. exact Hr.
Qed.

Theorem run_result_is_root cfg s r : reachable cfg s -> mainpc s = MDone r ->
  st s (c_root cfg) = r /\ is_final r = true.
Proof. intros Hr Hm. pose proof (main_reachable cfg s Hr) as H. unfold main_inv in H. rewrite Hm in H. exact H. Qed.
