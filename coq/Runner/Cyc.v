(** A build whose root reaches a dependency cycle fails, and a cyclic-dependency error is reported.
    Ghost finish times: a target that finished without a cyclic result finished after all its dependencies. *)
From Coq Require Import List Arith Bool Lia Relations.
From Dawn Require Import Runner.Model Runner.Lemmas Runner.Core Runner.Proofs_C09 Runner.Proofs_C04 Runner.Walk Runner.Reach.
Import ListNotations.

Definition cyc_inv (cfg : config) (s : state) : Prop :=
  (forall l, is_final (st s l) = true -> ftime s l < clock s) /\
  (forall l t, thr s l = Some t -> is_final (st s l) = true -> ~ In (Failed ECyclic) (t_res t) ->
     forall d, In d (deps cfg l) -> is_final (st s d) = true /\ ftime s d < ftime s l) /\
  (forall l t, thr s l = Some t -> t_pc t = PFinish Succeeded \/ st s l = Succeeded ->
     existsb is_failed (t_res t) = false).

Lemma deps_final_of_res cfg s l t : core cfg s -> res_inv cfg s -> thr s l = Some t ->
  length (t_res t) = length (deps cfg l) -> ~ In (Failed ECyclic) (t_res t) ->
  forall d, In d (deps cfg l) -> exists r, In r (t_res t) /\ st s d = r /\ is_final r = true.
Proof.
  intros Hc Hres Ht Hlen Hnc d Hd. apply In_nth_error in Hd. destruct Hd as [i Hi].
  assert (Hlt : i < length (t_res t)) by (rewrite Hlen; eapply nth_error_lt; eauto).
  destruct (nth_error (t_res t) i) as [r|] eqn:Hn; [|apply nth_error_None in Hn; lia].
  exists r. split; [eapply nth_error_In; eauto|].
  destruct (Hres l t Ht i r Hn) as [->|(d' & A & B & C)].
  - exfalso. apply Hnc. eapply nth_error_In; eauto.
  - rewrite Hi in A. inversion A; subst d'. auto.
Qed.

Lemma start_target_stf s d : ftime (start_target s d) = ftime s /\
  forall x, is_final (st (start_target s d) x) = true -> st (start_target s d) x = st s x.
Proof.
  unfold start_target. destruct (is_idle (st s d)); [|auto]. simp_state. split; [reflexivity|].
  intros x. upd_cases x d; [discriminate|reflexivity].
Qed.

(* what the acting thread's step does, as far as finishing is concerned *)
Lemma shape_self_summary cfg s l s0 : core cfg s -> step_shape cfg s (T l) s0 ->
  exists t t', thr s l = Some t /\ thr s0 l = Some t' /\
    ((t_pc t = PExit2 /\ t_res t' = t_res t /\ t_pc t' = PDone /\ st s0 = st s /\ ftime s0 = ftime s) \/
     (exists o, t_pc t = PFinish o /\ t_res t' = t_res t /\ t_pc t' = PExit2 /\
                st s0 = upd (st s) l o /\ ftime s0 = upd (ftime s) l (clock s)) \/
     (t_pc t = PBody /\ t_res t' = t_res t /\ t_pc t' = PFinish (body_outcome cfg l (t_res t)) /\
      st s0 = st s /\ ftime s0 = ftime s) \/
     (st s l = Running /\ (forall o, t_pc t' = PFinish o -> o <> Succeeded) /\ ftime s0 = ftime s /\
      (forall x, is_final (st s0 x) = true -> st s0 x = st s x))).
Proof.
  intros Hc Hsh. pose proof Hc as (_ & _ & _ & Hsome).
  inversion Hsh; subst; (eexists; eexists; split; [eassumption|]); simp_state; rewrite upd_same;
    (split; [reflexivity|]); destruct (Hsome _ _ H0) as (A & _); cbn [t_pc t_res st_ok] in *;
    try (right; right; right; split; [exact A|split; [|split; [reflexivity|auto]]]; intros o Ho; discriminate).
  - right; right; right. split; [exact A|split; [|split; [reflexivity|auto]]]. intros o Ho. inversion Ho. discriminate.
  - right; right; right. split; [exact A|split; [|split; [reflexivity|auto]]].
    destruct (goto_start_cases cfg l 0) as [[_ ->]|[_ ->]]; discriminate.
  - right; right; right. destruct (start_target_keeps cfg s d l _ Hc H0) as (_ & K2 & _).
    destruct (start_target_stf s d) as [F1 F2].
    split; [exact A|split; [|split; [exact F1|exact F2]]].
    destruct (goto_start_cases cfg l (S i)) as [[_ ->]|[_ ->]]; discriminate.
  - right; right; right. split; [exact A|split; [|split; [reflexivity|auto]]].
    match goal with |- context [walk_goto cfg l ?w] =>
      destruct (walk_goto_cases cfg l w) as [(d' & fr' & ->)|[->|[(i & -> & _)|[-> _]]]] end; discriminate.
  - right; right; right. split; [exact A|split; [|split; [reflexivity|auto]]].
    match goal with |- context [walk_goto cfg l ?w] =>
      destruct (walk_goto_cases cfg l w) as [(d' & fr' & ->)|[->|[(i & -> & _)|[-> _]]]] end; discriminate.
  - right; right; right. split; [exact A|split; [|split; [reflexivity|auto]]].
    destruct (goto_wait_cases cfg l (S i)) as [[_ ->]|[_ ->]]; discriminate.
  - right; right; left. destruct (existsb is_failed r); simp_state; auto.
  - right; left. exists o. auto.
  - left. auto.
Qed.

Lemma shape_main_summary cfg s s0 : step_shape cfg s TMain s0 ->
  ftime s0 = ftime s /\ (forall x, is_final (st s0 x) = true -> st s0 x = st s x).
Proof.
  intros Hsh. inversion Hsh; subst; simp_state; [apply start_target_stf|auto].
Qed.

Lemma existsb_failed_cyc r : existsb is_failed r = false -> ~ In (Failed ECyclic) r.
Proof.
  intros H Hi. assert (existsb is_failed r = true); [|congruence].
  apply existsb_exists. exists (Failed ECyclic). auto.
Qed.

Theorem cyc_step cfg s t s' : core cfg s -> res_inv cfg s -> cyc_inv cfg s -> step cfg s t = Some s' -> cyc_inv cfg s'.
Proof.
  intros Hc Hres (C1 & C2 & C3) Hs. apply step_shapes in Hs. destruct Hs as (s0 & Hsh & ->).
  pose proof Hc as (_ & _ & Hnone & Hsome).
  destruct t as [|l].
  - (* main *)
    destruct (shape_main_summary cfg s s0 Hsh) as (Ef & Hfin).
    assert (Hthr : forall x, thr s0 x = thr s x \/ (st s x = Idle /\ thr s0 x = Some new_thread)).
    { intros x. apply (shape_thr_other cfg s TMain s0 x Hsh). discriminate. }
    assert (Hfin' : forall x, is_final (st s0 x) = true -> is_final (st s x) = true /\ st s0 x = st s x).
    { intros x Hx. pose proof (Hfin x Hx) as E. rewrite E in Hx. auto. }
    destruct (shape_wp cfg s TMain s0 Hsh) as (Ec & _).
    split; [|split]; cbn [st thr ftime clock tick].
    + intros x Hx. destruct (Hfin' x Hx) as [Hx' _]. rewrite Ef, Ec. specialize (C1 x Hx'). lia.
    + intros x tx Htx Hx Hnc d Hd. destruct (Hfin' x Hx) as [Hx' Ex]. rewrite Ef.
      destruct (Hthr x) as [E|[E _]]; [rewrite E in Htx|rewrite E in Hx'; discriminate].
      destruct (C2 x tx Htx Hx' Hnc d Hd) as [D1 D2]. split; [|exact D2].
      pose proof (shape_evolves cfg s TMain s0 Hc Hsh) as He. rewrite (evolves_final _ _ _ He D1). exact D1.
    + intros x tx Htx Hor. destruct (Hthr x) as [E|[_ E]]; rewrite E in Htx.
      * apply (C3 x tx Htx). destruct Hor as [Hor|Hor]; [left; exact Hor|right].
        assert (Hx : is_final (st s0 x) = true) by (rewrite Hor; reflexivity). rewrite <- (Hfin x Hx). exact Hor.
      * inversion Htx. reflexivity.
  - destruct (shape_self_summary cfg s l s0 Hc Hsh) as (tl & tl' & Htl & Htl' & Hcase).
    assert (Hthr : forall x, x <> l -> thr s0 x = thr s x \/ (st s x = Idle /\ thr s0 x = Some new_thread)).
    { intros x Hx. apply (shape_thr_other cfg s (T l) s0 x Hsh). congruence. }
    destruct (shape_wp cfg s (T l) s0 Hsh) as (Ec & _).
    pose proof (shape_evolves cfg s (T l) s0 Hc Hsh) as He.
    destruct (Hsome l tl Htl) as (Hok & _ & _ & Hwf).
    destruct Hcase as [(Hp & Hr & Hp' & Es & Ef)|[(o & Hp & Hr & Hp' & Es & Ef)|[(Hp & Hr & Hp' & Es & Ef)|(Hrun & Hnf & Ef & Hfin)]]].
    + (* exit2: nothing about statuses changes *)
      split; [|split]; cbn [st thr ftime clock tick]; rewrite ?Es, ?Ef, ?Ec.
      * intros x Hx. specialize (C1 x Hx). lia.
      * intros x tx Htx Hx Hnc d Hd. destruct (Nat.eq_dec x l) as [->|Hne].
        -- rewrite Htl' in Htx. inversion Htx; subst tx. rewrite Hr in Hnc. exact (C2 l tl Htl Hx Hnc d Hd).
        -- destruct (Hthr x Hne) as [E|[E _]]; [rewrite E in Htx; exact (C2 x tx Htx Hx Hnc d Hd)|rewrite E in Hx; discriminate].
      * intros x tx Htx Hor. destruct (Nat.eq_dec x l) as [->|Hne].
        -- rewrite Htl' in Htx. inversion Htx; subst tx. rewrite Hr. apply (C3 l tl Htl).
           destruct Hor as [Hor|Hor]; [rewrite Hp' in Hor; discriminate|right; exact Hor].
        -- destruct (Hthr x Hne) as [E|[_ E]]; rewrite E in Htx; [exact (C3 x tx Htx Hor)|inversion Htx; reflexivity].
    + (* finish *)
      rewrite Hp in Hok. simpl in Hok. destruct Hok as [Hrun Hfo].
      assert (Hlen : length (t_res tl) = length (deps cfg l)) by (unfold pc_wf in Hwf; rewrite Hp in Hwf; exact Hwf).
      split; [|split]; cbn [st thr ftime clock tick]; rewrite ?Es, ?Ef, ?Ec.
      * intros x Hx. upd_cases x l; [lia|]. specialize (C1 x Hx). lia.
      * intros x tx Htx Hx Hnc d Hd. destruct (Nat.eq_dec x l) as [->|Hne].
        -- rewrite Htl' in Htx. inversion Htx; subst tx. rewrite Hr in Hnc. rewrite !upd_same.
           destruct (deps_final_of_res cfg s l tl Hc Hres Htl Hlen Hnc d Hd) as (r & _ & Er & Fr).
           rewrite <- Er in Fr.
           assert (d <> l) by (intros ->; rewrite Hrun in Fr; discriminate).
           rewrite !upd_other by assumption. split; [exact Fr|apply C1; exact Fr].
        -- repeat (rewrite (upd_other _ l _ x) in * by assumption).
           destruct (Hthr x Hne) as [E|[E _]]; [rewrite E in Htx|rewrite E in Hx; discriminate].
           destruct (C2 x tx Htx Hx Hnc d Hd) as [D1 D2].
           assert (d <> l) by (intros ->; rewrite Hrun in D1; discriminate).
           rewrite !upd_other by assumption. auto.
      * intros x tx Htx Hor. destruct (Nat.eq_dec x l) as [->|Hne].
        -- rewrite Htl' in Htx. inversion Htx; subst tx. rewrite Hr. apply (C3 l tl Htl). left.
           destruct Hor as [Hor|Hor]; [rewrite Hp' in Hor; discriminate|]. rewrite upd_same in Hor. subst o. exact Hp.
        -- repeat (rewrite (upd_other _ l _ x) in * by assumption).
           destruct (Hthr x Hne) as [E|[_ E]]; rewrite E in Htx; [exact (C3 x tx Htx Hor)|inversion Htx; reflexivity].
    + (* body *)
      rewrite Hp in Hok. simpl in Hok.
      split; [|split]; cbn [st thr ftime clock tick]; rewrite ?Es, ?Ef, ?Ec.
      * intros x Hx. specialize (C1 x Hx). lia.
      * intros x tx Htx Hx Hnc d Hd. destruct (Nat.eq_dec x l) as [->|Hne].
        -- rewrite Hok in Hx. discriminate.
        -- destruct (Hthr x Hne) as [E|[E _]]; [rewrite E in Htx; exact (C2 x tx Htx Hx Hnc d Hd)|rewrite E in Hx; discriminate].
      * intros x tx Htx Hor. destruct (Nat.eq_dec x l) as [->|Hne].
        -- rewrite Htl' in Htx. inversion Htx; subst tx. rewrite Hr.
           destruct Hor as [Hor|Hor]; [|rewrite Hok in Hor; discriminate]. rewrite Hp' in Hor.
           inversion Hor as [Ho]. unfold body_outcome in Ho.
           destruct (existsb is_failed (t_res tl)); [discriminate|reflexivity].
        -- destruct (Hthr x Hne) as [E|[_ E]]; rewrite E in Htx; [exact (C3 x tx Htx Hor)|inversion Htx; reflexivity].
    + (* every other step: the acting label is Running and stays so *)
      assert (Hl0 : st s0 l = Running).
      { destruct (He l) as [E|[[E _]|[_ E]]]; [congruence|congruence|]. rewrite (Hfin l E) in E. rewrite Hrun in E. discriminate. }
      assert (Hfin' : forall x, is_final (st s0 x) = true -> is_final (st s x) = true /\ st s0 x = st s x).
      { intros x Hx. pose proof (Hfin x Hx) as E. rewrite E in Hx. auto. }
      split; [|split]; cbn [st thr ftime clock tick]; rewrite ?Ef, ?Ec.
      * intros x Hx. destruct (Hfin' x Hx) as [Hx' _]. specialize (C1 x Hx'). lia.
      * intros x tx Htx Hx Hnc d Hd. destruct (Nat.eq_dec x l) as [->|Hne]; [rewrite Hl0 in Hx; discriminate|].
        destruct (Hfin' x Hx) as [Hx' _].
        destruct (Hthr x Hne) as [E|[E _]]; [rewrite E in Htx|rewrite E in Hx'; discriminate].
        destruct (C2 x tx Htx Hx' Hnc d Hd) as [D1 D2]. split; [|exact D2].
        rewrite (evolves_final _ _ _ He D1). exact D1.
      * intros x tx Htx Hor. destruct (Nat.eq_dec x l) as [->|Hne].
        -- exfalso. rewrite Htl' in Htx. inversion Htx; subst tx. destruct Hor as [Hor|Hor].
           ++ apply (Hnf _ Hor). reflexivity.
           ++ rewrite Hl0 in Hor. discriminate.
        -- destruct (Hthr x Hne) as [E|[_ E]]; rewrite E in Htx; [|inversion Htx; reflexivity].
           apply (C3 x tx Htx). destruct Hor as [Hor|Hor]; [left; exact Hor|right].
           assert (Hx : is_final (st s0 x) = true) by (rewrite Hor; reflexivity). rewrite <- (Hfin x Hx). exact Hor.
Qed.

Theorem cyc_reachable cfg s : reachable cfg s -> cyc_inv cfg s.
Proof.
  intros Hr. pattern s. revert s Hr. apply reachable_ind'.
  - split; [intros l; discriminate|split; intros l t Ht; discriminate].
  - intros s t s' Hr Hi Hs. eapply cyc_step; eauto; [apply core_reachable|apply res_reachable]; exact Hr.
Qed.

(* a succeeded target has only succeeded dependencies, all of which finished earlier *)
Lemma succ_closed cfg s l d : reachable cfg s -> st s l = Succeeded -> In d (deps cfg l) ->
  st s d = Succeeded /\ ftime s d < ftime s l.
Proof.
  intros Hr Hs Hd. pose proof (core_reachable cfg s Hr) as Hc. pose proof Hc as (_ & _ & Hnone & Hsome).
  destruct (cyc_reachable cfg s Hr) as (C1 & C2 & C3).
  destruct (thr s l) as [t|] eqn:Ht; [|destruct (Hnone l Ht); congruence].
  pose proof (C3 l t Ht (or_intror Hs)) as Hnf.
  assert (Hfin : is_final (st s l) = true) by (rewrite Hs; reflexivity).
  pose proof (existsb_failed_cyc _ Hnf) as Hnc.
  destruct (C2 l t Ht Hfin Hnc d Hd) as [D1 D2]. split; [|exact D2].
  destruct (Hsome l t Ht) as (Hok & _ & _ & Hwf).
  assert (Hlen : length (t_res t) = length (deps cfg l)).
  { unfold pc_wf in Hwf. destruct (t_pc t); simpl in Hok; try (rewrite Hs in Hok; discriminate); try exact Hwf;
      try (destruct Hok as [Hok _]; rewrite Hs in Hok; discriminate). }
  destruct (deps_final_of_res cfg s l t Hc (res_reachable cfg s Hr) Ht Hlen Hnc d Hd) as (r & Hin & Er & Fr).
  rewrite Er. destruct r; simpl in Fr; try discriminate; [reflexivity|].
  exfalso. assert (existsb is_failed (t_res t) = true); [|congruence].
  apply existsb_exists. exists (Failed e). auto.
Qed.

Lemma succ_path cfg s l x : reachable cfg s -> st s l = Succeeded -> path cfg l x ->
  st s x = Succeeded /\ ftime s x < ftime s l.
Proof.
  intros Hr Hs Hp. apply clos_trans_tn1 in Hp. induction Hp as [y E|y z E Hp IH].
  - apply (succ_closed cfg s l y Hr Hs E).
  - destruct IH as [IH1 IH2]. destruct (succ_closed cfg s y z Hr IH1 E). split; [assumption|lia].
Qed.

Definition has_cycle (cfg : config) : Prop := exists c, path0 cfg (c_root cfg) c /\ path cfg c c.

(** If a dependency cycle is reachable from the requested target, Run returns an error. *)
Theorem cyclic_build_fails cfg s r : reachable cfg s -> has_cycle cfg -> mainpc s = MDone r ->
  exists e, r = Failed e.
Proof.
  intros Hr (c & Hrc & Hcc) Hm. destruct (run_result_is_root cfg s r Hr Hm) as [E F].
  destruct r; simpl in F; try discriminate; [exfalso|eauto].
  assert (Hc : st s c = Succeeded).
  { apply clos_rt_rtn1 in Hrc. destruct Hrc as [|y z Eyz Hry]; [exact E|].
    apply clos_rtn1_rt in Hry. apply (succ_path cfg s (c_root cfg) z Hr E).
    apply clos_rt_t with y; [exact Hry|apply t_step; exact Eyz]. }
  destruct (succ_path cfg s c c Hr Hc Hcc). lia.
Qed.

(* -- a cyclic-dependency error has been reported by the time Run returns ------------------------ *)

Definition is_cyc (r : status) : bool := match r with Failed ECyclic => true | _ => false end.
Definition has_cyc (s : state) (l : label) : bool :=
  match thr s l with Some t => existsb is_cyc (t_res t) | None => false end.

Lemma is_cyc_In r : existsb is_cyc r = false -> ~ In (Failed ECyclic) r.
Proof.
  intros H Hi. assert (existsb is_cyc r = true); [|congruence].
  apply existsb_exists. exists (Failed ECyclic). auto.
Qed.

Lemma final_closed cfg s l d : reachable cfg s -> (forall x, In x (spawned s) -> has_cyc s x = false) ->
  is_final (st s l) = true -> In d (deps cfg l) -> is_final (st s d) = true /\ ftime s d < ftime s l.
Proof.
  intros Hr Hno Hf Hd. pose proof (core_reachable cfg s Hr) as (_ & Hin & Hnone & _).
  destruct (cyc_reachable cfg s Hr) as (_ & C2 & _).
  destruct (thr s l) as [t|] eqn:Ht; [|destruct (Hnone l Ht) as [E _]; rewrite E in Hf; discriminate].
  apply (C2 l t Ht Hf); [|exact Hd]. apply is_cyc_In.
  assert (Hi : In l (spawned s)) by (apply Hin; congruence). specialize (Hno l Hi). unfold has_cyc in Hno. rewrite Ht in Hno. exact Hno.
Qed.

Lemma final_path cfg s l x : reachable cfg s -> (forall y, In y (spawned s) -> has_cyc s y = false) ->
  is_final (st s l) = true -> path cfg l x -> is_final (st s x) = true /\ ftime s x < ftime s l.
Proof.
  intros Hr Hno Hf Hp. apply clos_trans_tn1 in Hp. induction Hp as [y E|y z E Hp IH].
  - apply (final_closed cfg s l y Hr Hno Hf E).
  - destruct IH as [IH1 IH2]. destruct (final_closed cfg s y z Hr Hno IH1 E). split; [assumption|lia].
Qed.

(** ... and by the time the root has finished (in particular when Run returns) some target has been handed a
    CyclicDependencyError. *)
Theorem cycle_reported cfg s : reachable cfg s -> has_cycle cfg -> is_final (st s (c_root cfg)) = true ->
  exists l t, thr s l = Some t /\ In (Failed ECyclic) (t_res t).
Proof.
  intros Hr (c & Hrc & Hcc) Hf.
  destruct (existsb (has_cyc s) (spawned s)) eqn:E.
  - apply existsb_exists in E. destruct E as (l & _ & Hl). unfold has_cyc in Hl.
    destruct (thr s l) as [t|] eqn:Ht; [|discriminate]. exists l, t. split; [exact Ht|].
    apply existsb_exists in Hl. destruct Hl as (r & Hin & Hr'). destruct r as [| | |[]]; try discriminate. exact Hin.
  - exfalso. assert (Hno : forall y, In y (spawned s) -> has_cyc s y = false).
    { intros y Hy. destruct (has_cyc s y) eqn:Ey; [|reflexivity].
      assert (existsb (has_cyc s) (spawned s) = true); [|congruence]. apply existsb_exists. eauto. }
    assert (Hc : is_final (st s c) = true).
    { apply clos_rt_rtn1 in Hrc. destruct Hrc as [|y z Eyz Hry]; [exact Hf|].
      apply clos_rtn1_rt in Hry. apply (final_path cfg s (c_root cfg) z Hr Hno Hf).
      apply clos_rt_t with y; [exact Hry|apply t_step; exact Eyz]. }
    destruct (final_path cfg s c c Hr Hno Hc Hcc). lia.
Qed.
