(** Basic facts about the runner model: schedules, reachability, step inversion, the core coherence
    invariant (threads / statuses / waiting sets / started dependencies). *)
From Coq Require Import List Arith Bool Lia.
From Dawn Require Import Runner.Model.
Import ListNotations.

Definition reachable (cfg : config) (s : state) : Prop := exists sched, run cfg (init cfg) sched = Some s.

Lemma run_app cfg a : forall s b,
  run cfg s (a ++ b) = match run cfg s a with Some s' => run cfg s' b | None => None end.
Proof.
  induction a as [|t a IH]; intros s b; simpl; [reflexivity|].
  destruct (step cfg s t); [apply IH|reflexivity].
Qed.

Lemma reachable_init cfg : reachable cfg (init cfg).
Proof. exists []. reflexivity. Qed.

Lemma reachable_step cfg s t s' : reachable cfg s -> step cfg s t = Some s' -> reachable cfg s'.
Proof.
  intros [sched H] Hs. exists (sched ++ [t]). rewrite run_app, H. simpl. rewrite Hs. reflexivity.
Qed.

Lemma reachable_run cfg s sched s' : reachable cfg s -> run cfg s sched = Some s' -> reachable cfg s'.
Proof.
  intros [sc H] Hs. exists (sc ++ sched). rewrite run_app, H. exact Hs.
Qed.

Lemma reachable_ind' cfg (P : state -> Prop) :
  P (init cfg) ->
  (forall s t s', reachable cfg s -> P s -> step cfg s t = Some s' -> P s') ->
  forall s, reachable cfg s -> P s.
Proof.
  intros Hi Hs s [sched H]. revert s H.
  induction sched as [|t sched IH] using rev_ind; intros s H.
  - simpl in H. inversion H. subst. exact Hi.
  - rewrite run_app in H. destruct (run cfg (init cfg) sched) as [s1|] eqn:E; [|discriminate].
    simpl in H. destruct (step cfg s1 t) as [s2|] eqn:E2; [|discriminate]. inversion H; subst.
    eapply Hs; [exists sched; exact E | apply IH; reflexivity | exact E2].
Qed.

(* -- step inversion ------------------------------------------------------------------------- *)

Lemma step_inv cfg s t s' : step cfg s t = Some s' ->
  (t = TMain /\ exists s0, step_main cfg s = Some s0 /\ s' = tick s0) \/
  (exists l th s0, t = T l /\ thr s l = Some th /\ step_thread cfg s l th = Some s0 /\ s' = tick s0).
Proof.
  unfold step. destruct t as [|l].
  - destruct (step_main cfg s) as [s0|] eqn:E; [|discriminate]. intros H. inversion H. left. eauto.
  - destruct (thr s l) as [th|] eqn:E; [|discriminate].
    destruct (step_thread cfg s l th) as [s0|] eqn:E2; [|discriminate]. intros H. inversion H.
    right. exists l, th, s0. auto.
Qed.

(** The shapes of a step, one per program counter.  [s'] is given up to [tick]. *)
Inductive step_shape (cfg : config) (s : state) : tid -> state -> Prop :=
| SMainStart : mainpc s = MStart ->
    step_shape cfg s TMain (set_main (start_target s (c_root cfg)) MWait)
| SMainWait : mainpc s = MWait -> is_running (st s (c_root cfg)) = false ->
    step_shape cfg s TMain (set_main s (MDone (st s (c_root cfg))))
| SEnter l r sn c : thr s l = Some (mkThread PEnter r sn) -> cap s = S c ->
    step_shape cfg s (T l) (set_thr (gate_enter s l c) l (mkThread PLoad r sn))
| SLoadUnknown l r sn : thr s l = Some (mkThread PLoad r sn) -> unknown cfg l = true ->
    step_shape cfg s (T l) (set_thr (count_load s l false) l (mkThread (PFinish (Failed EUnknown)) r sn))
| SLoad l r sn : thr s l = Some (mkThread PLoad r sn) -> unknown cfg l = false ->
    step_shape cfg s (T l) (set_thr (count_load s l true) l (mkThread PExit1 r sn))
| SExit1 l r sn : thr s l = Some (mkThread PExit1 r sn) ->
    step_shape cfg s (T l) (set_thr (gate_exit s l) l (mkThread (goto_start cfg l 0) r sn))
| SStart l r sn i d : thr s l = Some (mkThread (PStart i) r sn) -> nth_error (deps cfg l) i = Some d ->
    step_shape cfg s (T l) (set_thr (start_target s d) l (mkThread (goto_start cfg l (S i)) r sn))
| SPublish l r sn : thr s l = Some (mkThread PPublish r sn) ->
    step_shape cfg s (T l) (set_thr (set_waiting s l (Some (deps cfg l))) l
                                    (mkThread (walk_goto cfg l (walk_next l [] [deps cfg l])) r []))
| SWalk l r sn d fr : thr s l = Some (mkThread (PWalk d fr) r sn) ->
    step_shape cfg s (T l)
      (set_thr s l (mkThread (walk_goto cfg l (walk_next l (d :: sn)
                                 (match waiting s d with Some ds => ds :: fr | None => fr end))) r (d :: sn)))
| SCycle l r sn : thr s l = Some (mkThread PCycle r sn) ->
    step_shape cfg s (T l) (set_thr s l (mkThread PClear (map (fun _ => Failed ECyclic) (deps cfg l)) sn))
| SWait l r sn i d : thr s l = Some (mkThread (PWait i) r sn) -> nth_error (deps cfg l) i = Some d ->
    is_running (st s d) = false ->
    step_shape cfg s (T l) (set_thr s l (mkThread (goto_wait cfg l (S i)) (r ++ [st s d]) sn))
| SClear l r sn : thr s l = Some (mkThread PClear r sn) ->
    step_shape cfg s (T l) (set_thr (set_waiting s l None) l (mkThread PEnter2 r sn))
| SEnter2 l r sn c : thr s l = Some (mkThread PEnter2 r sn) -> cap s = S c ->
    step_shape cfg s (T l) (set_thr (gate_enter s l c) l (mkThread PBody r sn))
| SBody l r sn : thr s l = Some (mkThread PBody r sn) ->
    step_shape cfg s (T l) (set_thr (if existsb is_failed r then s else count_body s l) l
                                    (mkThread (PFinish (body_outcome cfg l r)) r sn))
| SFinish l r sn o : thr s l = Some (mkThread (PFinish o) r sn) ->
    step_shape cfg s (T l) (set_thr (set_status s l o) l (mkThread PExit2 r sn))
| SExit2 l r sn : thr s l = Some (mkThread PExit2 r sn) ->
    step_shape cfg s (T l) (set_thr (gate_exit s l) l (mkThread PDone r sn)).

Lemma step_shapes cfg s t s' : step cfg s t = Some s' -> exists s0, step_shape cfg s t s0 /\ s' = tick s0.
Proof.
  intros H. apply step_inv in H.
  destruct H as [[-> [s0 [H ->]]] | [l [th [s0 [-> [Hth [H ->]]]]]]].
  - exists s0. split; [|reflexivity]. unfold step_main in H.
    destruct (mainpc s) eqn:Hm.
    + inversion H. constructor. exact Hm.
    + destruct (is_running (st s (c_root cfg))) eqn:Hr; [discriminate|]. inversion H. constructor; assumption.
    + discriminate.
  - exists s0. split; [|reflexivity]. destruct th as [p r sn]. unfold step_thread in H. cbn [t_pc t_res t_seen] in H.
    destruct p.
    + destruct (cap s) eqn:Hc; [discriminate|]. inversion H. econstructor; eassumption.
    + destruct (unknown cfg l) eqn:Hu; inversion H; econstructor; eassumption.
    + inversion H. econstructor; eassumption.
    + destruct (nth_error (deps cfg l) i) eqn:Hn; [|discriminate]. inversion H. econstructor; eassumption.
    + inversion H. econstructor; eassumption.
    + inversion H. econstructor; eassumption.
    + inversion H. econstructor; eassumption.
    + destruct (nth_error (deps cfg l) i) eqn:Hn; [|discriminate].
      destruct (is_running (st s l0)) eqn:Hr; [discriminate|]. inversion H. econstructor; eassumption.
    + inversion H. econstructor; eassumption.
    + destruct (cap s) eqn:Hc; [discriminate|]. inversion H. econstructor; eassumption.
    + inversion H. econstructor; eassumption.
    + inversion H. econstructor; eassumption.
    + inversion H. econstructor; eassumption.
    + discriminate.
Qed.

(* the converse: every shape is a step (used to show enabledness) *)
Lemma shape_step cfg s t s0 : step_shape cfg s t s0 -> step cfg s t = Some (tick s0).
Proof.
  intros H. destruct H; unfold step, step_main, step_thread;
    repeat match goal with H : _ = _ |- _ => rewrite H; clear H end; cbn [t_pc t_res t_seen];
    repeat match goal with H : _ = _ |- _ => rewrite H; clear H end; try reflexivity.
Qed.

(* -- upd ------------------------------------------------------------------------------------ *)

Lemma upd_same {A} (f : label -> A) k v : upd f k v k = v.
Proof. unfold upd. rewrite Nat.eqb_refl. reflexivity. Qed.

Lemma upd_other {A} (f : label -> A) k v x : x <> k -> upd f k v x = f x.
Proof. unfold upd. intros H. destruct (Nat.eqb_spec x k); [contradiction|reflexivity]. Qed.

Ltac upd_cases x k :=
  destruct (Nat.eq_dec x k) as [?|?];
  [subst; repeat rewrite upd_same in * | repeat (rewrite (upd_other _ k _ x) in * by assumption)].

Definition is_final (r : status) : bool := match r with Succeeded | Failed _ => true | _ => false end.

Lemma tid_eq_dec (a b : tid) : {a = b} + {a <> b}.
Proof. decide equality. apply Nat.eq_dec. Qed.
