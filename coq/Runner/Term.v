(** Termination: every schedule from the initial state has length at most [bound cfg]. *)
From Coq Require Import List Arith Bool Lia Relations.
From Dawn Require Import Runner.Model Runner.Lemmas Runner.Core Runner.Walk Runner.Reach.
Import ListNotations.

Definition prog (cfg : config) (l : label) (t : thread) : nat :=
  let D := length (deps cfg l) in
  let N := length (labels cfg) in
  match t_pc t with
  | PEnter => 0 | PLoad => 1 | PExit1 => 2
  | PStart i => 3 + i
  | PPublish => 3 + D
  | PWalk _ _ => 4 + D + length (t_seen t)
  | PCycle => 4 + D + length (t_seen t)
  | PWait i => 5 + D + N + i
  | PClear => 5 + 2 * D + N
  | PEnter2 => 6 + 2 * D + N
  | PBody => 7 + 2 * D + N
  | PFinish _ => 8 + 2 * D + N
  | PExit2 => 9 + 2 * D + N
  | PDone => 10 + 2 * D + N
  end.

Definition weight (cfg : config) (s : state) (l : label) : nat :=
  match thr s l with Some t => S (prog cfg l t) | None => 0 end.

Definition mprog (m : mpc) : nat := match m with MStart => 0 | MWait => 1 | MDone _ => 2 end.

Definition total (cfg : config) (s : state) : nat :=
  mprog (mainpc s) + list_sum (map (weight cfg s) (spawned s)).

Lemma sum_upd (f f' : label -> nat) l ls : NoDup ls -> In l ls -> (forall x, x <> l -> f' x = f x) ->
  list_sum (map f' ls) + f l = list_sum (map f ls) + f' l.
Proof.
  induction ls as [|a ls IH]; intros Hnd Hin Hag; [contradiction|].
  inversion Hnd as [|? ? Hna Hnd']; subst. simpl. destruct Hin as [->|Hin].
  - assert (E : map f' ls = map f ls).
    { apply map_ext_in. intros x Hx. apply Hag. intros ->. contradiction. }
    rewrite E. lia.
  - assert (a <> l) by (intros ->; contradiction). rewrite (Hag a) by assumption.
    specialize (IH Hnd' Hin Hag). lia.
Qed.

Lemma sum_same (f f' : label -> nat) l ls : ~ In l ls -> (forall x, x <> l -> f' x = f x) ->
  list_sum (map f' ls) = list_sum (map f ls).
Proof.
  intros Hni Hag. f_equal. apply map_ext_in. intros x Hx. apply Hag. intros ->. contradiction.
Qed.

Lemma sum_le (f : label -> nat) K ls : (forall x, f x <= K) -> list_sum (map f ls) <= length ls * K.
Proof. intros H. induction ls as [|a ls IH]; simpl; [lia|]. specialize (H a). lia. Qed.

Lemma total_update cfg s s' l t t' :
  core cfg s -> thr s l = Some t -> spawned s' = spawned s -> thr s' = upd (thr s) l (Some t') ->
  mainpc s' = mainpc s ->
  total cfg s' + prog cfg l t = total cfg s + prog cfg l t'.
Proof.
  intros (Hnd & Hin & _) Ht Hsp Hthr Hm. unfold total. rewrite Hsp, Hm.
  pose proof (sum_upd (weight cfg s) (weight cfg s') l (spawned s) Hnd) as L.
  assert (E1 : weight cfg s l = S (prog cfg l t)) by (unfold weight; rewrite Ht; reflexivity).
  assert (E2 : weight cfg s' l = S (prog cfg l t')) by (unfold weight; rewrite Hthr, upd_same; reflexivity).
  rewrite E1, E2 in L. assert (In l (spawned s)) by (apply Hin; congruence).
  specialize (L H). assert (forall x, x <> l -> weight cfg s' x = weight cfg s x).
  { intros x Hx. unfold weight. rewrite Hthr, upd_other by assumption. reflexivity. }
  specialize (L H0). lia.
Qed.

Lemma total_start cfg s d : core cfg s ->
  total cfg (start_target s d) = total cfg s + (if is_idle (st s d) then 1 else 0).
Proof.
  intros Hc. destruct (is_idle (st s d)) eqn:E.
  - rewrite start_target_idle by exact E. apply is_idle_true in E.
    pose proof (core_idle_none _ _ _ Hc E) as Hn. destruct Hc as (Hnd & Hin & _).
    unfold total. simp_state. simpl.
    assert (Hni : ~ In d (spawned s)). { intros Hi. apply Hin in Hi. contradiction. }
    match goal with |- context [map ?f' (spawned s)] =>
      rewrite (sum_same (weight cfg s) f' d (spawned s) Hni) end.
    + unfold weight at 1. simp_state. rewrite upd_same. unfold prog, new_thread. simpl. lia.
    + intros x Hx. unfold weight. simp_state. rewrite upd_other by assumption. reflexivity.
  - rewrite start_target_noop by exact E. lia.
Qed.

Lemma start_target_mainpc s d : mainpc (start_target s d) = mainpc s.
Proof. unfold start_target. destruct (is_idle (st s d)); reflexivity. Qed.

Ltac tot_upd Hc H s :=
  pose proof (total_update _ _ s _ _ _ Hc H eq_refl eq_refl eq_refl) as Htot.

Theorem total_step cfg s t s' : reachable cfg s -> step cfg s t = Some s' -> total cfg s < total cfg s'.
Proof.
  intros Hr Hs. pose proof (core_reachable cfg s Hr) as Hc.
  apply step_shapes in Hs. destruct Hs as (s0 & Hsh & ->).
  change (total cfg s < total cfg s0).
  destruct Hsh;
    try (pose proof (seen_le_spawned cfg s _ _ Hr H) as Hseen; pose proof (spawned_le_labels cfg s Hr) as Hsp;
         cbn [t_pc t_seen] in Hseen);
    try (pose proof Hc as (_ & _ & _ & Hsome); destruct (Hsome _ _ H) as (_ & _ & _ & D); clear Hsome;
         unfold pc_wf in D; cbn [t_pc t_res] in D).
  - (* main start *)
    unfold total at 2. cbn [mainpc set_main spawned thr]. unfold total. rewrite H. simpl.
    pose proof (total_start cfg s (c_root cfg) Hc) as E. unfold total in E. rewrite start_target_mainpc, H in E. simpl in E.
    match goal with |- _ < S ?x => assert (x = list_sum (map (weight cfg (start_target s (c_root cfg))) (spawned (start_target s (c_root cfg))))) by reflexivity end.
    lia.
  - unfold total. cbn [mainpc set_main spawned]. rewrite H. simpl.
    match goal with |- _ < S (S ?x) => assert (x = list_sum (map (weight cfg s) (spawned s))) by reflexivity end. lia.
  - tot_upd Hc H (set_thr (gate_enter s l c) l (mkThread PLoad r sn)). unfold prog in Htot; cbn [length t_pc t_seen] in Htot. lia.
  - tot_upd Hc H (set_thr (count_load s l false) l (mkThread (PFinish (Failed EUnknown)) r sn)).
    unfold prog in Htot; cbn [length t_pc t_seen] in Htot. lia.
  - tot_upd Hc H (set_thr (count_load s l true) l (mkThread PExit1 r sn)). unfold prog in Htot; cbn [length t_pc t_seen] in Htot. lia.
  - tot_upd Hc H (set_thr (gate_exit s l) l (mkThread (goto_start cfg l 0) r sn)).
    unfold prog in Htot; cbn [t_pc t_seen] in Htot.
    destruct (goto_start_cases cfg l 0) as [[_ E]|[_ E]]; rewrite E in *; lia.
  - pose proof (core_start_target cfg s d Hc) as Hc1.
    destruct (start_target_keeps cfg s d l _ Hc H) as (K1 & _).
    pose proof (total_update cfg (start_target s d) (set_thr (start_target s d) l (mkThread (goto_start cfg l (S i)) r sn))
                  l _ _ Hc1 K1 eq_refl eq_refl eq_refl) as Htot.
    pose proof (total_start cfg s d Hc) as E0.
    unfold prog in Htot; cbn [t_pc t_seen] in Htot. destruct D as [D _].
    destruct (goto_start_cases cfg l (S i)) as [[_ E]|[_ E]]; rewrite E in *; destruct (is_idle (st s d)); lia.
  - set (w := walk_next _ _ _) in *. clearbody w.
    tot_upd Hc H (set_thr (set_waiting s l (Some (deps cfg l))) l (mkThread (walk_goto cfg l w) r [])).
    unfold prog in Htot; cbn [t_pc t_seen] in Htot.
    destruct (walk_goto_cases cfg l w) as [(d' & fr' & E)|[E|[(i & E & -> & _)|[E _]]]]; rewrite E in *; cbn [length t_pc t_seen] in Htot; lia.
  - set (w := walk_next _ _ _) in *. clearbody w.
    tot_upd Hc H (set_thr s l (mkThread (walk_goto cfg l w) r (d :: sn))).
    unfold prog in Htot; cbn [t_pc t_seen] in Htot.
    destruct (walk_goto_cases cfg l w) as [(d' & fr' & E)|[E|[(i & E & -> & _)|[E _]]]]; rewrite E in *; cbn [length t_pc t_seen] in Htot; lia.
  - tot_upd Hc H (set_thr s l (mkThread PClear (map (fun _ => Failed ECyclic) (deps cfg l)) sn)).
    unfold prog in Htot; cbn [length t_pc t_seen] in Htot. lia.
  - tot_upd Hc H (set_thr s l (mkThread (goto_wait cfg l (S i)) (r ++ [st s d]) sn)).
    unfold prog in Htot; cbn [t_pc t_seen] in Htot. destruct D as [D _].
    destruct (goto_wait_cases cfg l (S i)) as [[_ E]|[_ E]]; rewrite E in *; lia.
  - tot_upd Hc H (set_thr (set_waiting s l None) l (mkThread PEnter2 r sn)). unfold prog in Htot; cbn [length t_pc t_seen] in Htot. lia.
  - tot_upd Hc H (set_thr (gate_enter s l c) l (mkThread PBody r sn)). unfold prog in Htot; cbn [length t_pc t_seen] in Htot. lia.
  - assert (Htot : total cfg (set_thr (if existsb is_failed r then s else count_body s l) l
                                       (mkThread (PFinish (body_outcome cfg l r)) r sn)) + prog cfg l (mkThread PBody r sn)
                   = total cfg s + prog cfg l (mkThread (PFinish (body_outcome cfg l r)) r sn)).
    { apply (total_update cfg s _ l _ _ Hc H); destruct (existsb is_failed r); reflexivity. }
    unfold prog in Htot; cbn [length t_pc t_seen] in Htot. lia.
  - tot_upd Hc H (set_thr (set_status s l o) l (mkThread PExit2 r sn)). unfold prog in Htot; cbn [length t_pc t_seen] in Htot. lia.
  - tot_upd Hc H (set_thr (gate_exit s l) l (mkThread PDone r sn)). unfold prog in Htot; cbn [length t_pc t_seen] in Htot. lia.
Qed.

Lemma run_clock cfg sched : forall s s', run cfg s sched = Some s' -> clock s' = clock s + length sched.
Proof.
  induction sched as [|t sched IH]; intros s s' H; simpl in H.
  - inversion H. simpl. lia.
  - destruct (step cfg s t) as [s1|] eqn:E; [|discriminate]. rewrite (IH s1 s' H).
    apply step_shapes in E. destruct E as (s0 & Hsh & ->). destruct (shape_wp cfg s t s0 Hsh) as (Ec & _).
    simpl. rewrite Ec. lia.
Qed.

Lemma clock_le_total cfg s : reachable cfg s -> clock s <= total cfg s.
Proof.
  intros Hr. pattern s. revert s Hr. apply reachable_ind'.
  - simpl. lia.
  - intros s t s' Hr Hi Hs. pose proof (total_step cfg s t s' Hr Hs).
    pose proof (run_clock cfg [t] s s') as Hc. simpl in Hc. rewrite Hs in Hc. specialize (Hc eq_refl). lia.
Qed.

Definition nedges (cfg : config) : nat := length (flat_map snd (c_deps cfg)).

Lemma deps_le_edges cfg l : length (deps cfg l) <= nedges cfg.
Proof.
  unfold deps, nedges. destruct (unknown cfg l); [simpl; lia|].
  destruct (assoc l (c_deps cfg)) as [ds|] eqn:E; [|simpl; lia].
  apply assoc_in in E. induction (c_deps cfg) as [|[k v] m IH]; [contradiction|]. simpl. rewrite app_length.
  destruct E as [E|E]; [inversion E; subst; lia|specialize (IH E); lia].
Qed.

Definition bound (cfg : config) : nat :=
  let N := length (labels cfg) in 2 + N * (11 + 2 * nedges cfg + N).

Lemma total_le_bound cfg s : reachable cfg s -> total cfg s <= bound cfg.
Proof.
  intros Hr. unfold total, bound.
  assert (mprog (mainpc s) <= 2) by (destruct (mainpc s); simpl; lia).
  pose proof (spawned_le_labels cfg s Hr) as Hsp.
  assert (Hw : forall x, weight cfg s x <= 11 + 2 * nedges cfg + length (labels cfg)).
  { intros x. unfold weight. destruct (thr s x) as [t|] eqn:Ht; [|lia].
    pose proof (deps_le_edges cfg x). pose proof (seen_le_spawned cfg s x t Hr Ht) as Hseen.
    destruct (core_reachable cfg s Hr) as (_ & _ & _ & Hsome). destruct (Hsome x t Ht) as (_ & _ & _ & D).
    unfold pc_wf in D. unfold prog. destruct (t_pc t); cbn [Nat.add] in Hseen; try lia; destruct D; lia. }
  pose proof (sum_le (weight cfg s) _ (spawned s) Hw).
  assert (length (spawned s) * (11 + 2 * nedges cfg + length (labels cfg)) <=
          length (labels cfg) * (11 + 2 * nedges cfg + length (labels cfg))) by (apply Nat.mul_le_mono_r; exact Hsp).
  lia.
Qed.

(** Every schedule from the initial state has at most [bound cfg] steps: no livelock, no unbounded walk. *)
Theorem terminates cfg sched s : run cfg (init cfg) sched = Some s -> length sched <= bound cfg.
Proof.
  intros H. assert (Hr : reachable cfg s) by (exists sched; exact H).
  pose proof (run_clock cfg sched _ _ H) as Hc. simpl in Hc.
  pose proof (clock_le_total cfg s Hr). pose proof (total_le_bound cfg s Hr). lia.
Qed.
