(** C16, last clause: the environment of a REAL target.  function.go, envUnpickler: the recorded and the freshly
    computed environment of a function are both unpickled into a dict -- case "FunctionCode" builds a dict of seven
    parts, case "Function" sets two more keys in that dict.  The names of the parts written here and the names
    diffEnv looks for (Model.function_env_keys, function.go: functionEnvKeys) are two separate lists in the code.
    Definitions only. *)
From Dawn Require Import Diff.Model.
Open Scope Z_scope.

(** case "FunctionCode": dict := NewDict(7); dict.SetKey(...) seven times, in this order *)
Definition function_code_env (names constants predeclared universals functions globals code : value)
  : list (value * value) :=
  [(VStr s_names, names); (VStr s_constant_values, constants); (VStr s_predeclared_values, predeclared);
   (VStr s_universal_values, universals); (VStr s_function_values, functions); (VStr s_global_values, globals);
   (VStr s_code, code)].

(** Dict.SetKey: a key that is bound keeps its place (and its key object) and gets the new value; a new key is
    appended *)
Fixpoint set_key (k v : value) (kvs : list (value * value)) : list (value * value) :=
  match kvs with
  | [] => [(k, v)]
  | (k', v') :: rest => if key_eq k k' then (k', v) :: rest else (k', v') :: set_key k v rest
  end.

(** case "Function": funcode.SetKey("default parameter values", ..); funcode.SetKey("free variables", ..) *)
Definition function_env (funcode : list (value * value)) (defaults freevars : value) : list (value * value) :=
  set_key (VStr s_free_variables) freevars (set_key (VStr s_default_parameter_values) defaults funcode).

(** the nine parts of a function's environment *)
Record env_parts := {
  p_names : value; p_constants : value; p_predeclared : value; p_universals : value; p_functions : value;
  p_globals : value; p_code : value; p_defaults : value; p_freevars : value }.

Definition env_of (p : env_parts) : list (value * value) :=
  function_env (function_code_env (p_names p) (p_constants p) (p_predeclared p) (p_universals p) (p_functions p)
                                  (p_globals p) (p_code p))
               (p_defaults p) (p_freevars p).

(** the keys of any environment built this way, in insertion order (what the harness reads off real targets) *)
Definition unpickled_env_keys : list value :=
  map fst (env_of {| p_names := VNone; p_constants := VNone; p_predeclared := VNone; p_universals := VNone;
                     p_functions := VNone; p_globals := VNone; p_code := VNone; p_defaults := VNone;
                     p_freevars := VNone |}).
