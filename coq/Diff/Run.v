(** Case evaluation for the C16 correspondence check.  The harness prints the implementation's answers in a
    small term language (the short names below); this file recomputes them with the model and returns the
    indices of the disagreeing cases.  The comparison is syntactic (order-sensitive) on the whole diff tree. *)
From Dawn Require Import Diff.Model Diff.ModelEnv.
Open Scope N_scope.

(** the term language of the harness *)
Definition vN : value := VNone.
Definition vI (n : N) : value := VInt (Z.of_N n).
Definition vTrue : value := VBool true.
Definition vFalse : value := VBool false.
(** floats: fH n = n/2, fHn n = -n/2 *)
Definition fH (n : N) : flt := FHalf (Z.of_N n).
Definition fHn (n : N) : flt := FHalf (- Z.of_N n).
Definition fNaN : flt := FNaN.
Definition fPInf : flt := FPosInf.
Definition fNInf : flt := FNegInf.
Definition fNZ : flt := FNegZero.
Definition vF : flt -> value := VFloat.
Definition vS : str -> value := VStr.
Definition vB : str -> value := VBytes.
Definition vT : list value -> value := VTuple.
Definition vL : list value -> value := VList.
Definition vM : list (value * value) -> value := VDict.
Definition DL := DLit.
Definition DS := DSlice.
Definition DM := DMap.
Definition EC : value -> sedit := SE KCommon.
Definition ED : value -> sedit := SE KDelete.
Definition EA : value -> sedit := SE KAdd.
Definition ER : list (option vdiff) -> sedit := SRepl.
Definition Y (d : vdiff) : option vdiff := Some d.
Definition X : option vdiff := None.
Definition KD := MDel.
Definition KR := MRepl.
Definition KA := MAdd.

(** what the harness observed *)
Inductive res :=
| ROk (d : option vdiff)
| RErr
| RPanic.

Inductive eres :=
| EOk (up_to_date : bool) (reason : str)
| EErr
| EPanic.

Inductive case :=
| CDiff (a b : value) (exp : res)
| CEnv (ss : stamp_state) (o n : value) (exp : eres)
| CKeys (ks : list str)        (* functionEnvKeys as read from the source *)
| CEnvKeys (ks : list str).    (* the keys of a real target's environment, in insertion order *)

Definition list_eqb {T} (eqb : T -> T -> bool) : list T -> list T -> bool :=
  fix go (a b : list T) : bool :=
    match a, b with
    | [], [] => true
    | x :: a', y :: b' => eqb x y && go a' b'
    | _, _ => false
    end.

Fixpoint value_eqb (a b : value) : bool :=
  match a, b with
  | VNone, VNone => true
  | VBool x, VBool y => Bool.eqb x y
  | VInt x, VInt y => Z.eqb x y
  | VFloat x, VFloat y =>
      match x, y with
      | FNaN, FNaN | FPosInf, FPosInf | FNegInf, FNegInf | FNegZero, FNegZero => true
      | FHalf a, FHalf b => Z.eqb a b
      | _, _ => false
      end
  | VStr x, VStr y => str_eqb x y
  | VBytes x, VBytes y => str_eqb x y
  | VTuple x, VTuple y => list_eqb value_eqb x y
  | VList x, VList y => list_eqb value_eqb x y
  | VDict x, VDict y =>
      (fix go (x y : list (value * value)) : bool :=
         match x, y with
         | [], [] => true
         | (k, v) :: x', (k', v') :: y' => value_eqb k k' && value_eqb v v' && go x' y'
         | _, _ => false
         end) x y
  | _, _ => false
  end.

Definition ekind_eqb (a b : ekind) : bool :=
  match a, b with
  | KCommon, KCommon | KDelete, KDelete | KAdd, KAdd | KReplace, KReplace => true
  | _, _ => false
  end.

Fixpoint vdiff_eqb (a b : vdiff) : bool :=
  match a, b with
  | DLit o n, DLit o' n' => value_eqb o o' && value_eqb n n'
  | DSlice o n es, DSlice o' n' es' =>
      value_eqb o o' && value_eqb n n' &&
      (fix go (x y : list sedit) : bool :=
         match x, y with
         | [], [] => true
         | e :: x', e' :: y' =>
             match e, e' with
             | SE k p, SE k' p' => ekind_eqb k k' && value_eqb p p'
             | SRepl ds, SRepl ds' =>
                 (fix go2 (x y : list (option vdiff)) : bool :=
                    match x, y with
                    | [], [] => true
                    | None :: x', None :: y' => go2 x' y'
                    | Some d :: x', Some d' :: y' => vdiff_eqb d d' && go2 x' y'
                    | _, _ => false
                    end) ds ds'
             | _, _ => false
             end && go x' y'
         | _, _ => false
         end) es es'
  | DMap o n es, DMap o' n' es' =>
      value_eqb o o' && value_eqb n n' &&
      (fix go (x y : list (value * medit)) : bool :=
         match x, y with
         | [], [] => true
         | (k, e) :: x', (k', e') :: y' =>
             value_eqb k k' &&
             match e, e' with
             | MDel v, MDel v' => value_eqb v v'
             | MAdd v, MAdd v' => value_eqb v v'
             | MRepl d, MRepl d' => vdiff_eqb d d'
             | _, _ => false
             end && go x' y'
         | _, _ => false
         end) es es'
  | _, _ => false
  end.

Definition res_of (o : outcome (option vdiff)) : option res :=
  match o with
  | Ok d => Some (ROk d)
  | ErrDepth => Some RErr
  | Panic => Some RPanic
  | OutOfFuel => None          (* never agrees with anything *)
  end.

Definition res_eqb (a : option res) (b : res) : bool :=
  match a, b with
  | Some (ROk None), ROk None => true
  | Some (ROk (Some d)), ROk (Some d') => vdiff_eqb d d'
  | Some RErr, RErr => true
  | Some RPanic, RPanic => true
  | _, _ => false
  end.

Definition check_case (route_size : Z) (c : case) : bool :=
  match c with
  | CDiff a b exp => res_eqb (res_of (diff route_size a b)) exp
  | CEnv se o n exp =>
      match diff_env se route_size o n, exp with
      | Ok (u, r), EOk u' r' => Bool.eqb u u' && str_eqb r r'
      | ErrDepth, EErr => true
      | Panic, EPanic => true
      | _, _ => false
      end
  | CKeys ks => list_eqb str_eqb ks function_env_keys
  | CEnvKeys ks => list_eqb value_eqb (map VStr ks) unpickled_env_keys
  end.

Definition mismatches (route_size : N) (cs : list (N * case)) : list N :=
  map fst (filter (fun ic => negb (check_case (Z.of_N route_size) (snd ic))) cs).
