(** C16: compose's outer loop, including the rounds after a route-table exhaustion: the script is faithful
    whenever compose returns at all. *)
From Dawn Require Import Diff.Model Diff.Spec Diff.Proofs_Basic Diff.Proofs_Record Diff.Proofs_Search Diff.Proofs_Seq.
From Coq Require Import Lia.
Open Scope Z_scope.

Section Rounds.
  Variable A : Type.
  Variable eqv : A -> A -> option bool.
  Variable route_size : Z.

  Notation zlen := (zlen A).
  Notation znth := (znth A).
  Notation equiv := (equiv A eqv).

  (** every internal edit starts at a valid index and is non-empty *)
  Definition head_pos (es : list (redit A)) : Prop :=
    match es with
    | [] => True
    | e :: _ => 0 <= rstart A e /\ 0 < zlen (rvals A e)
    end.

  Lemma gextend_ok a b reverse kind loc es es' x :
    head_wf A a b reverse es \/ loc = 0 ->
    head_pos es ->
    znth (src A a b reverse kind) loc = Some x ->
    extend A kind (src A a b reverse kind) loc es = Ok es' ->
    head_wf A a b reverse es' /\ head_pos es' /\
    forall sel, proj A sel es' = proj A sel es ++ (if sel kind then [x] else []).
  Proof.
    intros W HP N E. pose proof (znth_bound A _ _ _ N) as B. unfold extend in E.
    assert (FRESH : (vs <- zslice A (src A a b reverse kind) loc (loc + 1) ;; Ok (mkRedit A kind loc vs :: es)) = Ok es' ->
                    head_wf A a b reverse es' /\ head_pos es' /\
                    forall sel, proj A sel es' = proj A sel es ++ (if sel kind then [x] else [])).
    { rewrite (zslice_one _ _ _ _ N). simpl. intros H; inversion H; subst es'; clear H. split; [|split].
      - simpl. unfold Model.zlen. simpl length. change (Z.of_nat 1) with 1. apply zslice_one. exact N.
      - simpl. unfold Model.zlen. simpl. lia.
      - intros sel. unfold proj. simpl rev. rewrite flat_map_app. simpl. rewrite app_nil_r. reflexivity. }
    destruct es as [|last rest]; [exact (FRESH E)|].
    destruct (rkind_eqb (rk A last) kind && (rstart A last + zlen (rvals A last) =? loc)) eqn:C; [|exact (FRESH E)].
    clear FRESH. apply andb_true_iff in C as [C1 C2]. apply rkind_eqb_eq in C1. apply Z.eqb_eq in C2.
    simpl in HP. destruct W as [W|W]; [|lia].
    simpl in W. rewrite C1 in W. rewrite C2 in W.
    rewrite (zslice_snoc _ _ _ _ _ _ W N) in E. simpl in E. inversion E; subst es'; clear E. split; [|split].
    - simpl. rewrite zlen_app. unfold Model.zlen at 2. simpl length. change (Z.of_nat 1) with 1.
      rewrite Z.add_assoc, C2. apply zslice_snoc; assumption.
    - simpl. rewrite zlen_app. unfold Model.zlen at 2. simpl length. lia.
    - intros sel. unfold proj. simpl rev. rewrite !flat_map_app. simpl. rewrite !app_nil_r, C1.
      destruct (sel kind); [rewrite app_assoc; reflexivity | rewrite !app_nil_r; reflexivity].
  Qed.

  (** the walker's invariant, relative to what earlier rounds have already recorded ([pre_o], [pre_n]) *)
  Definition ginv (a b : list A) (reverse : bool) (pre_o pre_n : list A) (s : rstate A) : Prop :=
    0 <= px A s <= zlen a /\ 0 <= py A s <= zlen b /\
    (head_wf A a b reverse (redits A s) \/ (px A s = 0 /\ py A s = 0)) /\
    head_pos (redits A s) /\
    proj A sel_old (redits A s) =
      pre_o ++ firstn (Z.to_nat (if reverse then py A s else px A s)) (if reverse then b else a) /\
    Forall2 equiv (proj A sel_new (redits A s))
            (pre_n ++ firstn (Z.to_nat (if reverse then px A s else py A s)) (if reverse then a else b)).

  Lemma ginv_step a b reverse pre_o pre_n s kind loc x es' px' py' :
    ginv a b reverse pre_o pre_n s ->
    (px A s = 0 /\ py A s = 0 -> loc = 0) ->
    znth (src A a b reverse kind) loc = Some x ->
    extend A kind (src A a b reverse kind) loc (redits A s) = Ok es' ->
    0 <= px' <= zlen a -> 0 <= py' <= zlen b ->
    (if sel_old kind
     then firstn (Z.to_nat (if reverse then py' else px')) (if reverse then b else a) =
          firstn (Z.to_nat (if reverse then py A s else px A s)) (if reverse then b else a) ++ [x]
     else (if reverse then py' else px') = (if reverse then py A s else px A s)) ->
    (if sel_new kind
     then exists y, firstn (Z.to_nat (if reverse then px' else py')) (if reverse then a else b) =
                    firstn (Z.to_nat (if reverse then px A s else py A s)) (if reverse then a else b) ++ [y] /\
                    equiv x y
     else (if reverse then px' else py') = (if reverse then px A s else py A s)) ->
    ginv a b reverse pre_o pre_n (mkR A px' py' es').
  Proof.
    intros (I1 & I2 & I3 & IP & I4 & I5) L0 N E B1 B2 HO HN.
    assert (W0 : head_wf A a b reverse (redits A s) \/ loc = 0).
    { destruct I3 as [W|Z0]; [left; exact W | right; apply L0; exact Z0]. }
    destruct (gextend_ok _ _ _ _ _ _ _ _ W0 IP N E) as (W & HP & P).
    unfold ginv; simpl. split; [lia|]. split; [lia|]. split; [left; exact W|]. split; [exact HP|]. split.
    - rewrite (P sel_old). destruct (sel_old kind).
      + rewrite HO, I4, app_assoc. reflexivity.
      + rewrite HO, app_nil_r. exact I4.
    - rewrite (P sel_new). destruct (sel_new kind).
      + destruct HN as (y & HN & EQ). rewrite HN, app_assoc. apply Forall2_snoc; assumption.
      + rewrite HN, app_nil_r. exact I5.
  Qed.

  Lemma gwalk_ok a b reverse pre_o pre_n tx ty : forall fuel s s',
    ginv a b reverse pre_o pre_n s -> rem_ok A eqv a b s tx ty -> walk A fuel a b reverse tx ty s = Ok s' ->
    ginv a b reverse pre_o pre_n s' /\ px A s' = tx /\ py A s' = ty.
  Proof.
    induction fuel as [|fuel IH]; intros s s' I R W.
    - simpl in W. destruct R as (R1 & R2 & _).
      destruct ((px A s <? tx) || (py A s <? ty)) eqn:G; [discriminate|].
      apply orb_false_iff in G as [G1 G2]. apply Z.ltb_ge in G1, G2.
      inversion W; subst. split; [exact I|]. lia.
    - simpl in W. destruct R as (R1 & R2 & R3 & R4 & R5).
      destruct ((px A s <? tx) || (py A s <? ty)) eqn:G.
      2:{ apply orb_false_iff in G as [G1 G2]. apply Z.ltb_ge in G1, G2.
          inversion W; subst. split; [exact I|]. lia. }
      pose proof I as (I1 & I2 & _).
      destruct (ty - tx >? py A s - px A s) eqn:C1.
      + apply Z.gtb_lt in C1.
        destruct (znth_some A b (py A s)) as [x N]; [lia|].
        apply bind_ok in W as (es & E & W).
        apply IH in W; [exact W| |].
        * destruct reverse.
          -- apply (ginv_step a b true pre_o pre_n s RDelete (py A s) x); simpl; try assumption; try lia.
             apply firstn_snoc_znth; exact N.
          -- apply (ginv_step a b false pre_o pre_n s RAdd (py A s) x); simpl; try assumption; try lia.
             exists x. split; [apply firstn_snoc_znth; exact N | left; reflexivity].
        * unfold rem_ok; simpl. repeat split; try lia.
          replace (Z.min (tx - px A s) (ty - (py A s + 1))) with (Z.min (tx - px A s) (ty - py A s)) by lia.
          exact R5.
      + rewrite Z.gtb_ltb in C1. rewrite Z.ltb_ge in C1.
        destruct (ty - tx <? py A s - px A s) eqn:C2.
        * apply Z.ltb_lt in C2.
          destruct (znth_some A a (px A s)) as [x N]; [lia|].
          apply bind_ok in W as (es & E & W).
          apply IH in W; [exact W| |].
          -- destruct reverse.
             ++ apply (ginv_step a b true pre_o pre_n s RAdd (px A s) x); simpl; try assumption; try lia.
                exists x. split; [apply firstn_snoc_znth; exact N | left; reflexivity].
             ++ apply (ginv_step a b false pre_o pre_n s RDelete (px A s) x); simpl; try assumption; try lia.
                apply firstn_snoc_znth; exact N.
          -- unfold rem_ok; simpl. repeat split; try lia.
             replace (Z.min (tx - (px A s + 1)) (ty - py A s)) with (Z.min (tx - px A s) (ty - py A s)) by lia.
             exact R5.
        * apply Z.ltb_ge in C2.
          assert (D : ty - tx = py A s - px A s) by lia.
          assert (PX : px A s < tx).
          { apply orb_true_iff in G as [G|G]; apply Z.ltb_lt in G; lia. }
          destruct (R5 (px A s)) as (u & v & Nu & Nv & EQ); [lia|].
          replace (px A s + (ty - tx)) with (py A s) in Nv by lia.
          apply bind_ok in W as (es & E & W).
          apply IH in W; [exact W| |].
          -- destruct reverse.
             ++ apply (ginv_step a b true pre_o pre_n s RCommon (py A s) v); simpl; try assumption; try lia.
                ** apply firstn_snoc_znth; exact Nv.
                ** exists u. split; [apply firstn_snoc_znth; exact Nu | right; right; exact EQ].
             ++ apply (ginv_step a b false pre_o pre_n s RCommon (px A s) u); simpl; try assumption; try lia.
                ** apply firstn_snoc_znth; exact Nu.
                ** exists v. split; [apply firstn_snoc_znth; exact Nv | right; left; exact EQ].
          -- unfold rem_ok; simpl. repeat split; try lia.
             intros i Hi. apply R5. lia.
  Qed.

  Lemma grecord_pts_ok a b reverse pre_o pre_n ex ey : forall pts s s',
    ginv a b reverse pre_o pre_n s ->
    path_ok A eqv a b (px A s) (py A s) pts ex ey ->
    record_pts A a b reverse pts s = Ok s' ->
    ginv a b reverse pre_o pre_n s' /\ px A s' = ex /\ py A s' = ey.
  Proof.
    induction pts as [|[x y] pts IH]; intros s s' I PO R.
    - simpl in *. inversion R; subst. destruct PO as [P1 P2]. auto.
    - simpl in PO, R. destruct PO as ((L1 & L2 & L3) & BX & BY & PO).
      apply bind_ok in R as (s1 & W & R).
      apply gwalk_ok with (pre_o := pre_o) (pre_n := pre_n) in W; [|exact I|].
      + destruct W as (I1 & PX & PY). apply (IH s1 s' I1); [rewrite PX, PY; exact PO | exact R].
      + unfold rem_ok. repeat split; try lia. exact L3.
  Qed.

  Lemma ploop_partial a b size : zlen a <= zlen b -> forall fuel p st st',
    0 <= p -> Inv A eqv a b p st -> ploop A eqv route_size fuel a b size p st = Ok st' ->
    entries_ok A eqv a b (routes st') /\ live A a st' (zlen b - zlen a) /\ F A a st' (zlen b - zlen a) <= zlen b.
  Proof.
    intros LE. induction fuel as [|fuel IH]; intros p st st' P0 I L; [discriminate|].
    simpl in L.
    apply bind_ok in L as (st1 & L1 & L). apply bind_ok in L as (st2 & L2 & L). apply bind_ok in L as (st3 & L3 & L).
    apply loop_up_ok with (eqv := eqv) (p := p) in L1; [|exact LE|lia|lia|lia|apply inv_to_up; assumption].
    apply up_to_down in L1; [|lia].
    apply loop_down_ok with (eqv := eqv) (p := p) in L2; [|exact LE|lia|lia|lia|exact L1].
    destruct (final_step A eqv a b size LE _ _ _ P0 L2 L3) as (EO & LK & LEN & NX).
    fold (F A a st3 (zlen b - zlen a)) in L.
    destruct (F A a st3 (zlen b - zlen a) >=? zlen b) eqn:C1.
    - simpl in L. inversion L; subst st'. auto.
    - simpl in L. rewrite Z.geb_leb in C1. apply Z.leb_gt in C1.
      destruct (Z.of_nat (length (routes st3)) >? route_size).
      + inversion L; subst st'. auto.
      + apply (IH (p + 1) st3 st'); try lia; auto.
  Qed.

  Lemma zslice_tail (l : list A) s v : zslice A l s (zlen l) = Ok v -> firstn (Z.to_nat s) l ++ v = l.
  Proof.
    unfold zslice. destruct ((0 <=? s) && (s <=? zlen l) && (zlen l <=? zlen l)) eqn:C; [|discriminate].
    rewrite !andb_true_iff, !Z.leb_le in C. intros H; inversion H; subst v; clear H.
    rewrite (@firstn_all2 A (Z.to_nat (zlen l - s)) (skipn (Z.to_nat s) l)); [apply firstn_skipn|].
    rewrite skipn_length. unfold Model.zlen in *. lia.
  Qed.

  Lemma compose_rounds_S rr size reverse a b es :
    compose_rounds A eqv route_size (S rr) size reverse a b es =
    (st <- search A eqv route_size a b size ;;
     r <- aget size (path st) (zlen b - zlen a + (zlen a + 1)) ;;
     epc <- chain (S (length (routes st))) (routes st) r ;;
     s <- record_pts A a b reverse (rev epc) (mkR A 0 0 es) ;;
     if (px A s + 1 >? zlen a) && (py A s + 1 >? zlen b) then Ok (redits A s)
     else
       a' <- zslice A a (px A s) (zlen a) ;;
       b' <- zslice A b (py A s) (zlen b) ;;
       compose_rounds A eqv route_size rr size reverse a' b' (redits A s)).
  Proof. reflexivity. Qed.

  Lemma compose_ok size reverse : forall rounds a b es raw pre_o pre_n,
    zlen a <= zlen b -> head_pos es ->
    proj A sel_old es = pre_o -> Forall2 equiv (proj A sel_new es) pre_n ->
    compose_rounds A eqv route_size rounds size reverse a b es = Ok raw ->
    proj A sel_old raw = pre_o ++ (if reverse then b else a) /\
    Forall2 equiv (proj A sel_new raw) (pre_n ++ (if reverse then a else b)).
  Proof.
    induction rounds as [|rr IH]; intros a b es raw pre_o pre_n LE HP PO PN C; [discriminate|].
    rewrite compose_rounds_S in C.
    apply bind_ok in C as (st & S & C). apply bind_ok in C as (r & G & C).
    apply bind_ok in C as (epc & CH & C). apply bind_ok in C as (s & R & C).
    unfold search in S. apply (ploop_partial a b size LE) in S; [|lia|apply init_inv].
    destruct S as (EO & LK & FLE).
    unfold aget in G. destruct ((0 <=? _) && (_ <? _)) in G; [|discriminate]. inversion G; subst r; clear G.
    apply (chain_ok A eqv a b _ EO) in CH. fold (P A a st (zlen b - zlen a)) in CH.
    pose proof (live_range A eqv a b st _ EO LK) as RG.
    destruct LK as (L1 & L2 & r0 & N).
    destruct CH as [[CH _]|(x & y & r' & N' & _ & PTH)]; [lia|].
    rewrite N in N'. inversion N'; subst x y r'; clear N'.
    assert (G0 : ginv a b reverse pre_o pre_n (mkR A 0 0 es)).
    { unfold ginv; simpl. pose proof (zlen_nonneg A a). pose proof (zlen_nonneg A b).
      split; [lia|]. split; [lia|]. split; [right; auto|]. split; [exact HP|].
      destruct reverse; simpl; rewrite !app_nil_r; auto. }
    pose proof (grecord_pts_ok a b reverse pre_o pre_n _ _ (rev epc) (mkR A 0 0 es) s G0 PTH R) as GR.
    destruct GR as ((I1 & I2 & I3 & IP & I4 & I5) & PX & PY).
    destruct ((px A s + 1 >? zlen a) && (py A s + 1 >? zlen b)) eqn:DONE.
    - inversion C; subst raw; clear C.
      apply andb_true_iff in DONE as [D1 D2]. apply Z.gtb_lt in D1, D2.
      assert (px A s = zlen a) by lia. assert (py A s = zlen b) by lia.
      rewrite I4. split.
      + f_equal. destruct reverse; [rewrite H0 | rewrite H]; apply firstn_zlen.
      + destruct reverse; [rewrite H in I5 | rewrite H0 in I5]; rewrite firstn_zlen in I5; exact I5.
    - apply bind_ok in C as (a' & SA & C). apply bind_ok in C as (b' & SB & C).
      pose proof (zslice_len _ _ _ _ _ SA) as LA. pose proof (zslice_len _ _ _ _ _ SB) as LB.
      apply zslice_tail in SA. apply zslice_tail in SB.
      apply (IH a' b' (redits A s) raw
                (pre_o ++ firstn (Z.to_nat (if reverse then py A s else px A s)) (if reverse then b else a))
                (pre_n ++ firstn (Z.to_nat (if reverse then px A s else py A s)) (if reverse then a else b))) in C;
        [| lia | exact IP | exact I4 | exact I5].
      destruct C as [C1 C2]. rewrite C1. rewrite <- !app_assoc in *. split.
      + f_equal. destruct reverse; [exact SB | exact SA].
      + destruct reverse; [rewrite SA in C2 | rewrite SB in C2]; exact C2.
  Qed.

  (** seq_edits_faithful without any condition on the route table *)
  Lemma diff_slice_faithful_all a b script :
    diff_slice A eqv route_size a b = Ok script -> faithful A eqv a b script.
  Proof.
    unfold diff_slice. intros D.
    set (reverse := zlen a >=? zlen b) in *.
    set (a' := if reverse then b else a) in *.
    set (b' := if reverse then a else b) in *.
    assert (LE : zlen a' <= zlen b').
    { unfold a', b', reverse. destruct (zlen a >=? zlen b) eqn:G.
      - rewrite Z.geb_leb in G. apply Z.leb_le in G. exact G.
      - rewrite Z.geb_leb in G. apply Z.leb_gt in G. lia. }
    apply bind_ok in D as (raw & C & M).
    apply (compose_ok _ reverse _ a' b' [] raw [] []) in C; [|exact LE|exact I|reflexivity|constructor].
    destruct C as [C1 C2]. simpl in C1, C2.
    apply merge_ok in M; [|constructor]. destruct M as [M1 M2]. simpl in M1, M2.
    unfold faithful, old_proj, new_proj. rewrite M1, M2.
    unfold proj in C1, C2. unfold fproj.
    unfold a', b' in *. destruct reverse; split; assumption.
  Qed.
End Rounds.
