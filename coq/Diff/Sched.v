(** C16, last clause, when several targets are checked at the same time.

    The runner checks every target on a goroutine of its own (runner.target.start -> go t.run ->
    runTarget.Evaluate -> upToDate -> diffEnv), so the loop of diffEnv that collects the names of the differing
    parts,

        var reasons []string
        for _, k := range functionEnvKeys { if md.Has(k) { reasons = append(reasons, string(k)) } }
        switch len(reasons) { ... }

    runs for several targets at once, its steps interleaved in an arbitrary way.  [run_private] is that situation
    for the code that exists: every target has a [reasons] slice of its own.  [run_shared] is the same loop over a
    scratch slice with one backing array for all targets (reasons := scratch[:0]; capacity = len(functionEnvKeys), so
    append never reallocates): the class of defect the concurrent schedules of the correspondence harness look for.
    No proofs here (Diff/Proofs_Sched.v). *)
From Coq Require Import List NArith ZArith Bool.
From Dawn Require Import Base.Bytes Diff.Model.
Import ListNotations.

(** a target, for this loop, is its [md.Has] *)
Definition has_fn := str -> bool.

(** state of the loop of one target: index of the next key, its [reasons], the reason once it is built *)
Record tstate := mk_tstate { ts_pc : nat; ts_acc : list str; ts_out : option str }.
Definition ts_init : tstate := mk_tstate 0 [] None.

(** one step of one target: one iteration of the loop, or (after the last key) the switch that builds the reason *)
Definition tstep_keys (keys : list str) (h : has_fn) (s : tstate) : tstate :=
  match ts_out s with
  | Some _ => s
  | None =>
      match nth_error keys (ts_pc s) with
      | Some k => mk_tstate (S (ts_pc s)) (if h k then ts_acc s ++ [k] else ts_acc s) None
      | None => mk_tstate (ts_pc s) (ts_acc s) (Some (reason (ts_acc s)))
      end
  end.
Definition tstep : has_fn -> tstate -> tstate := tstep_keys function_env_keys.

Fixpoint upd {A} (l : list A) (i : nat) (f : A -> A) : list A :=
  match l, i with
  | [], _ => []
  | x :: r, O => f x :: r
  | x :: r, S j => x :: upd r j f
  end.

(** a schedule: which target makes the next step *)
Definition schedule := list nat.

Definition private_step (targets : list has_fn) (st : list tstate) (i : nat) : list tstate :=
  match nth_error targets i with
  | Some h => upd st i (tstep h)
  | None => st
  end.

Definition run_private (targets : list has_fn) (sched : schedule) : list tstate :=
  fold_left (private_step targets) sched (map (fun _ => ts_init) targets).

(** the steps a target needs: one per key and one for the switch *)
Definition steps_needed : nat := S (length function_env_keys).

(** *** the same loop over one shared backing array *)

Record sstate := mk_sstate { ss_pc : nat; ss_len : nat; ss_out : option str }.
Definition ss_init : sstate := mk_sstate 0 0 None.

Fixpoint set_nth {A} (l : list A) (i : nat) (x : A) : list A :=
  match l, i with
  | [], _ => []
  | _ :: r, O => x :: r
  | y :: r, S j => y :: set_nth r j x
  end.

(** [buf] is the backing array (capacity = number of keys); a target's slice is [firstn ss_len buf] *)
Definition sstep (h : has_fn) (buf : list str) (s : sstate) : list str * sstate :=
  match ss_out s with
  | Some _ => (buf, s)
  | None =>
      match nth_error function_env_keys (ss_pc s) with
      | Some k => if h k then (set_nth buf (ss_len s) k, mk_sstate (S (ss_pc s)) (S (ss_len s)) None)
                  else (buf, mk_sstate (S (ss_pc s)) (ss_len s) None)
      | None => (buf, mk_sstate (ss_pc s) (ss_len s) (Some (reason (firstn (ss_len s) buf))))
      end
  end.

Definition shared_step (targets : list has_fn) (st : list str * list sstate) (i : nat) : list str * list sstate :=
  match nth_error targets i, nth_error (snd st) i with
  | Some h, Some s => let '(buf', s') := sstep h (fst st) s in (buf', upd (snd st) i (fun _ => s'))
  | _, _ => st
  end.

Definition run_shared (targets : list has_fn) (sched : schedule) : list str * list sstate :=
  fold_left (shared_step targets) sched
            (map (fun _ => []) function_env_keys, map (fun _ => ss_init) targets).

(** [md.Has] of the diff of two environments *)
Definition env_has (route_size : Z) (old_env new_env : value) : has_fn :=
  match diff_depth route_size depth1000 old_env new_env with
  | Ok (Some (DMap _ _ edits)) => has_edit edits
  | _ => fun _ => false
  end.
