(** Executable model of /repo/diff (diff.go, diff_slice.go, types.go) and of the reason string built by
    function.go:diffEnv.  No proofs in this file.

    Layer 1 ([Section Seq]) is generic in an element type [A] with an equivalence test
    [eqv : A -> A -> option bool] (it stands for [starlark.EqualDepth(x, y, 1000)]; [None] = the
    "comparison exceeded maximum recursion depth" error).  It transcribes [diffSlice], [compose], [snake],
    [recordSeq], [extend] and the delete+add -> replace merge.
    Layer 2 instantiates the elements with a small universe of Starlark values and transcribes [DiffDepth],
    [diffMapping], [diffReplacements], [copySliceable] and [diffEnv].

    Go [int]s are [Z]; the arrays [fp] / [diff.path] are functions [Z -> Z] on the *array index*
    (k + offset) with an explicit bounds check ([aget]) whose failure is the outcome [Panic]. *)
From Dawn Require Export Base.Bytes.
From Coq Require Export ZArith.
Open Scope Z_scope.

Inductive outcome (T : Type) : Type :=
| Ok (t : T)
| ErrDepth        (* an error returned by EqualDepth / DiffDepth *)
| Panic           (* index or slice out of range *)
| OutOfFuel.      (* the model ran out of fuel: nothing is claimed *)
Arguments Ok {T} t.
Arguments ErrDepth {T}.
Arguments Panic {T}.
Arguments OutOfFuel {T}.

Definition bind {T U} (o : outcome T) (f : T -> outcome U) : outcome U :=
  match o with
  | Ok t => f t
  | ErrDepth => ErrDepth
  | Panic => Panic
  | OutOfFuel => OutOfFuel
  end.
Notation "x <- e ;; f" := (bind e (fun x => f)) (at level 61, e at next level, right associativity).
Notation "' p <- e ;; f" := (bind e (fun p => f)) (at level 61, p pattern, e at next level, right associativity).

(** diff_slice.go: editKind (internal) and types.go: EditKind (reported). *)
Inductive rkind := RDelete | RCommon | RAdd.
Inductive ekind := KCommon | KDelete | KAdd | KReplace.

Definition rkind_eqb (a b : rkind) : bool :=
  match a, b with RDelete, RDelete | RCommon, RCommon | RAdd, RAdd => true | _, _ => false end.

Section Seq.
  Variable A : Type.
  Variable eqv : A -> A -> option bool.
  (** [defaultRouteSize] (regenerated from the source by the check and passed in) *)
  Variable route_size : Z.

  Definition zlen (l : list A) : Z := Z.of_nat (length l).

  (** [s.Slice(start, end, 1)]; Go panics when the bounds are not 0 <= start <= end <= len
      (for a Tuple the upper bound checked by Go is the capacity; the model is stricter there). *)
  Definition zslice (l : list A) (s e : Z) : outcome (list A) :=
    if (0 <=? s) && (s <=? e) && (e <=? zlen l)
    then Ok (firstn (Z.to_nat (e - s)) (skipn (Z.to_nat s) l))
    else Panic.

  (** internal edit of diff_slice.go: kind, start, values *)
  Record redit := mkRedit { rk : rkind; rstart : Z; rvals : list A }.

  (** reported edit: the payload of a Common / Delete edit is [eold], of an Add edit [enew]; a Replace edit
      pairs [eold] with [enew] element by element (diffReplacements, modelled in layer 2). *)
  Record edit := mkEdit { ek : ekind; eold : list A; enew : list A }.

  (** *** snake *)

  (** the [for x < diff.m && y < diff.n] loop: number of leading positions at which the two suffixes agree *)
  Fixpoint lcp (xs ys : list A) : outcome Z :=
    match xs, ys with
    | x :: xs', y :: ys' =>
        match eqv x y with
        | None => ErrDepth
        | Some false => Ok 0
        | Some true => c <- lcp xs' ys' ;; Ok (c + 1)
        end
    | _, _ => Ok 0
    end.

  Record sstate := mkS { fp : Z -> Z; path : Z -> Z; routes : list (Z * Z * Z) }.

  Definition aget (size : Z) (f : Z -> Z) (i : Z) : outcome Z :=
    if (0 <=? i) && (i <? size) then Ok (f i) else Panic.

  Definition aset (f : Z -> Z) (i v : Z) : Z -> Z := fun j => if j =? i then v else f j.

  (** [snake(k, p, pp, offset)].  The reads of [diff.path] are at indices at which the caller has just read
      [fp] (same length), so they are not re-checked. *)
  Definition snake (a b : list A) (offset : Z) (st : sstate) (k p pp : Z) : outcome (Z * sstate) :=
    let r := if p >? pp then path st (k - 1 + offset) else path st (k + 1 + offset) in
    let y := Z.max p pp in
    let x := y - k in
    c <- (if (x <? zlen a) && (y <? zlen b)
          then if (x <? 0) || (y <? 0) then Panic
               else lcp (skipn (Z.to_nat x) a) (skipn (Z.to_nat y) b)
          else Ok 0) ;;
    Ok (y + c,
        mkS (fp st) (aset (path st) (k + offset) (Z.of_nat (length (routes st))))
            (routes st ++ [(x + c, y + c, r)])).

  (** one [s, err := diff.snake(k, fp[k-1+offset]+1, fp[k+1+offset], offset); fp[k+offset] = s] *)
  Definition step_k (a b : list A) (size offset : Z) (st : sstate) (k : Z) : outcome sstate :=
    p <- aget size (fp st) (k - 1 + offset) ;;
    pp <- aget size (fp st) (k + 1 + offset) ;;
    '(s, st') <- snake a b offset st k (p + 1) pp ;;
    Ok (mkS (aset (fp st') (k + offset) s) (path st') (routes st')).

  Fixpoint loop_up (cnt : nat) (a b : list A) (size offset : Z) (k : Z) (st : sstate) : outcome sstate :=
    match cnt with
    | O => Ok st
    | S c => st' <- step_k a b size offset st k ;; loop_up c a b size offset (k + 1) st'
    end.

  Fixpoint loop_down (cnt : nat) (a b : list A) (size offset : Z) (k : Z) (st : sstate) : outcome sstate :=
    match cnt with
    | O => Ok st
    | S c => st' <- step_k a b size offset st k ;; loop_down c a b size offset (k - 1) st'
    end.

  (** the [for p := 0; ; p++] loop *)
  Fixpoint ploop (fuel : nat) (a b : list A) (size : Z) (p : Z) (st : sstate) : outcome sstate :=
    match fuel with
    | O => OutOfFuel
    | S f =>
        let m := zlen a in
        let n := zlen b in
        let offset := m + 1 in
        let delta := n - m in
        st1 <- loop_up (Z.to_nat (delta + p)) a b size offset (- p) st ;;
        st2 <- loop_down (Z.to_nat p) a b size offset (delta + p) st1 ;;
        st3 <- step_k a b size offset st2 delta ;;
        if (fp st3 (delta + offset) >=? n) || (Z.of_nat (length (routes st3)) >? route_size)
        then Ok st3
        else ploop f a b size (p + 1) st3
    end.

  Definition init_state : sstate := mkS (fun _ => -1) (fun _ => -1) [].

  (** one pass of the body of compose's outer [for]: search, up to the break *)
  Definition search (a b : list A) (size : Z) : outcome sstate :=
    ploop (S (length a)) a b size 0 init_state.

  (** [for r != -1 { epc = append(epc, point{...}); r = pointWithRoute[r].r }] *)
  Fixpoint chain (fuel : nat) (rts : list (Z * Z * Z)) (r : Z) : outcome (list (Z * Z)) :=
    if r =? -1 then Ok []
    else match fuel with
         | O => OutOfFuel
         | S f =>
             if r <? 0 then Panic
             else match nth_error rts (Z.to_nat r) with
                  | None => Panic
                  | Some (x, y, r') => rest <- chain f rts r' ;; Ok ((x, y) :: rest)
                  end
         end.

  (** *** recordSeq / extend *)

  Definition extend (kind : rkind) (from : list A) (loc : Z) (es : list redit) : outcome (list redit) :=
    let fresh := vs <- zslice from loc (loc + 1) ;; Ok (mkRedit kind loc vs :: es) in
    match es with
    | last :: rest =>
        if rkind_eqb (rk last) kind && (rstart last + zlen (rvals last) =? loc)
        then vs <- zslice from (rstart last) (loc + 1) ;; Ok (mkRedit kind (rstart last) vs :: rest)
        else fresh
    | [] => fresh
    end.

  (** the walker state: [px], [py] and [diff.edits] (latest edit first) *)
  Record rstate := mkR { px : Z; py : Z; redits : list redit }.

  (** the inner [for (px < epc[i].x) || (py < epc[i].y)] loop for one point (tx, ty) *)
  Fixpoint walk (fuel : nat) (a b : list A) (reverse : bool) (tx ty : Z) (s : rstate) : outcome rstate :=
    if (px s <? tx) || (py s <? ty) then
      match fuel with
      | O => OutOfFuel
      | S f =>
          if (ty - tx) >? (py s - px s) then
            es <- extend (if reverse then RDelete else RAdd) b (py s) (redits s) ;;
            walk f a b reverse tx ty (mkR (px s) (py s + 1) es)
          else if (ty - tx) <? (py s - px s) then
            es <- extend (if reverse then RAdd else RDelete) a (px s) (redits s) ;;
            walk f a b reverse tx ty (mkR (px s + 1) (py s) es)
          else
            es <- extend RCommon (if reverse then b else a) (if reverse then py s else px s) (redits s) ;;
            walk f a b reverse tx ty (mkR (px s + 1) (py s + 1) es)
      end
    else Ok s.

  (** enough fuel for [walk]: the diagonal distance plus the longer remaining side *)
  Definition walk_fuel (tx ty : Z) (s : rstate) : nat :=
    Z.to_nat (Z.abs ((ty - tx) - (py s - px s)) + Z.max 0 (Z.max (tx - px s) (ty - py s))).

  (** [pts] in walking order (i.e. [epc] reversed) *)
  Fixpoint record_pts (a b : list A) (reverse : bool) (pts : list (Z * Z)) (s : rstate) : outcome rstate :=
    match pts with
    | [] => Ok s
    | (tx, ty) :: pts' =>
        s' <- walk (walk_fuel tx ty s) a b reverse tx ty s ;;
        record_pts a b reverse pts' s'
    end.

  (** *** compose: the outer [for] (repeated when the route table was exhausted) *)
  Fixpoint compose_rounds (rounds : nat) (size : Z) (reverse : bool) (a b : list A) (es : list redit)
    : outcome (list redit) :=
    match rounds with
    | O => OutOfFuel
    | S rr =>
        let m := zlen a in
        let n := zlen b in
        st <- search a b size ;;
        r <- aget size (path st) (n - m + (m + 1)) ;;
        epc <- chain (S (length (routes st))) (routes st) r ;;
        s <- record_pts a b reverse (rev epc) (mkR 0 0 es) ;;
        if (px s + 1 >? m) && (py s + 1 >? n) then Ok (redits s)
        else
          a' <- zslice a (px s) m ;;
          b' <- zslice b (py s) n ;;
          compose_rounds rr size reverse a' b' (redits s)
    end.

  (** *** the merge of delete+add into replace (second half of compose) *)
  Definition mk_edit (e : redit) : edit :=
    match rk e with
    | RDelete => mkEdit KDelete (rvals e) []
    | RCommon => mkEdit KCommon (rvals e) (rvals e)
    | RAdd => mkEdit KAdd [] (rvals e)
    end.

  Definition is_add (e : redit) : bool := match rk e with RAdd => true | _ => false end.
  Definition is_delete (e : edit) : bool := match ek e with KDelete => true | _ => false end.

  (** [raw] in recording order, [acc] = the reported edits so far, latest first *)
  Fixpoint merge (raw : list redit) (acc : list edit) : outcome (list edit) :=
    match raw with
    | [] => Ok (rev acc)
    | e :: raw' =>
        match acc with
        | [] => merge raw' [mk_edit e]
        | tail :: acc' =>
            if is_add e && is_delete tail then
              let old := eold tail in
              let new := rvals e in
              if zlen old <? zlen new then
                new0 <- zslice new 0 (zlen old) ;;
                rest <- zslice new (zlen old) (zlen new) ;;
                merge raw' (mkEdit KAdd [] rest :: mkEdit KReplace old new0 :: acc')
              else if zlen old >? zlen new then
                old0 <- zslice old 0 (zlen new) ;;
                rest <- zslice old (zlen new) (zlen old) ;;
                merge raw' (mkEdit KDelete rest [] :: mkEdit KReplace old0 new :: acc')
              else merge raw' (mkEdit KReplace old new :: acc')
            else merge raw' (mk_edit e :: acc)
        end
    end.

  (** *** diffSlice: [a] = old, [b] = new, in the order given *)
  Definition diff_slice (a b : list A) : outcome (list edit) :=
    let m := zlen a in
    let n := zlen b in
    let reverse := m >=? n in
    let a' := if reverse then b else a in
    let b' := if reverse then a else b in
    raw <- compose_rounds (S (length a + length b)) (m + n + 3) reverse a' b' [] ;;
    merge (rev raw) [].

  (** did the first search stop because the route table was full? (the theorems about the search are stated
      for [false]) *)
  Definition exhausted (a b : list A) : outcome bool :=
    let a' := if zlen a >=? zlen b then b else a in
    let b' := if zlen a >=? zlen b then a else b in
    st <- search a' b' (zlen a + zlen b + 3) ;;
    Ok (negb (fp st (zlen b' - zlen a' + (zlen a' + 1)) >=? zlen b')).
End Seq.

Arguments mkEdit {A}.
Arguments ek {A}.
Arguments eold {A}.
Arguments enew {A}.

(** * Layer 2: Starlark values *)

(** Floats.  The model holds the special values and the finite floats that are a multiple of one half
    ([FHalf z] = z/2, [FHalf 0] = +0.0; exact in a float64 for |z| < 2^53, which is all the harness renders):
    enough to have, as in Starlark, numbers of different types that are equal (1 == 1.0, 0 == -0.0 == 0.0),
    floats that equal no int (0.5, the infinities, NaN) and NaN == NaN (floatCmp). *)
Inductive flt := FNaN | FPosInf | FNegInf | FNegZero | FHalf (z : Z).

(** floatCmp(x, y) == 0 *)
Definition flt_eqb (x y : flt) : bool :=
  match x, y with
  | FNaN, FNaN | FPosInf, FPosInf | FNegInf, FNegInf | FNegZero, FNegZero => true
  | FNegZero, FHalf z | FHalf z, FNegZero => z =? 0
  | FHalf a, FHalf b => a =? b
  | _, _ => false
  end.

(** CompareDepth's "int/float" case: the float is finite and x.rational().Cmp(y.rational()) == 0 *)
Definition int_flt_eqb (n : Z) (f : flt) : bool :=
  match f with
  | FHalf z => z =? 2 * n
  | FNegZero => n =? 0
  | _ => false
  end.

Inductive value :=
| VNone
| VBool (b : bool)
| VInt (z : Z)
| VFloat (f : flt)
| VStr (s : str)
| VBytes (s : str)
| VTuple (l : list value)
| VList (l : list value)
| VDict (kvs : list (value * value)).   (* insertion order *)

(** *** starlark.EqualDepth(x, y, depth) restricted to this universe; [None] = depth error *)

Fixpoint all2 {X} (f : X -> X -> option bool) (xs ys : list X) : option bool :=
  match xs, ys with
  | x :: xs', y :: ys' =>
      match f x y with
      | None => None
      | Some false => Some false
      | Some true => all2 f xs' ys'
      end
  | _, _ => Some true
  end.

Definition is_true (o : option bool) : bool := match o with Some true => true | _ => false end.

(** Dict.Get(k): first entry whose key is Equal to [k] (Equal = EqualDepth(.., CompareLimit); an error
    there is swallowed by every caller in diff.go, and reads as "absent") *)
Fixpoint lookup (keq : value -> value -> bool) (k : value) (kvs : list (value * value)) : option value :=
  match kvs with
  | [] => None
  | (k', v) :: rest => if keq k k' then Some v else lookup keq k rest
  end.

(** dictsEqual's loop over x's entries *)
Fixpoint dict_all (keq : value -> value -> bool) (f : value -> value -> option bool)
         (xs ys : list (value * value)) : option bool :=
  match xs with
  | [] => Some true
  | (k, xv) :: xs' =>
      match lookup keq k ys with
      | None => Some false
      | Some yv =>
          match f xv yv with
          | None => None
          | Some false => Some false
          | Some true => dict_all keq f xs' ys
          end
      end
  end.

Definition compare_limit : nat := 10.

(** [veq_gen keq depth]: CompareDepth(EQL, x, y, depth) with the key comparison of Dict.Get abstracted *)
Fixpoint veq_gen (keq : value -> value -> bool) (depth : nat) (x y : value) : option bool :=
  match depth with
  | O => None
  | S d =>
      match x, y with
      | VNone, VNone => Some true
      | VBool a, VBool b => Some (Bool.eqb a b)
      | VInt a, VInt b => Some (a =? b)
      | VFloat a, VFloat b => Some (flt_eqb a b)
      (* values of different types are unequal, except an int and a float of the same value *)
      | VInt a, VFloat b => Some (int_flt_eqb a b)
      | VFloat a, VInt b => Some (int_flt_eqb b a)
      | VStr a, VStr b => Some (str_eqb a b)
      | VBytes a, VBytes b => Some (str_eqb a b)
      | VTuple a, VTuple b =>
          if Nat.eqb (length a) (length b) then all2 (veq_gen keq d) a b else Some false
      | VList a, VList b =>
          if Nat.eqb (length a) (length b) then all2 (veq_gen keq d) a b else Some false
      | VDict a, VDict b =>
          if Nat.eqb (length a) (length b) then dict_all keq (veq_gen keq d) a b else Some false
      | _, _ => Some false
      end
  end.

(** keys are hashable, hence contain no dict or list: the inner key comparison never reaches a dict *)
Definition key_eq (k k' : value) : bool := is_true (veq_gen (fun _ _ => false) compare_limit k k').

Definition veq_d : nat -> value -> value -> option bool := veq_gen key_eq.

(** the depth used by snake and by diffEnv *)
Definition depth1000 : nat := Eval vm_compute in N.to_nat 1000%N.

(** *** the diff tree (types.go) *)

Inductive vdiff :=
| DLit (o n : value)                                   (* LiteralDiff *)
| DSlice (o n : value) (edits : list sedit)            (* SliceableDiff *)
| DMap (o n : value) (edits : list (value * medit))    (* MappingDiff, edits in the dict's insertion order *)
with sedit :=
| SE (k : ekind) (payload : value)                     (* common / delete / add: the Edit's Sliceable *)
| SRepl (diffs : list (option vdiff))                  (* replace: tuple of diffs, None = starlark.None *)
with medit :=
| MDel (v : value)
| MRepl (d : vdiff)
| MAdd (v : value).

Definition dold (d : vdiff) : value := match d with DLit o _ | DSlice o _ _ | DMap o _ _ => o end.
Definition dnew (d : vdiff) : value := match d with DLit _ n | DSlice _ n _ | DMap _ n _ => n end.

(** container kind of an Edit payload after copySliceable *)
Inductive ckind := CStr | CBytes | CTup.

Definition stringlike (c : ckind) : bool := match c with CTup => false | _ => true end.

(** a Sliceable seen as (kind of its slices after copySliceable, elements as returned by Index) *)
Definition sliceable (v : value) : option (ckind * list value) :=
  match v with
  | VStr s => Some (CStr, map (fun c => VStr [c]) s)
  | VBytes s => Some (CBytes, map (fun c => VBytes [c]) s)
  | VTuple l => Some (CTup, l)
  | VList l => Some (CTup, l)
  | _ => None
  end.

Definition bytes_of (v : value) : str := match v with VStr s | VBytes s => s | _ => [] end.

(** rebuild the slice holding the given elements *)
Definition mk (c : ckind) (vs : list value) : value :=
  match c with
  | CStr => VStr (flat_map bytes_of vs)
  | CBytes => VBytes (flat_map bytes_of vs)
  | CTup => VTuple vs
  end.

Fixpoint map2o {X Y} (f : X -> X -> outcome Y) (xs ys : list X) : outcome (list Y) :=
  match xs, ys with
  | x :: xs', y :: ys' => d <- f x y ;; r <- map2o f xs' ys' ;; Ok (d :: r)
  | _, _ => Ok []
  end.

Fixpoint mapo {X Y} (f : X -> outcome Y) (xs : list X) : outcome (list Y) :=
  match xs with
  | x :: xs' => d <- f x ;; r <- mapo f xs' ;; Ok (d :: r)
  | [] => Ok []
  end.

(** one reported Edit; [dd] = DiffDepth at the depth given to diffSlice *)
Definition render_edit (dd : value -> value -> outcome (option vdiff)) (ca cb : ckind) (e : edit value)
  : outcome sedit :=
  match ek e with
  | KCommon => Ok (SE KCommon (mk ca (eold e)))
  | KDelete => Ok (SE KDelete (mk ca (eold e)))
  | KAdd => Ok (SE KAdd (mk cb (enew e)))
  | KReplace =>
      if stringlike ca && stringlike cb
      then Ok (SRepl [Some (DLit (mk ca (eold e)) (mk cb (enew e)))])
      else ds <- map2o dd (eold e) (enew e) ;; Ok (SRepl ds)
  end.

(** diffMapping; [dd] = DiffDepth at depth-1 *)
Fixpoint map_old (dd : value -> value -> outcome (option vdiff)) (old new : list (value * value))
  : outcome (list (value * medit)) :=
  match old with
  | [] => Ok []
  | (k, ov) :: old' =>
      match lookup key_eq k new with
      | None => r <- map_old dd old' new ;; Ok ((k, MDel ov) :: r)
      | Some nv =>
          d <- dd ov nv ;;
          r <- map_old dd old' new ;;
          match d with
          | None => Ok r
          | Some df => Ok ((k, MRepl df) :: r)
          end
      end
  end.

Fixpoint map_new (old new : list (value * value)) : list (value * medit) :=
  match new with
  | [] => []
  | (k, nv) :: new' =>
      match lookup key_eq k old with
      | None => (k, MAdd nv) :: map_new old new'
      | Some _ => map_new old new'
      end
  end.

Definition diff_mapping (dd : value -> value -> outcome (option vdiff)) (old new : list (value * value))
  : outcome (list (value * medit)) :=
  r <- map_old dd old new ;; Ok (r ++ map_new old new).

Section Depth.
  Variable route_size : Z.

  (** DiffDepth(old, new, depth) *)
  Fixpoint diff_depth (depth : nat) (old new : value) : outcome (option vdiff) :=
    match depth with
    | O => ErrDepth
    | S d =>
        match veq_d depth old new with
        | None => ErrDepth
        | Some true => Ok None
        | Some false =>
            match sliceable old, sliceable new with
            | Some (ca, ea), Some (cb, eb) =>
                script <- diff_slice value (veq_d depth1000) route_size ea eb ;;
                edits <- mapo (render_edit (diff_depth d) ca cb) script ;;
                Ok (Some (DSlice old new edits))
            | _, _ =>
                match old, new with
                | VDict okv, VDict nkv =>
                    edits <- diff_mapping (diff_depth d) okv nkv ;;
                    Ok (Some (DMap old new edits))
                | _, _ => Ok (Some (DLit old new))
                end
            end
        end
    end.

  (** diff.Diff *)
  Definition diff (old new : value) : outcome (option vdiff) := diff_depth compare_limit old new.
End Depth.

(** *** function.go: the reason string of diffEnv *)

Definition s_names : str := [110;97;109;101;115]%N.
Definition s_constant_values : str := [99;111;110;115;116;97;110;116;32;118;97;108;117;101;115]%N.
Definition s_predeclared_values : str := [112;114;101;100;101;99;108;97;114;101;100;32;118;97;108;117;101;115]%N.
Definition s_universal_values : str := [117;110;105;118;101;114;115;97;108;32;118;97;108;117;101;115]%N.
Definition s_function_values : str := [102;117;110;99;116;105;111;110;32;118;97;108;117;101;115]%N.
Definition s_global_values : str := [103;108;111;98;97;108;32;118;97;108;117;101;115]%N.
Definition s_default_parameter_values : str :=
  [100;101;102;97;117;108;116;32;112;97;114;97;109;101;116;101;114;32;118;97;108;117;101;115]%N.
Definition s_free_variables : str := [102;114;101;101;32;118;97;114;105;97;98;108;101;115]%N.
Definition s_code : str := [99;111;100;101]%N.

Definition function_env_keys : list str :=
  [s_names; s_constant_values; s_predeclared_values; s_universal_values; s_function_values;
   s_global_values; s_default_parameter_values; s_free_variables; s_code].

Definition s_environment : str := [101;110;118;105;114;111;110;109;101;110;116]%N.
Definition s_and : str := [32;97;110;100;32]%N.             (* " and " *)
Definition s_comma : str := [44;32]%N.                      (* ", " *)
Definition s_comma_and : str := [44;32;97;110;100;32]%N.    (* ", and " *)
Definition s_changed : str := [32;99;104;97;110;103;101;100]%N.   (* " changed" *)
Definition s_never_run : str :=
  [116;97;114;103;101;116;32;104;97;115;32;110;101;118;101;114;32;98;101;101;110;32;114;117;110]%N.
Definition s_environment_changed : str := s_environment ++ s_changed.

(** strings.Join(l, ", ") *)
Fixpoint join_comma (l : list str) : str :=
  match l with
  | [] => []
  | [x] => x
  | x :: rest => x ++ s_comma ++ join_comma rest
  end.

(** the [switch len(reasons)] of diffEnv, followed by [+ " changed"] *)
Definition reason (reasons : list str) : str :=
  (match reasons with
   | [] => s_environment
   | [x] => x
   | [x; y] => x ++ s_and ++ y
   | _ => join_comma (removelast reasons) ++ s_comma_and ++ last reasons []
   end) ++ s_changed.

(** md.Has(k) *)
Definition has_edit (edits : list (value * medit)) (k : str) : bool :=
  existsb (fun e => key_eq (VStr k) (fst e)) edits.

Definition reasons_of (edits : list (value * medit)) : list str :=
  filter (has_edit edits) function_env_keys.

(** outcome of [f.stamp()] compared with the recorded stamp (targetInfo.Data); pickling is outside this
    model, so it is an input *)
Inductive stamp_state := StampErr | StampEqual | StampDiffers.

(** diffEnv: (up to date, reason).  An error of EqualDepth or DiffDepth is reported as the generic reason, and
    so are environments that compare equal under a stamp that differs.  [Panic] = the explicit panic
    "expected a diff in unequal environments". *)
Definition diff_env (ss : stamp_state) (route_size : Z) (old_env new_env : value) : outcome (bool * str) :=
  match old_env with
  | VNone => Ok (false, s_never_run)
  | _ =>
      match ss with
      | StampEqual => Ok (true, [])
      | _ =>
        match veq_d depth1000 old_env new_env with
        | None => Ok (false, s_environment_changed)
        | Some true =>
            match ss with
            | StampErr => Ok (true, [])
            | _ => Ok (false, s_environment_changed)
            end
        | Some false =>
            match old_env, new_env with
            | VDict _, VDict _ =>
                match diff_depth route_size depth1000 old_env new_env with
                | Ok (Some (DMap _ _ edits)) => Ok (false, reason (reasons_of edits))
                | Ok _ => Panic
                | ErrDepth => Ok (false, s_environment_changed)
                | Panic => Panic
                | OutOfFuel => OutOfFuel
                end
            | _, _ => Ok (false, s_environment_changed)
            end
        end
      end
  end.
