(** C16, second layer: the O(NP) search of compose returns a valid path whenever it stops because the far
    corner was reached (i.e. not because the route table was full). *)
From Dawn Require Import Diff.Model Diff.Spec Diff.Proofs_Basic Diff.Proofs_Record.
From Coq Require Import Lia.
Open Scope Z_scope.

Section LcpFacts.
  Variable A : Type.
  Variable eqv : A -> A -> option bool.

  Lemma nth_error_skipn : forall s (l : list A) i, nth_error (skipn s l) i = nth_error l (s + i).
  Proof.
    induction s as [|s IH]; intros l i.
    - reflexivity.
    - destruct l as [|x l].
      + simpl. destruct i; reflexivity.
      + simpl. apply IH.
  Qed.

  Lemma lcp_spec : forall xs ys c,
    lcp A eqv xs ys = Ok c ->
    0 <= c <= Z.of_nat (length xs) /\ c <= Z.of_nat (length ys) /\
    forall i, (i < Z.to_nat c)%nat ->
      exists u v, nth_error xs i = Some u /\ nth_error ys i = Some v /\ eqv u v = Some true.
  Proof.
    induction xs as [|x xs IH]; intros ys c H.
    - simpl in H. inversion H; subst. simpl. repeat split; try lia; intros i Hi; simpl in Hi; lia.
    - destruct ys as [|y ys].
      + simpl in H. inversion H; subst. simpl. repeat split; try lia; intros i Hi; simpl in Hi; lia.
      + simpl in H. destruct (eqv x y) as [[|]|] eqn:E; try discriminate.
        * apply bind_ok in H as (c' & L & H). inversion H; subst c; clear H.
          apply IH in L as (L1 & L2 & L3). simpl length. repeat split; try lia.
          intros i Hi. destruct i as [|i].
          -- exists x, y. auto.
          -- simpl. apply L3. lia.
        * inversion H; subst. simpl length. repeat split; try lia; intros i Hi; simpl in Hi; lia.
  Qed.
End LcpFacts.

Section Search.
  Variable A : Type.
  Variable eqv : A -> A -> option bool.
  Variable route_size : Z.
  Variables a b : list A.
  Variable size : Z.

  Notation zlen := (zlen A).
  Notation znth := (znth A).
  Notation m := (zlen a).
  Notation n := (zlen b).
  Notation delta := (zlen b - zlen a).
  Notation offset := (zlen a + 1).

  Hypothesis Hmn : m <= n.

  Definition F (st : sstate) (k : Z) : Z := fp st (k + offset).
  Definition P (st : sstate) (k : Z) : Z := path st (k + offset).

  Definition link (px py x y : Z) : Prop :=
    px <= x /\ py <= y /\ diag_prop A eqv a b (x - Z.min (x - px) (y - py)) x (y - x).

  Definition entry_ok (rts : list (Z * Z * Z)) (i : nat) (e : Z * Z * Z) : Prop :=
    let '(x, y, r) := e in
    0 <= x <= m /\ 0 <= y <= n /\
    ((r = -1 /\ link 0 0 x y) \/
     (0 <= r < Z.of_nat i /\
      exists x' y' r', nth_error rts (Z.to_nat r) = Some (x', y', r') /\ link x' y' x y)).

  Definition entries_ok (rts : list (Z * Z * Z)) : Prop :=
    forall i e, nth_error rts i = Some e -> entry_ok rts i e.

  Definition live (st : sstate) (k : Z) : Prop :=
    0 <= F st k /\ 0 <= P st k /\
    exists r, nth_error (routes st) (Z.to_nat (P st k)) = Some (F st k - k, F st k, r).

  Definition dead (st : sstate) (k : Z) : Prop := F st k = -1 /\ P st k = -1.

  Lemma live_range st k : entries_ok (routes st) -> live st k -> 0 <= F st k - k <= m /\ 0 <= F st k <= n.
  Proof.
    intros EO (_ & _ & r & N). apply EO in N. unfold entry_ok in N. lia.
  Qed.

  (** the start point of a snake is an in-range neighbour of a recorded point, or the origin *)
  Definition start_ok (st : sstate) (k : Z) : Prop :=
    let pa := F st (k - 1) + 1 in
    let pp := F st (k + 1) in
    let y := Z.max pa pp in
    let x := y - k in
    let r := if pa >? pp then P st (k - 1) else P st (k + 1) in
    0 <= x <= m /\ 0 <= y <= n /\
    ((r = -1 /\ x = 0 /\ y = 0) \/
     (0 <= r /\ exists x' y' r', nth_error (routes st) (Z.to_nat r) = Some (x', y', r') /\
                ((x' = x /\ y' + 1 = y) \/ (x' + 1 = x /\ y' = y)))).

  Definition same_elsewhere (st st' : sstate) (k : Z) : Prop :=
    (forall j, j <> k -> F st' j = F st j /\ P st' j = P st j) /\
    (forall i e, nth_error (routes st) i = Some e -> nth_error (routes st') i = Some e).

  Lemma step_ok st st' k :
    entries_ok (routes st) -> start_ok st k ->
    step_k A eqv a b size offset st k = Ok st' ->
    entries_ok (routes st') /\ live st' k /\ same_elsewhere st st' k /\
    Z.max (F st (k - 1) + 1) (F st (k + 1)) <= F st' k /\ F st' k <= n /\ F st' k - k <= m.
  Proof.
    intros EO SO H. unfold step_k in H.
    apply bind_ok in H as (pa & G1 & H). apply bind_ok in H as (pp & G2 & H).
    apply bind_ok in H as ([s st1] & SN & H). inversion H; subst st'; clear H.
    unfold aget in G1, G2.
    destruct ((0 <=? k - 1 + offset) && (k - 1 + offset <? size)); [|discriminate].
    destruct ((0 <=? k + 1 + offset) && (k + 1 + offset <? size)); [|discriminate].
    inversion G1; subst pa; clear G1. inversion G2; subst pp; clear G2.
    unfold start_ok in SO. unfold F, P in SO.
    replace (k - 1 + offset) with (k - 1 + offset) in * by lia.
    unfold snake in SN.
    set (pa := fp st (k - 1 + offset) + 1) in *.
    set (pp := fp st (k + 1 + offset)) in *.
    set (y := Z.max pa pp) in *.
    set (x := y - k) in *.
    set (r := if pa >? pp then path st (k - 1 + offset) else path st (k + 1 + offset)) in *.
    destruct SO as (SX & SY & SR).
    apply bind_ok in SN as (c & LC & SN). inversion SN; subst s st1; clear SN.
    assert (CS : 0 <= c /\ x + c <= m /\ y + c <= n /\ diag_prop A eqv a b x (x + c) (y - x)).
    { destruct ((x <? m) && (y <? n)) eqn:RG.
      - apply andb_true_iff in RG as [RG1 RG2]. apply Z.ltb_lt in RG1, RG2.
        destruct ((x <? 0) || (y <? 0)) eqn:NEG; [discriminate|].
        apply lcp_spec in LC as (L1 & L2 & L3). rewrite skipn_length in L1, L2.
        unfold Model.zlen in *. repeat split; try lia.
        intros i Hi. destruct (L3 (Z.to_nat (i - x))) as (u & v & Nu & Nv & E); [lia|].
        rewrite nth_error_skipn in Nu, Nv. exists u, v. unfold Spec.znth.
        destruct (i <? 0) eqn:I0; [lia|]. destruct (i + (y - x) <? 0) eqn:I1; [lia|].
        replace (Z.to_nat x + Z.to_nat (i - x))%nat with (Z.to_nat i) in Nu by lia.
        replace (Z.to_nat y + Z.to_nat (i - x))%nat with (Z.to_nat (i + (y - x))) in Nv by lia.
        auto.
      - inversion LC; subst c. repeat split; try lia. intros i Hi. lia. }
    destruct CS as (C0 & CX & CY & CD).
    simpl routes. simpl fp. simpl path.
    assert (EO' : entries_ok (routes st ++ [(x + c, y + c, r)])).
    { intros i e N. destruct (Nat.lt_ge_cases i (length (routes st))) as [LT|GE].
      - rewrite nth_error_app1 in N by exact LT. pose proof (EO _ _ N) as E.
        unfold entry_ok in *. destruct e as [[ex ey] er]. destruct E as (E1 & E2 & E3).
        split; [exact E1|]. split; [exact E2|]. destruct E3 as [E3|(E3 & x' & y' & r' & N' & LK)]; [left; exact E3|].
        right. split; [exact E3|]. exists x', y', r'. split; [|exact LK].
        rewrite nth_error_app1; [exact N'|]. lia.
      - rewrite nth_error_app2 in N by exact GE.
        destruct (i - length (routes st))%nat as [|q] eqn:Q; [|destruct q; discriminate].
        simpl in N. inversion N; subst e; clear N.
        assert (i = length (routes st)) by lia. subst i.
        unfold entry_ok. split; [lia|]. split; [lia|].
        destruct SR as [(R1 & R2 & R3)|(R1 & x' & y' & r' & N' & ST)].
        + left. split; [exact R1|]. unfold link. split; [lia|]. split; [lia|].
          replace (x + c - Z.min (x + c - 0) (y + c - 0)) with x by lia.
          replace (y + c - (x + c)) with (y - x) by lia. exact CD.
        + right. assert (Z.to_nat r < length (routes st))%nat by (apply nth_error_Some; congruence).
          split; [lia|]. exists x', y', r'. split; [rewrite nth_error_app1 by lia; exact N'|].
          unfold link. split; [lia|]. split; [lia|].
          replace (x + c - Z.min (x + c - x') (y + c - y')) with x by lia.
          replace (y + c - (x + c)) with (y - x) by lia. exact CD. }
    split; [exact EO'|]. split.
    - unfold live, F, P. simpl. unfold aset. rewrite !Z.eqb_refl.
      split; [lia|]. split; [lia|]. exists r. rewrite Nat2Z.id.
      rewrite nth_error_app2 by lia. rewrite Nat.sub_diag. simpl. f_equal. f_equal. unfold x. f_equal. lia.
    - split.
      + split.
        * intros j NE. unfold F, P. simpl. unfold aset.
          destruct (j + offset =? k + offset) eqn:Q; [apply Z.eqb_eq in Q; lia|]. auto.
        * intros i e N. simpl. rewrite nth_error_app1; [exact N|]. apply nth_error_Some. congruence.
      + unfold F. simpl. unfold aset. rewrite Z.eqb_refl.
        replace (k - 1 + offset) with (k - 1 + offset) by lia.
        fold pa. fold pp. fold y. unfold x in *. lia.
  Qed.

  Lemma live_preserved st st' k j : same_elsewhere st st' k -> j <> k -> live st j -> live st' j.
  Proof.
    intros [S1 S2] NE (L1 & L2 & r & N). destruct (S1 j NE) as [E1 E2].
    unfold live. rewrite E1, E2. split; [exact L1|]. split; [exact L2|]. exists r. apply S2. exact N.
  Qed.

  Lemma dead_preserved st st' k j : same_elsewhere st st' k -> j <> k -> dead st j -> dead st' j.
  Proof. intros [S1 _] NE [D1 D2]. destruct (S1 j NE) as [E1 E2]. unfold dead. rewrite E1, E2. auto. Qed.

  Definition oldlive (p j : Z) : Prop := 1 <= p /\ - p < j < delta + p.

  Definition oldcond (p : Z) (st : sstate) (j : Z) : Prop :=
    (oldlive p j -> live st j /\ F st j < n /\ F st j - j < m) /\
    (~ oldlive p j -> dead st j).

  Lemma oldcond_preserved p st st' k j : same_elsewhere st st' k -> j <> k -> oldcond p st j -> oldcond p st' j.
  Proof.
    intros S NE [O1 O2]. pose proof S as [S1 _]. destruct (S1 j NE) as [E1 E2]. split.
    - intros OL. destruct (O1 OL) as (L & B1 & B2). rewrite E1. split; [|lia].
      eapply live_preserved; eauto.
    - intros NL. eapply dead_preserved; eauto.
  Qed.

  Lemma start_from_left st k :
    entries_ok (routes st) -> live st (k - 1) -> F st (k + 1) < F st (k - 1) + 1 -> F st (k - 1) + 1 <= n ->
    start_ok st k.
  Proof.
    intros EO L LT B. pose proof (live_range _ _ EO L) as R. destruct L as (L1 & L2 & r & N).
    unfold start_ok. replace (F st (k - 1) + 1 >? F st (k + 1)) with true by (symmetry; apply Z.gtb_lt; lia).
    replace (Z.max (F st (k - 1) + 1) (F st (k + 1))) with (F st (k - 1) + 1) by lia.
    split; [lia|]. split; [lia|]. right. split; [exact L2|].
    exists (F st (k - 1) - (k - 1)), (F st (k - 1)), r. split; [exact N|]. left. lia.
  Qed.

  Lemma start_from_right st k :
    entries_ok (routes st) -> live st (k + 1) -> F st (k - 1) + 1 <= F st (k + 1) -> F st (k + 1) - (k + 1) + 1 <= m ->
    start_ok st k.
  Proof.
    intros EO L LE B. pose proof (live_range _ _ EO L) as R. destruct L as (L1 & L2 & r & N).
    unfold start_ok. replace (F st (k - 1) + 1 >? F st (k + 1)) with false by (symmetry; rewrite Z.gtb_ltb; apply Z.ltb_ge; lia).
    replace (Z.max (F st (k - 1) + 1) (F st (k + 1))) with (F st (k + 1)) by lia.
    split; [lia|]. split; [lia|]. right. split; [exact L2|].
    exists (F st (k + 1) - (k + 1)), (F st (k + 1)), r. split; [exact N|]. right. lia.
  Qed.

  Lemma start_origin st k : k = 0 -> dead st (k - 1) -> dead st (k + 1) -> start_ok st k.
  Proof.
    intros -> [D1 D2] [D3 D4]. unfold start_ok. rewrite D1, D3, D2. simpl.
    pose proof (zlen_nonneg A a). pose proof (zlen_nonneg A b).
    split; [lia|]. split; [lia|]. left. auto.
  Qed.

  Definition Inv (p : Z) (st : sstate) : Prop :=
    entries_ok (routes st) /\ forall j, oldcond p st j.

  Definition InvUp (p k : Z) (st : sstate) : Prop :=
    entries_ok (routes st) /\
    (forall j, j < - p -> dead st j) /\
    (forall j, - p <= j < k -> live st j /\ F st j - j <= m /\ F st j + (k - 1 - j) <= F st (k - 1)) /\
    (forall j, k <= j -> oldcond p st j).

  Lemma oldlive_dec p j : oldlive p j \/ ~ oldlive p j.
  Proof. unfold oldlive. lia. Qed.

  Lemma up_step p k st st' :
    0 <= p -> - p <= k < delta -> InvUp p k st ->
    step_k A eqv a b size offset st k = Ok st' -> InvUp p (k + 1) st'.
  Proof.
    intros P0 K (EO & ID & INew & IOld) ST.
    assert (SO : start_ok st k).
    { destruct (Z.eq_dec k (- p)) as [KP|KP].
      - assert (D1 : dead st (k - 1)) by (apply ID; lia).
        destruct (Z.eq_dec p 0) as [PZ|PZ].
        + apply start_origin; [lia | exact D1 |].
          destruct (IOld (k + 1)) as [_ O2]; [lia|]. apply O2. unfold oldlive. lia.
        + destruct (IOld (k + 1)) as [O1 _]; [lia|].
          destruct O1 as (L & B1 & B2); [unfold oldlive; lia|].
          destruct D1 as [D1 _]. destruct L as (L1 & L2 & L3).
          apply start_from_right; [exact EO | exact (conj L1 (conj L2 L3)) | lia | lia].
      - destruct (INew (k - 1)) as (L & B1 & B2); [lia|].
        pose proof (live_range _ _ EO L) as R.
        destruct (Z_lt_le_dec (F st (k + 1)) (F st (k - 1) + 1)) as [LT|GE].
        + apply start_from_left; [exact EO | exact L | exact LT | lia].
        + destruct (oldlive_dec p (k + 1)) as [OL|NL].
          * destruct (IOld (k + 1)) as [O1 _]; [lia|]. destruct (O1 OL) as (L' & B1' & B2').
            apply start_from_right; [exact EO | exact L' | exact GE | lia].
          * destruct (IOld (k + 1)) as [_ O2]; [lia|]. destruct (O2 NL) as [D _]. lia. }
    destruct (step_ok _ _ _ EO SO ST) as (EO' & LK & SE & G1 & G2 & G3).
    pose proof SE as [S1 _].
    unfold InvUp. split; [exact EO'|]. split; [|split].
    - intros j J. eapply dead_preserved; [exact SE | lia | apply ID; lia].
    - intros j J. destruct (Z.eq_dec j k) as [->|NE].
      + split; [exact LK|]. split; [exact G3|]. replace (k + 1 - 1) with k by lia. lia.
      + destruct (INew j) as (L & B1 & B2); [lia|]. destruct (S1 j NE) as [E1 _].
        split; [eapply live_preserved; eauto|]. rewrite E1. split; [exact B1|].
        replace (k + 1 - 1) with k by lia. lia.
    - intros j J. eapply oldcond_preserved; [exact SE | lia | apply IOld; lia].
  Qed.

  Lemma loop_up_ok p : forall cnt k st st',
    0 <= p -> - p <= k -> k + Z.of_nat cnt = delta -> InvUp p k st ->
    loop_up A eqv cnt a b size offset k st = Ok st' -> InvUp p delta st'.
  Proof.
    induction cnt as [|cnt IH]; intros k st st' P0 K KC I L.
    - simpl in L. inversion L; subst. replace delta with k by lia. exact I.
    - simpl in L. apply bind_ok in L as (st1 & ST & L).
      apply (IH (k + 1) st1 st'); try lia; [|exact L].
      eapply up_step; eauto. lia.
  Qed.

  Definition InvDown (p k : Z) (st : sstate) : Prop :=
    entries_ok (routes st) /\
    (forall j, j < - p -> dead st j) /\
    (forall j, - p <= j < delta -> live st j /\ F st j - j <= m /\ F st j + (delta - 1 - j) <= F st (delta - 1)) /\
    (forall j, delta <= j <= k -> oldcond p st j) /\
    (forall j, k < j <= delta + p -> live st j /\ F st j <= n /\ F st j <= F st (k + 1)) /\
    (forall j, delta + p < j -> dead st j).

  Lemma up_to_down p st : 0 <= p -> InvUp p delta st -> InvDown p (delta + p) st.
  Proof.
    intros P0 (EO & ID & INew & IOld). unfold InvDown.
    split; [exact EO|]. split; [exact ID|]. split; [exact INew|]. split; [|split].
    - intros j J. apply IOld. lia.
    - intros j J. lia.
    - intros j J. destruct (IOld j) as [_ O2]; [lia|]. apply O2. unfold oldlive. lia.
  Qed.

  Lemma down_step p k st st' :
    1 <= p -> delta + 1 <= k <= delta + p -> InvDown p k st ->
    step_k A eqv a b size offset st k = Ok st' -> InvDown p (k - 1) st'.
  Proof.
    intros P1 K (EO & ID & IUp & IOld & IDn & IDead) ST.
    assert (SO : start_ok st k).
    { destruct (IOld (k - 1)) as [O1 _]; [lia|].
      destruct O1 as (L & B1 & B2); [unfold oldlive; lia|].
      pose proof (live_range _ _ EO L) as R.
      destruct (Z_lt_le_dec (F st (k + 1)) (F st (k - 1) + 1)) as [LT|GE].
      - apply start_from_left; [exact EO | exact L | exact LT | lia].
      - destruct (Z.eq_dec k (delta + p)) as [KE|KN].
        + destruct (IDead (k + 1)) as [D _]; [lia|]. lia.
        + destruct (IDn (k + 1)) as (L' & B1' & B2'); [lia|].
          apply start_from_right; [exact EO | exact L' | exact GE | lia]. }
    destruct (step_ok _ _ _ EO SO ST) as (EO' & LK & SE & G1 & G2 & G3).
    pose proof SE as [S1 _].
    unfold InvDown. split; [exact EO'|]. split; [|split; [|split; [|split]]].
    - intros j J. eapply dead_preserved; [exact SE | lia | apply ID; lia].
    - intros j J. destruct (IUp j J) as (L & B1 & B2).
      destruct (S1 j) as [E1 _]; [lia|]. destruct (S1 (delta - 1)) as [E2 _]; [lia|].
      split; [eapply live_preserved; [exact SE | lia | exact L]|]. rewrite E1, E2. auto.
    - intros j J. eapply oldcond_preserved; [exact SE | lia | apply IOld; lia].
    - intros j J. replace (k - 1 + 1) with k by lia. destruct (Z.eq_dec j k) as [->|NE].
      + split; [exact LK|]. split; [exact G2|]. lia.
      + destruct (IDn j) as (L & B1 & B2); [lia|]. destruct (S1 j NE) as [E1 _].
        split; [eapply live_preserved; eauto|]. rewrite E1. split; [exact B1|]. lia.
    - intros j J. eapply dead_preserved; [exact SE | lia | apply IDead; lia].
  Qed.

  Lemma loop_down_ok p : forall cnt k st st',
    0 <= p -> k - Z.of_nat cnt = delta -> k <= delta + p -> InvDown p k st ->
    loop_down A eqv cnt a b size offset k st = Ok st' -> InvDown p delta st'.
  Proof.
    induction cnt as [|cnt IH]; intros k st st' P0 KC KP I L.
    - simpl in L. inversion L; subst. replace delta with k by lia. exact I.
    - simpl in L. apply bind_ok in L as (st1 & ST & L).
      apply (IH (k - 1) st1 st'); try lia; [|exact L].
      eapply down_step; eauto; lia.
  Qed.

  Lemma final_step p st st' :
    0 <= p -> InvDown p delta st ->
    step_k A eqv a b size offset st delta = Ok st' ->
    entries_ok (routes st') /\ live st' delta /\ F st' delta <= n /\ (F st' delta < n -> Inv (p + 1) st').
  Proof.
    intros P0 (EO & ID & IUp & IOld & IDn & IDead) ST.
    assert (SO : start_ok st delta).
    { destruct (Z_lt_le_dec (delta + p) 1) as [Z0|Z1].
      - apply start_origin; [lia | apply ID; lia | apply IDead; lia].
      - destruct (IUp (delta - 1)) as (L & B1 & B2); [lia|].
        pose proof (live_range _ _ EO L) as R.
        destruct (Z_lt_le_dec (F st (delta + 1)) (F st (delta - 1) + 1)) as [LT|GE].
        + apply start_from_left; [exact EO | exact L | exact LT | lia].
        + destruct (Z.eq_dec p 0) as [PZ|PN].
          * destruct (IDead (delta + 1)) as [D _]; [lia|]. lia.
          * destruct (IDn (delta + 1)) as (L' & B1' & B2'); [lia|].
            apply start_from_right; [exact EO | exact L' | exact GE | lia]. }
    destruct (step_ok _ _ _ EO SO ST) as (EO' & LK & SE & G1 & G2 & G3).
    pose proof SE as [S1 _].
    split; [exact EO'|]. split; [exact LK|]. split; [exact G2|].
    intros LT. unfold Inv. split; [exact EO'|]. intros j. split.
    - intros OL. unfold oldlive in OL.
      destruct (Z_lt_le_dec j delta) as [J1|J1].
      + destruct (IUp j) as (L & B1 & B2); [lia|]. destruct (S1 j) as [E1 _]; [lia|].
        split; [eapply live_preserved; [exact SE | lia | exact L]|]. rewrite E1. lia.
      + destruct (Z.eq_dec j delta) as [->|J2].
        * split; [exact LK|]. lia.
        * destruct (IDn j) as (L & B1 & B2); [lia|]. destruct (S1 j) as [E1 _]; [lia|].
          split; [eapply live_preserved; [exact SE | lia | exact L]|]. rewrite E1. lia.
    - intros NL. unfold oldlive in NL.
      destruct (Z_lt_le_dec j (- p)) as [J1|J1].
      + eapply dead_preserved; [exact SE | lia | apply ID; lia].
      + eapply dead_preserved; [exact SE | lia | apply IDead; lia].
  Qed.

  Lemma inv_to_up p st : 0 <= p -> Inv p st -> InvUp p (- p) st.
  Proof.
    intros P0 [EO IO]. unfold InvUp. split; [exact EO|]. split; [|split].
    - intros j J. destruct (IO j) as [_ O2]. apply O2. unfold oldlive. lia.
    - intros j J. lia.
    - intros j _. apply IO.
  Qed.

  Lemma ploop_ok : forall fuel p st st',
    0 <= p -> Inv p st -> ploop A eqv route_size fuel a b size p st = Ok st' ->
    n <= F st' delta ->
    entries_ok (routes st') /\ live st' delta /\ F st' delta = n.
  Proof.
    induction fuel as [|fuel IH]; intros p st st' P0 I L FN; [discriminate|].
    simpl in L.
    apply bind_ok in L as (st1 & L1 & L). apply bind_ok in L as (st2 & L2 & L). apply bind_ok in L as (st3 & L3 & L).
    apply loop_up_ok with (p := p) in L1; [|lia|lia|lia|apply inv_to_up; assumption].
    apply up_to_down in L1; [|lia].
    apply loop_down_ok with (p := p) in L2; [|lia|lia|lia|exact L1].
    destruct (final_step _ _ _ P0 L2 L3) as (EO & LK & LE & NX).
    fold (F st3 delta) in L.
    destruct ((F st3 delta >=? n) || (Z.of_nat (length (routes st3)) >? route_size)) eqn:C.
    - inversion L; subst st'. split; [exact EO|]. split; [exact LK|]. lia.
    - apply orb_false_iff in C as [C _]. rewrite Z.geb_leb in C. apply Z.leb_gt in C.
      apply (IH (p + 1) st3 st'); try lia; auto.
  Qed.

  Lemma init_inv : Inv 0 init_state.
  Proof.
    split.
    - intros i e N. destruct i; discriminate.
    - intros j. split.
      + unfold oldlive. lia.
      + intros _. split; reflexivity.
  Qed.

  (** Prop version of a (prefix of a) valid path *)
  Fixpoint path_ok (px py : Z) (pts : list (Z * Z)) (ex ey : Z) : Prop :=
    match pts with
    | [] => px = ex /\ py = ey
    | (x, y) :: rest => link px py x y /\ x <= m /\ y <= n /\ path_ok x y rest ex ey
    end.

  Lemma path_ok_snoc : forall pts px py ex ey x y,
    path_ok px py pts ex ey -> link ex ey x y -> x <= m -> y <= n ->
    path_ok px py (pts ++ [(x, y)]) x y.
  Proof.
    induction pts as [|[qx qy] pts IH]; intros px py ex ey x y PO LK BX BY.
    - simpl in *. destruct PO as [-> ->]. auto.
    - simpl in *. destruct PO as (L1 & B1 & B2 & PO).
      split; [exact L1|]. split; [exact B1|]. split; [exact B2|]. eapply IH; eauto.
  Qed.

  Lemma chain_ok rts : entries_ok rts -> forall fuel r epc,
    chain fuel rts r = Ok epc ->
    (r = -1 /\ epc = []) \/
    (exists x y r', nth_error rts (Z.to_nat r) = Some (x, y, r') /\ 0 <= r /\ path_ok 0 0 (rev epc) x y).
  Proof.
    intros EO. induction fuel as [|fuel IH]; intros r epc C.
    - simpl in C. destruct (r =? -1) eqn:R; [|discriminate]. apply Z.eqb_eq in R. inversion C. auto.
    - simpl in C. destruct (r =? -1) eqn:R; [apply Z.eqb_eq in R; inversion C; auto|].
      destruct (r <? 0) eqn:R0; [discriminate|]. apply Z.ltb_ge in R0.
      destruct (nth_error rts (Z.to_nat r)) as [[[x y] r']|] eqn:N; [|discriminate].
      apply bind_ok in C as (rest & C & E). inversion E; subst epc; clear E.
      right. exists x, y, r'. split; [reflexivity|]. split; [exact R0|].
      pose proof (EO _ _ N) as (BX & BY & EK). simpl rev.
      destruct (IH _ _ C) as [[-> ->]|(x' & y' & r'' & N' & R' & PO)].
      + simpl. destruct EK as [[_ LK]|[EK _]]; [|lia]. split; [exact LK|]. lia.
      + destruct EK as [[EK _]|(_ & x2 & y2 & r2 & N2 & LK)]; [lia|].
        rewrite N' in N2. inversion N2; subst x2 y2 r2.
        eapply path_ok_snoc; eauto; lia.
  Qed.

  Lemma diag_prop_okb : forall cnt lo k,
    diag_prop A eqv a b lo (lo + Z.of_nat cnt) k -> diag_okb A eqv a b lo k cnt = true.
  Proof.
    induction cnt as [|cnt IH]; intros lo k D; [reflexivity|].
    simpl. destruct (D lo) as (u & v & Nu & Nv & E); [lia|].
    rewrite Nu, Nv. unfold eqvb. rewrite E. simpl. apply IH.
    intros i Hi. apply D. lia.
  Qed.

  Lemma path_ok_valid : forall pts px py,
    path_ok px py pts m n -> valid_from A eqv a b px py pts = true.
  Proof.
    induction pts as [|[x y] pts IH]; intros px py PO.
    - simpl in *. destruct PO as [-> ->]. rewrite !Z.eqb_refl. reflexivity.
    - simpl in PO. destruct PO as ((L1 & L2 & L3) & BX & BY & PO). simpl.
      rewrite (IH _ _ PO).
      replace (px <=? x) with true by (symmetry; apply Z.leb_le; lia).
      replace (py <=? y) with true by (symmetry; apply Z.leb_le; lia).
      replace (x <=? m) with true by (symmetry; apply Z.leb_le; lia).
      replace (y <=? n) with true by (symmetry; apply Z.leb_le; lia).
      rewrite diag_prop_okb; [reflexivity|].
      replace (x - Z.min (x - px) (y - py) + Z.of_nat (Z.to_nat (Z.min (x - px) (y - py)))) with x by lia.
      exact L3.
  Qed.

  (** search_valid (for the sequences as the search sees them, shorter first) *)
  Lemma search_valid_lemma st epc :
    search A eqv route_size a b size = Ok st ->
    n <= fp st (delta + offset) ->
    chain (S (length (routes st))) (routes st) (path st (delta + offset)) = Ok epc ->
    valid_path A eqv a b (rev epc) = true.
  Proof.
    intros S FN C. unfold search in S.
    apply ploop_ok in S; [|lia|exact init_inv|exact FN].
    destruct S as (EO & (L1 & L2 & r & N) & FE).
    apply (chain_ok _ EO) in C. fold (P st delta) in C.
    destruct C as [[C _]|(x & y & r' & N' & _ & PO)]; [lia|].
    rewrite N in N'. inversion N'; subst x y r'.
    unfold valid_path. apply path_ok_valid.
    replace (F st delta - delta) with m in PO by lia. rewrite FE in PO. exact PO.
  Qed.

  (** *** the route table is not exhausted when (m+1)(n+1) <= route_size *)

  Lemma step_len st st' k :
    step_k A eqv a b size offset st k = Ok st' -> length (routes st') = S (length (routes st)).
  Proof.
    intros H. unfold step_k in H.
    apply bind_ok in H as (pa & _ & H). apply bind_ok in H as (pp & _ & H).
    apply bind_ok in H as ([s st1] & SN & H). inversion H; subst st'; clear H.
    unfold snake in SN. apply bind_ok in SN as (c & _ & SN). inversion SN; subst. simpl.
    rewrite app_length. simpl. lia.
  Qed.

  Lemma loop_up_len : forall cnt k st st',
    loop_up A eqv cnt a b size offset k st = Ok st' -> length (routes st') = (length (routes st) + cnt)%nat.
  Proof.
    induction cnt as [|cnt IH]; intros k st st' L.
    - simpl in L. inversion L. lia.
    - simpl in L. apply bind_ok in L as (st1 & ST & L). apply IH in L. apply step_len in ST. lia.
  Qed.

  Lemma loop_down_len : forall cnt k st st',
    loop_down A eqv cnt a b size offset k st = Ok st' -> length (routes st') = (length (routes st) + cnt)%nat.
  Proof.
    induction cnt as [|cnt IH]; intros k st st' L.
    - simpl in L. inversion L. lia.
    - simpl in L. apply bind_ok in L as (st1 & ST & L). apply IH in L. apply step_len in ST. lia.
  Qed.

  Lemma inv_round_bound p st : 0 <= p -> Inv p st -> p <= m.
  Proof.
    intros P0 [EO IO]. pose proof (zlen_nonneg A a).
    destruct (Z.eq_dec p 0) as [->|NZ]; [lia|].
    destruct (IO (1 - p)) as [O1 _]. destruct O1 as ((L1 & _) & _ & B2); [unfold oldlive; lia|]. lia.
  Qed.

  Lemma ploop_reaches_corner : forall fuel p st st',
    0 <= p -> Inv p st -> Z.of_nat (length (routes st)) = p * (delta + p) ->
    (m + 1) * (n + 1) <= route_size ->
    ploop A eqv route_size fuel a b size p st = Ok st' ->
    n <= F st' delta.
  Proof.
    induction fuel as [|fuel IH]; intros p st st' P0 I LEN RS L; [discriminate|].
    simpl in L.
    apply bind_ok in L as (st1 & L1 & L). apply bind_ok in L as (st2 & L2 & L). apply bind_ok in L as (st3 & L3 & L).
    pose proof (loop_up_len _ _ _ _ L1) as N1. pose proof (loop_down_len _ _ _ _ L2) as N2.
    pose proof (step_len _ _ _ L3) as N3.
    pose proof (inv_round_bound _ _ P0 I) as PM.
    apply loop_up_ok with (p := p) in L1; [|lia|lia|lia|apply inv_to_up; assumption].
    apply up_to_down in L1; [|lia].
    apply loop_down_ok with (p := p) in L2; [|lia|lia|lia|exact L1].
    destruct (final_step _ _ _ P0 L2 L3) as (EO & LK & LE & NX).
    fold (F st3 delta) in L.
    assert (LEN3 : Z.of_nat (length (routes st3)) = (p + 1) * (delta + (p + 1))).
    { rewrite N3, N2, N1. nia. }
    destruct (F st3 delta >=? n) eqn:C1.
    - simpl in L. inversion L; subst st'. rewrite Z.geb_leb in C1. apply Z.leb_le in C1. exact C1.
    - rewrite Z.geb_leb in C1. apply Z.leb_gt in C1. simpl in L.
      destruct (Z.of_nat (length (routes st3)) >? route_size) eqn:C2.
      + apply Z.gtb_lt in C2. exfalso. nia.
      + apply (IH (p + 1) st3 st'); try lia; auto.
  Qed.

  Lemma search_reaches_corner st :
    (m + 1) * (n + 1) <= route_size ->
    search A eqv route_size a b size = Ok st -> n <= fp st (delta + offset).
  Proof.
    intros RS S. unfold search in S.
    apply ploop_reaches_corner in S; [exact S | lia | exact init_inv | simpl; lia | exact RS].
  Qed.
End Search.
