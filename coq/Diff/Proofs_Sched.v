(** C16: the reason built for a target does not depend on the targets checked at the same time (Diff/Sched.v). *)
From Coq Require Import List NArith ZArith Bool Lia PeanoNat.
From Dawn Require Import Base.Bytes Diff.Model Diff.Spec Diff.Proofs_Basic Diff.Proofs_Value Diff.Proofs_Reason.
From Dawn Require Import Diff.Sched.
Import ListNotations.
Open Scope nat_scope.

(** ** one target alone *)

Lemma iter_S {A} (f : A -> A) n x : Nat.iter (S n) f x = f (Nat.iter n f x).
Proof. reflexivity. Qed.

Lemma firstn_S_nth {A} : forall (l : list A) n k, nth_error l n = Some k -> firstn (S n) l = firstn n l ++ [k].
Proof.
  induction l as [|x l IH]; intros [|n] k H; simpl in *; try discriminate.
  - injection H as ->. reflexivity.
  - rewrite (IH n k H). reflexivity.
Qed.

Lemma firstn_nth_none {A} : forall (l : list A) n, nth_error l n = None -> firstn n l = l.
Proof. intros l n H. apply firstn_all2. apply nth_error_None. exact H. Qed.

Lemma filter_snoc {A} (f : A -> bool) : forall l k, filter f (l ++ [k]) = filter f l ++ (if f k then [k] else []).
Proof. intros. rewrite filter_app. simpl. destruct (f k); reflexivity. Qed.

Lemma iter_loop : forall keys h n, n <= length keys ->
  Nat.iter n (tstep_keys keys h) ts_init = mk_tstate n (filter h (firstn n keys)) None.
Proof.
  intros keys h. induction n as [|n IH]; intros Hn; [reflexivity|].
  rewrite iter_S, IH by lia. unfold tstep_keys. cbn [ts_out ts_pc ts_acc].
  destruct (nth_error keys n) as [k|] eqn:E.
  - rewrite (firstn_S_nth keys n k E), filter_snoc. destruct (h k); [reflexivity|]. rewrite app_nil_r. reflexivity.
  - apply nth_error_None in E. lia.
Qed.

Lemma tstep_done : forall keys h s r, ts_out s = Some r -> tstep_keys keys h s = s.
Proof. intros keys h s r H. unfold tstep_keys. rewrite H. reflexivity. Qed.

Lemma iter_done : forall keys h m,
  Nat.iter (m + S (length keys)) (tstep_keys keys h) ts_init =
  mk_tstate (length keys) (filter h keys) (Some (reason (filter h keys))).
Proof.
  intros keys h. induction m as [|m IH].
  - cbn [Nat.add]. rewrite iter_S, iter_loop by lia. unfold tstep_keys. cbn [ts_out ts_pc ts_acc].
    rewrite (proj2 (nth_error_None keys (length keys))) by lia. rewrite firstn_all. reflexivity.
  - cbn [Nat.add]. rewrite iter_S, IH. reflexivity.
Qed.

(** whatever the number of steps: a reason, once built, is the reason of the target's own edits *)
Lemma iter_out : forall keys h n r,
  ts_out (Nat.iter n (tstep_keys keys h) ts_init) = Some r -> r = reason (filter h keys).
Proof.
  intros keys h n r H. destruct (Nat.le_gt_cases n (length keys)) as [L|G].
  - rewrite iter_loop in H by exact L. discriminate.
  - replace n with ((n - S (length keys)) + S (length keys)) in H by lia. rewrite iter_done in H. simpl in H.
    injection H as <-. reflexivity.
Qed.

(** ** many targets, any schedule: a target's state is the state of that target run alone for as many steps as
    the schedule gives it *)

Lemma upd_length {A} : forall (l : list A) i f, length (upd l i f) = length l.
Proof. induction l as [|x l IH]; intros [|i] f; simpl; auto. Qed.

Lemma upd_nth_same {A} : forall (l : list A) i f, nth_error (upd l i f) i = option_map f (nth_error l i).
Proof. induction l as [|x l IH]; intros [|i] f; simpl; auto. Qed.

Lemma upd_nth_other {A} : forall (l : list A) i j f, i <> j -> nth_error (upd l i f) j = nth_error l j.
Proof.
  induction l as [|x l IH]; intros [|i] [|j] f H; simpl; auto; try congruence.
Qed.

Lemma iter_comm {A} (f : A -> A) : forall n x, Nat.iter n f (f x) = f (Nat.iter n f x).
Proof. induction n as [|n IH]; intros x; simpl; [reflexivity|]. rewrite IH. reflexivity. Qed.

Lemma private_fold : forall targets sched st i h,
  nth_error targets i = Some h ->
  nth_error (fold_left (private_step targets) sched st) i =
  option_map (Nat.iter (count_occ Nat.eq_dec sched i) (tstep h)) (nth_error st i).
Proof.
  intros targets. induction sched as [|j sched IH]; intros st i h Hi.
  - simpl. destruct (nth_error st i); reflexivity.
  - simpl fold_left. rewrite (IH _ i h Hi). unfold private_step at 1.
    simpl count_occ. destruct (Nat.eq_dec j i) as [->|N].
    + rewrite Hi, upd_nth_same. destruct (nth_error st i) as [s|]; simpl; [|reflexivity].
      rewrite iter_comm. reflexivity.
    + destruct (nth_error targets j) as [hj|]; [|reflexivity].
      rewrite upd_nth_other by exact N. reflexivity.
Qed.

Lemma private_state : forall targets sched i h,
  nth_error targets i = Some h ->
  nth_error (run_private targets sched) i = Some (Nat.iter (count_occ Nat.eq_dec sched i) (tstep h) ts_init).
Proof.
  intros targets sched i h Hi. unfold run_private. rewrite (private_fold _ _ _ i h Hi).
  rewrite nth_error_map, Hi. reflexivity.
Qed.

Lemma reasons_of_filter : forall edits, reasons_of edits = filter (has_edit edits) function_env_keys.
Proof. reflexivity. Qed.

(** the reason a target gets under any schedule is the reason of ITS edits, and it gets one as soon as the
    schedule has given it [steps_needed] steps *)
Lemma sched_private_lemma : forall targets sched i h s,
  nth_error targets i = Some h ->
  nth_error (run_private targets sched) i = Some s ->
  (forall r, ts_out s = Some r -> r = reason (filter h function_env_keys)) /\
  (steps_needed <= count_occ Nat.eq_dec sched i -> ts_out s = Some (reason (filter h function_env_keys))).
Proof.
  intros targets sched i h s Hi Hs. rewrite (private_state _ _ _ _ Hi) in Hs. injection Hs as <-. split.
  - intros r H. exact (iter_out _ _ _ _ H).
  - intros Hc. unfold steps_needed in Hc. unfold tstep.
    replace (count_occ Nat.eq_dec sched i)
      with ((count_occ Nat.eq_dec sched i - S (length function_env_keys)) + S (length function_env_keys)) by lia.
    rewrite iter_done. reflexivity.
Qed.

(** tied to diffEnv: the targets are pairs of environments for which diffEnv builds a reason from the edits *)
Lemma sched_diff_env_lemma : forall route_size (envs : list (value * value)) sched i old new ss s r,
  nth_error envs i = Some (VDict old, VDict new) ->
  (exists d, diff_depth route_size depth1000 (VDict old) (VDict new) = Ok (Some d)) ->
  diff_env ss route_size (VDict old) (VDict new) = Ok (false, r) ->
  nth_error (run_private (map (fun e => env_has route_size (fst e) (snd e)) envs) sched) i = Some s ->
  (forall r', ts_out s = Some r' -> r' = r) /\
  (steps_needed <= count_occ Nat.eq_dec sched i -> ts_out s = Some r).
Proof.
  intros route_size envs sched i old new ss s r Hi [d Hd] He Hs.
  assert (Ht : nth_error (map (fun e => env_has route_size (fst e) (snd e)) envs) i
               = Some (env_has route_size (VDict old) (VDict new))).
  { rewrite nth_error_map, Hi. reflexivity. }
  destruct (sched_private_lemma _ _ _ _ _ Ht Hs) as [A B].
  assert (R : r = reason (filter (env_has route_size (VDict old) (VDict new)) function_env_keys)).
  { assert (VE : veq_d depth1000 (VDict old) (VDict new) = Some false).
    { pose proof Hd as DD. rewrite depth1000_S in DD. apply diff_depth_some in DD as [V _].
      rewrite <- depth1000_S in V. exact V. }
    unfold env_has. unfold diff_env in He. rewrite VE, Hd in *.
    destruct ss; try discriminate;
      (destruct d; try discriminate; injection He as <-; reflexivity). }
  rewrite <- R in *. split; assumption.
Qed.

(** ** one backing array for all targets: some schedule gives a target a reason that names a part of a sibling *)
Definition ex_env (k : str) (v : Z) : value := VDict [(VStr k, VInt v)].
Definition rs2m : Z := 2000000%Z.

Lemma shared_refuted_lemma :
  exists (envs : list (value * value)) sched i old new s r,
    nth_error envs i = Some (old, new) /\
    diff_env StampDiffers rs2m old new = Ok (false, r) /\
    nth_error (snd (run_shared (map (fun e => env_has rs2m (fst e) (snd e)) envs) sched)) i = Some s /\
    exists r', ss_out s = Some r' /\ r' <> r /\
    r = s_constant_values ++ s_changed /\ r' = s_names ++ s_changed.
Proof.
  exists [(ex_env s_constant_values 1%Z, ex_env s_constant_values 2%Z); (ex_env s_names 1%Z, ex_env s_names 2%Z)].
  exists [0; 0; 1; 0; 0; 0; 0; 0; 0; 0; 0]%nat. exists 0%nat.
  eexists. eexists. eexists. eexists.
  split; [reflexivity|]. split; [vm_compute; reflexivity|]. split; [vm_compute; reflexivity|].
  eexists. split; [reflexivity|]. split; [discriminate|]. split; reflexivity.
Qed.
