(** C16: for the environments of real targets (built by envUnpickler, Diff/ModelEnv.v) the rebuild reason names
    EVERY part that differs -- every key of the environment is a key diffEnv has a name for -- and is never the
    generic "environment changed". *)
From Dawn Require Import Diff.Model Diff.ModelEnv Diff.Spec Diff.Proofs_Basic Diff.Proofs_Value Diff.Proofs_Reason.
From Coq Require Import Lia.
Open Scope Z_scope.

Lemma env_of_shape p :
  env_of p =
  [(VStr s_names, p_names p); (VStr s_constant_values, p_constants p); (VStr s_predeclared_values, p_predeclared p);
   (VStr s_universal_values, p_universals p); (VStr s_function_values, p_functions p);
   (VStr s_global_values, p_globals p); (VStr s_code, p_code p);
   (VStr s_default_parameter_values, p_defaults p); (VStr s_free_variables, p_freevars p)].
Proof. reflexivity. Qed.

Lemma env_of_keys p : map fst (env_of p) = unpickled_env_keys.
Proof. reflexivity. Qed.

Lemma unpickled_keys_listed :
  forall key, In key unpickled_env_keys -> exists k, key = VStr k /\ In k function_env_keys.
Proof.
  intros key IN. vm_compute in IN.
  repeat (destruct IN as [E|IN]; [subst key; eexists; split; [reflexivity|]; vm_compute; tauto|]).
  contradiction.
Qed.

Lemma listed_keys_unpickled : forall k, In k function_env_keys -> In (VStr k) unpickled_env_keys.
Proof.
  intros k IN. vm_compute in IN.
  repeat (destruct IN as [E|IN]; [subst k; vm_compute; tauto|]).
  contradiction.
Qed.

Lemma unpickled_keys_nodup : NoDup unpickled_env_keys.
Proof.
  vm_compute.
  repeat (constructor; [simpl; intros H; repeat (destruct H as [H|H]; [discriminate H|]); exact H|]).
  constructor.
Qed.

Lemma env_of_nodup p : NoDup (map fst (env_of p)).
Proof. rewrite env_of_keys. exact unpickled_keys_nodup. Qed.

Lemma dict_all_false keq f : forall xs ys,
  dict_all keq f xs ys = Some false ->
  exists k xv, In (k, xv) xs /\
    (lookup keq k ys = None \/ exists yv, lookup keq k ys = Some yv /\ f xv yv = Some false).
Proof.
  induction xs as [|[k xv] xs IH]; intros ys H; simpl in H; [discriminate|].
  destruct (lookup keq k ys) as [yv|] eqn:L.
  - destruct (f xv yv) as [[|]|] eqn:F; try discriminate.
    + destruct (IH _ H) as (k' & xv' & IN & R). exists k', xv'. split; [right; exact IN | exact R].
    + exists k, xv. split; [left; reflexivity|]. right. exists yv. auto.
  - exists k, xv. split; [left; reflexivity|]. left. exact L.
Qed.

#[local] Opaque depth1000.

(** two environments of real targets that are unequal differ at some part *)
Lemma some_part_differs po pn :
  veq_d depth1000 (VDict (env_of po)) (VDict (env_of pn)) = Some false ->
  exists k, In k function_env_keys /\
    env_differs (Nat.pred depth1000) (dict_get (VStr k) (env_of po)) (dict_get (VStr k) (env_of pn)).
Proof.
  rewrite depth1000_S. intros V.
  change (veq_d (S (Nat.pred depth1000)) (VDict (env_of po)) (VDict (env_of pn)))
    with (if Nat.eqb (length (env_of po)) (length (env_of pn))
          then dict_all key_eq (veq_gen key_eq (Nat.pred depth1000)) (env_of po) (env_of pn) else Some false) in V.
  change (Nat.eqb (length (env_of po)) (length (env_of pn))) with true in V. cbv iota in V.
  apply dict_all_false in V as (key & xv & IN & R).
  assert (KIN : In key unpickled_env_keys).
  { rewrite <- (env_of_keys po). apply (in_map fst) in IN. exact IN. }
  destruct (unpickled_keys_listed _ KIN) as (k & -> & LK).
  exists k. split; [exact LK|].
  assert (GO : dict_get (VStr k) (env_of po) = Some xv).
  { apply get_str_in; [apply env_of_nodup | exact IN]. }
  rewrite GO. unfold dict_get.
  destruct R as [L|(yv & L & F)]; rewrite L; simpl; [exact I | exact F].
Qed.

Lemma real_env_reason_lemma ss rs po pn d r :
  diff_depth rs depth1000 (VDict (env_of po)) (VDict (env_of pn)) = Ok (Some d) ->
  diff_env ss rs (VDict (env_of po)) (VDict (env_of pn)) = Ok (false, r) ->
  (forall key, In key (map fst (env_of po)) \/ In key (map fst (env_of pn)) ->
     exists k, key = VStr k /\
       (is_substr k r = true <->
        env_differs (Nat.pred depth1000) (dict_get key (env_of po)) (dict_get key (env_of pn)))) /\
  r <> s_environment_changed.
Proof.
  intros DD DE.
  pose proof (reason_lemma ss rs (env_of po) (env_of pn) d r (env_of_nodup po) (env_of_nodup pn) DD DE) as RL.
  split.
  - intros key IN. rewrite !env_of_keys in IN.
    assert (KIN : In key unpickled_env_keys) by tauto.
    destruct (unpickled_keys_listed _ KIN) as (k & -> & LK).
    exists k. split; [reflexivity|]. apply RL. exact LK.
  - intros ->.
    assert (VE : veq_d depth1000 (VDict (env_of po)) (VDict (env_of pn)) = Some false).
    { rewrite depth1000_S in DD. apply diff_depth_some in DD as [V _]. rewrite <- depth1000_S in V. exact V. }
    destruct (some_part_differs _ _ VE) as (k & LK & DF).
    apply (RL k LK) in DF.
    pose proof generic_reason_lemma as G. rewrite forallb_forall in G.
    specialize (G k LK). rewrite DF in G. discriminate.
Qed.
