(** C16, totality: diffSlice / compose never panic, never exhaust the fuel of the model and never loop:
    the only outcomes are a script or the depth error of EqualDepth -- for every pair of sequences and every
    route-table size >= 1.  The fuel that suffices is the fuel built into the model:
      - [ploop] : S (length a) iterations of the [for p] loop (p never exceeds the shorter length);
      - [chain] : S (length routes) links (every link points to an earlier table entry);
      - [walk]  : [walk_fuel] steps (diagonal distance + longer remaining side);
      - [compose_rounds] : S (length a + length b) rounds (every round that does not finish consumes at
        least one element of one of the sequences; this is where route_size >= 1 is needed). *)
From Dawn Require Import Diff.Model Diff.Spec Diff.Proofs_Basic Diff.Proofs_Record Diff.Proofs_Search
     Diff.Proofs_Seq Diff.Proofs_Rounds.
From Coq Require Import Lia.
Open Scope Z_scope.

(** an outcome that is a result, or the depth error when [E] holds (i.e. neither [Panic] nor [OutOfFuel]) *)
Definition safeP {T} (E : Prop) (o : outcome T) : Prop := (exists t, o = Ok t) \/ (E /\ o = ErrDepth).

Lemma safeP_ok {T} E (t : T) : safeP E (Ok t).
Proof. left. eauto. Qed.

Lemma safeP_bind {T U} E (o : outcome T) (f : T -> outcome U) :
  safeP E o -> (forall t, o = Ok t -> safeP E (f t)) -> safeP E (bind o f).
Proof. intros [[t X]|[HE X]] H; rewrite X; simpl; [apply H; exact X | right; auto]. Qed.

Lemma safeP_weaken {T} (E E' : Prop) (o : outcome T) : (E -> E') -> safeP E o -> safeP E' o.
Proof. intros H [X|[HE X]]; [left; exact X | right; auto]. Qed.

Section LcpTotal.
  Variable A : Type.
  Variable eqv : A -> A -> option bool.
  Notation safe := (safeP (exists x y, eqv x y = None)).
  Notation safe_ok := (safeP_ok (exists x y, eqv x y = None)).
  Notation safe_bind := (safeP_bind (exists x y, eqv x y = None)).

  Lemma lcp_safe : forall xs ys, safe (lcp A eqv xs ys).
  Proof.
    induction xs as [|x xs IH]; intros ys; [apply safe_ok|].
    destruct ys as [|y ys]; [apply safe_ok|].
    simpl. destruct (eqv x y) as [[|]|] eqn:E; [|apply safe_ok|right; eauto].
    apply safe_bind; [apply IH|]. intros; apply safe_ok.
  Qed.
End LcpTotal.

Section SearchTotal.
  Variable A : Type.
  Variable eqv : A -> A -> option bool.
  Notation safe := (safeP (exists x y, eqv x y = None)).
  Notation safe_ok := (safeP_ok (exists x y, eqv x y = None)).
  Notation safe_bind := (safeP_bind (exists x y, eqv x y = None)).
  Variable route_size : Z.
  Variables a b : list A.
  Variable size : Z.

  Notation zlen := (zlen A).
  Notation m := (zlen a).
  Notation n := (zlen b).
  Notation delta := (zlen b - zlen a).
  Notation offset := (zlen a + 1).
  Notation F := (F A a).
  Notation P := (P A a).
  Notation live := (live A a).
  Notation dead := (dead A a).
  Notation start_ok := (start_ok A a b).
  Notation entries_ok := (entries_ok A eqv a b).
  Notation Inv := (Inv A eqv a b).
  Notation InvUp := (InvUp A eqv a b).
  Notation InvDown := (InvDown A eqv a b).

  Hypothesis Hmn : m <= n.
  Hypothesis Hsize : m + n + 3 <= size.

  (** one snake + the two reads and the write of [fp]: no index out of range on a diagonal between
      -m and n, no negative start point *)
  Lemma step_safe st k :
    start_ok st k -> - m <= k <= n ->
    safe (step_k A eqv a b size offset st k).
  Proof.
    intros SO K. unfold step_k, aget.
    replace ((0 <=? k - 1 + offset) && (k - 1 + offset <? size)) with true
      by (symmetry; rewrite andb_true_iff, Z.leb_le, Z.ltb_lt; lia).
    replace ((0 <=? k + 1 + offset) && (k + 1 + offset <? size)) with true
      by (symmetry; rewrite andb_true_iff, Z.leb_le, Z.ltb_lt; lia).
    cbn [bind]. unfold snake.
    unfold Proofs_Search.start_ok, Proofs_Search.F, Proofs_Search.P in SO.
    set (pa := fp st (k - 1 + offset) + 1) in *.
    set (pp := fp st (k + 1 + offset)) in *.
    set (y := Z.max pa pp) in *.
    set (x := y - k) in *.
    destruct SO as (SX & SY & _).
    apply safe_bind; [|intros [s st1] _; apply safe_ok].
    apply safe_bind; [|intros c _; apply safe_ok].
    destruct ((x <? m) && (y <? n)); [|apply safe_ok].
    replace ((x <? 0) || (y <? 0)) with false
      by (symmetry; rewrite orb_false_iff, !Z.ltb_ge; lia).
    apply lcp_safe.
  Qed.

  (** the start points, factored out of up_step / down_step / final_step *)
  Lemma up_start p k st :
    0 <= p -> - p <= k < delta -> InvUp p k st -> start_ok st k.
  Proof.
    intros P0 K (EO & ID & INew & IOld).
    destruct (Z.eq_dec k (- p)) as [KP|KP].
    - assert (D1 : dead st (k - 1)) by (apply ID; lia).
      destruct (Z.eq_dec p 0) as [PZ|PZ].
      + apply start_origin; [lia | exact D1 |].
        destruct (IOld (k + 1)) as [_ O2]; [lia|]. apply O2. unfold oldlive. lia.
      + destruct (IOld (k + 1)) as [O1 _]; [lia|].
        destruct O1 as (L & B1 & B2); [unfold oldlive; lia|].
        destruct D1 as [D1 _]. destruct L as (L1 & L2 & L3).
        apply (start_from_right A eqv); [exact EO | exact (conj L1 (conj L2 L3)) | lia | lia].
    - destruct (INew (k - 1)) as (L & B1 & B2); [lia|].
      pose proof (live_range A eqv a b _ _ EO L) as R.
      destruct (Z_lt_le_dec (F st (k + 1)) (F st (k - 1) + 1)) as [LT|GE].
      + apply (start_from_left A eqv); [exact EO | exact L | exact LT | lia].
      + destruct (oldlive_dec A a b p (k + 1)) as [OL|NL].
        * destruct (IOld (k + 1)) as [O1 _]; [lia|]. destruct (O1 OL) as (L' & B1' & B2').
          apply (start_from_right A eqv); [exact EO | exact L' | exact GE | lia].
        * destruct (IOld (k + 1)) as [_ O2]; [lia|]. destruct (O2 NL) as [D _]. lia.
  Qed.

  Lemma down_start p k st :
    1 <= p -> delta + 1 <= k <= delta + p -> InvDown p k st -> start_ok st k.
  Proof.
    intros P1 K (EO & ID & IUp & IOld & IDn & IDead).
    destruct (IOld (k - 1)) as [O1 _]; [lia|].
    destruct O1 as (L & B1 & B2); [unfold oldlive; lia|].
    pose proof (live_range A eqv a b _ _ EO L) as R.
    destruct (Z_lt_le_dec (F st (k + 1)) (F st (k - 1) + 1)) as [LT|GE].
    - apply (start_from_left A eqv); [exact EO | exact L | exact LT | lia].
    - destruct (Z.eq_dec k (delta + p)) as [KE|KN].
      + destruct (IDead (k + 1)) as [D _]; [lia|]. lia.
      + destruct (IDn (k + 1)) as (L' & B1' & B2'); [lia|].
        apply (start_from_right A eqv); [exact EO | exact L' | exact GE | lia].
  Qed.

  Lemma final_start p st :
    0 <= p -> InvDown p delta st -> start_ok st delta.
  Proof.
    intros P0 (EO & ID & IUp & IOld & IDn & IDead).
    destruct (Z_lt_le_dec (delta + p) 1) as [Z0|Z1].
    - apply start_origin; [lia | apply ID; lia | apply IDead; lia].
    - destruct (IUp (delta - 1)) as (L & B1 & B2); [lia|].
      pose proof (live_range A eqv a b _ _ EO L) as R.
      destruct (Z_lt_le_dec (F st (delta + 1)) (F st (delta - 1) + 1)) as [LT|GE].
      + apply (start_from_left A eqv); [exact EO | exact L | exact LT | lia].
      + destruct (Z.eq_dec p 0) as [PZ|PN].
        * destruct (IDead (delta + 1)) as [D _]; [lia|]. lia.
        * destruct (IDn (delta + 1)) as (L' & B1' & B2'); [lia|].
          apply (start_from_right A eqv); [exact EO | exact L' | exact GE | lia].
  Qed.

  Lemma loop_up_safe p : forall cnt k st,
    0 <= p <= m -> - p <= k -> k + Z.of_nat cnt = delta -> InvUp p k st ->
    safe (loop_up A eqv cnt a b size offset k st).
  Proof.
    induction cnt as [|cnt IH]; intros k st P0 K KC I; [apply safe_ok|].
    simpl. apply safe_bind.
    - apply step_safe; [apply (up_start p); [lia|lia|exact I] | lia].
    - intros st1 ST. apply IH; try lia.
      apply (up_step A eqv a b size Hmn p k st st1); [lia|lia|exact I|exact ST].
  Qed.

  Lemma loop_down_safe p : forall cnt k st,
    0 <= p <= m -> k - Z.of_nat cnt = delta -> k <= delta + p -> InvDown p k st ->
    safe (loop_down A eqv cnt a b size offset k st).
  Proof.
    induction cnt as [|cnt IH]; intros k st P0 KC KP I; [apply safe_ok|].
    simpl. apply safe_bind.
    - apply step_safe; [apply (down_start p); [lia|lia|exact I] | lia].
    - intros st1 ST. apply IH; try lia.
      apply (down_step A eqv a b size Hmn p k st st1); [lia|lia|exact I|exact ST].
  Qed.

  (** the [for p] loop: entered with p <= m (inv_round_bound), so m + 1 - p iterations of fuel suffice *)
  Lemma ploop_safe : forall fuel p st,
    0 <= p -> Inv p st -> m < p + Z.of_nat fuel ->
    safe (ploop A eqv route_size fuel a b size p st).
  Proof.
    induction fuel as [|fuel IH]; intros p st P0 I FU.
    - pose proof (inv_round_bound A eqv a b Hmn p st P0 I). lia.
    - pose proof (inv_round_bound A eqv a b Hmn p st P0 I) as PM.
      simpl.
      apply safe_bind.
      { apply (loop_up_safe p); [lia|lia|lia|apply inv_to_up; assumption]. }
      intros st1 L1.
      apply (loop_up_ok A eqv a b size Hmn p) in L1; [|lia|lia|lia|apply inv_to_up; assumption].
      apply up_to_down in L1; [|lia].
      apply safe_bind.
      { apply (loop_down_safe p); [lia|lia|lia|exact L1]. }
      intros st2 L2.
      apply (loop_down_ok A eqv a b size Hmn p) in L2; [|lia|lia|lia|exact L1].
      apply safe_bind.
      { apply step_safe; [apply (final_start p); [lia|exact L2] | lia]. }
      intros st3 L3.
      destruct (final_step A eqv a b size Hmn _ _ _ P0 L2 L3) as (EO & LK & LE & NX).
      fold (F st3 delta) in *.
      destruct ((F st3 delta >=? n) || (Z.of_nat (length (routes st3)) >? route_size)) eqn:C; [apply safe_ok|].
      apply orb_false_iff in C as [C _]. rewrite Z.geb_leb in C. apply Z.leb_gt in C.
      apply IH; [lia | apply NX; exact C | lia].
  Qed.

  Lemma search_safe_lemma : safe (search A eqv route_size a b size).
  Proof.
    unfold search. apply ploop_safe; [lia | apply init_inv |].
    unfold Model.zlen. lia.
  Qed.

  (** after iteration p the corner diagonal has advanced to at least delta + p *)
  Lemma final_lower p st st' :
    0 <= p -> 1 <= delta + p -> InvDown p delta st ->
    step_k A eqv a b size offset st delta = Ok st' ->
    delta + p <= F st' delta.
  Proof.
    intros P0 DP I ST. pose proof (final_start p st P0 I) as SO.
    destruct I as (EO & ID & IUp & IOld & IDn & IDead).
    destruct (step_ok A eqv a b size Hmn _ _ _ EO SO ST) as (_ & _ & _ & G1 & _).
    destruct (IUp (- p)) as ((L1 & _) & _ & B2); [lia|]. lia.
  Qed.

  (** a search that stops because the route table is full has nevertheless moved away from the origin,
      provided the table holds at least one point *)
  Lemma ploop_progress : forall fuel p st st',
    0 <= p -> Inv p st -> 1 <= route_size -> (p = 0 -> routes st = []) ->
    ploop A eqv route_size fuel a b size p st = Ok st' ->
    n <= F st' delta \/ 1 <= F st' delta.
  Proof.
    induction fuel as [|fuel IH]; intros p st st' P0 I RS R0 L; [discriminate|].
    simpl in L.
    apply bind_ok in L as (st1 & L1 & L). apply bind_ok in L as (st2 & L2 & L). apply bind_ok in L as (st3 & L3 & L).
    pose proof (loop_up_len _ _ _ _ _ _ _ _ _ L1) as N1. pose proof (loop_down_len _ _ _ _ _ _ _ _ _ L2) as N2.
    pose proof (step_len _ _ _ _ _ _ _ _ L3) as N3.
    apply (loop_up_ok A eqv a b size Hmn p) in L1; [|lia|lia|lia|apply inv_to_up; assumption].
    apply up_to_down in L1; [|lia].
    apply (loop_down_ok A eqv a b size Hmn p) in L2; [|lia|lia|lia|exact L1].
    destruct (final_step A eqv a b size Hmn _ _ _ P0 L2 L3) as (EO & LK & LE & NX).
    fold (F st3 delta) in *.
    destruct (F st3 delta >=? n) eqn:C1.
    - simpl in L. inversion L; subst st'. rewrite Z.geb_leb in C1. apply Z.leb_le in C1. left. exact C1.
    - rewrite Z.geb_leb in C1. apply Z.leb_gt in C1. simpl in L.
      destruct (Z.of_nat (length (routes st3)) >? route_size) eqn:C2.
      + inversion L; subst st'. apply Z.gtb_lt in C2. right.
        destruct (Z_lt_le_dec (delta + p) 1) as [Z0|Z1].
        * assert (p = 0) by lia. rewrite (R0 H) in N1. simpl in N1.
          assert (delta = 0) by lia. exfalso.
          replace (Z.to_nat (delta + p)) with 0%nat in N1 by lia.
          replace (Z.to_nat p) with 0%nat in N2 by lia. lia.
        * pose proof (final_lower p st2 st3 P0 Z1 L2 L3). lia.
      + apply (IH (p + 1) st3 st'); try lia; auto.
  Qed.
End SearchTotal.

Section ChainTotal.
  Variable A : Type.
  Variable eqv : A -> A -> option bool.
  Variables a b : list A.

  (** every link of the route table points to an earlier entry: [r + 1] links of fuel suffice *)
  Lemma chain_total rts : entries_ok A eqv a b rts -> forall fuel r,
    r = -1 \/ (0 <= r < Z.of_nat fuel /\ (Z.to_nat r < length rts)%nat) ->
    exists epc, chain fuel rts r = Ok epc.
  Proof.
    intros EO. induction fuel as [|fuel IH]; intros r H.
    - destruct H as [->|[H _]]; [|lia]. simpl. eauto.
    - destruct H as [->|[H1 H2]]; [simpl; eauto|].
      simpl. replace (r =? -1) with false by (symmetry; apply Z.eqb_neq; lia).
      replace (r <? 0) with false by (symmetry; apply Z.ltb_ge; lia).
      destruct (nth_error rts (Z.to_nat r)) as [[[x y] r']|] eqn:N.
      2:{ apply nth_error_None in N. lia. }
      pose proof (EO _ _ N) as (_ & _ & EK).
      destruct (IH r') as [rest C].
      { destruct EK as [[-> _]|(R & x' & y' & r'' & N' & _)]; [left; reflexivity|].
        right. split; [lia|]. apply nth_error_Some. congruence. }
      rewrite C. simpl. eauto.
  Qed.
End ChainTotal.

Section RecordTotal.
  Variable A : Type.

  Notation zlen := (zlen A).

  Definition head_nonneg (es : list (redit A)) : Prop :=
    match es with [] => True | e :: _ => 0 <= rstart A e end.

  (** extend cannot slice out of range when the location is an index of [from] *)
  Lemma extend_total kind (from : list A) loc es :
    0 <= loc < zlen from -> head_nonneg es ->
    exists es', extend A kind from loc es = Ok es' /\ head_nonneg es'.
  Proof.
    intros B HP. unfold extend.
    assert (FRESH : exists es', (vs <- zslice A from loc (loc + 1) ;; Ok (mkRedit A kind loc vs :: es)) = Ok es' /\
                                head_nonneg es').
    { unfold zslice.
      replace ((0 <=? loc) && (loc <=? loc + 1) && (loc + 1 <=? zlen from)) with true
        by (symmetry; rewrite !andb_true_iff, !Z.leb_le; lia).
      simpl. eexists. split; [reflexivity|]. simpl. lia. }
    destruct es as [|last rest]; [exact FRESH|].
    destruct (rkind_eqb (rk A last) kind && (rstart A last + zlen (rvals A last) =? loc)) eqn:C; [|exact FRESH].
    apply andb_true_iff in C as [_ C2]. apply Z.eqb_eq in C2. simpl in HP.
    pose proof (zlen_nonneg A (rvals A last)).
    unfold zslice.
    replace ((0 <=? rstart A last) && (rstart A last <=? loc + 1) && (loc + 1 <=? zlen from)) with true
      by (symmetry; rewrite !andb_true_iff, !Z.leb_le; lia).
    simpl. eexists. split; [reflexivity|]. simpl. exact HP.
  Qed.

  (** the walker reaches any target that is not behind it and inside the two sequences, within walk_fuel *)
  Lemma walk_total a b reverse tx ty : forall fuel s,
    0 <= px A s <= tx -> tx <= zlen a -> 0 <= py A s <= ty -> ty <= zlen b ->
    head_nonneg (redits A s) -> (walk_fuel A tx ty s <= fuel)%nat ->
    exists s', walk A fuel a b reverse tx ty s = Ok s' /\ head_nonneg (redits A s').
  Proof.
    induction fuel as [|fuel IH]; intros s BX MX BY MY HP FU.
    - simpl. destruct ((px A s <? tx) || (py A s <? ty)) eqn:G; [|eauto].
      exfalso. unfold walk_fuel in FU.
      apply orb_true_iff in G as [G|G]; apply Z.ltb_lt in G; lia.
    - simpl. destruct ((px A s <? tx) || (py A s <? ty)) eqn:G; [|eauto].
      assert (G' : px A s < tx \/ py A s < ty) by (apply orb_true_iff in G as [G|G]; apply Z.ltb_lt in G; lia).
      unfold walk_fuel in FU.
      destruct (ty - tx >? py A s - px A s) eqn:C1.
      + apply Z.gtb_lt in C1.
        destruct (extend_total (if reverse then RDelete else RAdd) b (py A s) (redits A s)) as (es & E & HP');
          [lia | exact HP |].
        rewrite E. cbn [bind]. apply IH; simpl; try lia; try exact HP'.
        unfold walk_fuel; simpl. lia.
      + rewrite Z.gtb_ltb in C1. rewrite Z.ltb_ge in C1.
        destruct (ty - tx <? py A s - px A s) eqn:C2.
        * apply Z.ltb_lt in C2.
          destruct (extend_total (if reverse then RAdd else RDelete) a (px A s) (redits A s)) as (es & E & HP');
            [lia | exact HP |].
          rewrite E. cbn [bind]. apply IH; simpl; try lia; try exact HP'.
          unfold walk_fuel; simpl. lia.
        * apply Z.ltb_ge in C2.
          destruct (extend_total RCommon (if reverse then b else a) (if reverse then py A s else px A s) (redits A s))
            as (es & E & HP'); [destruct reverse; lia | exact HP |].
          rewrite E. cbn [bind]. apply IH; simpl; try lia; try exact HP'.
          unfold walk_fuel; simpl. lia.
  Qed.
  (** where the walker stands when it stops *)
  Lemma walk_end a b reverse x y : forall fuel s s1,
    walk A fuel a b reverse x y s = Ok s1 -> px A s <= x -> py A s <= y ->
    px A s1 = x /\ py A s1 = y.
  Proof.
    induction fuel as [|f IHf]; intros s s1 W L1 L2.
    - simpl in W. destruct ((px A s <? x) || (py A s <? y)) eqn:G; [discriminate|].
      apply orb_false_iff in G as [G1 G2]. apply Z.ltb_ge in G1, G2. inversion W; subst. lia.
    - simpl in W. destruct ((px A s <? x) || (py A s <? y)) eqn:G.
      2:{ apply orb_false_iff in G as [G1 G2]. apply Z.ltb_ge in G1, G2. inversion W; subst. lia. }
      assert (G' : px A s < x \/ py A s < y) by (apply orb_true_iff in G as [G|G]; apply Z.ltb_lt in G; lia).
      destruct (y - x >? py A s - px A s) eqn:C1.
      + apply Z.gtb_lt in C1. apply bind_ok in W as (es & _ & W). apply IHf in W; simpl in *; lia.
      + rewrite Z.gtb_ltb in C1. rewrite Z.ltb_ge in C1.
        destruct (y - x <? py A s - px A s) eqn:C2.
        * apply Z.ltb_lt in C2. apply bind_ok in W as (es & _ & W). apply IHf in W; simpl in *; lia.
        * apply Z.ltb_ge in C2. apply bind_ok in W as (es & _ & W). apply IHf in W; simpl in *; lia.
  Qed.
End RecordTotal.

Section RoundsTotal.
  Variable A : Type.
  Variable eqv : A -> A -> option bool.
  Notation safe := (safeP (exists x y, eqv x y = None)).
  Notation safe_ok := (safeP_ok (exists x y, eqv x y = None)).
  Notation safe_bind := (safeP_bind (exists x y, eqv x y = None)).
  Variable route_size : Z.

  Notation zlen := (zlen A).
  Notation equiv := (equiv A eqv).

  Lemma head_pos_nonneg es : head_pos A es -> head_nonneg A es.
  Proof. destruct es; simpl; [auto|lia]. Qed.

  Lemma record_pts_total a b reverse ex ey : forall pts s,
    0 <= px A s -> 0 <= py A s -> head_nonneg A (redits A s) ->
    path_ok A eqv a b (px A s) (py A s) pts ex ey ->
    exists s', record_pts A a b reverse pts s = Ok s'.
  Proof.
    induction pts as [|[x y] pts IH]; intros s BX BY HP PO; [simpl; eauto|].
    simpl in PO. destruct PO as ((L1 & L2 & L3) & MX & MY & PO).
    simpl.
    destruct (walk_total A a b reverse x y (walk_fuel A x y s) s) as (s1 & W & HP1); try lia; try exact HP.
    rewrite W. cbn [bind].
    destruct (walk_end A a b reverse x y _ _ _ W L1 L2) as [PX PY].
    apply IH; [lia | lia | exact HP1 | rewrite PX, PY; exact PO].
  Qed.

  Lemma Forall2_equiv_refl (l : list A) : Forall2 equiv l l.
  Proof. induction l; constructor; auto. left. reflexivity. Qed.

  Lemma zslice_total (l : list A) s : 0 <= s <= zlen l -> exists v, zslice A l s (zlen l) = Ok v.
  Proof.
    intros H. unfold zslice.
    replace ((0 <=? s) && (s <=? zlen l) && (zlen l <=? zlen l)) with true
      by (symmetry; rewrite !andb_true_iff, !Z.leb_le; lia).
    eauto.
  Qed.

  (** compose's outer loop: S (length a + length b) rounds suffice when the route table has room for one
      point, because every round that does not finish moves the walker *)
  Lemma compose_total size reverse : 1 <= route_size -> forall rounds a b es,
    zlen a <= zlen b -> zlen a + zlen b + 3 <= size -> head_pos A es ->
    (length a + length b < rounds)%nat ->
    safe (compose_rounds A eqv route_size rounds size reverse a b es).
  Proof.
    intros RS. induction rounds as [|rr IH]; intros a b es LE SZ HP RD; [lia|].
    rewrite compose_rounds_S.
    apply safe_bind; [apply search_safe_lemma; assumption|].
    intros st S.
    pose proof S as S2. unfold search in S, S2.
    apply (ploop_partial A eqv route_size a b size LE) in S; [|lia|apply init_inv].
    apply (ploop_progress A eqv route_size a b size LE) in S2; [|lia|apply init_inv|exact RS|reflexivity].
    destruct S as (EO & LK & FLE).
    unfold aget.
    replace ((0 <=? zlen b - zlen a + (zlen a + 1)) && (zlen b - zlen a + (zlen a + 1) <? size)) with true
      by (pose proof (zlen_nonneg A a); pose proof (zlen_nonneg A b);
          symmetry; rewrite andb_true_iff, Z.leb_le, Z.ltb_lt; lia).
    cbn [bind].
    pose proof (live_range A eqv a b st _ EO LK) as RG.
    pose proof LK as (L1 & L2 & r0 & N).
    fold (P A a st (zlen b - zlen a)).
    destruct (chain_total A eqv a b _ EO (S (length (routes st))) (P A a st (zlen b - zlen a))) as [epc CH].
    { right. assert (Z.to_nat (P A a st (zlen b - zlen a)) < length (routes st))%nat
        by (apply nth_error_Some; congruence). lia. }
    rewrite CH. cbn [bind].
    apply (chain_ok A eqv a b _ EO) in CH.
    destruct CH as [[CH _]|(x & y & r' & N' & _ & PTH)]; [lia|].
    rewrite N in N'. inversion N'; subst x y r'; clear N'.
    destruct (fun H1 H2 H3 => record_pts_total a b reverse _ _ (rev epc) (mkR A 0 0 es) H1 H2 H3 PTH) as [s R];
      [simpl; lia | simpl; lia | simpl; apply head_pos_nonneg; exact HP |].
    rewrite R. cbn [bind].
    assert (G0 : ginv A eqv a b reverse (proj A sel_old es) (proj A sel_new es) (mkR A 0 0 es)).
    { unfold ginv; simpl. pose proof (zlen_nonneg A a). pose proof (zlen_nonneg A b).
      split; [lia|]. split; [lia|]. split; [right; auto|]. split; [exact HP|].
      destruct reverse; simpl; rewrite !app_nil_r; split; try reflexivity; apply Forall2_equiv_refl. }
    pose proof (grecord_pts_ok A eqv a b reverse _ _ _ _ (rev epc) (mkR A 0 0 es) s G0 PTH R) as GR.
    destruct GR as ((I1 & I2 & I3 & IP & I4 & I5) & PX & PY).
    destruct ((px A s + 1 >? zlen a) && (py A s + 1 >? zlen b)) eqn:DONE; [apply safe_ok|].
    destruct (zslice_total a (px A s)) as [a' SA]; [lia|].
    destruct (zslice_total b (py A s)) as [b' SB]; [lia|].
    rewrite SA, SB. cbn [bind].
    pose proof (zslice_len _ _ _ _ _ SA) as LA. pose proof (zslice_len _ _ _ _ _ SB) as LB.
    assert (MOVED : 1 <= py A s).
    { destruct S2 as [S2|S2]; [|lia].
      exfalso. apply andb_false_iff in DONE. rewrite !Z.gtb_ltb, !Z.ltb_ge in DONE. lia. }
    apply IH; try lia; try exact IP.
    unfold Model.zlen in *. lia.
  Qed.

  Lemma merge_total : forall raw acc, exists script, merge A raw acc = Ok script.
  Proof.
    induction raw as [|e raw IH]; intros acc; [simpl; eauto|].
    simpl. destruct acc as [|tail acc']; [apply IH|].
    destruct (is_add A e && is_delete A tail); [|apply IH].
    pose proof (zlen_nonneg A (eold tail)). pose proof (zlen_nonneg A (rvals A e)).
    destruct (zlen (eold tail) <? zlen (rvals A e)) eqn:L1.
    - apply Z.ltb_lt in L1. unfold zslice.
      replace ((0 <=? 0) && (0 <=? zlen (eold tail)) && (zlen (eold tail) <=? zlen (rvals A e))) with true
        by (symmetry; rewrite !andb_true_iff, !Z.leb_le; lia).
      replace ((0 <=? zlen (eold tail)) && (zlen (eold tail) <=? zlen (rvals A e)) &&
               (zlen (rvals A e) <=? zlen (rvals A e))) with true
        by (symmetry; rewrite !andb_true_iff, !Z.leb_le; lia).
      cbn [bind]. apply IH.
    - apply Z.ltb_ge in L1.
      destruct (zlen (eold tail) >? zlen (rvals A e)) eqn:L2; [|apply IH].
      apply Z.gtb_lt in L2. unfold zslice.
      replace ((0 <=? 0) && (0 <=? zlen (rvals A e)) && (zlen (rvals A e) <=? zlen (eold tail))) with true
        by (symmetry; rewrite !andb_true_iff, !Z.leb_le; lia).
      replace ((0 <=? zlen (rvals A e)) && (zlen (rvals A e) <=? zlen (eold tail)) &&
               (zlen (eold tail) <=? zlen (eold tail))) with true
        by (symmetry; rewrite !andb_true_iff, !Z.leb_le; lia).
      cbn [bind]. apply IH.
  Qed.

  (** diffSlice is total *)
  Lemma diff_slice_total_lemma a b :
    1 <= route_size -> safe (diff_slice A eqv route_size a b).
  Proof.
    intros RS. unfold diff_slice.
    set (reverse := zlen a >=? zlen b).
    set (a' := if reverse then b else a).
    set (b' := if reverse then a else b).
    assert (LE : zlen a' <= zlen b' /\ zlen a' + zlen b' = zlen a + zlen b /\
                 (length a' + length b' = length a + length b)%nat).
    { unfold a', b', reverse. destruct (zlen a >=? zlen b) eqn:G.
      - rewrite Z.geb_leb in G. apply Z.leb_le in G. lia.
      - rewrite Z.geb_leb in G. apply Z.leb_gt in G. lia. }
    destruct LE as (LE & SUM & LEN).
    apply safe_bind.
    - apply compose_total; [exact RS | exact LE | lia | exact I | lia].
    - intros raw _. destruct (merge_total (rev raw) []) as [script M]. rewrite M. apply safe_ok.
  Qed.
End RoundsTotal.

(** * Value level: DiffDepth / Diff / diffEnv *)

Section ValueTotal.
  Variable route_size : Z.
  Hypothesis RS : 1 <= route_size.

  Notation safe := (safeP True).
  Notation safe_ok := (safeP_ok True).
  Notation safe_bind := (safeP_bind True).
  Lemma safe_err {T} : safe (@ErrDepth T).
  Proof. right. auto. Qed.

  Lemma map2o_safe {X Y} (f : X -> X -> outcome Y) :
    (forall x y, safe (f x y)) -> forall xs ys, safe (map2o f xs ys).
  Proof.
    intros H. induction xs as [|x xs IH]; intros ys; [apply safe_ok|].
    destruct ys as [|y ys]; [apply safe_ok|]. simpl.
    apply safe_bind; [apply H|]. intros d _.
    apply safe_bind; [apply IH|]. intros r _. apply safe_ok.
  Qed.

  Lemma mapo_safe {X Y} (f : X -> outcome Y) :
    (forall x, safe (f x)) -> forall xs, safe (mapo f xs).
  Proof.
    intros H. induction xs as [|x xs IH]; [apply safe_ok|]. simpl.
    apply safe_bind; [apply H|]. intros d _.
    apply safe_bind; [apply IH|]. intros r _. apply safe_ok.
  Qed.

  Lemma render_edit_safe dd ca cb e :
    (forall x y, safe (dd x y)) -> safe (render_edit dd ca cb e).
  Proof.
    intros H. unfold render_edit. destruct (ek e); try apply safe_ok.
    destruct (stringlike ca && stringlike cb); [apply safe_ok|].
    apply safe_bind; [apply map2o_safe; exact H|]. intros; apply safe_ok.
  Qed.

  Lemma map_old_safe dd new :
    (forall x y, safe (dd x y)) -> forall old, safe (map_old dd old new).
  Proof.
    intros H. induction old as [|[k ov] old IH]; [apply safe_ok|]. simpl.
    destruct (lookup key_eq k new) as [nv|].
    - apply safe_bind; [apply H|]. intros d _.
      apply safe_bind; [apply IH|]. intros r _. destruct d; apply safe_ok.
    - apply safe_bind; [apply IH|]. intros r _. apply safe_ok.
  Qed.

  Lemma diff_mapping_safe dd old new :
    (forall x y, safe (dd x y)) -> safe (diff_mapping dd old new).
  Proof.
    intros H. unfold diff_mapping.
    apply safe_bind; [apply map_old_safe; exact H|]. intros; apply safe_ok.
  Qed.

  (** DiffDepth returns a diff (or nil) or the depth error *)
  Lemma diff_depth_safe : forall depth old new, safe (diff_depth route_size depth old new).
  Proof.
    induction depth as [|d IH]; intros old new; [apply safe_err|].
    simpl. destruct (veq_d (S d) old new) as [[|]|]; [apply safe_ok| |apply safe_err].
    destruct (sliceable old) as [[ca ea]|]; [destruct (sliceable new) as [[cb eb]|]|].
    - apply safe_bind; [eapply safeP_weaken; [|apply diff_slice_total_lemma; exact RS]; auto|]. intros script _.
      apply safe_bind; [apply mapo_safe; intros e; apply render_edit_safe; exact IH|].
      intros; apply safe_ok.
    - destruct old, new; try apply safe_ok.
      apply safe_bind; [apply diff_mapping_safe; exact IH|]. intros; apply safe_ok.
    - destruct old, new; try apply safe_ok.
      apply safe_bind; [apply diff_mapping_safe; exact IH|]. intros; apply safe_ok.
  Qed.

  Lemma diff_safe old new : safe (diff route_size old new).
  Proof. apply diff_depth_safe. Qed.

  Lemma depth1000_succ : depth1000 = S (Nat.pred depth1000).
  Proof. vm_compute. reflexivity. Qed.

  (** diffEnv always answers: neither its explicit panic ("expected a diff in unequal environments") nor
      any other failure is reachable *)
  Lemma diff_env_total_lemma ss old new : exists r, diff_env ss route_size old new = Ok r.
  Proof.
    unfold diff_env.
    destruct old; try (eexists; reflexivity);
      destruct ss; try (eexists; reflexivity);
      destruct (veq_d depth1000 _ new) as [[|]|] eqn:V; try (eexists; reflexivity);
      destruct new; try (eexists; reflexivity).
    all: pose proof (diff_depth_safe depth1000 (VDict kvs) (VDict kvs0)) as [[r E]|[_ E]]; rewrite E;
      try (eexists; reflexivity).
    all: revert E V; generalize depth1000_succ; generalize (Nat.pred depth1000); generalize depth1000;
      intros dd d -> E V; simpl in E; rewrite V in E; simpl in E;
      apply bind_ok in E as (edits & _ & E); inversion E; subst r; eexists; reflexivity.
  Qed.
End ValueTotal.

Lemma diff_depth_total_lemma route_size depth a b : 1 <= route_size ->
  (exists r, diff_depth route_size depth a b = Ok r) \/ diff_depth route_size depth a b = ErrDepth.
Proof. intros RS. destruct (diff_depth_safe route_size RS depth a b) as [H|[_ H]]; auto. Qed.

(** The hypothesis 1 <= route_size is needed: with a route table of size 0 the outer loop of compose makes
    no progress on two one-element sequences that differ, for any number of rounds (in Go: for ever). *)
Lemma route_size_zero_loops_lemma : forall rounds,
  compose_rounds Z (fun x y => Some (x =? y)) 0 rounds 5 true [1] [2] [] = OutOfFuel.
Proof.
  induction rounds as [|rr IH]; [reflexivity|].
  rewrite compose_rounds_S.
  replace (search Z (fun x y => Some (x =? y)) 0 [1] [2] 5) with
    (step_k Z (fun x y => Some (x =? y)) [1] [2] 5 2 init_state 0) by reflexivity.
  cbv - [compose_rounds]. exact IH.
Qed.
