(** C16: size of the script (cost identity, the |a| + |b| bound) and the common prefix. *)
From Dawn Require Import Diff.Model Diff.Spec Diff.Proofs_Basic Diff.Proofs_Record Diff.Proofs_Search
     Diff.Proofs_Seq Diff.Proofs_Rounds Diff.Proofs_Value.
From Dawn Require Import Diff.SpecCost Diff.Proofs_Total.
From Coq Require Import Lia.
Open Scope Z_scope.

Section Cost.
  Variable A : Type.
  Variable eqv : A -> A -> option bool.

  Lemma F2_length {X Y} (R : X -> Y -> Prop) l1 l2 : Forall2 R l1 l2 -> length l1 = length l2.
  Proof. induction 1; simpl; congruence. Qed.

  Lemma shape_cost_sum : forall script : list (edit A),
    Forall edit_shape script ->
    (length (flat_map eold script) + length (flat_map enew script) =
     script_cost script + 2 * script_kept script)%nat.
  Proof.
    induction script as [|e script IH]; intros SH; [reflexivity|].
    inversion SH as [|? ? S1 S2]; subst. specialize (IH S2).
    unfold script_cost, script_kept in *. simpl. rewrite !app_length.
    unfold edit_cost, edit_kept, edit_shape in *.
    destruct (ek e); try lia. rewrite S1 in *. lia.
  Qed.

  Lemma script_cost_identity_lemma rs a b script :
    diff_slice A eqv rs a b = Ok script ->
    (script_cost script + 2 * script_kept script = length a + length b)%nat.
  Proof.
    intros D. pose proof (diff_slice_shape A eqv rs a b script D) as SH.
    apply diff_slice_faithful_all in D. destruct D as [D1 D2].
    apply F2_length in D2. unfold old_proj, new_proj in *.
    rewrite <- (shape_cost_sum script SH). rewrite D1, D2. reflexivity.
  Qed.

  Lemma script_cost_bound_lemma rs a b script :
    diff_slice A eqv rs a b = Ok script -> (script_cost script <= length a + length b)%nat.
  Proof. intros D. apply script_cost_identity_lemma in D. lia. Qed.
End Cost.

(** * The common prefix is kept *)

Section Roots.
  Variable A : Type.
  Variable eqv : A -> A -> option bool.
  Variable route_size : Z.
  Variables a b : list A.
  Variable size : Z.

  Notation zlen := (zlen A).
  Notation m := (zlen a).
  Notation n := (zlen b).
  Notation delta := (zlen b - zlen a).
  Notation offset := (zlen a + 1).
  Notation start_ok := (start_ok A a b).
  Notation Inv := (Inv A eqv a b).
  Notation InvUp := (InvUp A eqv a b).
  Notation InvDown := (InvDown A eqv a b).

  Hypothesis Hmn : m <= n.
  Variable c0 : Z.
  Hypothesis LCP : lcp A eqv a b = Ok c0.

  (** every route-table entry without a predecessor is the end of the snake from the origin *)
  Definition roots_ok (rts : list (Z * Z * Z)) : Prop :=
    forall i x y, nth_error rts i = Some (x, y, -1) -> x = c0 /\ y = c0.

  Lemma snake_origin c :
    (if (0 <? m) && (0 <? n)
     then if (0 <? 0) || (0 <? 0) then Panic else lcp A eqv (skipn (Z.to_nat 0) a) (skipn (Z.to_nat 0) b)
     else Ok 0) = Ok c -> c = c0.
  Proof.
    destruct ((0 <? m) && (0 <? n)) eqn:C.
    - simpl. rewrite LCP. intros H; inversion H; reflexivity.
    - intros H; inversion H; subst c. apply andb_false_iff in C.
      assert (E : a = [] \/ b = []).
      { destruct C as [C|C]; apply Z.ltb_ge in C; [left; destruct a | right; destruct b]; auto;
          unfold Model.zlen in C; simpl in C; lia. }
      destruct E as [-> | ->].
      + simpl in LCP. inversion LCP; reflexivity.
      + destruct a; simpl in LCP; inversion LCP; reflexivity.
  Qed.

  Lemma step_roots st st' k :
    start_ok st k -> roots_ok (routes st) ->
    step_k A eqv a b size offset st k = Ok st' -> roots_ok (routes st').
  Proof.
    intros SO RO H. unfold step_k in H.
    apply bind_ok in H as (pa & G1 & H). apply bind_ok in H as (pp & G2 & H).
    apply bind_ok in H as ([s st1] & SN & H). inversion H; subst st'; clear H.
    unfold aget in G1, G2.
    destruct ((0 <=? k - 1 + offset) && (k - 1 + offset <? size)); [|discriminate].
    destruct ((0 <=? k + 1 + offset) && (k + 1 + offset <? size)); [|discriminate].
    inversion G1; subst pa; clear G1. inversion G2; subst pp; clear G2.
    unfold Proofs_Search.start_ok, Proofs_Search.F, Proofs_Search.P in SO.
    unfold snake in SN.
    destruct SO as (_ & _ & SR).
    apply bind_ok in SN as (c & LC & SN). inversion SN; subst s st1; clear SN.
    simpl routes. intros i x y N.
    destruct (Nat.lt_ge_cases i (length (routes st))) as [LT|GE].
    - rewrite nth_error_app1 in N by exact LT. exact (RO _ _ _ N).
    - rewrite nth_error_app2 in N by exact GE.
      destruct (i - length (routes st))%nat as [|q]; [|destruct q; discriminate].
      simpl in N. inversion N as [[N1 N2 N3]]; clear N.
      destruct SR as [(R1 & R2 & R3)|(R1 & _)]; [|rewrite N3 in R1; lia].
      rewrite R3 in *. rewrite R2 in *. apply snake_origin in LC. lia.
  Qed.

  Lemma loop_up_roots p : forall cnt k st st',
    0 <= p -> - p <= k -> k + Z.of_nat cnt = delta -> InvUp p k st -> roots_ok (routes st) ->
    loop_up A eqv cnt a b size offset k st = Ok st' -> roots_ok (routes st').
  Proof.
    induction cnt as [|cnt IH]; intros k st st' P0 K KC I RO L.
    - simpl in L. inversion L; subst. exact RO.
    - simpl in L. apply bind_ok in L as (st1 & ST & L).
      apply (IH (k + 1) st1 st'); try lia; [| |exact L].
      + apply (up_step A eqv a b size Hmn p k st st1); [lia|lia|exact I|exact ST].
      + eapply step_roots; [|exact RO|exact ST]. apply (up_start A eqv a b p); [lia|lia|exact I].
  Qed.

  Lemma loop_down_roots p : forall cnt k st st',
    0 <= p -> k - Z.of_nat cnt = delta -> k <= delta + p -> InvDown p k st -> roots_ok (routes st) ->
    loop_down A eqv cnt a b size offset k st = Ok st' -> roots_ok (routes st').
  Proof.
    induction cnt as [|cnt IH]; intros k st st' P0 KC KP I RO L.
    - simpl in L. inversion L; subst. exact RO.
    - simpl in L. apply bind_ok in L as (st1 & ST & L).
      apply (IH (k - 1) st1 st'); try lia; [| |exact L].
      + apply (down_step A eqv a b size Hmn p k st st1); [lia|lia|exact I|exact ST].
      + eapply step_roots; [|exact RO|exact ST]. apply (down_start A eqv a b Hmn p); [lia|lia|exact I].
  Qed.

  Lemma ploop_roots : forall fuel p st st',
    0 <= p -> Inv p st -> roots_ok (routes st) ->
    ploop A eqv route_size fuel a b size p st = Ok st' -> roots_ok (routes st').
  Proof.
    induction fuel as [|fuel IH]; intros p st st' P0 I RO L; [discriminate|].
    simpl in L.
    apply bind_ok in L as (st1 & L1 & L). apply bind_ok in L as (st2 & L2 & L). apply bind_ok in L as (st3 & L3 & L).
    pose proof (inv_to_up A eqv a b p st P0 I) as IU.
    assert (RO1 : roots_ok (routes st1)) by (apply (loop_up_roots p (Z.to_nat (delta + p)) (- p) st st1); try lia; assumption).
    apply (loop_up_ok A eqv a b size Hmn p) in L1; [|lia|lia|lia|exact IU].
    apply up_to_down in L1; [|lia].
    assert (RO2 : roots_ok (routes st2)) by (apply (loop_down_roots p (Z.to_nat p) (delta + p) st1 st2); try lia; assumption).
    apply (loop_down_ok A eqv a b size Hmn p) in L2; [|lia|lia|lia|exact L1].
    pose proof (step_roots _ _ _ (final_start A eqv a b Hmn p st2 P0 L2) RO2 L3) as RO3.
    destruct (final_step A eqv a b size Hmn _ _ _ P0 L2 L3) as (EO & LK & LE & NX).
    destruct ((fp st3 (delta + offset) >=? n) || (Z.of_nat (length (routes st3)) >? route_size)) eqn:C.
    - inversion L; subst st'. exact RO3.
    - apply orb_false_iff in C as [C _]. rewrite Z.geb_leb in C. apply Z.leb_gt in C.
      apply (IH (p + 1) st3 st'); try lia; auto.
  Qed.

  Lemma chain_nil : forall fuel rts, chain fuel rts (-1) = Ok [].
  Proof. destruct fuel; reflexivity. Qed.

  (** following the route chain back from any entry ends at the snake from the origin *)
  Lemma chain_last rts : roots_ok rts -> forall fuel r epc,
    chain fuel rts r = Ok epc -> r <> -1 -> exists pre, epc = pre ++ [(c0, c0)].
  Proof.
    intros RO. induction fuel as [|fuel IH]; intros r epc C NE.
    - simpl in C. destruct (r =? -1) eqn:R; [apply Z.eqb_eq in R; lia | discriminate].
    - simpl in C. destruct (r =? -1) eqn:R; [apply Z.eqb_eq in R; lia|].
      destruct (r <? 0); [discriminate|].
      destruct (nth_error rts (Z.to_nat r)) as [[[x y] r']|] eqn:N; [|discriminate].
      apply bind_ok in C as (rest & C & E). inversion E; subst epc; clear E.
      destruct (Z.eq_dec r' (-1)) as [->|NE'].
      + rewrite chain_nil in C. inversion C; subst rest.
        destruct (RO _ _ _ N) as [-> ->]. exists []. reflexivity.
      + destruct (IH _ _ C NE') as [pre ->]. exists ((x, y) :: pre). reflexivity.
  Qed.
End Roots.

Section FirstEdit.
  Variable A : Type.
  Variable src : list A.        (* the old sequence: where Common edits take their values *)
  Variable c0 : Z.

  Notation zlen := (zlen A).

  Lemma firstn_length_self (l : list A) k : firstn (length (firstn k l)) l = firstn k l.
  Proof.
    rewrite firstn_length. destruct (Nat.le_ge_cases k (length l)) as [H|H].
    - rewrite Nat.min_l by exact H. reflexivity.
    - rewrite Nat.min_r by exact H. rewrite !firstn_all2; auto.
  Qed.

  Lemma zslice0 (l : list A) e vs : zslice A l 0 e = Ok vs -> vs = firstn (length vs) l /\ zlen vs = e.
  Proof.
    intros H. pose proof (zslice_len _ _ _ _ _ H) as L. unfold zslice in H.
    destruct ((0 <=? 0) && (0 <=? e) && (e <=? zlen l)); [|discriminate].
    inversion H; subst vs; clear H. change (Z.to_nat 0) with 0%nat. simpl skipn.
    split; [symmetry; apply firstn_length_self | lia].
  Qed.

  (** the first recorded edit (last of the latest-first list) keeps a prefix of [src] of length >= c0 *)
  Definition first_common (es : list (redit A)) : Prop :=
    exists pre vs, es = pre ++ [mkRedit A RCommon 0 vs] /\ vs = firstn (length vs) src /\ c0 <= zlen vs.

  Lemma extend_first kind from loc es es' :
    (kind = RCommon -> from = src) -> first_common es ->
    extend A kind from loc es = Ok es' -> first_common es'.
  Proof.
    intros KS (pre & vs & -> & V1 & V2) E. unfold extend in E.
    assert (FRESH : (ws <- zslice A from loc (loc + 1) ;; Ok (mkRedit A kind loc ws :: pre ++ [mkRedit A RCommon 0 vs])) = Ok es' ->
                    first_common es').
    { intros H. apply bind_ok in H as (ws & _ & H). inversion H; subst es'.
      exists (mkRedit A kind loc ws :: pre), vs. auto. }
    destruct pre as [|q pre].
    - cbn [app rk rstart rvals] in E, FRESH.
      destruct (rkind_eqb RCommon kind && (0 + zlen vs =? loc)) eqn:C; [|exact (FRESH E)].
      apply andb_true_iff in C as [C1 C2]. apply rkind_eqb_eq in C1. apply Z.eqb_eq in C2.
      rewrite (KS (eq_sym C1)) in E. apply bind_ok in E as (ws & S & E). inversion E; subst es'.
      apply zslice0 in S as [S1 S2]. exists [], ws. split; [rewrite <- C1; reflexivity|]. split; [exact S1|lia].
    - cbn [app rk rstart rvals] in E, FRESH.
      destruct (rkind_eqb (rk A q) kind && (rstart A q + zlen (rvals A q) =? loc)); [|exact (FRESH E)].
      apply bind_ok in E as (ws & _ & E). inversion E; subst es'.
      exists (mkRedit A kind (rstart A q) ws :: pre), vs. auto.
  Qed.

  Lemma walk_first a b (reverse : bool) tx ty : src = (if reverse then b else a) -> forall fuel s s',
    first_common (redits A s) -> walk A fuel a b reverse tx ty s = Ok s' -> first_common (redits A s').
  Proof.
    intros SRC. induction fuel as [|fuel IH]; intros s s' FC W.
    - simpl in W. destruct ((px A s <? tx) || (py A s <? ty)); [discriminate|]. inversion W; subst; exact FC.
    - simpl in W. destruct ((px A s <? tx) || (py A s <? ty)); [|inversion W; subst; exact FC].
      destruct (ty - tx >? py A s - px A s).
      + apply bind_ok in W as (es & E & W). apply IH in W; [exact W|]. simpl.
        eapply extend_first; [|exact FC|exact E]. destruct reverse; discriminate.
      + destruct (ty - tx <? py A s - px A s).
        * apply bind_ok in W as (es & E & W). apply IH in W; [exact W|]. simpl.
          eapply extend_first; [|exact FC|exact E]. destruct reverse; discriminate.
        * apply bind_ok in W as (es & E & W). apply IH in W; [exact W|]. simpl.
          eapply extend_first; [|exact FC|exact E]. intros _. symmetry. exact SRC.
  Qed.

  Lemma record_pts_first a b (reverse : bool) : src = (if reverse then b else a) -> forall pts s s',
    first_common (redits A s) -> record_pts A a b reverse pts s = Ok s' -> first_common (redits A s').
  Proof.
    intros SRC. induction pts as [|[x y] pts IH]; intros s s' FC R.
    - simpl in R. inversion R; subst; exact FC.
    - simpl in R. apply bind_ok in R as (s1 & W & R).
      eapply IH; [|exact R]. eapply walk_first; eauto.
  Qed.

  (** the walk along the first snake, from the origin to (c0, c0) *)
  Definition diag_state (es : list (redit A)) (j : Z) : Prop :=
    (j = 0 /\ es = []) \/
    (0 < j /\ exists vs, es = [mkRedit A RCommon 0 vs] /\ vs = firstn (length vs) src /\ zlen vs = j).

  Lemma walk_diag a b (reverse : bool) : src = (if reverse then b else a) -> forall fuel s s',
    px A s = py A s -> 0 <= px A s -> diag_state (redits A s) (px A s) ->
    walk A fuel a b reverse c0 c0 s = Ok s' ->
    diag_state (redits A s') (px A s').
  Proof.
    intros SRC. induction fuel as [|fuel IH]; intros s s' PXY P0 DS W.
    - simpl in W. destruct ((px A s <? c0) || (py A s <? c0)); [discriminate|]. inversion W; subst; exact DS.
    - simpl in W. destruct ((px A s <? c0) || (py A s <? c0)); [|inversion W; subst; exact DS].
      replace (c0 - c0 >? py A s - px A s) with false in W by (symmetry; rewrite Z.gtb_ltb; apply Z.ltb_ge; lia).
      replace (c0 - c0 <? py A s - px A s) with false in W by (symmetry; apply Z.ltb_ge; lia).
      apply bind_ok in W as (es & E & W). apply IH in W; [exact W | simpl; lia | simpl; lia |]. simpl.
      rewrite <- SRC in E.
      replace (if reverse then py A s else px A s) with (px A s) in E by (destruct reverse; lia).
      right. split; [lia|]. unfold extend in E.
      destruct DS as [[J ES]|(J & vs & ES & V1 & V2)].
      + rewrite ES in E. rewrite J in *. apply bind_ok in E as (ws & S & E). inversion E; subst es.
        apply zslice0 in S as [S1 S2]. exists ws. auto.
      + rewrite ES in E. simpl in E.
        replace (zlen vs =? px A s) with true in E by (symmetry; apply Z.eqb_eq; lia).
        apply bind_ok in E as (ws & S & E). inversion E; subst es.
        apply zslice0 in S as [S1 S2]. exists ws. auto.
  Qed.

  (** the replace merge never touches a leading Common edit *)
  Lemma merge_first e : ek e = KCommon -> forall raw acc script,
    (exists pre, acc = pre ++ [e]) -> merge A raw acc = Ok script -> exists rest, script = e :: rest.
  Proof.
    intros EK. induction raw as [|r raw IH]; intros acc script [pre ->] M.
    - simpl in M. inversion M; subst. rewrite rev_app_distr. simpl. eauto.
    - simpl in M.
      destruct pre as [|tail pre].
      + simpl in M. unfold is_delete in M. rewrite EK in M. rewrite andb_false_r in M.
        eapply IH; [|exact M]. exists [mk_edit A r]. reflexivity.
      + simpl in M. destruct (is_add A r && is_delete A tail).
        * destruct (zlen (eold tail) <? zlen (rvals A r)).
          -- apply bind_ok in M as (new0 & _ & M). apply bind_ok in M as (rest & _ & M).
             eapply IH; [|exact M]. eexists (_ :: _ :: pre). reflexivity.
          -- destruct (zlen (eold tail) >? zlen (rvals A r)).
             ++ apply bind_ok in M as (old0 & _ & M). apply bind_ok in M as (rest & _ & M).
                eapply IH; [|exact M]. eexists (_ :: _ :: pre). reflexivity.
             ++ eapply IH; [|exact M]. eexists (_ :: pre). reflexivity.
        * eapply IH; [|exact M]. exists (mk_edit A r :: tail :: pre). reflexivity.
  Qed.
End FirstEdit.

Section PrefixKept.
  Variable A : Type.
  Variable eqv : A -> A -> option bool.
  Variable route_size : Z.

  Lemma roots_nil c : roots_ok c [].
  Proof. intros i x y N. destruct i; discriminate. Qed.

  (** When the route table is not exhausted, the longest run of leading elements that the search finds
      equal (it compares the shorter sequence's elements with the longer one's) is kept: the script starts
      with a Common edit holding a prefix of the old sequence that is at least as long. *)
  Lemma common_prefix_kept_lemma a b script c :
    diff_slice A eqv route_size a b = Ok script ->
    exhausted A eqv route_size a b = Ok false ->
    lcp A eqv (if zlen A a >=? zlen A b then b else a) (if zlen A a >=? zlen A b then a else b) = Ok c ->
    0 < c ->
    exists vs rest, script = mkEdit KCommon vs vs :: rest /\ vs = firstn (length vs) a /\ c <= zlen A vs.
  Proof.
    unfold diff_slice, exhausted. intros D X LC CP.
    set (reverse := zlen A a >=? zlen A b) in *.
    set (a' := if reverse then b else a) in *.
    set (b' := if reverse then a else b) in *.
    assert (LE : zlen A a' <= zlen A b').
    { unfold a', b', reverse. destruct (zlen A a >=? zlen A b) eqn:G.
      - rewrite Z.geb_leb in G. apply Z.leb_le in G. exact G.
      - rewrite Z.geb_leb in G. apply Z.leb_gt in G. lia. }
    assert (SRC : a = (if reverse then b' else a')) by (unfold a', b'; destruct reverse; reflexivity).
    apply bind_ok in X as (st & S & X). inversion X as [X']; clear X.
    apply negb_false_iff in X'. rewrite Z.geb_leb in X'. apply Z.leb_le in X'.
    apply bind_ok in D as (raw & C & M).
    simpl in C. rewrite S in C. simpl in C.
    apply bind_ok in C as (r & G & C).
    unfold aget in G. destruct ((0 <=? _) && (_ <? _)) in G; [|discriminate]. inversion G; subst r; clear G.
    apply bind_ok in C as (epc & CH & C).
    change (chain (Datatypes.S (length (routes st))) (routes st) (path st (zlen A b' - zlen A a' + (zlen A a' + 1))) = Ok epc) in CH.
    apply bind_ok in C as (s & R & C).
    pose proof (search_valid_lemma A eqv route_size a' b' _ LE st epc S X' CH) as V.
    pose proof (record_pts_ok A eqv a' b' reverse (rev epc) (mkR A 0 0 []) s) as RO.
    destruct RO as (_ & PX & PY).
    { unfold inv; simpl. pose proof (zlen_nonneg A a'). pose proof (zlen_nonneg A b').
      repeat split; try lia; destruct reverse; simpl; try reflexivity; constructor. }
    { exact V. }
    { exact R. }
    replace ((px A s + 1 >? zlen A a') && (py A s + 1 >? zlen A b')) with true in C.
    2:{ symmetry. apply andb_true_iff. split; apply Z.gtb_lt; lia. }
    inversion C; subst raw; clear C.
    (* the chain ends at the first snake *)
    pose proof S as S1. unfold search in S1.
    apply (ploop_partial A eqv route_size a' b' _ LE) in S1; [|lia|apply init_inv].
    destruct S1 as (_ & (_ & L2 & _) & _). unfold Proofs_Search.P in L2.
    pose proof S as S2. unfold search in S2.
    apply (ploop_roots A eqv route_size a' b' _ LE c LC) in S2; [|lia|apply init_inv|apply roots_nil].
    destruct (chain_last c _ S2 _ _ _ CH ltac:(lia)) as [pre EP].
    rewrite EP, rev_app_distr in R. cbn [rev app record_pts] in R.
    apply bind_ok in R as (s1 & W & R).
    pose proof (walk_end A a' b' reverse c c _ _ _ W ltac:(simpl; lia) ltac:(simpl; lia)) as [PX1 PY1].
    apply (walk_diag A a c a' b' reverse SRC) in W; [|reflexivity|simpl; lia|left; auto].
    assert (FC : first_common A a c (redits A s1)).
    { destruct W as [[J _]|(J & vs & ES & V1 & V2)]; [lia|].
      exists [], vs. rewrite ES. split; [reflexivity|]. split; [exact V1|lia]. }
    apply (record_pts_first A a c a' b' reverse SRC _ _ _ FC) in R.
    destruct R as (pre' & vs & ES & V1 & V2).
    rewrite ES, rev_app_distr in M. cbn [rev app merge] in M.
    apply (merge_first A (mk_edit A (mkRedit A RCommon 0 vs))) in M; [|reflexivity|exists []; reflexivity].
    destruct M as [rest ->]. exists vs, rest. auto.
  Qed.
End PrefixKept.
