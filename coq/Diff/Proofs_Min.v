(** C16: size of the script (cost identity, the |a| + |b| bound) and the common prefix. *)
From Dawn Require Import Diff.Model Diff.Spec Diff.Proofs_Basic Diff.Proofs_Record Diff.Proofs_Search
     Diff.Proofs_Seq Diff.Proofs_Rounds Diff.Proofs_Value.
From Dawn Require Import Diff.SpecCost Diff.Proofs_Total.
From Coq Require Import Lia.
Open Scope Z_scope.

Section Cost.
  Variable A : Type.
  Variable eqv : A -> A -> option bool.

  Lemma F2_length {X Y} (R : X -> Y -> Prop) l1 l2 : Forall2 R l1 l2 -> length l1 = length l2.
  Proof. induction 1; simpl; congruence. Qed.

  Lemma shape_cost_sum : forall script : list (edit A),
    Forall edit_shape script ->
    (length (flat_map eold script) + length (flat_map enew script) =
     script_cost script + 2 * script_kept script)%nat.
  Proof.
    induction script as [|e script IH]; intros SH; [reflexivity|].
    inversion SH as [|? ? S1 S2]; subst. specialize (IH S2).
    unfold script_cost, script_kept in *. simpl. rewrite !app_length.
    unfold edit_cost, edit_kept, edit_shape in *.
    destruct (ek e); try lia. rewrite S1 in *. lia.
  Qed.

  Lemma script_cost_identity_lemma rs a b script :
    diff_slice A eqv rs a b = Ok script ->
    (script_cost script + 2 * script_kept script = length a + length b)%nat.
  Proof.
    intros D. pose proof (diff_slice_shape A eqv rs a b script D) as SH.
    apply diff_slice_faithful_all in D. destruct D as [D1 D2].
    apply F2_length in D2. unfold old_proj, new_proj in *.
    rewrite <- (shape_cost_sum script SH). rewrite D1, D2. reflexivity.
  Qed.

  Lemma script_cost_bound_lemma rs a b script :
    diff_slice A eqv rs a b = Ok script -> (script_cost script <= length a + length b)%nat.
  Proof. intros D. apply script_cost_identity_lemma in D. lia. Qed.
End Cost.
