(** C16: every entry of a replace edit pairs two UNEQUAL elements (route table not exhausted).

    The merge of delete+add into replace pairs the i-th deleted element with the i-th added one.  If the search
    (whose comparison decides which elements are kept) found two such elements equal, the script would not be a
    shortest one: delete the elements before the pair, insert the ones before it, keep the pair, and go on --
    two elements cheaper.  So with script_is_shortest no replace entry pairs elements that the search's
    comparison reports equal; diffReplacements then never renders an entry as None, provided ITS comparison
    (DiffDepth's) agrees with the search's on those elements.

    Proof: the positions of the walker are recomputed from the lengths of the recorded edits ([pos]), every
    recorded edit holds the elements at its position and every Common edit lies on matching elements ([rj]);
    the merge keeps this ([aj]); a script with that property is a path of the edit graph, and a replace edit
    with an equal pair gives a path with one deletion less. *)
From Dawn Require Import Diff.Model Diff.Spec Diff.Proofs_Basic Diff.Proofs_Record Diff.Proofs_Search
     Diff.Proofs_Seq Diff.Proofs_Rounds Diff.Proofs_Value Diff.SpecCost Diff.SpecGraph Diff.Proofs_Total
     Diff.Proofs_Min Diff.Proofs_Opt Diff.Proofs_Short.
From Coq Require Import Lia.
Open Scope Z_scope.

Section ListFacts2.
  Variable A : Type.
  Notation zlen := (zlen A).
  Notation znth := (znth A).

  Lemma nth_error_firstn_lt : forall (l : list A) n k, (k < n)%nat -> nth_error (firstn n l) k = nth_error l k.
  Proof.
    induction l as [|x l IH]; intros n k H.
    - rewrite firstn_nil. reflexivity.
    - destruct n as [|n]; [lia|]. destruct k as [|k]; [reflexivity|]. simpl. apply IH. lia.
  Qed.

  Lemma nth_error_skipn_add : forall (l : list A) s k, nth_error (skipn s l) k = nth_error l (s + k).
  Proof.
    induction l as [|x l IH]; intros s k.
    - rewrite skipn_nil. destruct k, s; reflexivity.
    - destruct s as [|s]; [reflexivity|]. simpl. apply IH.
  Qed.

  Lemma zslice_znth (l : list A) s e vs k :
    zslice A l s e = Ok vs -> 0 <= k < e - s -> znth vs k = znth l (s + k).
  Proof.
    unfold zslice. destruct ((0 <=? s) && (s <=? e) && (e <=? zlen l)) eqn:C; [|discriminate].
    rewrite !andb_true_iff, !Z.leb_le in C. intros H K. inversion H; subst vs; clear H.
    unfold znth. destruct (k <? 0) eqn:K0; [apply Z.ltb_lt in K0; lia|].
    destruct (s + k <? 0) eqn:K1; [apply Z.ltb_lt in K1; lia|].
    rewrite nth_error_firstn_lt by lia. rewrite nth_error_skipn_add. f_equal. lia.
  Qed.

  Lemma znth_nth_error (l : list A) (t : nat) : znth l (Z.of_nat t) = nth_error l t.
  Proof. unfold znth. destruct (Z.of_nat t <? 0) eqn:E; [apply Z.ltb_lt in E; lia|]. rewrite Nat2Z.id. reflexivity. Qed.
End ListFacts2.

Section Sides.
  Variable A : Type.
  Variable eqv : A -> A -> option bool.
  (** the walker's two sequences (shorter first) and its flag *)
  Variables a b : list A.
  Variable reverse : bool.

  Notation zlen := (zlen A).
  Notation znth := (znth A).
  Notation src := (src A a b reverse).

  Definition diag_at (i j : Z) : Prop :=
    exists u v, znth a i = Some u /\ znth b j = Some v /\ eqv u v = Some true.

  (** * The recorded edits (latest first) *)

  Definition adv (k : rkind) (c : Z) (p : Z * Z) : Z * Z :=
    match k with
    | RCommon => (fst p + c, snd p + c)
    | RDelete => if reverse then (fst p, snd p + c) else (fst p + c, snd p)
    | RAdd => if reverse then (fst p + c, snd p) else (fst p, snd p + c)
    end.

  Definition coord (k : rkind) (p : Z * Z) : Z :=
    match k with
    | RCommon => if reverse then snd p else fst p
    | RDelete => if reverse then snd p else fst p
    | RAdd => if reverse then fst p else snd p
    end.

  Fixpoint pos (es : list (redit A)) : Z * Z :=
    match es with
    | [] => (0, 0)
    | e :: r => adv (rk A e) (zlen (rvals A e)) (pos r)
    end.

  Definition ewf (e : redit A) (p : Z * Z) : Prop :=
    rstart A e = coord (rk A e) p /\
    zslice A (src (rk A e)) (rstart A e) (rstart A e + zlen (rvals A e)) = Ok (rvals A e) /\
    (rk A e = RCommon -> forall k, 0 <= k < zlen (rvals A e) -> diag_at (fst p + k) (snd p + k)).

  Fixpoint rj (es : list (redit A)) : Prop :=
    match es with
    | [] => True
    | e :: r => ewf e (pos r) /\ rj r
    end.

  Lemma adv_adv k c1 c2 p : adv k c2 (adv k c1 p) = adv k (c1 + c2) p.
  Proof. unfold adv. destruct k, reverse; simpl; f_equal; lia. Qed.

  Lemma extend_rj kind loc es es' x :
    rj es -> loc = coord kind (pos es) ->
    znth (src kind) loc = Some x ->
    (kind = RCommon -> diag_at (fst (pos es)) (snd (pos es))) ->
    extend A kind (src kind) loc es = Ok es' ->
    rj es' /\ pos es' = adv kind 1 (pos es).
  Proof.
    intros J L N DG E. unfold extend in E.
    assert (FRESH : (vs <- zslice A (src kind) loc (loc + 1) ;; Ok (mkRedit A kind loc vs :: es)) = Ok es' ->
                    rj es' /\ pos es' = adv kind 1 (pos es)).
    { rewrite (zslice_one _ _ _ _ N). simpl. intros H; inversion H; subst es'; clear H. split.
      - simpl. split; [|exact J]. unfold ewf. simpl.
        unfold Model.zlen. simpl length. change (Z.of_nat 1) with 1.
        split; [exact L|]. split; [apply zslice_one; exact N|].
        intros KC k K. replace k with 0 by lia. rewrite !Z.add_0_r. apply DG. exact KC.
      - simpl. unfold Model.zlen. simpl length. reflexivity. }
    destruct es as [|last rest]; [exact (FRESH E)|].
    destruct (rkind_eqb (rk A last) kind && (rstart A last + zlen (rvals A last) =? loc)) eqn:C; [|exact (FRESH E)].
    clear FRESH. apply andb_true_iff in C as [C1 C2]. apply rkind_eqb_eq in C1. apply Z.eqb_eq in C2.
    simpl in J. destruct J as [(W1 & W2 & W3) J].
    rewrite C1 in W2.
    assert (W2' := W2). rewrite C2 in W2'.
    rewrite (zslice_snoc _ _ _ _ _ _ W2' N) in E. simpl in E. inversion E; subst es'; clear E.
    assert (LEN : zlen (rvals A last ++ [x]) = zlen (rvals A last) + 1).
    { rewrite zlen_app. unfold Model.zlen at 2. simpl length. lia. }
    split.
    - simpl. split; [|exact J]. unfold ewf. simpl. rewrite LEN.
      split; [rewrite <- C1; exact W1|].
      split.
      + rewrite Z.add_assoc, C2. apply zslice_snoc; assumption.
      + intros KC k K. destruct (Z.eq_dec k (zlen (rvals A last))) as [->|NE].
        * specialize (DG KC). simpl in DG. rewrite C1, KC in DG. simpl in DG. exact DG.
        * apply W3; [rewrite C1; exact KC | lia].
    - simpl. rewrite LEN, C1. symmetry. apply adv_adv.
  Qed.

  (** the walker's invariant *)
  Definition inv2 (s : rstate A) : Prop :=
    0 <= px A s /\ 0 <= py A s /\ rj (redits A s) /\ pos (redits A s) = (px A s, py A s).

  Lemma walk_rj tx ty : forall fuel s s',
    inv2 s -> rem_ok A eqv a b s tx ty -> walk A fuel a b reverse tx ty s = Ok s' -> inv2 s'.
  Proof.
    induction fuel as [|fuel IH]; intros s s' I R W.
    - simpl in W. destruct ((px A s <? tx) || (py A s <? ty)); [discriminate|]. inversion W; subst. exact I.
    - simpl in W. destruct R as (R1 & R2 & R3 & R4 & R5).
      destruct ((px A s <? tx) || (py A s <? ty)) eqn:G; [|inversion W; subst; exact I].
      destruct I as (I1 & I2 & J & P).
      assert (G' : px A s < tx \/ py A s < ty) by (apply orb_true_iff in G as [G|G]; apply Z.ltb_lt in G; lia).
      destruct (ty - tx >? py A s - px A s) eqn:C1.
      + (* step along b *)
        apply Z.gtb_lt in C1.
        destruct (znth_some A b (py A s)) as [x N]; [lia|].
        apply bind_ok in W as (es & E & W).
        apply IH in W; [exact W| |].
        * assert (SB : src (if reverse then RDelete else RAdd) = b) by (unfold Proofs_Record.src; destruct reverse; reflexivity).
          destruct (extend_rj (if reverse then RDelete else RAdd) (py A s) (redits A s) es x) as [J' P'].
          -- exact J.
          -- rewrite P. unfold coord. destruct reverse; reflexivity.
          -- rewrite SB. exact N.
          -- destruct reverse; discriminate.
          -- rewrite SB. exact E.
          -- unfold inv2; simpl. repeat split; try lia; [exact J'|]. rewrite P', P. unfold adv. destruct reverse; reflexivity.
        * unfold rem_ok; simpl. repeat split; try lia.
          replace (Z.min (tx - px A s) (ty - (py A s + 1))) with (Z.min (tx - px A s) (ty - py A s)) by lia.
          exact R5.
      + rewrite Z.gtb_ltb in C1. rewrite Z.ltb_ge in C1.
        destruct (ty - tx <? py A s - px A s) eqn:C2.
        * (* step along a *)
          apply Z.ltb_lt in C2.
          destruct (znth_some A a (px A s)) as [x N]; [lia|].
          apply bind_ok in W as (es & E & W).
          apply IH in W; [exact W| |].
          -- assert (SA : src (if reverse then RAdd else RDelete) = a) by (unfold Proofs_Record.src; destruct reverse; reflexivity).
             destruct (extend_rj (if reverse then RAdd else RDelete) (px A s) (redits A s) es x) as [J' P'].
             ++ exact J.
             ++ rewrite P. unfold coord. destruct reverse; reflexivity.
             ++ rewrite SA. exact N.
             ++ destruct reverse; discriminate.
             ++ rewrite SA. exact E.
             ++ unfold inv2; simpl. repeat split; try lia; [exact J'|]. rewrite P', P. unfold adv. destruct reverse; reflexivity.
          -- unfold rem_ok; simpl. repeat split; try lia.
             replace (Z.min (tx - (px A s + 1)) (ty - py A s)) with (Z.min (tx - px A s) (ty - py A s)) by lia.
             exact R5.
        * (* diagonal step *)
          apply Z.ltb_ge in C2.
          assert (D : ty - tx = py A s - px A s) by lia.
          assert (PX : px A s < tx) by lia.
          destruct (R5 (px A s)) as (u & v & Nu & Nv & EQ); [lia|].
          replace (px A s + (ty - tx)) with (py A s) in Nv by lia.
          assert (DG : diag_at (px A s) (py A s)) by (exists u, v; auto).
          apply bind_ok in W as (es & E & W).
          apply IH in W; [exact W| |].
          -- assert (SC : src RCommon = if reverse then b else a) by reflexivity.
             destruct (extend_rj RCommon (if reverse then py A s else px A s) (redits A s) es (if reverse then v else u)) as [J' P'].
             ++ exact J.
             ++ rewrite P. unfold coord. destruct reverse; reflexivity.
             ++ rewrite SC. destruct reverse; assumption.
             ++ intros _. rewrite P. exact DG.
             ++ rewrite SC. exact E.
             ++ unfold inv2; simpl. repeat split; try lia; [exact J'|]. rewrite P', P. reflexivity.
          -- unfold rem_ok; simpl. repeat split; try lia.
             intros i Hi. apply R5. lia.
  Qed.

  Lemma record_pts_rj : forall pts s s',
    inv2 s -> valid_from A eqv a b (px A s) (py A s) pts = true ->
    record_pts A a b reverse pts s = Ok s' -> inv2 s'.
  Proof.
    induction pts as [|[x y] pts IH]; intros s s' I V R.
    - simpl in R. inversion R; subst. exact I.
    - simpl in V, R. rewrite !andb_true_iff in V. destruct V as (((((V1 & V2) & V3) & V4) & V5) & V6).
      apply Z.leb_le in V1, V2, V3, V4.
      apply bind_ok in R as (s1 & W & R).
      pose proof (walk_end A a b reverse x y _ _ _ W V1 V2) as [PX PY].
      apply walk_rj in W; [|exact I|].
      + apply (IH s1 s' W); [rewrite PX, PY; exact V6 | exact R].
      + unfold rem_ok. repeat split; try lia.
        apply diag_okb_prop in V5.
        replace (x - Z.min (x - px A s) (y - py A s) + Z.of_nat (Z.to_nat (Z.min (x - px A s) (y - py A s)))) with x in V5 by lia.
        exact V5.
  Qed.

  (** the same, read in recording order from a position [p] *)
  Fixpoint rjf (raw : list (redit A)) (p : Z * Z) : Prop :=
    match raw with
    | [] => True
    | e :: r => ewf e p /\ rjf r (adv (rk A e) (zlen (rvals A e)) p)
    end.

  Fixpoint posf (raw : list (redit A)) (p : Z * Z) : Z * Z :=
    match raw with
    | [] => p
    | e :: r => posf r (adv (rk A e) (zlen (rvals A e)) p)
    end.

  Lemma rj_rev : forall es l,
    rj es -> rjf l (pos es) -> rjf (rev es ++ l) (0, 0) /\ posf (rev es ++ l) (0, 0) = posf l (pos es).
  Proof.
    induction es as [|e es IH]; intros l J F.
    - simpl. auto.
    - simpl in J. destruct J as [W J]. simpl rev. rewrite <- app_assoc. simpl app.
      apply IH; [exact J|]. simpl. split; [exact W|exact F].
  Qed.

  (** * The reported edits (latest first) *)

  Definition oldseq := src RDelete.
  Definition newseq := src RAdd.
  Definition io (p : Z * Z) : Z := if reverse then snd p else fst p.
  Definition jn (p : Z * Z) : Z := if reverse then fst p else snd p.

  Definition sadv (e : edit A) (p : Z * Z) : Z * Z :=
    if reverse then (fst p + zlen (enew e), snd p + zlen (eold e))
    else (fst p + zlen (eold e), snd p + zlen (enew e)).

  Fixpoint apos (p0 : Z * Z) (acc : list (edit A)) : Z * Z :=
    match acc with
    | [] => p0
    | e :: r => sadv e (apos p0 r)
    end.

  Definition swf (e : edit A) (p : Z * Z) : Prop :=
    (ek e = KCommon ->
       zlen (eold e) = zlen (enew e) /\ forall k, 0 <= k < zlen (eold e) -> diag_at (fst p + k) (snd p + k)) /\
    (ek e <> KCommon ->
       (forall k, 0 <= k < zlen (enew e) -> znth (enew e) k = znth newseq (jn p + k)) /\
       (forall k, 0 <= k < zlen (eold e) -> znth (eold e) k = znth oldseq (io p + k))).

  Fixpoint aj (p0 : Z * Z) (acc : list (edit A)) : Prop :=
    match acc with
    | [] => True
    | e :: r => swf e (apos p0 r) /\ aj p0 r
    end.

  Lemma zlen_nil : zlen [] = 0.
  Proof. reflexivity. Qed.

  Lemma mk_edit_swf e p : ewf e p -> swf (mk_edit A e) p /\ sadv (mk_edit A e) p = adv (rk A e) (zlen (rvals A e)) p.
  Proof.
    intros (W1 & W2 & W3). unfold mk_edit, swf, sadv, adv. destruct (rk A e) eqn:RK; simpl.
    - (* delete *) split.
      + split; [discriminate|]. intros _. split; [intros k K; rewrite zlen_nil in K; lia|].
        intros k K. rewrite (zslice_znth A _ _ _ _ k W2) by lia. unfold oldseq. f_equal.
        rewrite W1. unfold coord, io. reflexivity.
      + rewrite zlen_nil. destruct reverse; f_equal; lia.
    - (* common *) split.
      + split; [|congruence]. intros _. split; [reflexivity|]. apply W3. reflexivity.
      + destruct reverse; reflexivity.
    - (* add *) split.
      + split; [discriminate|]. intros _. split; [|intros k K; rewrite zlen_nil in K; lia].
        intros k K. rewrite (zslice_znth A _ _ _ _ k W2) by lia. unfold newseq. f_equal.
        rewrite W1. unfold coord, jn. reflexivity.
      + rewrite zlen_nil. destruct reverse; f_equal; lia.
  Qed.

  Lemma merge_aj : forall raw acc script,
    acc_wf A acc -> aj (0, 0) acc -> rjf raw (apos (0, 0) acc) -> merge A raw acc = Ok script ->
    aj (0, 0) (rev script) /\ apos (0, 0) (rev script) = posf raw (apos (0, 0) acc).
  Proof.
    induction raw as [|e raw IH]; intros acc script WF J F M.
    - simpl in M. inversion M; subst. rewrite rev_involutive. simpl. auto.
    - simpl in M. simpl in F. destruct F as [W F].
      assert (PUSH : merge A raw (mk_edit A e :: acc) = Ok script ->
                     aj (0, 0) (rev script) /\ apos (0, 0) (rev script) = posf (e :: raw) (apos (0, 0) acc)).
      { intros M'. destruct (mk_edit_swf e _ W) as [SW SA].
        apply IH in M'.
        - simpl in M'. rewrite SA in M'. exact M'.
        - constructor; [apply mk_edit_wf | exact WF].
        - simpl. split; [exact SW | exact J].
        - simpl. rewrite SA. exact F. }
      destruct acc as [|tail acc']; [exact (PUSH M)|].
      destruct (is_add A e && is_delete A tail) eqn:C; [|exact (PUSH M)].
      clear PUSH. apply andb_true_iff in C as [C1 C2].
      unfold is_add in C1. unfold is_delete in C2.
      destruct (rk A e) eqn:RK; try discriminate.
      destruct (ek tail) eqn:EK; try discriminate.
      inversion WF as [|? ? WT WF']; subst. specialize (WT EK).
      simpl in J. destruct J as [[_ ST] J]. destruct ST as [_ STO]; [congruence|].
      set (p0 := apos (0, 0) acc') in *.
      destruct W as (W1 & W2 & _). rewrite RK in W1, W2. try rewrite RK in F.
      assert (PT : apos (0, 0) (tail :: acc') = sadv tail p0) by reflexivity.
      assert (JN : jn (sadv tail p0) = jn p0).
      { unfold jn, sadv. rewrite WT, zlen_nil. destruct reverse; simpl; lia. }
      assert (NEWN : forall k, 0 <= k < zlen (rvals A e) -> znth (rvals A e) k = znth newseq (jn p0 + k)).
      { intros k K. rewrite (zslice_znth A _ _ _ _ k W2) by lia. unfold newseq. f_equal.
        rewrite W1. rewrite PT. change (coord RAdd (sadv tail p0)) with (jn (sadv tail p0)). rewrite JN. reflexivity. }
      simpl posf. rewrite RK. fold p0.
      pose proof (zlen_nonneg A (eold tail)) as ND. pose proof (zlen_nonneg A (rvals A e)) as NN.
      destruct (zlen (eold tail) <? zlen (rvals A e)) eqn:L1.
      + apply Z.ltb_lt in L1.
        apply bind_ok in M as (new0 & S1 & M). apply bind_ok in M as (rest & S2 & M).
        pose proof (zslice_len _ _ _ _ _ S1) as LN0. pose proof (zslice_len _ _ _ _ _ S2) as LNR.
        apply IH in M.
        * destruct M as [M1 M2]. split; [exact M1|]. rewrite M2. f_equal. simpl.
          unfold sadv, adv, p0. simpl. rewrite WT, !zlen_nil, LN0, LNR. destruct reverse; simpl; f_equal; lia.
        * repeat (constructor; [simpl; intros; try reflexivity; congruence|]); exact WF'.
        * simpl. fold p0. split; [|split; [|exact J]].
          -- split; [discriminate|]. intros _. simpl. split; [|intros k K; rewrite zlen_nil in K; lia].
             intros k K. rewrite (zslice_znth A _ _ _ _ k S2) by lia. rewrite NEWN by lia.
             f_equal. unfold jn, sadv. simpl. rewrite LN0. destruct reverse; simpl; lia.
          -- split; [discriminate|]. intros _. simpl. split; [|exact STO].
             intros k K. rewrite (zslice_znth A _ _ _ _ k S1) by lia. rewrite NEWN by lia. f_equal.
        * simpl. fold p0.
          replace (sadv (mkEdit KAdd [] rest) (sadv (mkEdit KReplace (eold tail) new0) p0))
            with (adv RAdd (zlen (rvals A e)) (sadv tail p0)); [exact F|].
          unfold sadv, adv, p0. simpl. rewrite WT, !zlen_nil, LN0, LNR. destruct reverse; simpl; f_equal; lia.
      + apply Z.ltb_ge in L1. destruct (zlen (eold tail) >? zlen (rvals A e)) eqn:L2.
        * apply Z.gtb_lt in L2.
          apply bind_ok in M as (old0 & S1 & M). apply bind_ok in M as (rest & S2 & M).
          pose proof (zslice_len _ _ _ _ _ S1) as LO0. pose proof (zslice_len _ _ _ _ _ S2) as LOR.
          apply IH in M.
          -- destruct M as [M1 M2]. split; [exact M1|]. rewrite M2. f_equal. simpl.
             unfold sadv, adv, p0. simpl. rewrite WT, !zlen_nil, LO0, LOR. destruct reverse; simpl; f_equal; lia.
          -- repeat (constructor; [simpl; intros; try reflexivity; congruence|]); exact WF'.
          -- simpl. fold p0. split; [|split; [|exact J]].
             ++ split; [discriminate|]. intros _. simpl. split; [intros k K; rewrite zlen_nil in K; lia|].
                intros k K. rewrite (zslice_znth A _ _ _ _ k S2) by lia. rewrite STO by lia.
                f_equal. unfold io, sadv. simpl. rewrite LO0. destruct reverse; simpl; lia.
             ++ split; [discriminate|]. intros _. simpl. split; [exact NEWN|].
                intros k K. rewrite (zslice_znth A _ _ _ _ k S1) by lia. rewrite STO by lia. f_equal.
          -- simpl. fold p0.
             replace (sadv (mkEdit KDelete rest []) (sadv (mkEdit KReplace old0 (rvals A e)) p0))
               with (adv RAdd (zlen (rvals A e)) (sadv tail p0)); [exact F|].
             unfold sadv, adv, p0. simpl. rewrite WT, !zlen_nil, LO0, LOR. destruct reverse; simpl; f_equal; lia.
        * rewrite Z.gtb_ltb in L2. apply Z.ltb_ge in L2.
          apply IH in M.
          -- destruct M as [M1 M2]. split; [exact M1|]. rewrite M2. f_equal. simpl.
             unfold sadv, adv, p0. simpl. rewrite WT, !zlen_nil. destruct reverse; simpl; f_equal; lia.
          -- repeat (constructor; [simpl; intros; try reflexivity; congruence|]); exact WF'.
          -- simpl. fold p0. split; [|exact J].
             split; [discriminate|]. intros _. simpl. split; [exact NEWN|exact STO].
          -- simpl. fold p0.
             replace (sadv (mkEdit KReplace (eold tail) (rvals A e)) p0)
               with (adv RAdd (zlen (rvals A e)) (sadv tail p0)); [exact F|].
             unfold sadv, adv, p0. simpl. rewrite WT, !zlen_nil. destruct reverse; simpl; f_equal; lia.
  Qed.

  (** * A script with that property is a path of the edit graph *)

  Notation reach := (reach A eqv a b).

  Lemma reach_dels x y d : forall (p : nat),
    reach x y d -> x + Z.of_nat p <= zlen a -> reach (x + Z.of_nat p) y (d + Z.of_nat p).
  Proof.
    induction p as [|p IH]; intros R B.
    - simpl. rewrite !Z.add_0_r. exact R.
    - replace (x + Z.of_nat (S p)) with (x + Z.of_nat p + 1) by lia.
      replace (d + Z.of_nat (S p)) with (d + Z.of_nat p + 1) by lia.
      apply r_del; [apply IH; [exact R|lia] | lia].
  Qed.

  Lemma reach_inss x y d : forall (q : nat),
    reach x y d -> y + Z.of_nat q <= zlen b -> reach x (y + Z.of_nat q) d.
  Proof.
    induction q as [|q IH]; intros R B.
    - simpl. rewrite Z.add_0_r. exact R.
    - replace (y + Z.of_nat (S q)) with (y + Z.of_nat q + 1) by lia.
      apply r_ins; [apply IH; [exact R|lia] | lia].
  Qed.

  Lemma reach_runs x y d p q :
    reach x y d -> 0 <= p -> 0 <= q -> x + p <= zlen a -> y + q <= zlen b -> reach (x + p) (y + q) (d + p).
  Proof.
    intros R P Q B1 B2.
    replace p with (Z.of_nat (Z.to_nat p)) by lia. replace q with (Z.of_nat (Z.to_nat q)) by lia.
    apply reach_inss; [|lia]. apply reach_dels; [exact R|lia].
  Qed.

  Lemma reach_diags x y d : forall (c : nat),
    reach x y d -> (forall k, 0 <= k < Z.of_nat c -> diag_at (x + k) (y + k)) ->
    reach (x + Z.of_nat c) (y + Z.of_nat c) d.
  Proof.
    induction c as [|c IH]; intros R D.
    - simpl. rewrite !Z.add_0_r. exact R.
    - replace (x + Z.of_nat (S c)) with (x + Z.of_nat c + 1) by lia.
      replace (y + Z.of_nat (S c)) with (y + Z.of_nat c + 1) by lia.
      destruct (D (Z.of_nat c)) as (u & v & Nu & Nv & E); [lia|].
      apply (r_diag _ _ _ _ _ _ _ u v); auto. apply IH; [exact R|]. intros k K. apply D. lia.
  Qed.

  (** deletions (steps along [a]) and insertions (steps along [b]) of a script *)
  Definition xc1 (e : edit A) : Z :=
    match ek e with KCommon => 0 | _ => if reverse then zlen (enew e) else zlen (eold e) end.
  Definition yc1 (e : edit A) : Z :=
    match ek e with KCommon => 0 | _ => if reverse then zlen (eold e) else zlen (enew e) end.
  Fixpoint xc (acc : list (edit A)) : Z := match acc with [] => 0 | e :: r => xc1 e + xc r end.
  Fixpoint yc (acc : list (edit A)) : Z := match acc with [] => 0 | e :: r => yc1 e + yc r end.

  Lemma apos_mono p0 : forall acc, fst p0 <= fst (apos p0 acc) /\ snd p0 <= snd (apos p0 acc).
  Proof.
    induction acc as [|e acc IH]; [simpl; lia|]. simpl. unfold sadv.
    pose proof (zlen_nonneg A (eold e)). pose proof (zlen_nonneg A (enew e)).
    destruct reverse; simpl; lia.
  Qed.

  Lemma aj_reach p0 d0 : forall acc,
    reach (fst p0) (snd p0) d0 -> aj p0 acc ->
    fst (apos p0 acc) <= zlen a -> snd (apos p0 acc) <= zlen b ->
    reach (fst (apos p0 acc)) (snd (apos p0 acc)) (d0 + xc acc).
  Proof.
    induction acc as [|e acc IH]; intros R J B1 B2.
    - simpl. rewrite Z.add_0_r. exact R.
    - simpl in J. destruct J as [[SC SN] J]. simpl in B1, B2.
      pose proof (zlen_nonneg A (eold e)) as N1. pose proof (zlen_nonneg A (enew e)) as N2.
      assert (B1' : fst (apos p0 acc) <= zlen a) by (unfold sadv in B1; destruct reverse; simpl in B1; lia).
      assert (B2' : snd (apos p0 acc) <= zlen b) by (unfold sadv in B2; destruct reverse; simpl in B2; lia).
      specialize (IH R J B1' B2').
      simpl apos. simpl xc. unfold xc1. destruct (ek e) eqn:EK.
      + destruct SC as [LE DG]; [reflexivity|].
        replace (sadv e (apos p0 acc)) with
          (fst (apos p0 acc) + Z.of_nat (Z.to_nat (zlen (eold e))), snd (apos p0 acc) + Z.of_nat (Z.to_nat (zlen (eold e)))).
        2:{ unfold sadv. rewrite <- LE. destruct reverse; f_equal; lia. }
        cbn [fst snd].
        match goal with |- reach _ _ ?d => replace d with (d0 + xc acc) by lia end.
        apply reach_diags; [exact IH|]. intros k K. apply DG. lia.
      + unfold sadv in *. destruct reverse; cbn [fst snd] in *;
          (match goal with |- reach (?x + ?p) (?y + ?q) ?d => replace d with (d0 + xc acc + p) by lia end;
           apply reach_runs; try lia; exact IH).
      + unfold sadv in *. destruct reverse; cbn [fst snd] in *;
          (match goal with |- reach (?x + ?p) (?y + ?q) ?d => replace d with (d0 + xc acc + p) by lia end;
           apply reach_runs; try lia; exact IH).
      + unfold sadv in *. destruct reverse; cbn [fst snd] in *;
          (match goal with |- reach (?x + ?p) (?y + ?q) ?d => replace d with (d0 + xc acc + p) by lia end;
           apply reach_runs; try lia; exact IH).
  Qed.

  Lemma apos_app p0 : forall post pre, apos p0 (post ++ pre) = apos (apos p0 pre) post.
  Proof. induction post as [|e post IH]; intros pre; [reflexivity|]. simpl. rewrite IH. reflexivity. Qed.

  Lemma aj_app p0 : forall post pre, aj p0 (post ++ pre) -> aj (apos p0 pre) post /\ aj p0 pre.
  Proof.
    induction post as [|e post IH]; intros pre J; [simpl; auto|].
    simpl in J. destruct J as [W J]. apply IH in J as [J1 J2]. simpl. rewrite <- apos_app. auto.
  Qed.

  Lemma xc_app : forall post pre, xc (post ++ pre) = xc post + xc pre.
  Proof. induction post as [|e post IH]; intros pre; simpl; [lia|]. rewrite IH. lia. Qed.

  Lemma apos_cost : forall acc, aj (0, 0) acc ->
    fst (apos (0, 0) acc) - snd (apos (0, 0) acc) = xc acc - yc acc.
  Proof.
    induction acc as [|e acc IH]; intros J; [reflexivity|].
    simpl in J. destruct J as [[SC _] J]. specialize (IH J). simpl. unfold sadv, xc1, yc1.
    destruct (ek e) eqn:EK.
    - destruct SC as [LE _]; [reflexivity|]. destruct reverse; simpl; lia.
    - destruct reverse; simpl; lia.
    - destruct reverse; simpl; lia.
    - destruct reverse; simpl; lia.
  Qed.

  Lemma cost_xy : forall acc, zc A acc = xc acc + yc acc.
  Proof.
    induction acc as [|e acc IH]; [reflexivity|]. rewrite zc_cons, IH. simpl. unfold edit_cost, xc1, yc1.
    destruct (ek e); unfold Model.zlen; destruct reverse; lia.
  Qed.

  (** a replace edit that pairs two elements the search's comparison reports equal gives an edit path with one
      deletion less than the script has *)
  Lemma cheaper_path acc e t x y :
    aj (0, 0) acc -> apos (0, 0) acc = (zlen a, zlen b) ->
    In e acc -> ek e = KReplace -> length (eold e) = length (enew e) ->
    nth_error (eold e) t = Some x -> nth_error (enew e) t = Some y ->
    (if reverse then eqv y x else eqv x y) = Some true ->
    reach (zlen a) (zlen b) (xc acc - 1).
  Proof.
    intros J END IN EK LEN NX NY EQ.
    apply in_split in IN as (post & pre & ->).
    pose proof (aj_app (0, 0) post (e :: pre) J) as [JPOST JPRE].
    simpl in JPRE. destruct JPRE as [[_ SN] JPRE]. destruct SN as [SNN SNO]; [congruence|].
    set (p0 := apos (0, 0) pre) in *.
    rewrite apos_app in END. simpl apos in END. fold p0 in END.
    assert (TL : (t < length (eold e))%nat) by (apply nth_error_Some; congruence).
    set (L := zlen (eold e)).
    assert (LL : zlen (enew e) = L) by (unfold L, Model.zlen; lia).
    assert (TZ : 0 <= Z.of_nat t < L) by (unfold L, Model.zlen; lia).
    (* the pair lies on a diagonal step of the edit graph *)
    assert (DG : diag_at (fst p0 + Z.of_nat t) (snd p0 + Z.of_nat t)).
    { specialize (SNN (Z.of_nat t) ltac:(lia)). specialize (SNO (Z.of_nat t) ltac:(lia)).
      rewrite znth_nth_error, NY in SNN. rewrite znth_nth_error, NX in SNO.
      unfold newseq, oldseq, Proofs_Record.src, jn, io in *. unfold diag_at.
      destruct reverse; simpl in *.
      - exists y, x. auto.
      - exists x, y. auto. }
    (* bounds *)
    pose proof (apos_mono (sadv e p0) post) as [M1 M2]. rewrite END in M1, M2. simpl in M1, M2.
    assert (SE : sadv e p0 = (fst p0 + L, snd p0 + L)) by (unfold sadv; rewrite LL; fold L; destruct reverse; reflexivity).
    change (apos (0, 0) (e :: pre)) with (sadv e p0) in JPOST.
    rewrite SE in *. simpl in M1, M2.
    pose proof (apos_mono (0, 0) pre) as [M3 M4]. fold p0 in M3, M4. simpl in M3, M4.
    (* the path *)
    assert (R0 : reach (fst p0) (snd p0) (0 + xc pre)).
    { apply (aj_reach (0, 0) 0 pre); [apply r_origin | exact JPRE | fold p0; lia | fold p0; lia]. }
    assert (R1 : reach (fst p0 + Z.of_nat t) (snd p0 + Z.of_nat t) (0 + xc pre + Z.of_nat t)).
    { apply reach_runs; try lia. exact R0. }
    destruct DG as (u & v & Nu & Nv & E).
    assert (R2 : reach (fst p0 + Z.of_nat t + 1) (snd p0 + Z.of_nat t + 1) (0 + xc pre + Z.of_nat t)).
    { apply (r_diag _ _ _ _ _ _ _ u v); auto. }
    assert (R3 : reach (fst p0 + Z.of_nat t + 1 + (L - Z.of_nat t - 1)) (snd p0 + Z.of_nat t + 1 + (L - Z.of_nat t - 1))
                       (0 + xc pre + Z.of_nat t + (L - Z.of_nat t - 1))).
    { apply reach_runs; try lia. exact R2. }
    replace (fst p0 + Z.of_nat t + 1 + (L - Z.of_nat t - 1)) with (fst p0 + L) in R3 by lia.
    replace (snd p0 + Z.of_nat t + 1 + (L - Z.of_nat t - 1)) with (snd p0 + L) in R3 by lia.
    pose proof (aj_reach (fst p0 + L, snd p0 + L) _ post R3 JPOST) as R4.
    rewrite END in R4. simpl in R4. specialize (R4 ltac:(lia) ltac:(lia)).
    replace (xc (post ++ e :: pre) - 1) with (0 + xc pre + Z.of_nat t + (L - Z.of_nat t - 1) + xc post); [exact R4|].
    rewrite xc_app. simpl. unfold xc1. rewrite EK. rewrite LL. fold L. destruct reverse; lia.
  Qed.

  Lemma znth_in (l : list A) i x : znth l i = Some x -> In x l.
  Proof. unfold Spec.znth. destruct (i <? 0); [discriminate|]. apply nth_error_In. Qed.

  (** the two elements a replace entry pairs are elements of the old and of the new sequence *)
  Lemma pair_in acc e t x y :
    aj (0, 0) acc -> In e acc -> ek e = KReplace ->
    nth_error (eold e) t = Some x -> nth_error (enew e) t = Some y ->
    In x oldseq /\ In y newseq.
  Proof.
    intros J IN EK NX NY.
    apply in_split in IN as (post & pre & ->).
    apply aj_app in J as [_ J]. simpl in J. destruct J as [[_ SN] _]. destruct SN as [SNN SNO]; [congruence|].
    assert (TX : (t < length (eold e))%nat) by (apply nth_error_Some; congruence).
    assert (TY : (t < length (enew e))%nat) by (apply nth_error_Some; congruence).
    specialize (SNN (Z.of_nat t) ltac:(unfold Model.zlen; lia)). specialize (SNO (Z.of_nat t) ltac:(unfold Model.zlen; lia)).
    rewrite znth_nth_error, NY in SNN. rewrite znth_nth_error, NX in SNO.
    split; eapply znth_in; symmetry; eassumption.
  Qed.
End Sides.

(** * No replace entry pairs elements that the search's comparison reports equal *)

Section Final.
  Variable A : Type.
  Variable eqv : A -> A -> option bool.
  Variable route_size : Z.

  (** the script of diffSlice, read latest edit first, knows its positions and ends in the far corner *)
  Lemma diff_slice_aj a b script :
    diff_slice A eqv route_size a b = Ok script ->
    exhausted A eqv route_size a b = Ok false ->
    let reverse := zlen A a >=? zlen A b in
    let a' := if reverse then b else a in
    let b' := if reverse then a else b in
    aj A eqv a' b' reverse (0, 0) (rev script) /\
    apos A reverse (0, 0) (rev script) = (zlen A a', zlen A b').
  Proof.
    intros D X. unfold diff_slice, exhausted in D, X.
    set (reverse := zlen A a >=? zlen A b) in *.
    set (a' := if reverse then b else a) in *.
    set (b' := if reverse then a else b) in *.
    assert (LE : zlen A a' <= zlen A b').
    { unfold a', b', reverse. destruct (zlen A a >=? zlen A b) eqn:G.
      - rewrite Z.geb_leb in G. apply Z.leb_le in G. exact G.
      - rewrite Z.geb_leb in G. apply Z.leb_gt in G. lia. }
    apply bind_ok in X as (st & S & X). inversion X as [X']; clear X.
    apply negb_false_iff in X'. rewrite Z.geb_leb in X'. apply Z.leb_le in X'.
    apply bind_ok in D as (raw & C & M).
    simpl in C. rewrite S in C. simpl in C.
    apply bind_ok in C as (r & G & C).
    unfold aget in G. destruct ((0 <=? _) && (_ <? _)) in G; [|discriminate]. inversion G; subst r; clear G.
    apply bind_ok in C as (epc & CH & C).
    apply bind_ok in C as (s & R & C).
    pose proof (search_valid_lemma A eqv route_size a' b' _ LE st epc S X' CH) as V.
    pose proof (record_pts_ok A eqv a' b' reverse (rev epc) (mkR A 0 0 []) s) as RO.
    destruct RO as (_ & PX & PY).
    { unfold inv; simpl. pose proof (zlen_nonneg A a'). pose proof (zlen_nonneg A b').
      repeat split; try lia; destruct reverse; simpl; try reflexivity; constructor. }
    { exact V. }
    { exact R. }
    replace ((px A s + 1 >? zlen A a') && (py A s + 1 >? zlen A b')) with true in C.
    2:{ symmetry. apply andb_true_iff. split; apply Z.gtb_lt; lia. }
    inversion C; subst raw; clear C.
    (* the recorded edits know their positions *)
    pose proof (record_pts_rj A eqv a' b' reverse (rev epc) (mkR A 0 0 []) s) as RJ.
    destruct RJ as (_ & _ & J & P).
    { unfold inv2; simpl. repeat split; lia. }
    { exact V. }
    { exact R. }
    destruct (rj_rev A eqv a' b' reverse (redits A s) [] J I) as [F PF].
    rewrite app_nil_r in F, PF. simpl in PF.
    apply (merge_aj A eqv a' b' reverse) in M; [|constructor|exact I|exact F].
    destruct M as [AJ AP]. simpl in AP. rewrite PF, P, PX, PY in AP. split; assumption.
  Qed.

  Lemma replace_pairs_unequal_lemma a b script e t x y :
    diff_slice A eqv route_size a b = Ok script ->
    exhausted A eqv route_size a b = Ok false ->
    In e script -> ek e = KReplace ->
    nth_error (eold e) t = Some x -> nth_error (enew e) t = Some y ->
    In x a /\ In y b /\
    (if zlen A a >=? zlen A b then eqv y x else eqv x y) <> Some true.
  Proof.
    intros D X IN EK NX NY.
    destruct (diff_slice_aj a b script D X) as [AJ AP].
    apply in_rev in IN.
    split; [|split].
    - destruct (pair_in A eqv _ _ _ _ e t x y AJ IN EK NX NY) as [H _].
      unfold oldseq, Proofs_Record.src in H. destruct (zlen A a >=? zlen A b); exact H.
    - destruct (pair_in A eqv _ _ _ _ e t x y AJ IN EK NX NY) as [_ H].
      unfold newseq, Proofs_Record.src in H. destruct (zlen A a >=? zlen A b); exact H.
    - intros EQ.
      pose proof (diff_slice_shape A eqv route_size a b script D) as SHP.
      assert (LEN : length (eold e) = length (enew e)).
      { rewrite Forall_forall in SHP. specialize (SHP e ltac:(apply in_rev; exact IN)).
        unfold edit_shape in SHP. rewrite EK in SHP. exact SHP. }
      pose proof (cheaper_path A eqv _ _ _ (rev script) e t x y AJ AP IN EK LEN NX NY EQ) as CP.
      pose proof (script_is_shortest_lemma A eqv route_size a b script _ D X CP) as SH.
      pose proof (apos_cost A eqv _ _ _ (rev script) AJ) as AC. rewrite AP in AC. simpl in AC.
      pose proof (cost_xy A (zlen A a >=? zlen A b) (rev script)) as CX. rewrite zc_rev in CX. unfold zc in CX.
      lia.
  Qed.
End Final.

(** * Value level: a replace entry rendered as None needs two comparisons that disagree *)

Lemma mapo_in {X Y} (f : X -> outcome Y) : forall xs ys y,
  mapo f xs = Ok ys -> In y ys -> exists x, In x xs /\ f x = Ok y.
Proof.
  induction xs as [|x xs IH]; intros ys y M IN.
  - simpl in M. inversion M; subst. destruct IN.
  - simpl in M. apply bind_ok in M as (d & FX & M). apply bind_ok in M as (r & MR & M). inversion M; subst ys.
    destruct IN as [<-|IN]; [exists x; split; [left; reflexivity | exact FX]|].
    destruct (IH _ _ MR IN) as (x' & I' & F'). exists x'. split; [right; exact I' | exact F'].
Qed.

Lemma map2o_in_none {X Y} (f : X -> X -> outcome (option Y)) : forall xs ys ds,
  map2o f xs ys = Ok ds -> In None ds ->
  exists t x y, nth_error xs t = Some x /\ nth_error ys t = Some y /\ f x y = Ok None.
Proof.
  induction xs as [|x xs IH]; intros ys ds M IN.
  - simpl in M. inversion M; subst. destruct IN.
  - destruct ys as [|y ys]; [simpl in M; inversion M; subst; destruct IN|].
    simpl in M. apply bind_ok in M as (d & FX & M). apply bind_ok in M as (r & MR & M). inversion M; subst ds.
    destruct IN as [->|IN]; [exists 0%nat, x, y; auto|].
    destruct (IH _ _ MR IN) as (t & x' & y' & N1 & N2 & F'). exists (S t), x', y'. auto.
Qed.

Lemma seq_replacements_carry_sides_lemma rs d a b ca ea cb eb edits :
  sliceable a = Some (ca, ea) -> sliceable b = Some (cb, eb) ->
  diff_depth rs (S d) a b = Ok (Some (DSlice a b edits)) ->
  exhausted value (veq_d depth1000) rs ea eb = Ok false ->
  (forall o n, In o ea -> In n eb -> veq_d d o n = Some true ->
     (if zlen value ea >=? zlen value eb then veq_d depth1000 n o else veq_d depth1000 o n) = Some true) ->
  forall ds, In (SRepl ds) edits -> ~ In None ds.
Proof.
  intros SA SB D X AGREE ds IN NONE. simpl in D.
  destruct (veq_d (S d) a b) as [[|]|]; try discriminate.
  rewrite SA, SB in D.
  apply bind_ok in D as (script & DS & D). apply bind_ok in D as (edits' & RE & D).
  inversion D; subst edits'; clear D.
  destruct (mapo_in _ _ _ _ RE IN) as (e & IE & RD).
  unfold render_edit in RD. destruct (ek e) eqn:EK; try discriminate.
  destruct (stringlike ca && stringlike cb).
  - inversion RD; subst ds. destruct NONE as [H|[]]; discriminate.
  - apply bind_ok in RD as (ds' & M2 & RD). inversion RD; subst ds'; clear RD.
    destruct (map2o_in_none _ _ _ _ M2 NONE) as (t & x & y & NX & NY & DN).
    apply diff_depth_empty_iff in DN.
    destruct (replace_pairs_unequal_lemma value (veq_d depth1000) rs ea eb script e t x y DS X IE EK NX NY) as (IX & IY & NE).
    apply NE. apply AGREE; assumption.
Qed.

(** On scalars (None, booleans, ints, floats, strings, bytes) the comparison does not depend on the depth (>= 1)
    and is symmetric -- in particular for an int and a float of the same value, which are equal without being of one
    type -- so for sequences of scalars the hypothesis of the lemma above holds. *)
Definition scalar (v : value) : bool :=
  match v with VTuple _ | VList _ | VDict _ => false | _ => true end.

Lemma flt_eqb_sym x y : flt_eqb x y = flt_eqb y x.
Proof. destruct x, y; simpl; try reflexivity; apply Z.eqb_sym. Qed.

Lemma str_eqb_sym' : forall x y : str, str_eqb x y = str_eqb y x.
Proof.
  induction x as [|c x IH]; destruct y as [|c' y]; simpl; try reflexivity.
  rewrite IH, N.eqb_sym. reflexivity.
Qed.

Lemma beqb_sym (x y : bool) : Bool.eqb x y = Bool.eqb y x.
Proof. destruct x, y; reflexivity. Qed.

Lemma scalar_comparisons_agree d d' o n r :
  scalar o = true -> scalar n = true ->
  veq_d (S d) o n = Some r -> veq_d (S d') o n = Some r /\ veq_d (S d') n o = Some r.
Proof.
  intros SO SN H. unfold veq_d in *. destruct o, n; simpl in *; try discriminate; inversion H; subst; split; try reflexivity;
    f_equal; auto using Z.eqb_sym, flt_eqb_sym, str_eqb_sym', beqb_sym.
Qed.

Lemma scalars_carry_sides_lemma rs d a b ca ea cb eb edits :
  sliceable a = Some (ca, ea) -> sliceable b = Some (cb, eb) ->
  diff_depth rs (S d) a b = Ok (Some (DSlice a b edits)) ->
  exhausted value (veq_d depth1000) rs ea eb = Ok false ->
  forallb scalar ea = true -> forallb scalar eb = true ->
  forall ds, In (SRepl ds) edits -> ~ In None ds.
Proof.
  intros SA SB D X FA FB. apply (seq_replacements_carry_sides_lemma rs d a b ca ea cb eb edits SA SB D X).
  intros o n IO IN V. rewrite forallb_forall in FA, FB.
  destruct d as [|d0]; [discriminate|].
  change depth1000 with (S (Nat.pred depth1000)).
  destruct (scalar_comparisons_agree d0 (Nat.pred depth1000) o n true (FA o IO) (FB n IN) V) as [A1 A2].
  destruct (zlen value ea >=? zlen value eb); assumption.
Qed.
