(** C16: the rebuild reason of diffEnv names exactly the listed environment keys that differ. *)
From Dawn Require Import Diff.Model Diff.Spec Diff.Proofs_Basic Diff.Proofs_Value.
From Coq Require Import Lia.
Open Scope Z_scope.

Fixpoint all_masks (n : nat) : list (list bool) :=
  match n with
  | O => [[]]
  | S k => map (cons true) (all_masks k) ++ map (cons false) (all_masks k)
  end.

Lemma in_all_masks : forall l, In l (all_masks (length l)).
Proof.
  induction l as [|x l IH]; simpl; [auto|].
  apply in_or_app. destruct x; [left | right]; apply in_map; exact IH.
Qed.

Fixpoint select {X} (mask : list bool) (xs : list X) : list X :=
  match mask, xs with
  | true :: mask', x :: xs' => x :: select mask' xs'
  | false :: mask', _ :: xs' => select mask' xs'
  | _, _ => []
  end.

Lemma filter_select {X} (f : X -> bool) : forall xs, filter f xs = select (map f xs) xs.
Proof. induction xs as [|x xs IH]; simpl; [reflexivity|]. destruct (f x); rewrite IH; reflexivity. Qed.

Fixpoint bools_eqb (a b : list bool) : bool :=
  match a, b with
  | [], [] => true
  | x :: a', y :: b' => Bool.eqb x y && bools_eqb a' b'
  | _, _ => false
  end.

Lemma bools_eqb_eq : forall a b, bools_eqb a b = true -> a = b.
Proof.
  induction a as [|x a IH]; destruct b as [|y b]; simpl; try discriminate; [reflexivity|].
  intros H. apply andb_true_iff in H as [H1 H2]. apply eqb_prop in H1. subst. f_equal. auto.
Qed.

(** the finite sweep: all 2^9 subsets of functionEnvKeys *)
Definition reason_sweep : bool :=
  forallb (fun mask =>
             bools_eqb (map (fun k => is_substr k (reason (select mask function_env_keys))) function_env_keys) mask)
          (all_masks (length function_env_keys)).

Lemma reason_sweep_ok : reason_sweep = true.
Proof. vm_compute. reflexivity. Qed.

Lemma map_eq_in {X Y} (f g : X -> Y) : forall l, map f l = map g l -> forall x, In x l -> f x = g x.
Proof.
  induction l as [|y l IH]; intros H x IN; [contradiction|].
  simpl in H. inversion H. destruct IN as [->|IN]; auto.
Qed.

Lemma reason_mentions (f : str -> bool) k :
  In k function_env_keys -> is_substr k (reason (filter f function_env_keys)) = f k.
Proof.
  intros IN. rewrite filter_select.
  pose proof reason_sweep_ok as SW. unfold reason_sweep in SW. rewrite forallb_forall in SW.
  specialize (SW (map f function_env_keys)).
  assert (M : In (map f function_env_keys) (all_masks (length function_env_keys))).
  { pose proof (in_all_masks (map f function_env_keys)) as Q. rewrite map_length in Q. exact Q. }
  apply SW in M. apply bools_eqb_eq in M.
  exact (map_eq_in _ _ _ M k IN).
Qed.

Lemma key_eq_str k v : key_eq (VStr k) v = true <-> v = VStr k.
Proof.
  unfold key_eq, compare_limit. simpl. destruct v; simpl; try (split; [discriminate | intros H; discriminate]).
  destruct (str_eqb_spec k s) as [->|NE]; simpl.
  - split; reflexivity.
  - split; [discriminate | intros H; inversion H; congruence].
Qed.

Lemma has_edit_iff edits k : has_edit edits k = true <-> exists e, In (VStr k, e) edits.
Proof.
  unfold has_edit. rewrite existsb_exists. split.
  - intros ([k' e] & IN & KE). simpl in KE. apply key_eq_str in KE. subst. eauto.
  - intros (e & IN). exists (VStr k, e). split; [exact IN|]. simpl. apply key_eq_str. reflexivity.
Qed.

Lemma get_str_in k : forall kvs v,
  NoDup (map fst kvs) -> (dict_get (VStr k) kvs = Some v <-> In (VStr k, v) kvs).
Proof.
  unfold dict_get. induction kvs as [|[k' v'] kvs IH]; intros v ND.
  - simpl. split; [discriminate | contradiction].
  - simpl in ND. inversion ND as [|? ? NI ND']; subst. simpl.
    destruct (key_eq (VStr k) k') eqn:KE.
    + apply key_eq_str in KE. subst k'. split.
      * intros H; inversion H; subst. left. reflexivity.
      * intros [E|IN]; [inversion E; reflexivity|].
        exfalso. apply NI. apply (in_map fst) in IN. exact IN.
    + rewrite (IH v ND'). split; [auto|].
      intros [E|IN]; [|exact IN]. inversion E; subst.
      assert (key_eq (VStr k) (VStr k) = true) by (apply key_eq_str; reflexivity). congruence.
Qed.

Lemma get_str_none k kvs : NoDup (map fst kvs) -> dict_get (VStr k) kvs = None -> forall v, ~ In (VStr k, v) kvs.
Proof. intros ND G v IN. apply (get_str_in k kvs v ND) in IN. congruence. Qed.

Lemma depth1000_S : depth1000 = S (Nat.pred depth1000).
Proof. reflexivity. Qed.

(* the kernel must not unfold the 1000-deep literal while re-checking the proof below *)
#[local] Opaque depth1000.

Lemma reason_lemma ss rs old new d r :
  NoDup (map fst old) -> NoDup (map fst new) ->
  diff_depth rs depth1000 (VDict old) (VDict new) = Ok (Some d) ->
  diff_env ss rs (VDict old) (VDict new) = Ok (false, r) ->
  forall k, In k function_env_keys ->
    (is_substr k r = true <->
     env_differs (Nat.pred depth1000) (dict_get (VStr k) old) (dict_get (VStr k) new)).
Proof.
  intros NO NN DD D k IN. unfold diff_env in D.
  assert (VE : veq_d depth1000 (VDict old) (VDict new) = Some false).
  { rewrite depth1000_S in DD. apply diff_depth_some in DD as [V _]. rewrite <- depth1000_S in V. exact V. }
  rewrite VE in D.
  destruct ss; [|discriminate|].
  all: rewrite DD in D.
  all: destruct d as [| |o n edits]; try discriminate.
  all: inversion D; subst r; clear D.
  all: rewrite depth1000_S in DD.
  all: apply mapping_edits_exact_lemma in DD as (edits' & E & SOUND & (C1 & C2 & C3)).
  all: inversion E; subst o n edits'; clear E.
  all: unfold reasons_of; rewrite reason_mentions by exact IN; rewrite has_edit_iff.
  all: split;
    [ intros (e & INE); destruct (SOUND _ _ INE) as [(ov & I1 & I2 & _)|[(ov & nv & df & I1 & I2 & I3 & _)|(nv & I1 & I2 & _)]];
      [ apply (get_str_in k old ov NO) in I1; rewrite I1, I2; exact I
      | apply (get_str_in k old ov NO) in I1; rewrite I1, I2; exact I3
      | apply (get_str_in k new nv NN) in I1; rewrite I1, I2; exact I ]
    | intros DF; destruct (dict_get (VStr k) old) as [ov|] eqn:GO; destruct (dict_get (VStr k) new) as [nv|] eqn:GN; simpl in DF;
      [ apply (get_str_in k old ov NO) in GO; destruct (C2 _ _ _ GO GN DF) as (df & I1 & _); eauto
      | apply (get_str_in k old ov NO) in GO; eauto
      | apply (get_str_in k new nv NN) in GN; eauto
      | contradiction ] ].
Qed.

(** the generic reason names no key *)
Lemma generic_reason_lemma : forallb (fun k => negb (is_substr k s_environment_changed)) function_env_keys = true.
Proof. vm_compute. reflexivity. Qed.
