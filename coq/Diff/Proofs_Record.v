(** C16, first layer: any valid path makes recordSeq + extend + the replace merge produce a faithful script,
    for both orientations of the swap. *)
From Dawn Require Import Diff.Model Diff.Spec Diff.Proofs_Basic.
From Coq Require Import Lia.
Open Scope Z_scope.

Section ListFacts.
  Variable A : Type.

  Lemma zlen_nonneg (l : list A) : 0 <= zlen A l.
  Proof. unfold zlen; lia. Qed.

  Lemma zlen_app (l1 l2 : list A) : zlen A (l1 ++ l2) = zlen A l1 + zlen A l2.
  Proof. unfold zlen. rewrite app_length. lia. Qed.

  Lemma zlen_cons (x : A) l : zlen A (x :: l) = zlen A l + 1.
  Proof. unfold zlen. simpl length. lia. Qed.

  Lemma znth_some (l : list A) i : 0 <= i < zlen A l -> exists x, znth A l i = Some x.
  Proof.
    intros H. unfold znth. destruct (i <? 0) eqn:E; [lia|].
    destruct (nth_error l (Z.to_nat i)) eqn:N; eauto.
    apply nth_error_None in N. unfold zlen in H. lia.
  Qed.

  Lemma znth_bound (l : list A) i x : znth A l i = Some x -> 0 <= i < zlen A l.
  Proof.
    unfold znth. destruct (i <? 0) eqn:E; [discriminate|]. intros N.
    assert (Z.to_nat i < length l)%nat by (apply nth_error_Some; congruence).
    unfold zlen. lia.
  Qed.

  Lemma firstn_skipn_snoc (l : list A) s k x :
    nth_error l (s + k) = Some x -> firstn (S k) (skipn s l) = firstn k (skipn s l) ++ [x].
  Proof.
    revert l. induction s as [|s IH]; intros l H.
    - simpl in H. rewrite skipn_O. revert l H. induction k as [|k IHk]; intros l H.
      + destruct l; simpl in *; [discriminate|]. inversion H; reflexivity.
      + destruct l as [|y l]; [discriminate|]. simpl in H.
        change (firstn (S (S k)) (y :: l)) with (y :: firstn (S k) l).
        rewrite (IHk _ H). reflexivity.
    - destruct l as [|y l]; [destruct k; discriminate|]. simpl in H. simpl skipn. apply IH. exact H.
  Qed.

  Lemma zslice_one (l : list A) i x : znth A l i = Some x -> zslice A l i (i + 1) = Ok [x].
  Proof.
    intros H. pose proof (znth_bound _ _ _ H) as B. unfold zslice.
    replace ((0 <=? i) && (i <=? i + 1) && (i + 1 <=? zlen A l)) with true
      by (symmetry; rewrite !andb_true_iff, !Z.leb_le; lia).
    replace (Z.to_nat (i + 1 - i)) with 1%nat by lia.
    unfold znth in H. destruct (i <? 0); [discriminate|].
    pose proof (firstn_skipn_snoc l (Z.to_nat i) 0 x) as F.
    rewrite Nat.add_0_r in F. rewrite (F H). reflexivity.
  Qed.

  Lemma zslice_snoc (l : list A) s e vs x :
    zslice A l s e = Ok vs -> znth A l e = Some x -> zslice A l s (e + 1) = Ok (vs ++ [x]).
  Proof.
    intros H N. pose proof (znth_bound _ _ _ N) as B. unfold zslice in *.
    destruct ((0 <=? s) && (s <=? e) && (e <=? zlen A l)) eqn:C; [|discriminate].
    rewrite !andb_true_iff, !Z.leb_le in C.
    replace ((0 <=? s) && (s <=? e + 1) && (e + 1 <=? zlen A l)) with true
      by (symmetry; rewrite !andb_true_iff, !Z.leb_le; lia).
    inversion H; subst vs; clear H.
    replace (Z.to_nat (e + 1 - s)) with (S (Z.to_nat (e - s))) by lia.
    unfold znth in N. destruct (e <? 0); [discriminate|].
    rewrite (firstn_skipn_snoc l (Z.to_nat s) (Z.to_nat (e - s)) x); [reflexivity|].
    replace (Z.to_nat s + Z.to_nat (e - s))%nat with (Z.to_nat e) by lia. exact N.
  Qed.

  Lemma zslice_len (l : list A) s e vs : zslice A l s e = Ok vs -> zlen A vs = e - s.
  Proof.
    unfold zslice. destruct ((0 <=? s) && (s <=? e) && (e <=? zlen A l)) eqn:C; [|discriminate].
    rewrite !andb_true_iff, !Z.leb_le in C. intros H; inversion H; subst.
    unfold zlen in *. rewrite firstn_length, skipn_length. lia.
  Qed.

  Lemma zslice_split (l : list A) k u v :
    zslice A l 0 k = Ok u -> zslice A l k (zlen A l) = Ok v -> u ++ v = l.
  Proof.
    unfold zslice.
    destruct ((0 <=? 0) && (0 <=? k) && (k <=? zlen A l)) eqn:C1; [|discriminate].
    destruct ((0 <=? k) && (k <=? zlen A l) && (zlen A l <=? zlen A l)) eqn:C2; [|discriminate].
    rewrite !andb_true_iff, !Z.leb_le in C1.
    intros H1 H2; inversion H1; inversion H2; subst; clear H1 H2.
    change (Z.to_nat 0) with 0%nat. simpl skipn.
    replace (k - 0) with k by lia.
    rewrite (firstn_all2 (n := Z.to_nat (zlen A l - k))).
    - apply firstn_skipn.
    - rewrite skipn_length. unfold zlen. lia.
  Qed.

  Lemma firstn_snoc_znth (l : list A) p x :
    znth A l p = Some x -> firstn (Z.to_nat (p + 1)) l = firstn (Z.to_nat p) l ++ [x].
  Proof.
    intros N. pose proof (znth_bound _ _ _ N) as B.
    unfold znth in N. destruct (p <? 0); [discriminate|].
    replace (Z.to_nat (p + 1)) with (S (Z.to_nat p)) by lia.
    pose proof (firstn_skipn_snoc l 0 (Z.to_nat p) x) as F. rewrite skipn_O in F. apply F. exact N.
  Qed.

  Lemma firstn_zlen (l : list A) : firstn (Z.to_nat (zlen A l)) l = l.
  Proof. unfold zlen. rewrite Nat2Z.id. apply firstn_all. Qed.
End ListFacts.

Section Record.
  Variable A : Type.
  Variable eqv : A -> A -> option bool.

  Notation zlen := (zlen A).
  Notation znth := (znth A).
  Notation equiv := (equiv A eqv).

  (** [a], [b]: the walker's two sequences (after the swap of diffSlice, if any); [reverse]: its flag.
      No relation between the lengths is assumed. *)
  Definition src (a b : list A) (reverse : bool) (k : rkind) : list A :=
    match k with
    | RDelete => if reverse then b else a
    | RCommon => if reverse then b else a
    | RAdd => if reverse then a else b
    end.

  Definition sel_old (k : rkind) : bool := match k with RAdd => false | _ => true end.
  Definition sel_new (k : rkind) : bool := match k with RDelete => false | _ => true end.

  (** projection of the internal edits (latest first) *)
  Definition proj (sel : rkind -> bool) (es : list (redit A)) : list A :=
    flat_map (fun e => if sel (rk A e) then rvals A e else []) (rev es).

  Definition head_wf (a b : list A) (reverse : bool) (es : list (redit A)) : Prop :=
    match es with
    | [] => True
    | e :: _ => zslice A (src a b reverse (rk A e)) (rstart A e) (rstart A e + zlen (rvals A e)) = Ok (rvals A e)
    end.

  Definition inv (a b : list A) (reverse : bool) (s : rstate A) : Prop :=
    0 <= px A s <= zlen a /\ 0 <= py A s <= zlen b /\
    head_wf a b reverse (redits A s) /\
    proj sel_old (redits A s) = firstn (Z.to_nat (if reverse then py A s else px A s)) (if reverse then b else a) /\
    Forall2 equiv (proj sel_new (redits A s))
            (firstn (Z.to_nat (if reverse then px A s else py A s)) (if reverse then a else b)).

  Lemma rkind_eqb_eq k1 k2 : rkind_eqb k1 k2 = true -> k1 = k2.
  Proof. destruct k1, k2; simpl; congruence. Qed.

  Lemma extend_ok a b reverse kind loc es es' x :
    head_wf a b reverse es ->
    znth (src a b reverse kind) loc = Some x ->
    extend A kind (src a b reverse kind) loc es = Ok es' ->
    head_wf a b reverse es' /\
    forall sel, proj sel es' = proj sel es ++ (if sel kind then [x] else []).
  Proof.
    intros W N E. unfold extend in E.
    assert (FRESH : (vs <- zslice A (src a b reverse kind) loc (loc + 1) ;; Ok (mkRedit A kind loc vs :: es)) = Ok es' ->
                    head_wf a b reverse es' /\
                    forall sel, proj sel es' = proj sel es ++ (if sel kind then [x] else [])).
    { rewrite (zslice_one _ _ _ _ N). simpl. intros H; inversion H; subst es'; clear H. split.
      - simpl. unfold Model.zlen. simpl length. change (Z.of_nat 1) with 1. apply zslice_one. exact N.
      - intros sel. unfold proj. simpl rev. rewrite flat_map_app. simpl. rewrite app_nil_r. reflexivity. }
    destruct es as [|last rest]; [exact (FRESH E)|].
    destruct (rkind_eqb (rk A last) kind && (rstart A last + zlen (rvals A last) =? loc)) eqn:C; [|exact (FRESH E)].
    clear FRESH. apply andb_true_iff in C as [C1 C2]. apply rkind_eqb_eq in C1. apply Z.eqb_eq in C2.
    simpl in W. rewrite C1 in W. rewrite C2 in W.
    rewrite (zslice_snoc _ _ _ _ _ _ W N) in E. simpl in E. inversion E; subst es'; clear E. split.
    - simpl. rewrite zlen_app. unfold Model.zlen at 2. simpl length. change (Z.of_nat 1) with 1.
      rewrite Z.add_assoc, C2. apply zslice_snoc; assumption.
    - intros sel. unfold proj. simpl rev. rewrite !flat_map_app. simpl. rewrite !app_nil_r, C1.
      destruct (sel kind); [rewrite app_assoc; reflexivity | rewrite !app_nil_r; reflexivity].
  Qed.

  Lemma Forall2_snoc {X Y} (R : X -> Y -> Prop) l1 l2 x y :
    Forall2 R l1 l2 -> R x y -> Forall2 R (l1 ++ [x]) (l2 ++ [y]).
  Proof. intros H1 H2. apply Forall2_app; auto. Qed.

  (** one step of the walker preserves the invariant *)
  Lemma inv_step a b reverse s kind loc x es' px' py' :
    inv a b reverse s ->
    znth (src a b reverse kind) loc = Some x ->
    extend A kind (src a b reverse kind) loc (redits A s) = Ok es' ->
    0 <= px' <= zlen a -> 0 <= py' <= zlen b ->
    (if sel_old kind
     then firstn (Z.to_nat (if reverse then py' else px')) (if reverse then b else a) =
          firstn (Z.to_nat (if reverse then py A s else px A s)) (if reverse then b else a) ++ [x]
     else (if reverse then py' else px') = (if reverse then py A s else px A s)) ->
    (if sel_new kind
     then exists y, firstn (Z.to_nat (if reverse then px' else py')) (if reverse then a else b) =
                    firstn (Z.to_nat (if reverse then px A s else py A s)) (if reverse then a else b) ++ [y] /\
                    equiv x y
     else (if reverse then px' else py') = (if reverse then px A s else py A s)) ->
    inv a b reverse (mkR A px' py' es').
  Proof.
    intros (I1 & I2 & I3 & I4 & I5) N E B1 B2 HO HN.
    destruct (extend_ok _ _ _ _ _ _ _ _ I3 N E) as [W P].
    unfold inv; simpl. repeat split; try lia; try assumption.
    - rewrite (P sel_old). destruct (sel_old kind).
      + rewrite HO, I4. reflexivity.
      + rewrite HO, app_nil_r. exact I4.
    - rewrite (P sel_new). destruct (sel_new kind).
      + destruct HN as (y & HN & EQ). rewrite HN. apply Forall2_snoc; assumption.
      + rewrite HN, app_nil_r. exact I5.
  Qed.

  (** what remains to be walked to reach the target (tx, ty) *)
  Definition diag_prop (a b : list A) (lo hi k : Z) : Prop :=
    forall i, lo <= i < hi -> exists u v, znth a i = Some u /\ znth b (i + k) = Some v /\ eqv u v = Some true.

  Definition rem_ok (a b : list A) (s : rstate A) (tx ty : Z) : Prop :=
    px A s <= tx /\ py A s <= ty /\ tx <= zlen a /\ ty <= zlen b /\
    diag_prop a b (tx - Z.min (tx - px A s) (ty - py A s)) tx (ty - tx).

  Lemma walk_ok a b reverse tx ty : forall fuel s s',
    inv a b reverse s -> rem_ok a b s tx ty -> walk A fuel a b reverse tx ty s = Ok s' ->
    inv a b reverse s' /\ px A s' = tx /\ py A s' = ty.
  Proof.
    induction fuel as [|fuel IH]; intros s s' I R W.
    - simpl in W. destruct R as (R1 & R2 & _).
      destruct ((px A s <? tx) || (py A s <? ty)) eqn:G; [discriminate|].
      apply orb_false_iff in G as [G1 G2]. apply Z.ltb_ge in G1, G2.
      inversion W; subst. repeat split; try apply I; lia.
    - simpl in W. destruct R as (R1 & R2 & R3 & R4 & R5).
      destruct ((px A s <? tx) || (py A s <? ty)) eqn:G.
      2:{ apply orb_false_iff in G as [G1 G2]. apply Z.ltb_ge in G1, G2.
          inversion W; subst. repeat split; try apply I; lia. }
      pose proof I as (I1 & I2 & _).
      destruct (ty - tx >? py A s - px A s) eqn:C1.
      + (* step along b *)
        apply Z.gtb_lt in C1.
        destruct (znth_some A b (py A s)) as [x N]; [lia|].
        apply bind_ok in W as (es & E & W).
        apply IH in W; [exact W| |].
        * destruct reverse.
          -- apply (inv_step a b true s RDelete (py A s) x); simpl; try assumption; try lia.
             apply firstn_snoc_znth; exact N.
          -- apply (inv_step a b false s RAdd (py A s) x); simpl; try assumption; try lia.
             exists x. split; [apply firstn_snoc_znth; exact N | left; reflexivity].
        * unfold rem_ok; simpl. repeat split; try lia.
          replace (Z.min (tx - px A s) (ty - (py A s + 1))) with (Z.min (tx - px A s) (ty - py A s)) by lia.
          exact R5.
      + rewrite Z.gtb_ltb in C1. rewrite Z.ltb_ge in C1.
        destruct (ty - tx <? py A s - px A s) eqn:C2.
        * (* step along a *)
          apply Z.ltb_lt in C2.
          destruct (znth_some A a (px A s)) as [x N]; [lia|].
          apply bind_ok in W as (es & E & W).
          apply IH in W; [exact W| |].
          -- destruct reverse.
             ++ apply (inv_step a b true s RAdd (px A s) x); simpl; try assumption; try lia.
                exists x. split; [apply firstn_snoc_znth; exact N | left; reflexivity].
             ++ apply (inv_step a b false s RDelete (px A s) x); simpl; try assumption; try lia.
                apply firstn_snoc_znth; exact N.
          -- unfold rem_ok; simpl. repeat split; try lia.
             replace (Z.min (tx - (px A s + 1)) (ty - py A s)) with (Z.min (tx - px A s) (ty - py A s)) by lia.
             exact R5.
        * (* diagonal step *)
          apply Z.ltb_ge in C2.
          assert (D : ty - tx = py A s - px A s) by lia.
          assert (PX : px A s < tx).
          { apply orb_true_iff in G as [G|G]; apply Z.ltb_lt in G; lia. }
          destruct (R5 (px A s)) as (u & v & Nu & Nv & EQ); [lia|].
          replace (px A s + (ty - tx)) with (py A s) in Nv by lia.
          apply bind_ok in W as (es & E & W).
          apply IH in W; [exact W| |].
          -- destruct reverse.
             ++ apply (inv_step a b true s RCommon (py A s) v); simpl; try assumption; try lia.
                ** apply firstn_snoc_znth; exact Nv.
                ** exists u. split; [apply firstn_snoc_znth; exact Nu | right; right; exact EQ].
             ++ apply (inv_step a b false s RCommon (px A s) u); simpl; try assumption; try lia.
                ** apply firstn_snoc_znth; exact Nu.
                ** exists v. split; [apply firstn_snoc_znth; exact Nv | right; left; exact EQ].
          -- unfold rem_ok; simpl. repeat split; try lia.
             intros i Hi. apply R5. lia.
  Qed.
End Record.

Section Record2.
  Variable A : Type.
  Variable eqv : A -> A -> option bool.

  Notation zlen := (zlen A).
  Notation znth := (znth A).

  Lemma diag_okb_prop a b : forall cnt lo k,
    diag_okb A eqv a b lo k cnt = true -> diag_prop A eqv a b lo (lo + Z.of_nat cnt) k.
  Proof.
    induction cnt as [|cnt IH]; intros lo k H i Hi; [lia|].
    simpl in H. destruct (znth a lo) as [u|] eqn:Nu; [|discriminate].
    destruct (znth b (lo + k)) as [v|] eqn:Nv; [|discriminate].
    apply andb_true_iff in H as [E H].
    destruct (Z.eq_dec i lo) as [->|NE].
    - exists u, v. repeat split; auto. unfold eqvb in E. destruct (eqv u v) as [[|]|]; congruence.
    - apply (IH (lo + 1) k H). lia.
  Qed.

  Lemma record_pts_ok a b reverse : forall pts s s',
    inv A eqv a b reverse s ->
    valid_from A eqv a b (px A s) (py A s) pts = true ->
    record_pts A a b reverse pts s = Ok s' ->
    inv A eqv a b reverse s' /\ px A s' = zlen a /\ py A s' = zlen b.
  Proof.
    induction pts as [|[x y] pts IH]; intros s s' I V R.
    - simpl in *. inversion R; subst. apply andb_true_iff in V as [V1 V2].
      apply Z.eqb_eq in V1, V2. auto.
    - simpl in V, R. rewrite !andb_true_iff in V. destruct V as (((((V1 & V2) & V3) & V4) & V5) & V6).
      apply Z.leb_le in V1, V2, V3, V4.
      apply bind_ok in R as (s1 & W & R).
      apply walk_ok with (eqv := eqv) in W; [|exact I|].
      + destruct W as (I1 & PX & PY). apply (IH s1 s' I1); [rewrite PX, PY; exact V6 | exact R].
      + unfold rem_ok. repeat split; try lia.
        apply diag_okb_prop in V5.
        replace (x - Z.min (x - px A s) (y - py A s) + Z.of_nat (Z.to_nat (Z.min (x - px A s) (y - py A s)))) with x in V5 by lia.
        exact V5.
  Qed.

  Definition fproj (sel : rkind -> bool) (raw : list (redit A)) : list A :=
    flat_map (fun e => if sel (rk A e) then rvals A e else []) raw.

  Definition acc_wf (acc : list (edit A)) : Prop :=
    Forall (fun e => ek e = KDelete -> enew e = []) acc.

  Lemma mk_edit_old e : eold (mk_edit A e) = if sel_old (rk A e) then rvals A e else [].
  Proof. unfold mk_edit. destruct (rk A e); reflexivity. Qed.

  Lemma mk_edit_new e : enew (mk_edit A e) = if sel_new (rk A e) then rvals A e else [].
  Proof. unfold mk_edit. destruct (rk A e); reflexivity. Qed.

  Lemma mk_edit_wf e : ek (mk_edit A e) = KDelete -> enew (mk_edit A e) = [].
  Proof. unfold mk_edit. destruct (rk A e); simpl; congruence. Qed.

  (** the replace merge moves elements between edits but never changes either projection *)
  Lemma merge_ok : forall raw acc script,
    acc_wf acc -> merge A raw acc = Ok script ->
    flat_map eold script = flat_map eold (rev acc) ++ fproj sel_old raw /\
    flat_map enew script = flat_map enew (rev acc) ++ fproj sel_new raw.
  Proof.
    induction raw as [|e raw IH]; intros acc script WF M.
    - simpl in M. inversion M; subst. unfold fproj; simpl. rewrite !app_nil_r. auto.
    - simpl in M.
      assert (PUSH : merge A raw (mk_edit A e :: acc) = Ok script ->
                     flat_map eold script = flat_map eold (rev acc) ++ fproj sel_old (e :: raw) /\
                     flat_map enew script = flat_map enew (rev acc) ++ fproj sel_new (e :: raw)).
      { intros M'. apply IH in M'.
        - destruct M' as [M1 M2]. rewrite M1, M2. simpl rev. rewrite !flat_map_app. simpl.
          rewrite !app_nil_r, mk_edit_old, mk_edit_new, <- !app_assoc. unfold fproj. simpl. auto.
        - constructor; [apply mk_edit_wf | exact WF]. }
      destruct acc as [|tail acc']; [exact (PUSH M)|].
      destruct (is_add A e && is_delete A tail) eqn:C; [|exact (PUSH M)].
      clear PUSH. apply andb_true_iff in C as [C1 C2].
      unfold is_add in C1. unfold is_delete in C2.
      destruct (rk A e) eqn:RK; try discriminate.
      destruct (ek tail) eqn:EK; try discriminate.
      inversion WF as [|? ? WT WF']; subst. specialize (WT EK).
      assert (HO : fproj sel_old (e :: raw) = fproj sel_old raw) by (unfold fproj; simpl; rewrite RK; reflexivity).
      assert (HN : fproj sel_new (e :: raw) = rvals A e ++ fproj sel_new raw) by (unfold fproj; simpl; rewrite RK; reflexivity).
      rewrite HO, HN. simpl rev. rewrite !flat_map_app. simpl. rewrite !app_nil_r, WT, app_nil_r.
      destruct (zlen (eold tail) <? zlen (rvals A e)) eqn:L1.
      + apply bind_ok in M as (new0 & S1 & M). apply bind_ok in M as (rest & S2 & M).
        apply IH in M.
        * destruct M as [M1 M2]. rewrite M1, M2. simpl rev. rewrite !flat_map_app. simpl.
          rewrite !app_nil_r. rewrite <- (zslice_split _ _ _ _ _ S1 S2).
          rewrite <- !app_assoc. auto.
        * repeat (constructor; [simpl; intros; try reflexivity; congruence|]); exact WF'.
      + destruct (zlen (eold tail) >? zlen (rvals A e)) eqn:L2.
        * apply bind_ok in M as (old0 & S1 & M). apply bind_ok in M as (rest & S2 & M).
          apply IH in M.
          -- destruct M as [M1 M2]. rewrite M1, M2. simpl rev. rewrite !flat_map_app. simpl.
             rewrite !app_nil_r. rewrite <- (zslice_split _ _ _ _ _ S1 S2).
             rewrite <- !app_assoc. auto.
          -- repeat (constructor; [simpl; intros; try reflexivity; congruence|]); exact WF'.
        * apply IH in M.
          -- destruct M as [M1 M2]. rewrite M1, M2. simpl rev. rewrite !flat_map_app. simpl.
             rewrite !app_nil_r. rewrite <- !app_assoc. auto.
          -- repeat (constructor; [simpl; intros; try reflexivity; congruence|]); exact WF'.
  Qed.

  (** record_faithful: ANY valid path, in either orientation of the swap, yields a faithful script. *)
  Lemma record_faithful_lemma a' b' reverse pts s script :
    valid_path A eqv a' b' pts = true ->
    record_pts A a' b' reverse pts (mkR A 0 0 []) = Ok s ->
    merge A (rev (redits A s)) [] = Ok script ->
    faithful A eqv (if reverse then b' else a') (if reverse then a' else b') script.
  Proof.
    intros V R M.
    apply record_pts_ok in R.
    - destruct R as ((_ & _ & _ & I4 & I5) & PX & PY).
      apply merge_ok in M; [|constructor]. destruct M as [M1 M2]. simpl in M1, M2.
      unfold faithful, old_proj, new_proj. rewrite M1, M2. unfold proj in I4, I5. unfold fproj.
      split.
      + rewrite I4. destruct reverse; [rewrite PY | rewrite PX]; apply firstn_zlen.
      + destruct reverse; [rewrite PX in I5 | rewrite PY in I5]; rewrite firstn_zlen in I5; exact I5.
    - unfold inv; simpl. pose proof (zlen_nonneg A a'). pose proof (zlen_nonneg A b').
      repeat split; try lia; destruct reverse; simpl; try reflexivity; constructor.
    - exact V.
  Qed.
End Record2.
