(** Specification vocabulary for the size of an edit script (definitions only). *)
From Dawn Require Import Diff.Model.

(** elements deleted + elements inserted by one reported edit (a replacement deletes its old side and
    inserts its new side) *)
Definition edit_cost {A} (e : edit A) : nat :=
  match ek e with KCommon => 0%nat | _ => (length (eold e) + length (enew e))%nat end.

(** elements kept by one reported edit *)
Definition edit_kept {A} (e : edit A) : nat :=
  match ek e with KCommon => length (eold e) | _ => 0%nat end.

Definition script_cost {A} (es : list (edit A)) : nat := list_sum (map edit_cost es).
Definition script_kept {A} (es : list (edit A)) : nat := list_sum (map edit_kept es).
