(** C16 at the level of Starlark values: DiffDepth on sequences and mappings. *)
From Dawn Require Import Diff.Model Diff.Spec Diff.Proofs_Basic Diff.Proofs_Record Diff.Proofs_Search Diff.Proofs_Seq
     Diff.Proofs_Rounds.
From Coq Require Import Lia.
Open Scope Z_scope.

Section Shape.
  Variable A : Type.

  Lemma mk_edit_shape (e : redit A) : edit_shape (mk_edit A e).
  Proof. unfold edit_shape, mk_edit. destruct (rk A e); reflexivity. Qed.

  Lemma zlen_inj (l1 l2 : list A) : zlen A l1 = zlen A l2 -> length l1 = length l2.
  Proof. unfold zlen. lia. Qed.

  Lemma merge_shape : forall raw acc script,
    Forall edit_shape acc -> merge A raw acc = Ok script -> Forall edit_shape script.
  Proof.
    induction raw as [|e raw IH]; intros acc script SH M.
    - simpl in M. inversion M; subst. apply Forall_rev. exact SH.
    - simpl in M.
      assert (PUSH : merge A raw (mk_edit A e :: acc) = Ok script -> Forall edit_shape script).
      { intros M'. eapply IH; [|exact M']. constructor; [apply mk_edit_shape | exact SH]. }
      destruct acc as [|tail acc']; [exact (PUSH M)|].
      destruct (is_add A e && is_delete A tail); [|exact (PUSH M)]. clear PUSH.
      inversion SH as [|? ? _ SH']; subst.
      destruct (zlen A (eold tail) <? zlen A (rvals A e)) eqn:L1.
      + apply bind_ok in M as (new0 & S1 & M). apply bind_ok in M as (rest & S2 & M).
        eapply IH; [|exact M]. constructor; [reflexivity|]. constructor; [|exact SH'].
        unfold edit_shape; simpl. apply zslice_len in S1. apply zlen_inj. lia.
      + destruct (zlen A (eold tail) >? zlen A (rvals A e)) eqn:L2.
        * apply bind_ok in M as (old0 & S1 & M). apply bind_ok in M as (rest & S2 & M).
          eapply IH; [|exact M]. constructor; [reflexivity|]. constructor; [|exact SH'].
          unfold edit_shape; simpl. apply zslice_len in S1. apply zlen_inj. lia.
        * eapply IH; [|exact M]. constructor; [|exact SH'].
          unfold edit_shape; simpl. apply zlen_inj.
          apply Z.ltb_ge in L1. rewrite Z.gtb_ltb in L2. apply Z.ltb_ge in L2. lia.
  Qed.

  Lemma diff_slice_shape eqv rs a b script :
    diff_slice A eqv rs a b = Ok script -> Forall edit_shape script.
  Proof.
    unfold diff_slice. intros D. apply bind_ok in D as (raw & _ & M).
    eapply merge_shape; [|exact M]. constructor.
  Qed.
End Shape.

Lemma diff_depth_some rs d o n df :
  diff_depth rs d o n = Ok (Some df) -> veq_d d o n = Some false /\ dold df = o /\ dnew df = n.
Proof.
  intros H. split; [|apply (diff_depth_sides _ _ _ _ _ H)].
  destruct d as [|d]; [discriminate|]. simpl in H.
  destruct (veq_d (S d) o n) as [[|]|]; try discriminate. reflexivity.
Qed.

Lemma diff_depth_shows rs d o n r : diff_depth rs d o n = Ok r -> entry_shows d o n r.
Proof.
  intros H. destruct r as [df|]; simpl.
  - apply (diff_depth_sides _ _ _ _ _ H).
  - apply diff_depth_empty_iff in H. exact H.
Qed.

Lemma map2o_shows rs d : forall os ns ds,
  map2o (diff_depth rs d) os ns = Ok ds -> shows_all d os ns ds.
Proof.
  induction os as [|o os IH]; intros ns ds H.
  - simpl in H. inversion H. destruct ns; exact I.
  - destruct ns as [|n ns]; [simpl in H; inversion H; exact I|].
    simpl in H. apply bind_ok in H as (x & DX & H). apply bind_ok in H as (r & DR & H).
    inversion H; subst ds. simpl. split; [eapply diff_depth_shows; eauto | apply IH; exact DR].
Qed.

Lemma render_ok rs d ca cb : forall script edits,
  mapo (render_edit (diff_depth rs d) ca cb) script = Ok edits ->
  Forall2 (rendered d ca cb) script edits.
Proof.
  induction script as [|e script IH]; intros edits H.
  - simpl in H. inversion H. constructor.
  - simpl in H. apply bind_ok in H as (se & RE & H). apply bind_ok in H as (r & RR & H).
    inversion H; subst edits. constructor; [|apply IH; exact RR].
    destruct e as [k os ns]. unfold render_edit in RE. simpl in RE. destruct k.
    + inversion RE. constructor.
    + inversion RE. constructor.
    + inversion RE. constructor.
    + destruct (stringlike ca && stringlike cb) eqn:SL.
      * inversion RE. apply R_replace_str. exact SL.
      * apply bind_ok in RE as (ds & M & RE). inversion RE. apply R_replace; [exact SL|].
        eapply map2o_shows; eauto.
Qed.

(** seq_edits_faithful at the value level *)
Lemma seq_edits_faithful_lemma rs d a b ca ea cb eb df :
  sliceable a = Some (ca, ea) -> sliceable b = Some (cb, eb) ->
  diff_depth rs (S d) a b = Ok (Some df) ->
  exhausted value (veq_d depth1000) rs ea eb = Ok false ->
  exists script edits,
    df = DSlice a b edits /\
    Forall2 (rendered d ca cb) script edits /\
    Forall edit_shape script /\
    faithful value (veq_d depth1000) ea eb script.
Proof.
  intros SA SB D X. simpl in D.
  destruct (veq_d (S d) a b) as [[|]|]; try discriminate.
  rewrite SA, SB in D.
  apply bind_ok in D as (script & DS & D). apply bind_ok in D as (edits & RE & D).
  inversion D; subst df. exists script, edits.
  split; [reflexivity|]. split; [eapply render_ok; eauto|].
  split; [eapply diff_slice_shape; eauto|].
  eapply diff_slice_faithful; eauto.
Qed.

Lemma seq_edits_faithful_bounded_lemma rs d a b ca ea cb eb df :
  sliceable a = Some (ca, ea) -> sliceable b = Some (cb, eb) ->
  diff_depth rs (S d) a b = Ok (Some df) ->
  (Z.of_nat (length ea) + 1) * (Z.of_nat (length eb) + 1) <= rs ->
  exists script edits,
    df = DSlice a b edits /\
    Forall2 (rendered d ca cb) script edits /\
    Forall edit_shape script /\
    faithful value (veq_d depth1000) ea eb script.
Proof.
  intros SA SB D RS. pose proof D as D0. simpl in D.
  destruct (veq_d (S d) a b) as [[|]|]; try discriminate.
  rewrite SA, SB in D.
  apply bind_ok in D as (script & DS & _).
  eapply seq_edits_faithful_lemma; eauto.
  eapply not_exhausted; eauto.
Qed.

Lemma seq_edits_faithful_all_lemma rs d a b ca ea cb eb df :
  sliceable a = Some (ca, ea) -> sliceable b = Some (cb, eb) ->
  diff_depth rs (S d) a b = Ok (Some df) ->
  exists script edits,
    df = DSlice a b edits /\
    Forall2 (rendered d ca cb) script edits /\
    Forall edit_shape script /\
    faithful value (veq_d depth1000) ea eb script.
Proof.
  intros SA SB D. simpl in D.
  destruct (veq_d (S d) a b) as [[|]|]; try discriminate.
  rewrite SA, SB in D.
  apply bind_ok in D as (script & DS & D). apply bind_ok in D as (edits & RE & D).
  inversion D; subst df. exists script, edits.
  split; [reflexivity|]. split; [eapply render_ok; eauto|].
  split; [eapply diff_slice_shape; eauto|].
  eapply diff_slice_faithful_all; eauto.
Qed.

(** *** mappings *)

Lemma map_old_spec rs d : forall old new r,
  map_old (diff_depth rs d) old new = Ok r ->
  (forall k e, In (k, e) r ->
     (exists ov, In (k, ov) old /\ dict_get k new = None /\ e = MDel ov) \/
     (exists ov nv df, In (k, ov) old /\ dict_get k new = Some nv /\ veq_d d ov nv = Some false /\
                       e = MRepl df /\ dold df = ov /\ dnew df = nv)) /\
  (forall k ov, In (k, ov) old -> dict_get k new = None -> In (k, MDel ov) r) /\
  (forall k ov nv, In (k, ov) old -> dict_get k new = Some nv -> veq_d d ov nv = Some false ->
                   exists df, In (k, MRepl df) r /\ dold df = ov /\ dnew df = nv).
Proof.
  induction old as [|[k0 ov0] old IH]; intros new r H.
  - simpl in H. inversion H; subst. repeat split; intros; try contradiction.
  - simpl in H. unfold dict_get in *.
    destruct (lookup key_eq k0 new) as [nv0|] eqn:LK.
    + apply bind_ok in H as (x & DX & H). apply bind_ok in H as (r' & R' & H).
      destruct (IH _ _ R') as (S1 & C1 & C2).
      assert (TAIL : (forall k e, In (k, e) r' -> In (k, e) r)).
      { destruct x; inversion H; subst; intros; simpl; auto. }
      split; [|split].
      * intros k e IN.
        assert (CASES : (exists df, x = Some df /\ (k, e) = (k0, MRepl df)) \/ In (k, e) r').
        { destruct x; inversion H; subst r; clear H.
          - destruct IN as [IN|IN]; [left; eexists; split; [reflexivity|symmetry; exact IN] | right; exact IN].
          - right. exact IN. }
        destruct CASES as [(df & -> & E)|IN'].
        -- inversion E; subst. right. destruct (diff_depth_some _ _ _ _ _ DX) as (V & O & N).
           exists ov0, nv0, df. repeat split; auto. left. reflexivity.
        -- destruct (S1 _ _ IN') as [(ov & I1 & I2 & I3)|(ov & nv & df & I1 & I2)].
           ++ left. exists ov. split; [right; exact I1|]. auto.
           ++ right. exists ov, nv, df. split; [right; exact I1|]. exact I2.
      * intros k ov IN G. destruct IN as [E|IN]; [inversion E; subst; congruence|].
        apply TAIL. eapply C1; eauto.
      * intros k ov nv IN G V. destruct IN as [E|IN].
        -- inversion E; subst. rewrite LK in G. inversion G; subst nv0.
           destruct x as [df|].
           ++ inversion H; subst r. destruct (diff_depth_some _ _ _ _ _ DX) as (_ & O & N).
              exists df. split; [left; reflexivity | auto].
           ++ apply diff_depth_empty_iff in DX. congruence.
        -- destruct (C2 _ _ _ IN G V) as (df & I1 & I2). exists df. split; [apply TAIL; exact I1 | exact I2].
    + apply bind_ok in H as (r' & R' & H). inversion H; subst r; clear H.
      destruct (IH _ _ R') as (S1 & C1 & C2).
      split; [|split].
      * intros k e [E|IN'].
        -- inversion E; subst. left. exists ov0. split; [left; reflexivity|]. auto.
        -- destruct (S1 _ _ IN') as [(ov & I1 & I2 & I3)|(ov & nv & df & I1 & I2)].
           ++ left. exists ov. split; [right; exact I1|]. auto.
           ++ right. exists ov, nv, df. split; [right; exact I1|]. exact I2.
      * intros k ov IN G. destruct IN as [E|IN]; [inversion E; subst; left; reflexivity|].
        right. eapply C1; eauto.
      * intros k ov nv IN G V. destruct IN as [E|IN]; [inversion E; subst; congruence|].
        destruct (C2 _ _ _ IN G V) as (df & I1 & I2). exists df. split; [right; exact I1 | exact I2].
Qed.

Lemma map_new_spec old : forall new k e,
  In (k, e) (map_new old new) <-> exists nv, In (k, nv) new /\ dict_get k old = None /\ e = MAdd nv.
Proof.
  induction new as [|[k0 nv0] new IH]; intros k e.
  - simpl. split; [contradiction | intros (? & [] & _)].
  - simpl. unfold dict_get in *. destruct (lookup key_eq k0 old) eqn:LK.
    + rewrite IH. split.
      * intros (nv & I1 & I2). exists nv. split; [right; exact I1 | exact I2].
      * intros (nv & [E|I1] & I2 & I3).
        -- inversion E; subst. congruence.
        -- exists nv. auto.
    + simpl. rewrite IH. split.
      * intros [E|(nv & I1 & I2)].
        -- inversion E; subst. exists nv0. split; [left; reflexivity | auto].
        -- exists nv. split; [right; exact I1 | exact I2].
      * intros (nv & [E|I1] & I2 & I3).
        -- inversion E; subst. left. reflexivity.
        -- right. exists nv. auto.
Qed.

Lemma mapping_edits_exact_lemma rs d old new df :
  diff_depth rs (S d) (VDict old) (VDict new) = Ok (Some df) ->
  exists edits, df = DMap (VDict old) (VDict new) edits /\
                map_sound d old new edits /\ map_complete d old new edits.
Proof.
  intros D. simpl in D.
  destruct (veq_d (S d) (VDict old) (VDict new)) as [[|]|]; try discriminate.
  apply bind_ok in D as (edits & DM & D). inversion D; subst df. exists edits. split; [reflexivity|].
  unfold diff_mapping in DM. apply bind_ok in DM as (r & MO & DM). inversion DM; subst edits.
  destruct (map_old_spec _ _ _ _ _ MO) as (S1 & C1 & C2).
  split.
  - intros k e IN. apply in_app_or in IN as [IN|IN].
    + destruct (S1 _ _ IN) as [H|H]; [left; exact H | right; left; exact H].
    + right. right. apply map_new_spec. exact IN.
  - split; [|split].
    + intros k ov I1 I2. apply in_or_app. left. eapply C1; eauto.
    + intros k ov nv I1 I2 I3. destruct (C2 _ _ _ I1 I2 I3) as (df & J1 & J2).
      exists df. split; [apply in_or_app; left; exact J1 | exact J2].
    + intros k nv I1 I2. apply in_or_app. right. apply map_new_spec. exists nv. auto.
Qed.

Lemma lookup_in_some k ov : forall kvs, In (k, ov) kvs -> key_eq k k = true -> lookup key_eq k kvs <> None.
Proof.
  induction kvs as [|[k' v'] kvs IH]; intros IN R; [contradiction|].
  simpl. destruct (key_eq k k') eqn:E; [discriminate|].
  destruct IN as [Q|IN]; [inversion Q; subst; congruence|]. apply IH; assumption.
Qed.

Lemma nodup_keys_fun (kvs : list (value * value)) k v1 v2 :
  NoDup (map fst kvs) -> In (k, v1) kvs -> In (k, v2) kvs -> v1 = v2.
Proof.
  induction kvs as [|[k' v'] kvs IH]; intros ND I1 I2; [contradiction|].
  simpl in ND. inversion ND as [|? ? NI ND']; subst.
  destruct I1 as [E1|I1]; destruct I2 as [E2|I2].
  - congruence.
  - inversion E1; subst. exfalso. apply NI. apply (in_map fst) in I2. exact I2.
  - inversion E2; subst. exfalso. apply NI. apply (in_map fst) in I1. exact I1.
  - auto.
Qed.

Lemma unchanged_key_no_edit d old new edits k ov nv :
  map_sound d old new edits ->
  NoDup (map fst old) -> key_eq k k = true ->
  In (k, ov) old -> dict_get k new = Some nv -> veq_d d ov nv = Some true ->
  forall e, ~ In (k, e) edits.
Proof.
  intros SOUND ND R IN G V e INE.
  destruct (SOUND _ _ INE) as [(ov' & I1 & I2 & _)|[(ov' & nv' & df & I1 & I2 & I3 & _)|(nv' & I1 & I2 & _)]].
  - congruence.
  - rewrite G in I2. inversion I2; subst nv'.
    rewrite (nodup_keys_fun _ _ _ _ ND IN I1) in V. congruence.
  - unfold dict_get in I2. apply (lookup_in_some _ _ _ IN R). exact I2.
Qed.

(** A replace entry can be None: with a route table of 6 points the script of this pair is cut after the first
    search and the merge pairs the two 9s (on the real code the same happens once 2 000 000 points are
    exceeded; the harness shows it on a 1500 x 1700 pair). *)
Lemma replace_none_witness :
  let a := VTuple [VInt 9; VInt 9; VInt 5; VInt 5] in
  let b := VTuple [VInt 1; VInt 2; VInt 0; VInt 0; VInt 9] in
  diff 6 a b =
  Ok (Some (DSlice a b [SE KAdd (VTuple [VInt 1; VInt 2; VInt 0]);
                        SRepl [Some (DLit (VInt 9) (VInt 0)); None];
                        SE KDelete (VTuple [VInt 5; VInt 5])])).
Proof. vm_compute. reflexivity. Qed.

Lemma replace_none_exists :
  exists route_size a b edits ds,
    diff route_size a b = Ok (Some (DSlice a b edits)) /\ In (SRepl ds) edits /\ In None ds.
Proof.
  exists 6, (VTuple [VInt 9; VInt 9; VInt 5; VInt 5]), (VTuple [VInt 1; VInt 2; VInt 0; VInt 0; VInt 9]).
  exists [SE KAdd (VTuple [VInt 1; VInt 2; VInt 0]); SRepl [Some (DLit (VInt 9) (VInt 0)); None];
          SE KDelete (VTuple [VInt 5; VInt 5])].
  exists [Some (DLit (VInt 9) (VInt 0)); None].
  split; [exact replace_none_witness|]. split; simpl; auto.
Qed.
