(** C16, towards minimality: the furthest-point invariant of the O(NP) search.  Every path of the edit
    graph from the origin to the far corner makes at least as many deletions as the search made iterations
    of its [for p] loop before it reached the corner. *)
From Dawn Require Import Diff.Model Diff.Spec Diff.Proofs_Basic Diff.Proofs_Record Diff.Proofs_Search
     Diff.Proofs_Seq Diff.Proofs_Rounds.
From Dawn Require Import Diff.SpecGraph Diff.Proofs_Total.
From Coq Require Import Lia.
Open Scope Z_scope.

Section EditGraphFacts.
  Variable A : Type.
  Variable eqv : A -> A -> option bool.
  Variables a b : list A.
  Notation reach := (reach A eqv a b).

  Lemma reach_bounds x y d : reach x y d -> 0 <= x <= zlen A a /\ 0 <= y <= zlen A b /\ 0 <= d /\ x - y <= d.
  Proof.
    induction 1.
    - pose proof (zlen_nonneg A a). pose proof (zlen_nonneg A b). lia.
    - lia.
    - lia.
    - apply znth_bound in H0. apply znth_bound in H1. lia.
  Qed.
End EditGraphFacts.

Section LcpMax.
  Variable A : Type.
  Variable eqv : A -> A -> option bool.

  Lemma lcp_max : forall xs ys c, lcp A eqv xs ys = Ok c ->
    forall u v, nth_error xs (Z.to_nat c) = Some u -> nth_error ys (Z.to_nat c) = Some v -> eqv u v = Some false.
  Proof.
    induction xs as [|x xs IH]; intros ys c H u v Nu Nv.
    - simpl in H. inversion H; subst. discriminate.
    - destruct ys as [|y ys].
      + simpl in H. inversion H; subst. discriminate.
      + simpl in H. destruct (eqv x y) as [[|]|] eqn:E; try discriminate.
        * apply bind_ok in H as (c' & L & H). inversion H; subst c; clear H.
          pose proof (lcp_spec A eqv _ _ _ L) as (C0 & _).
          replace (Z.to_nat (c' + 1)) with (S (Z.to_nat c')) in Nu, Nv by lia.
          simpl in Nu, Nv. eapply IH; eauto.
        * inversion H; subst c. simpl in Nu, Nv. inversion Nu; inversion Nv; subst. exact E.
  Qed.
End LcpMax.

Section Furthest.
  Variable A : Type.
  Variable eqv : A -> A -> option bool.
  Variable route_size : Z.
  Variables a b : list A.
  Variable size : Z.

  Notation zlen := (zlen A).
  Notation znth := (znth A).
  Notation m := (zlen a).
  Notation n := (zlen b).
  Notation delta := (zlen b - zlen a).
  Notation offset := (zlen a + 1).
  Notation F := (F A a).
  Notation start_ok := (start_ok A a b).
  Notation entries_ok := (entries_ok A eqv a b).
  Notation Inv := (Inv A eqv a b).
  Notation InvUp := (InvUp A eqv a b).
  Notation InvDown := (InvDown A eqv a b).
  Notation reach := (reach A eqv a b).

  Hypothesis Hmn : m <= n.

  (** the compressed distance of Wu, Manber, Myers and Miller: deletions, plus the excess over delta *)
  Definition pcost (k d : Z) : Z := if k <=? delta then d else d + (k - delta).

  (** a snake ends where the next pair of elements is not reported equal *)
  Lemma step_max st st' k :
    start_ok st k -> step_k A eqv a b size offset st k = Ok st' ->
    forall u v, znth a (F st' k - k) = Some u -> znth b (F st' k) = Some v -> eqv u v <> Some true.
  Proof.
    intros SO H u v Nu Nv. unfold step_k in H.
    apply bind_ok in H as (pa & G1 & H). apply bind_ok in H as (pp & G2 & H).
    apply bind_ok in H as ([s st1] & SN & H). inversion H; subst st'; clear H.
    unfold aget in G1, G2.
    destruct ((0 <=? k - 1 + offset) && (k - 1 + offset <? size)); [|discriminate].
    destruct ((0 <=? k + 1 + offset) && (k + 1 + offset <? size)); [|discriminate].
    inversion G1; subst pa; clear G1. inversion G2; subst pp; clear G2.
    unfold Proofs_Search.start_ok, Proofs_Search.F, Proofs_Search.P in SO.
    unfold snake in SN.
    set (pa := fp st (k - 1 + offset) + 1) in *.
    set (pp := fp st (k + 1 + offset)) in *.
    set (y := Z.max pa pp) in *.
    set (x := y - k) in *.
    destruct SO as (SX & SY & _).
    apply bind_ok in SN as (c & LC & SN). inversion SN; subst s st1; clear SN.
    unfold Proofs_Search.F in Nu, Nv. simpl in Nu, Nv. unfold aset in Nu, Nv. rewrite Z.eqb_refl in Nu, Nv.
    apply znth_bound in Nu as Bu. apply znth_bound in Nv as Bv.
    destruct ((x <? m) && (y <? n)) eqn:RG.
    - destruct ((x <? 0) || (y <? 0)); [discriminate|].
      pose proof (lcp_spec A eqv _ _ _ LC) as (C0 & _).
      unfold Spec.znth in Nu, Nv.
      destruct (y + c - k <? 0) eqn:I0; [discriminate|]. destruct (y + c <? 0) eqn:I1; [discriminate|].
      assert (E : eqv u v = Some false).
      { apply (lcp_max A eqv _ _ _ LC); rewrite nth_error_skipn.
        - replace (Z.to_nat x + Z.to_nat c)%nat with (Z.to_nat (y + c - k)) by lia. exact Nu.
        - replace (Z.to_nat y + Z.to_nat c)%nat with (Z.to_nat (y + c)) by lia. exact Nv. }
      congruence.
    - inversion LC; subst c. apply andb_false_iff in RG. rewrite !Z.ltb_ge in RG. lia.
  Qed.

  (** what the search knows about diagonal [j]: no point reachable at compressed distance <= q lies beyond
      fp[j] *)
  Definition FR (q : Z) (st : sstate) (j : Z) : Prop :=
    forall x y d, reach x y d -> y - x = j -> pcost j d <= q -> y <= F st j.

  Lemma FR_vacuous_low q st j : j < - q -> j <= delta -> FR q st j.
  Proof.
    intros J JD x y d R K C. apply reach_bounds in R. unfold pcost in C.
    replace (j <=? delta) with true in C by (symmetry; apply Z.leb_le; lia). lia.
  Qed.

  Lemma FR_vacuous_high q st j : delta + q < j -> FR q st j.
  Proof.
    intros J x y d R K C. apply reach_bounds in R. unfold pcost in C.
    destruct (j <=? delta) eqn:E; [apply Z.leb_le in E | apply Z.leb_gt in E]; lia.
  Qed.

  Lemma FR_same st st' k q j : same_elsewhere A a st st' k -> j <> k -> FR q st j -> FR q st' j.
  Proof. intros [S1 _] NE H x y d R K C. destruct (S1 j NE) as [E _]. rewrite E. eapply H; eauto. Qed.

  Lemma step_furthest st st' k q :
    entries_ok (routes st) -> start_ok st k -> step_k A eqv a b size offset st k = Ok st' ->
    (forall x y d, reach x y d -> y - x = k - 1 -> pcost k d <= q -> y <= F st (k - 1)) ->
    (forall x y d, reach x y d -> y - x = k + 1 -> pcost k (d + 1) <= q -> y <= F st (k + 1)) ->
    FR q st' k.
  Proof.
    intros EO SO ST HI HD.
    destruct (step_ok A eqv a b size Hmn _ _ _ EO SO ST) as (_ & _ & _ & G1 & _).
    pose proof (step_max _ _ _ SO ST) as MX.
    assert (Y0 : 0 <= F st' k).
    { unfold Proofs_Search.start_ok in SO. destruct SO as (_ & SY & _). lia. }
    intros x y d R. induction R as [|x y d R IH XM|x y d R IH YN|x y d u v R IH Nu Nv E]; intros K C.
    - exact Y0.
    - assert (y <= F st (k + 1)) by (apply (HD x y d R); [lia | exact C]). lia.
    - assert (y <= F st (k - 1)) by (apply (HI x y d R); [lia | exact C]). lia.
    - assert (y <= F st' k) by (apply IH; [lia | exact C]).
      destruct (Z.eq_dec y (F st' k)) as [EQ|NE]; [|lia].
      exfalso. apply (MX u v); [|rewrite <- EQ; exact Nv|exact E].
      replace (F st' k - k) with x by lia. exact Nu.
  Qed.

  Definition UpFR (p k : Z) (st : sstate) : Prop :=
    (forall j, j < k -> FR p st j) /\ (forall j, k <= j -> FR (p - 1) st j).

  Lemma pcost_le j d : j <= delta -> pcost j d = d.
  Proof. intros H. unfold pcost. replace (j <=? delta) with true by (symmetry; apply Z.leb_le; lia). reflexivity. Qed.

  Lemma pcost_gt j d : delta < j -> pcost j d = d + (j - delta).
  Proof. intros H. unfold pcost. replace (j <=? delta) with false by (symmetry; apply Z.leb_gt; lia). reflexivity. Qed.

  Lemma up_step_FR p k st st' :
    0 <= p -> - p <= k < delta -> InvUp p k st -> UpFR p k st ->
    step_k A eqv a b size offset st k = Ok st' -> UpFR p (k + 1) st'.
  Proof.
    intros P0 K I [U1 U2] ST.
    pose proof (up_start A eqv a b p k st P0 K I) as SO.
    pose proof I as (EO & _).
    destruct (step_ok A eqv a b size Hmn _ _ _ EO SO ST) as (_ & _ & SE & _).
    assert (NEW : FR p st' k).
    { apply (step_furthest st st' k p EO SO ST).
      - intros x y d R KK C. rewrite pcost_le in C by lia.
        apply (U1 (k - 1) ltac:(lia) x y d R KK). rewrite pcost_le by lia. exact C.
      - intros x y d R KK C. rewrite pcost_le in C by lia.
        apply (U2 (k + 1) ltac:(lia) x y d R KK). rewrite pcost_le by lia. lia. }
    split.
    - intros j J. destruct (Z.eq_dec j k) as [->|NE]; [exact NEW|].
      eapply FR_same; [exact SE|exact NE|apply U1; lia].
    - intros j J. eapply FR_same; [exact SE|lia|apply U2; lia].
  Qed.

  Lemma loop_up_FR p : forall cnt k st st',
    0 <= p -> - p <= k -> k + Z.of_nat cnt = delta -> InvUp p k st -> UpFR p k st ->
    loop_up A eqv cnt a b size offset k st = Ok st' -> UpFR p delta st'.
  Proof.
    induction cnt as [|cnt IH]; intros k st st' P0 K KC I U L.
    - simpl in L. inversion L; subst. replace delta with k by lia. exact U.
    - simpl in L. apply bind_ok in L as (st1 & ST & L).
      apply (IH (k + 1) st1 st'); try lia; [| |exact L].
      + apply (up_step A eqv a b size Hmn p k st st1); [lia|lia|exact I|exact ST].
      + apply (up_step_FR p k st st1); [lia|lia|exact I|exact U|exact ST].
  Qed.

  Definition DownFR (p k : Z) (st : sstate) : Prop :=
    (forall j, j < delta -> FR p st j) /\ (forall j, delta <= j <= k -> FR (p - 1) st j) /\
    (forall j, k < j -> FR p st j).

  Lemma down_step_FR p k st st' :
    1 <= p -> delta + 1 <= k <= delta + p -> InvDown p k st -> DownFR p k st ->
    step_k A eqv a b size offset st k = Ok st' -> DownFR p (k - 1) st'.
  Proof.
    intros P1 K I (D1 & D2 & D3) ST.
    pose proof (down_start A eqv a b Hmn p k st P1 K I) as SO.
    pose proof I as (EO & _).
    destruct (step_ok A eqv a b size Hmn _ _ _ EO SO ST) as (_ & _ & SE & _).
    assert (NEW : FR p st' k).
    { apply (step_furthest st st' k p EO SO ST).
      - intros x y d R KK C. rewrite pcost_gt in C by lia.
        apply (D2 (k - 1) ltac:(lia) x y d R KK).
        destruct (Z.eq_dec (k - 1) delta) as [E|NE]; [rewrite pcost_le by lia | rewrite pcost_gt by lia]; lia.
      - intros x y d R KK C. rewrite pcost_gt in C by lia.
        apply (D3 (k + 1) ltac:(lia) x y d R KK). rewrite pcost_gt by lia. lia. }
    split; [|split].
    - intros j J. eapply FR_same; [exact SE|lia|apply D1; lia].
    - intros j J. eapply FR_same; [exact SE|lia|apply D2; lia].
    - intros j J. destruct (Z.eq_dec j k) as [->|NE]; [exact NEW|].
      eapply FR_same; [exact SE|exact NE|apply D3; lia].
  Qed.

  Lemma loop_down_FR p : forall cnt k st st',
    0 <= p -> k - Z.of_nat cnt = delta -> k <= delta + p -> InvDown p k st -> DownFR p k st ->
    loop_down A eqv cnt a b size offset k st = Ok st' -> DownFR p delta st'.
  Proof.
    induction cnt as [|cnt IH]; intros k st st' P0 KC KP I D L.
    - simpl in L. inversion L; subst. replace delta with k by lia. exact D.
    - simpl in L. apply bind_ok in L as (st1 & ST & L).
      apply (IH (k - 1) st1 st'); try lia; [| |exact L].
      + apply (down_step A eqv a b size Hmn p k st st1); [lia|lia|exact I|exact ST].
      + apply (down_step_FR p k st st1); [lia|lia|exact I|exact D|exact ST].
  Qed.

  Lemma final_step_FR p st st' :
    0 <= p -> InvDown p delta st -> DownFR p delta st ->
    step_k A eqv a b size offset st delta = Ok st' -> forall j, FR p st' j.
  Proof.
    intros P0 I (D1 & D2 & D3) ST.
    pose proof (final_start A eqv a b Hmn p st P0 I) as SO.
    pose proof I as (EO & _).
    destruct (step_ok A eqv a b size Hmn _ _ _ EO SO ST) as (_ & _ & SE & _).
    assert (NEW : FR p st' delta).
    { apply (step_furthest st st' delta p EO SO ST).
      - intros x y d R KK C. rewrite pcost_le in C by lia.
        apply (D1 (delta - 1) ltac:(lia) x y d R KK). rewrite pcost_le by lia. exact C.
      - intros x y d R KK C. rewrite pcost_le in C by lia.
        apply (D3 (delta + 1) ltac:(lia) x y d R KK). rewrite pcost_gt by lia. lia. }
    intros j. destruct (Z.eq_dec j delta) as [->|NE]; [exact NEW|].
    eapply FR_same; [exact SE|exact NE|].
    destruct (Z_lt_le_dec j delta); [apply D1; lia | apply D3; lia].
  Qed.

  (** the furthest-point theorem for the whole [for p] loop *)
  Lemma ploop_lower : forall fuel p st st',
    0 <= p -> Inv p st -> (forall j, FR (p - 1) st j) ->
    Z.of_nat (length (routes st)) = p * (delta + p) ->
    ploop A eqv route_size fuel a b size p st = Ok st' -> n <= F st' delta ->
    exists pf, p <= pf /\ Z.of_nat (length (routes st')) = (pf + 1) * (delta + pf + 1) /\
               forall d, reach m n d -> pf <= d.
  Proof.
    induction fuel as [|fuel IH]; intros p st st' P0 I FRA LEN L FN; [discriminate|].
    simpl in L.
    apply bind_ok in L as (st1 & L1 & L). apply bind_ok in L as (st2 & L2 & L). apply bind_ok in L as (st3 & L3 & L).
    pose proof (loop_up_len _ _ _ _ _ _ _ _ _ L1) as N1. pose proof (loop_down_len _ _ _ _ _ _ _ _ _ L2) as N2.
    pose proof (step_len _ _ _ _ _ _ _ _ L3) as N3.
    pose proof (inv_round_bound A eqv a b Hmn _ _ P0 I) as PM.
    pose proof (inv_to_up A eqv a b p st P0 I) as IU.
    assert (U0 : UpFR p (- p) st).
    { split; [intros j J; apply FR_vacuous_low; lia | intros j _; apply FRA]. }
    assert (UF : UpFR p delta st1) by (apply (loop_up_FR p (Z.to_nat (delta + p)) (- p) st st1); try lia; assumption).
    destruct UF as [U1 U2].
    apply (loop_up_ok A eqv a b size Hmn p) in L1; [|lia|lia|lia|exact IU].
    apply up_to_down in L1; [|lia].
    assert (D0 : DownFR p (delta + p) st1).
    { split; [exact U1|]. split; [intros j J; apply U2; lia | intros j J; apply FR_vacuous_high; lia]. }
    assert (DF : DownFR p delta st2) by (apply (loop_down_FR p (Z.to_nat p) (delta + p) st1 st2); try lia; assumption).
    apply (loop_down_ok A eqv a b size Hmn p) in L2; [|lia|lia|lia|exact L1].
    pose proof (final_step_FR p st2 st3 P0 L2 DF L3) as FR3.
    destruct (final_step A eqv a b size Hmn _ _ _ P0 L2 L3) as (EO & LK & LE & NX).
    assert (LEN3 : Z.of_nat (length (routes st3)) = (p + 1) * (delta + (p + 1))).
    { rewrite N3, N2, N1. nia. }
    fold (F st3 delta) in L.
    destruct (F st3 delta >=? n) eqn:C1.
    - simpl in L. inversion L; subst st'. exists p. split; [lia|]. split; [rewrite LEN3; ring|].
      intros d R. destruct (Z_lt_le_dec d p) as [LT|GE]; [|exact GE]. exfalso.
      pose proof (reach_bounds A eqv a b _ _ _ R) as RB.
      assert (n <= F st delta).
      { apply (FRA delta m n d R); [lia|]. rewrite pcost_le by lia. lia. }
      destruct I as [_ IO]. destruct (IO delta) as [O1 _].
      destruct O1 as (_ & B1 & _); [unfold oldlive; lia|]. lia.
    - rewrite Z.geb_leb in C1. apply Z.leb_gt in C1. simpl in L.
      destruct (Z.of_nat (length (routes st3)) >? route_size) eqn:C2.
      + inversion L; subst st'. lia.
      + destruct (IH (p + 1) st3 st') as (pf & PF1 & PF2 & PF3); try lia; auto.
        * intros j. replace (p + 1 - 1) with p by lia. apply FR3.
        * exists pf. split; [lia|]. auto.
  Qed.

  (** If the search reaches the far corner, it has made pf + 1 iterations of its [for p] loop (visible in
      the number of recorded snakes), and every edit path from the origin to the corner makes at least pf
      deletions, i.e. at least delta + 2 pf deletions and insertions. *)
  Lemma search_lower_bound_lemma st :
    search A eqv route_size a b size = Ok st -> n <= fp st (delta + offset) ->
    exists pf, 0 <= pf /\ Z.of_nat (length (routes st)) = (pf + 1) * (delta + pf + 1) /\
               forall d, reach m n d -> pf <= d.
  Proof.
    intros S FN. unfold search in S.
    apply ploop_lower in S; [exact S | lia | apply init_inv | | simpl; lia | exact FN].
    intros j x y d R K C. apply reach_bounds in R. unfold pcost in C.
    destruct (j <=? delta) eqn:E; [apply Z.leb_le in E | apply Z.leb_gt in E]; lia.
  Qed.
End Furthest.
