(** C16: the two statements that follow from the shape of DiffDepth alone. *)
From Dawn Require Import Diff.Model.
Open Scope Z_scope.

Lemma bind_ok {T U} (o : outcome T) (f : T -> outcome U) r :
  bind o f = Ok r -> exists t, o = Ok t /\ f t = Ok r.
Proof. destruct o; simpl; try discriminate. eauto. Qed.

Lemma diff_depth_empty_iff rs depth a b :
  diff_depth rs depth a b = Ok None <-> veq_d depth a b = Some true.
Proof.
  destruct depth as [|d]; simpl.
  - split; discriminate.
  - destruct (veq_d (S d) a b) as [[|]|] eqn:E.
    + split; reflexivity.
    + split; [|discriminate].
      destruct (sliceable a) as [[ca ea]|]; [destruct (sliceable b) as [[cb eb]|]|].
      * intros H. apply bind_ok in H as (? & _ & H). apply bind_ok in H as (? & _ & H). discriminate.
      * destruct a, b; try discriminate.
        intros H. apply bind_ok in H as (? & _ & H). discriminate.
      * destruct a, b; try discriminate.
        intros H. apply bind_ok in H as (? & _ & H). discriminate.
    + split; discriminate.
Qed.

Lemma diff_depth_sides rs depth a b d :
  diff_depth rs depth a b = Ok (Some d) -> dold d = a /\ dnew d = b.
Proof.
  destruct depth as [|n]; simpl; [discriminate|].
  destruct (veq_d (S n) a b) as [[|]|]; try discriminate.
  destruct (sliceable a) as [[ca ea]|]; [destruct (sliceable b) as [[cb eb]|]|].
  - intros H. apply bind_ok in H as (? & _ & H). apply bind_ok in H as (? & _ & H).
    inversion H; subst; simpl; auto.
  - destruct a, b; intros H; try (inversion H; subst; simpl; auto; fail).
    apply bind_ok in H as (? & _ & H). inversion H; subst; simpl; auto.
  - destruct a, b; intros H; try (inversion H; subst; simpl; auto; fail).
    apply bind_ok in H as (? & _ & H). inversion H; subst; simpl; auto.
Qed.
