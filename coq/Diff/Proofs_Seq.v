(** C16: the two layers put together for diffSlice (generic elements). *)
From Dawn Require Import Diff.Model Diff.Spec Diff.Proofs_Basic Diff.Proofs_Record Diff.Proofs_Search.
From Coq Require Import Lia.
Open Scope Z_scope.

Section Seq.
  Variable A : Type.
  Variable eqv : A -> A -> option bool.
  Variable route_size : Z.

  Lemma diff_slice_faithful a b script :
    diff_slice A eqv route_size a b = Ok script ->
    exhausted A eqv route_size a b = Ok false ->
    faithful A eqv a b script.
  Proof.
    unfold diff_slice, exhausted. intros D X.
    set (reverse := zlen A a >=? zlen A b) in *.
    set (a' := if reverse then b else a) in *.
    set (b' := if reverse then a else b) in *.
    assert (LE : zlen A a' <= zlen A b').
    { unfold a', b', reverse. destruct (zlen A a >=? zlen A b) eqn:G.
      - rewrite Z.geb_leb in G. apply Z.leb_le in G. exact G.
      - rewrite Z.geb_leb in G. apply Z.leb_gt in G. lia. }
    apply bind_ok in X as (st & S & X). inversion X as [X']; clear X.
    apply negb_false_iff in X'. rewrite Z.geb_leb in X'. apply Z.leb_le in X'.
    apply bind_ok in D as (raw & C & M).
    simpl in C. rewrite S in C. simpl in C.
    apply bind_ok in C as (r & G & C).
    unfold aget in G. destruct ((0 <=? _) && (_ <? _)) in G; [|discriminate]. inversion G; subst r; clear G.
    apply bind_ok in C as (epc & CH & C).
    apply bind_ok in C as (s & R & C).
    pose proof (search_valid_lemma A eqv route_size a' b' _ LE st epc S X' CH) as V.
    pose proof (record_pts_ok A eqv a' b' reverse (rev epc) (mkR A 0 0 []) s) as RO.
    destruct RO as (_ & PX & PY).
    { unfold inv; simpl. pose proof (zlen_nonneg A a'). pose proof (zlen_nonneg A b').
      repeat split; try lia; destruct reverse; simpl; try reflexivity; constructor. }
    { exact V. }
    { exact R. }
    replace ((px A s + 1 >? zlen A a') && (py A s + 1 >? zlen A b')) with true in C.
    2:{ symmetry. apply andb_true_iff. split; apply Z.gtb_lt; lia. }
    inversion C; subst raw; clear C.
    pose proof (record_faithful_lemma A eqv a' b' reverse _ s script V R M) as FF.
    unfold a', b' in FF. destruct reverse; exact FF.
  Qed.

  (** the route table cannot fill up when (m+1)(n+1) <= route_size *)
  Lemma not_exhausted a b script :
    (zlen A a + 1) * (zlen A b + 1) <= route_size ->
    diff_slice A eqv route_size a b = Ok script ->
    exhausted A eqv route_size a b = Ok false.
  Proof.
    unfold diff_slice, exhausted. intros RS D.
    set (reverse := zlen A a >=? zlen A b) in *.
    set (a' := if reverse then b else a) in *.
    set (b' := if reverse then a else b) in *.
    assert (LE : zlen A a' <= zlen A b' /\ (zlen A a' + 1) * (zlen A b' + 1) <= route_size).
    { unfold a', b', reverse. destruct (zlen A a >=? zlen A b) eqn:G.
      - rewrite Z.geb_leb in G. apply Z.leb_le in G. split; [exact G | lia].
      - rewrite Z.geb_leb in G. apply Z.leb_gt in G. split; lia. }
    destruct LE as [LE RS'].
    apply bind_ok in D as (raw & C & _). simpl in C.
    apply bind_ok in C as (st & S & _). rewrite S. simpl.
    pose proof (search_reaches_corner A eqv route_size a' b' _ LE st RS' S) as FN.
    replace (fp st (zlen A b' - zlen A a' + (zlen A a' + 1)) >=? zlen A b') with true; [reflexivity|].
    symmetry. rewrite Z.geb_leb. apply Z.leb_le. exact FN.
  Qed.

  Lemma diff_slice_faithful_bounded a b script :
    (zlen A a + 1) * (zlen A b + 1) <= route_size ->
    diff_slice A eqv route_size a b = Ok script ->
    faithful A eqv a b script.
  Proof.
    intros RS D. apply diff_slice_faithful; [exact D|]. eapply not_exhausted; eauto.
  Qed.
End Seq.
