(** C16, minimality, upper-bound half: when the route table is not exhausted the script costs at most
    delta + 2 pf, pf + 1 being the number of iterations of the search's [for p] loop; together with the
    furthest-point theorem (Proofs_Opt) the script is a shortest edit script. *)
From Dawn Require Import Diff.Model Diff.Spec Diff.Proofs_Basic Diff.Proofs_Record Diff.Proofs_Search
     Diff.Proofs_Seq Diff.Proofs_Rounds Diff.Proofs_Value Diff.SpecCost Diff.SpecGraph Diff.Proofs_Total
     Diff.Proofs_Min Diff.Proofs_Opt.
From Coq Require Import Lia.
Open Scope Z_scope.

(** * The cost of a route chain *)

(** [cc rts r k c]: following the route table back from entry [r] to the origin, and then going to diagonal
    [k], changes diagonal [c] times in all (each change is one insertion or deletion of the walker) *)
Inductive cc (rts : list (Z * Z * Z)) : Z -> Z -> Z -> Prop :=
| cc_root k : cc rts (-1) k (Z.abs k)
| cc_step r x y r' k c :
    0 <= r -> nth_error rts (Z.to_nat r) = Some (x, y, r') -> cc rts r' (y - x) c ->
    cc rts r k (Z.abs (k - (y - x)) + c).

Lemma cc_app rts l r k c : cc rts r k c -> cc (rts ++ l) r k c.
Proof.
  induction 1; [constructor|]. econstructor; eauto.
  rewrite nth_error_app1; [assumption|]. apply nth_error_Some. congruence.
Qed.

Lemma cc_neighbor rts r j c k x y r' :
  cc rts r j c -> 0 <= r -> nth_error rts (Z.to_nat r) = Some (x, y, r') -> y - x = j ->
  cc rts r k (c + Z.abs (k - j)).
Proof.
  intros H R N D. inversion H as [kk | r0 x0 y0 r0' kk c0 R0 N0 C0]; subst; [lia|].
  rewrite N in N0. inversion N0; subst.
  replace (Z.abs (y0 - x0 - (y0 - x0)) + c0 + Z.abs (k - (y0 - x0))) with (Z.abs (k - (y0 - x0)) + c0) by lia.
  econstructor; eauto.
Qed.

(** the same cost read off the list of points that [chain] returns (latest point first) *)
Fixpoint rcost (k : Z) (epc : list (Z * Z)) : Z :=
  match epc with
  | [] => Z.abs k
  | (x, y) :: rest => Z.abs (k - (y - x)) + rcost (y - x) rest
  end.

Lemma chain_cc rts : forall fuel r epc, chain fuel rts r = Ok epc -> forall k c, cc rts r k c -> c = rcost k epc.
Proof.
  induction fuel as [|fuel IH]; intros r epc C k c H.
  - simpl in C. destruct (r =? -1) eqn:R; [|discriminate]. apply Z.eqb_eq in R. inversion C; subst.
    inversion H; subst; [reflexivity | lia].
  - simpl in C. destruct (r =? -1) eqn:R.
    + apply Z.eqb_eq in R. inversion C; subst. inversion H; subst; [reflexivity | lia].
    + apply Z.eqb_neq in R. destruct (r <? 0); [discriminate|].
      destruct (nth_error rts (Z.to_nat r)) as [[[x y] r']|] eqn:N; [|discriminate].
      apply bind_ok in C as (rest & C & E). inversion E; subst epc; clear E.
      inversion H as [kk | r0 x0 y0 r0' kk c0 R0 N0 C0]; subst; [lia|].
      rewrite N in N0. inversion N0; subst. simpl. rewrite (IH _ _ C _ _ C0). reflexivity.
Qed.

(** and off the same points in walking order *)
Fixpoint fcost (pk : Z) (pts : list (Z * Z)) (kend : Z) : Z :=
  match pts with
  | [] => Z.abs (kend - pk)
  | (x, y) :: rest => Z.abs ((y - x) - pk) + fcost (y - x) rest kend
  end.

Lemma fcost_snoc : forall pts pk x y kend,
  fcost pk (pts ++ [(x, y)]) kend = fcost pk pts (y - x) + Z.abs (kend - (y - x)).
Proof.
  induction pts as [|[x0 y0] pts IH]; intros; simpl; [lia|]. rewrite IH. lia.
Qed.

Lemma rcost_fcost : forall epc k, rcost k epc = fcost 0 (rev epc) k.
Proof.
  induction epc as [|[x y] epc IH]; intros k; simpl.
  - f_equal. lia.
  - rewrite fcost_snoc, <- IH. lia.
Qed.

Section ChainCost.
  Variable A : Type.
  Variable eqv : A -> A -> option bool.
  Variable route_size : Z.
  Variables a b : list A.
  Variable size : Z.

  Notation zlen := (zlen A).
  Notation m := (zlen a).
  Notation n := (zlen b).
  Notation delta := (zlen b - zlen a).
  Notation offset := (zlen a + 1).
  Notation F := (F A a).
  Notation P := (P A a).
  Notation live := (live A a).
  Notation dead := (dead A a).
  Notation oldlive := (oldlive A a b).
  Notation Inv := (Inv A eqv a b).
  Notation InvUp := (InvUp A eqv a b).
  Notation InvDown := (InvDown A eqv a b).

  Hypothesis Hmn : m <= n.

  (** non-diagonal steps needed to reach diagonal [k] at compressed distance [p] *)
  Definition kcost (p k : Z) : Z := if k <=? delta then 2 * p + k else 2 * p - k + 2 * delta.

  Lemma kcost_le p j : j <= delta -> kcost p j = 2 * p + j.
  Proof. intros H. unfold kcost. replace (j <=? delta) with true by (symmetry; apply Z.leb_le; lia). reflexivity. Qed.

  Lemma kcost_gt p j : delta < j -> kcost p j = 2 * p - j + 2 * delta.
  Proof. intros H. unfold kcost. replace (j <=? delta) with false by (symmetry; apply Z.leb_gt; lia). reflexivity. Qed.

  (** the entry that [path] holds for diagonal [j] is reached with at most [q] changes of diagonal *)
  Definition CI (q : Z) (st : sstate) (j : Z) : Prop :=
    exists c, cc (routes st) (P st j) j c /\ c <= q.

  Definition chosen (st : sstate) (k : Z) : Z :=
    if F st (k - 1) + 1 >? F st (k + 1) then P st (k - 1) else P st (k + 1).

  Lemma step_cc st st' k q :
    step_k A eqv a b size offset st k = Ok st' ->
    (exists c, cc (routes st) (chosen st k) k c /\ c <= q) ->
    CI q st' k /\ (forall j q', j <> k -> CI q' st j -> CI q' st' j).
  Proof.
    intros H (c0 & CC & LE). unfold step_k in H.
    apply bind_ok in H as (pa & G1 & H). apply bind_ok in H as (pp & G2 & H).
    apply bind_ok in H as ([s st1] & SN & H). inversion H; subst st'; clear H.
    unfold aget in G1, G2.
    destruct ((0 <=? k - 1 + offset) && (k - 1 + offset <? size)); [|discriminate].
    destruct ((0 <=? k + 1 + offset) && (k + 1 + offset <? size)); [|discriminate].
    inversion G1; subst pa; clear G1. inversion G2; subst pp; clear G2.
    unfold snake in SN.
    apply bind_ok in SN as (c & LC & SN). inversion SN; subst s st1; clear SN.
    unfold chosen, Proofs_Search.F, Proofs_Search.P in CC.
    split.
    - unfold CI, Proofs_Search.P. simpl. unfold aset. rewrite Z.eqb_refl.
      exists c0. split; [|exact LE].
      match goal with |- cc (_ ++ [(?xx, ?yy, ?rr)]) _ _ _ =>
        replace c0 with (Z.abs (k - (yy - xx)) + c0) by lia;
        apply (cc_step _ _ xx yy rr) end.
      + lia.
      + rewrite Nat2Z.id, nth_error_app2 by lia. rewrite Nat.sub_diag. reflexivity.
      + apply cc_app.
        match goal with |- cc _ _ ?kk _ => replace kk with k by lia end. exact CC.
    - intros j q' NE (c1 & C1 & L1). exists c1. split; [|exact L1].
      unfold Proofs_Search.P in *. simpl. unfold aset.
      destruct (j + offset =? k + offset) eqn:Q; [apply Z.eqb_eq in Q; lia|].
      apply cc_app. exact C1.
  Qed.

  Lemma choose_left st k q :
    live st (k - 1) -> F st (k + 1) < F st (k - 1) + 1 -> CI q st (k - 1) ->
    exists c, cc (routes st) (chosen st k) k c /\ c <= q + 1.
  Proof.
    intros (L1 & L2 & r & N) LT (c & C & LE). unfold chosen.
    replace (F st (k - 1) + 1 >? F st (k + 1)) with true by (symmetry; apply Z.gtb_lt; lia).
    exists (c + Z.abs (k - (k - 1))). split; [|lia].
    eapply cc_neighbor; [exact C | exact L2 | exact N | lia].
  Qed.

  Lemma choose_right st k q :
    live st (k + 1) -> F st (k - 1) + 1 <= F st (k + 1) -> CI q st (k + 1) ->
    exists c, cc (routes st) (chosen st k) k c /\ c <= q + 1.
  Proof.
    intros (L1 & L2 & r & N) GE (c & C & LE). unfold chosen.
    replace (F st (k - 1) + 1 >? F st (k + 1)) with false by (symmetry; rewrite Z.gtb_ltb; apply Z.ltb_ge; lia).
    exists (c + Z.abs (k - (k + 1))). split; [|lia].
    eapply cc_neighbor; [exact C | exact L2 | exact N | lia].
  Qed.

  Lemma choose_origin st k :
    k = 0 -> dead st (k - 1) -> dead st (k + 1) ->
    exists c, cc (routes st) (chosen st k) k c /\ c <= 0.
  Proof.
    intros -> [D1 D2] [D3 D4]. unfold chosen. rewrite D1, D3, D2. simpl.
    exists (Z.abs 0). split; [constructor | simpl; lia].
  Qed.

  Definition UpCI (p k : Z) (st : sstate) : Prop :=
    (forall j, - p <= j < k -> CI (kcost p j) st j) /\
    (forall j, k <= j -> oldlive p j -> CI (kcost (p - 1) j) st j).

  Lemma up_step_CI p k st st' :
    0 <= p -> - p <= k < delta -> InvUp p k st -> UpCI p k st ->
    step_k A eqv a b size offset st k = Ok st' -> UpCI p (k + 1) st'.
  Proof.
    intros P0 K (EO & ID & INew & IOld) [U1 U2] ST.
    assert (CH : exists c, cc (routes st) (chosen st k) k c /\ c <= kcost p k).
    { rewrite kcost_le by lia.
      destruct (Z.eq_dec k (- p)) as [KP|KP].
      - assert (D1 : dead st (k - 1)) by (apply ID; lia).
        destruct (Z.eq_dec p 0) as [PZ|PZ].
        + destruct (choose_origin st k) as (c & C & LE); [lia | exact D1 | |exists c; split; [exact C|lia]].
          destruct (IOld (k + 1)) as [_ O2]; [lia|]. apply O2. unfold Proofs_Search.oldlive. lia.
        + destruct (IOld (k + 1)) as [O1 _]; [lia|].
          assert (OL : oldlive p (k + 1)) by (unfold Proofs_Search.oldlive; lia).
          destruct (O1 OL) as (L & B1 & B2). destruct D1 as [D1 _]. pose proof L as (L1 & _).
          destruct (choose_right st k (kcost (p - 1) (k + 1)) L ltac:(lia) (U2 (k + 1) ltac:(lia) OL)) as (c & C & LE).
          exists c. split; [exact C|]. rewrite kcost_le in LE by lia. lia.
      - destruct (INew (k - 1)) as (L & B1 & B2); [lia|]. pose proof L as (L1 & _).
        destruct (Z_lt_le_dec (F st (k + 1)) (F st (k - 1) + 1)) as [LT|GE].
        + destruct (choose_left st k (kcost p (k - 1)) L LT (U1 (k - 1) ltac:(lia))) as (c & C & LE).
          exists c. split; [exact C|]. rewrite kcost_le in LE by lia. lia.
        + destruct (oldlive_dec A a b p (k + 1)) as [OL|NL].
          * destruct (IOld (k + 1)) as [O1 _]; [lia|]. destruct (O1 OL) as (L' & B1' & B2').
            destruct (choose_right st k (kcost (p - 1) (k + 1)) L' GE (U2 (k + 1) ltac:(lia) OL)) as (c & C & LE).
            exists c. split; [exact C|]. rewrite kcost_le in LE by lia. lia.
          * destruct (IOld (k + 1)) as [_ O2]; [lia|]. destruct (O2 NL) as [D _]. lia. }
    destruct (step_cc st st' k _ ST CH) as [NEW KEEP].
    split.
    - intros j J. destruct (Z.eq_dec j k) as [->|NE]; [exact NEW|]. apply KEEP; [exact NE|apply U1; lia].
    - intros j J OL. apply KEEP; [lia|apply U2; [lia|exact OL]].
  Qed.

  Lemma loop_up_CI p : forall cnt k st st',
    0 <= p -> - p <= k -> k + Z.of_nat cnt = delta -> InvUp p k st -> UpCI p k st ->
    loop_up A eqv cnt a b size offset k st = Ok st' -> UpCI p delta st'.
  Proof.
    induction cnt as [|cnt IH]; intros k st st' P0 K KC I U L.
    - simpl in L. inversion L; subst. replace delta with k by lia. exact U.
    - simpl in L. apply bind_ok in L as (st1 & ST & L).
      apply (IH (k + 1) st1 st'); try lia; [| |exact L].
      + apply (up_step A eqv a b size Hmn p k st st1); [lia|lia|exact I|exact ST].
      + apply (up_step_CI p k st st1); [lia|lia|exact I|exact U|exact ST].
  Qed.

  Definition DownCI (p k : Z) (st : sstate) : Prop :=
    (forall j, - p <= j < delta -> CI (kcost p j) st j) /\
    (forall j, delta <= j <= k -> oldlive p j -> CI (kcost (p - 1) j) st j) /\
    (forall j, k < j <= delta + p -> CI (kcost p j) st j).

  Lemma down_step_CI p k st st' :
    1 <= p -> delta + 1 <= k <= delta + p -> InvDown p k st -> DownCI p k st ->
    step_k A eqv a b size offset st k = Ok st' -> DownCI p (k - 1) st'.
  Proof.
    intros P1 K (EO & ID & IUp & IOld & IDn & IDead) (D1 & D2 & D3) ST.
    assert (CH : exists c, cc (routes st) (chosen st k) k c /\ c <= kcost p k).
    { rewrite kcost_gt by lia.
      destruct (IOld (k - 1)) as [O1 _]; [lia|].
      assert (OL : oldlive p (k - 1)) by (unfold Proofs_Search.oldlive; lia).
      destruct (O1 OL) as (L & B1 & B2). pose proof L as (L1 & _).
      destruct (Z_lt_le_dec (F st (k + 1)) (F st (k - 1) + 1)) as [LT|GE].
      - destruct (choose_left st k (kcost (p - 1) (k - 1)) L LT (D2 (k - 1) ltac:(lia) OL)) as (c & C & LE).
        exists c. split; [exact C|].
        destruct (Z.eq_dec (k - 1) delta) as [E|NE]; [rewrite kcost_le in LE by lia | rewrite kcost_gt in LE by lia]; lia.
      - destruct (Z.eq_dec k (delta + p)) as [KE|KN].
        + destruct (IDead (k + 1)) as [D _]; [lia|]. lia.
        + destruct (IDn (k + 1)) as (L' & B1' & B2'); [lia|].
          destruct (choose_right st k (kcost p (k + 1)) L' GE (D3 (k + 1) ltac:(lia))) as (c & C & LE).
          exists c. split; [exact C|]. rewrite kcost_gt in LE by lia. lia. }
    destruct (step_cc st st' k _ ST CH) as [NEW KEEP].
    split; [|split].
    - intros j J. apply KEEP; [lia|apply D1; lia].
    - intros j J OL. apply KEEP; [lia|apply D2; [lia|exact OL]].
    - intros j J. destruct (Z.eq_dec j k) as [->|NE]; [exact NEW|]. apply KEEP; [exact NE|apply D3; lia].
  Qed.

  Lemma loop_down_CI p : forall cnt k st st',
    0 <= p -> k - Z.of_nat cnt = delta -> k <= delta + p -> InvDown p k st -> DownCI p k st ->
    loop_down A eqv cnt a b size offset k st = Ok st' -> DownCI p delta st'.
  Proof.
    induction cnt as [|cnt IH]; intros k st st' P0 KC KP I D L.
    - simpl in L. inversion L; subst. replace delta with k by lia. exact D.
    - simpl in L. apply bind_ok in L as (st1 & ST & L).
      apply (IH (k - 1) st1 st'); try lia; [| |exact L].
      + apply (down_step A eqv a b size Hmn p k st st1); [lia|lia|exact I|exact ST].
      + apply (down_step_CI p k st st1); [lia|lia|exact I|exact D|exact ST].
  Qed.

  Lemma final_step_CI p st st' :
    0 <= p -> InvDown p delta st -> DownCI p delta st ->
    step_k A eqv a b size offset st delta = Ok st' ->
    forall j, - p <= j <= delta + p -> CI (kcost p j) st' j.
  Proof.
    intros P0 (EO & ID & IUp & IOld & IDn & IDead) (D1 & D2 & D3) ST.
    assert (CH : exists c, cc (routes st) (chosen st delta) delta c /\ c <= kcost p delta).
    { rewrite kcost_le by lia.
      destruct (Z_lt_le_dec (delta + p) 1) as [Z0|Z1].
      - destruct (choose_origin st delta) as (c & C & LE); [lia | apply ID; lia | apply IDead; lia |].
        exists c. split; [exact C|lia].
      - destruct (IUp (delta - 1)) as (L & B1 & B2); [lia|]. pose proof L as (L1 & _).
        destruct (Z_lt_le_dec (F st (delta + 1)) (F st (delta - 1) + 1)) as [LT|GE].
        + destruct (choose_left st delta (kcost p (delta - 1)) L LT (D1 (delta - 1) ltac:(lia))) as (c & C & LE).
          exists c. split; [exact C|]. rewrite kcost_le in LE by lia. lia.
        + destruct (Z.eq_dec p 0) as [PZ|PN].
          * destruct (IDead (delta + 1)) as [D _]; [lia|]. lia.
          * destruct (IDn (delta + 1)) as (L' & B1' & B2'); [lia|].
            destruct (choose_right st delta (kcost p (delta + 1)) L' GE (D3 (delta + 1) ltac:(lia))) as (c & C & LE).
            exists c. split; [exact C|]. rewrite kcost_gt in LE by lia. lia. }
    destruct (step_cc st st' delta _ ST CH) as [NEW KEEP].
    intros j J. destruct (Z.eq_dec j delta) as [->|NE]; [exact NEW|].
    apply KEEP; [exact NE|]. destruct (Z_lt_le_dec j delta); [apply D1; lia | apply D3; lia].
  Qed.

  Lemma ploop_cost : forall fuel p st st',
    0 <= p -> Inv p st -> (forall j, oldlive p j -> CI (kcost (p - 1) j) st j) ->
    Z.of_nat (length (routes st)) = p * (delta + p) ->
    ploop A eqv route_size fuel a b size p st = Ok st' -> n <= F st' delta ->
    exists pf, p <= pf /\ Z.of_nat (length (routes st')) = (pf + 1) * (delta + pf + 1) /\
               CI (delta + 2 * pf) st' delta.
  Proof.
    induction fuel as [|fuel IH]; intros p st st' P0 I CIA LEN L FN; [discriminate|].
    simpl in L.
    apply bind_ok in L as (st1 & L1 & L). apply bind_ok in L as (st2 & L2 & L). apply bind_ok in L as (st3 & L3 & L).
    pose proof (loop_up_len _ _ _ _ _ _ _ _ _ L1) as N1. pose proof (loop_down_len _ _ _ _ _ _ _ _ _ L2) as N2.
    pose proof (step_len _ _ _ _ _ _ _ _ L3) as N3.
    pose proof (inv_round_bound A eqv a b Hmn _ _ P0 I) as PM.
    pose proof (inv_to_up A eqv a b p st P0 I) as IU.
    assert (U0 : UpCI p (- p) st).
    { split; [intros j J; lia | intros j _ OL; apply CIA; exact OL]. }
    assert (UF : UpCI p delta st1) by (apply (loop_up_CI p (Z.to_nat (delta + p)) (- p) st st1); try lia; assumption).
    destruct UF as [U1 U2].
    apply (loop_up_ok A eqv a b size Hmn p) in L1; [|lia|lia|lia|exact IU].
    apply up_to_down in L1; [|lia].
    assert (D0 : DownCI p (delta + p) st1).
    { split; [exact U1|]. split; [intros j J OL; apply U2; [lia|exact OL] | intros j J; lia]. }
    assert (DF : DownCI p delta st2) by (apply (loop_down_CI p (Z.to_nat p) (delta + p) st1 st2); try lia; assumption).
    apply (loop_down_ok A eqv a b size Hmn p) in L2; [|lia|lia|lia|exact L1].
    pose proof (final_step_CI p st2 st3 P0 L2 DF L3) as CI3.
    destruct (final_step A eqv a b size Hmn _ _ _ P0 L2 L3) as (EO & LK & LE & NX).
    assert (LEN3 : Z.of_nat (length (routes st3)) = (p + 1) * (delta + (p + 1))).
    { rewrite N3, N2, N1. nia. }
    fold (F st3 delta) in L.
    destruct (F st3 delta >=? n) eqn:C1.
    - simpl in L. inversion L; subst st'. exists p. split; [lia|]. split; [rewrite LEN3; ring|].
      specialize (CI3 delta ltac:(lia)). rewrite kcost_le in CI3 by lia.
      replace (delta + 2 * p) with (2 * p + delta) by lia. exact CI3.
    - rewrite Z.geb_leb in C1. apply Z.leb_gt in C1. simpl in L.
      destruct (Z.of_nat (length (routes st3)) >? route_size) eqn:C2.
      + inversion L; subst st'. lia.
      + destruct (IH (p + 1) st3 st') as (pf & PF1 & PF2 & PF3); try lia; auto.
        * intros j OL. replace (p + 1 - 1) with p by lia. apply CI3. unfold Proofs_Search.oldlive in OL. lia.
        * exists pf. split; [lia|]. auto.
  Qed.

  (** the route chain from the corner changes diagonal at most delta + 2 pf times *)
  Lemma search_chain_cost st :
    search A eqv route_size a b size = Ok st -> n <= fp st (delta + offset) ->
    exists pf, 0 <= pf /\ Z.of_nat (length (routes st)) = (pf + 1) * (delta + pf + 1) /\
               CI (delta + 2 * pf) st delta.
  Proof.
    intros S FN. unfold search in S.
    apply ploop_cost in S; [exact S | lia | apply init_inv | | simpl; lia | exact FN].
    intros j OL. unfold Proofs_Search.oldlive in OL. lia.
  Qed.
End ChainCost.

(** * The walker makes one insertion or deletion per change of diagonal *)

Section WalkCost.
  Variable A : Type.
  Variable eqv : A -> A -> option bool.

  Notation zlen := (zlen A).

  (** elements under the Add and Delete edits recorded so far *)
  Definition rcnt (e : redit A) : Z := match rk A e with RCommon => 0 | _ => zlen (rvals A e) end.
  Fixpoint ncost (es : list (redit A)) : Z := match es with [] => 0 | e :: r => rcnt e + ncost r end.
  Definition kstep (kind : rkind) : Z := match kind with RCommon => 0 | _ => 1 end.

  Lemma ncost_app l1 l2 : ncost (l1 ++ l2) = ncost l1 + ncost l2.
  Proof. induction l1; simpl; lia. Qed.

  Lemma ncost_rev l : ncost (rev l) = ncost l.
  Proof. induction l; simpl; [reflexivity|]. rewrite ncost_app. simpl. lia. Qed.

  Lemma extend_cost kind from loc es es' :
    extend A kind from loc es = Ok es' -> ncost es' = ncost es + kstep kind.
  Proof.
    unfold extend. intros E.
    assert (FRESH : (vs <- zslice A from loc (loc + 1) ;; Ok (mkRedit A kind loc vs :: es)) = Ok es' ->
                    ncost es' = ncost es + kstep kind).
    { intros H. apply bind_ok in H as (vs & S & H). inversion H; subst. apply zslice_len in S.
      simpl. unfold rcnt; simpl. destruct kind; simpl; lia. }
    destruct es as [|last rest]; [exact (FRESH E)|].
    destruct (rkind_eqb (rk A last) kind && (rstart A last + zlen (rvals A last) =? loc)) eqn:C; [|exact (FRESH E)].
    apply andb_true_iff in C as [C1 C2]. apply rkind_eqb_eq in C1. apply Z.eqb_eq in C2.
    apply bind_ok in E as (vs & S & E). inversion E; subst es'. apply zslice_len in S.
    simpl. unfold rcnt; simpl. rewrite C1. destruct kind; simpl; lia.
  Qed.

  Lemma walk_cost a b reverse tx ty : forall fuel s s',
    walk A fuel a b reverse tx ty s = Ok s' -> px A s <= tx -> py A s <= ty ->
    ncost (redits A s') = ncost (redits A s) + Z.abs ((ty - tx) - (py A s - px A s)).
  Proof.
    induction fuel as [|f IHf]; intros s s' W L1 L2.
    - simpl in W. destruct ((px A s <? tx) || (py A s <? ty)) eqn:G; [discriminate|].
      apply orb_false_iff in G as [G1 G2]. apply Z.ltb_ge in G1, G2. inversion W; subst. lia.
    - simpl in W. destruct ((px A s <? tx) || (py A s <? ty)) eqn:G.
      2:{ apply orb_false_iff in G as [G1 G2]. apply Z.ltb_ge in G1, G2. inversion W; subst. lia. }
      assert (G' : px A s < tx \/ py A s < ty) by (apply orb_true_iff in G as [G|G]; apply Z.ltb_lt in G; lia).
      destruct (ty - tx >? py A s - px A s) eqn:C1.
      + apply Z.gtb_lt in C1. apply bind_ok in W as (es & E & W).
        apply extend_cost in E. apply IHf in W; simpl in *; [|lia|lia].
        replace (kstep (if reverse then RDelete else RAdd)) with 1 in E by (destruct reverse; reflexivity). lia.
      + rewrite Z.gtb_ltb in C1. rewrite Z.ltb_ge in C1.
        destruct (ty - tx <? py A s - px A s) eqn:C2.
        * apply Z.ltb_lt in C2. apply bind_ok in W as (es & E & W).
          apply extend_cost in E. apply IHf in W; simpl in *; [|lia|lia].
          replace (kstep (if reverse then RAdd else RDelete)) with 1 in E by (destruct reverse; reflexivity). lia.
        * apply Z.ltb_ge in C2. apply bind_ok in W as (es & E & W).
          apply extend_cost in E. apply IHf in W; simpl in *; [|lia|lia]. lia.
  Qed.

  Lemma record_cost a b reverse ex ey kend : forall pts s s',
    path_ok A eqv a b (px A s) (py A s) pts ex ey ->
    record_pts A a b reverse pts s = Ok s' ->
    ncost (redits A s') + Z.abs (kend - (ey - ex)) = ncost (redits A s) + fcost (py A s - px A s) pts kend.
  Proof.
    induction pts as [|[x y] pts IH]; intros s s' PO R.
    - simpl in *. destruct PO as [<- <-]. inversion R; subst. lia.
    - simpl in PO, R. destruct PO as ((L1 & L2 & _) & _ & _ & PO).
      apply bind_ok in R as (s1 & W & R).
      pose proof (walk_end A a b reverse x y _ _ _ W L1 L2) as [PX PY].
      apply walk_cost in W; [|exact L1|exact L2].
      rewrite <- PX, <- PY in PO. specialize (IH s1 s' PO R). rewrite PX, PY in IH. simpl. lia.
  Qed.
End WalkCost.

(** * The replace merge does not change the cost *)

Section MergeCost.
  Variable A : Type.

  Notation zlen := (zlen A).

  Definition zc (es : list (edit A)) : Z := Z.of_nat (script_cost es).

  Lemma zc_cons e es : zc (e :: es) = Z.of_nat (edit_cost e) + zc es.
  Proof. unfold zc, script_cost. simpl. lia. Qed.

  Lemma zc_app l1 l2 : zc (l1 ++ l2) = zc l1 + zc l2.
  Proof. induction l1 as [|e l1 IH]; [unfold zc; simpl; lia|]. simpl. rewrite !zc_cons, IH. lia. Qed.

  Lemma zc_rev l : zc (rev l) = zc l.
  Proof. induction l as [|e l IH]; [reflexivity|]. simpl. rewrite zc_app, IH, !zc_cons. unfold zc, script_cost; simpl. lia. Qed.

  Lemma mk_edit_cost e : Z.of_nat (edit_cost (mk_edit A e)) = rcnt A e.
  Proof. unfold mk_edit, rcnt, edit_cost. destruct (rk A e); simpl; unfold Model.zlen; lia. Qed.

  Lemma merge_cost : forall raw acc script,
    acc_wf A acc -> merge A raw acc = Ok script -> zc script = zc acc + ncost A raw.
  Proof.
    induction raw as [|e raw IH]; intros acc script WF M.
    - simpl in M. inversion M; subst. rewrite zc_rev. simpl. lia.
    - simpl in M.
      assert (PUSH : merge A raw (mk_edit A e :: acc) = Ok script -> zc script = zc acc + ncost A (e :: raw)).
      { intros M'. apply IH in M'.
        - rewrite M', zc_cons, mk_edit_cost. simpl. lia.
        - constructor; [apply mk_edit_wf | exact WF]. }
      destruct acc as [|tail acc']; [exact (PUSH M)|].
      destruct (is_add A e && is_delete A tail) eqn:C; [|exact (PUSH M)].
      clear PUSH. apply andb_true_iff in C as [C1 C2].
      unfold is_add in C1. unfold is_delete in C2.
      destruct (rk A e) eqn:RK; try discriminate.
      destruct (ek tail) eqn:EK; try discriminate.
      inversion WF as [|? ? WT WF']; subst. specialize (WT EK).
      assert (TC : zc (tail :: acc') = zlen (eold tail) + zc acc').
      { rewrite zc_cons. unfold edit_cost. rewrite EK, WT. simpl. unfold Model.zlen. lia. }
      assert (EC : ncost A (e :: raw) = zlen (rvals A e) + ncost A raw).
      { simpl. unfold rcnt. rewrite RK. reflexivity. }
      rewrite TC, EC.
      destruct (zlen (eold tail) <? zlen (rvals A e)) eqn:L1.
      + apply bind_ok in M as (new0 & S1 & M). apply bind_ok in M as (rest & S2 & M).
        apply IH in M.
        * rewrite M, !zc_cons. unfold edit_cost; simpl.
          apply zslice_len in S1. apply zslice_len in S2. unfold Model.zlen in *. lia.
        * repeat (constructor; [simpl; intros; try reflexivity; congruence|]); exact WF'.
      + destruct (zlen (eold tail) >? zlen (rvals A e)) eqn:L2.
        * apply bind_ok in M as (old0 & S1 & M). apply bind_ok in M as (rest & S2 & M).
          apply IH in M.
          -- rewrite M, !zc_cons. unfold edit_cost; simpl.
             apply zslice_len in S1. apply zslice_len in S2. unfold Model.zlen in *. lia.
          -- repeat (constructor; [simpl; intros; try reflexivity; congruence|]); exact WF'.
        * apply IH in M.
          -- rewrite M, !zc_cons. unfold edit_cost; simpl. unfold Model.zlen in *. lia.
          -- repeat (constructor; [simpl; intros; try reflexivity; congruence|]); exact WF'.
  Qed.
End MergeCost.

(** * The script is a shortest edit script *)

Section Shortest.
  Variable A : Type.
  Variable eqv : A -> A -> option bool.
  Variable route_size : Z.

  (** cost of the script = changes of diagonal along the route chain <= delta + 2 pf, and no edit path makes
      fewer than pf deletions (hence fewer than delta + pf insertions) *)
  Lemma script_cost_exact_lemma a b script :
    diff_slice A eqv route_size a b = Ok script ->
    exhausted A eqv route_size a b = Ok false ->
    let a' := if zlen A a >=? zlen A b then b else a in
    let b' := if zlen A a >=? zlen A b then a else b in
    exists pf, 0 <= pf /\
      Z.of_nat (script_cost script) <= (zlen A b' - zlen A a') + 2 * pf /\
      forall d, reach A eqv a' b' (zlen A a') (zlen A b') d -> pf <= d.
  Proof.
    unfold diff_slice, exhausted. intros D X.
    set (reverse := zlen A a >=? zlen A b) in *.
    set (a' := if reverse then b else a) in *.
    set (b' := if reverse then a else b) in *.
    assert (LE : zlen A a' <= zlen A b').
    { unfold a', b', reverse. destruct (zlen A a >=? zlen A b) eqn:G.
      - rewrite Z.geb_leb in G. apply Z.leb_le in G. exact G.
      - rewrite Z.geb_leb in G. apply Z.leb_gt in G. lia. }
    apply bind_ok in X as (st & S & X). inversion X as [X']; clear X.
    apply negb_false_iff in X'. rewrite Z.geb_leb in X'. apply Z.leb_le in X'.
    apply bind_ok in D as (raw & C & M).
    simpl in C. rewrite S in C. simpl in C.
    apply bind_ok in C as (r & G & C).
    unfold aget in G. destruct ((0 <=? _) && (_ <? _)) in G; [|discriminate]. inversion G; subst r; clear G.
    apply bind_ok in C as (epc & CH & C).
    change (chain (Datatypes.S (length (routes st))) (routes st) (path st (zlen A b' - zlen A a' + (zlen A a' + 1))) = Ok epc) in CH.
    apply bind_ok in C as (s & R & C).
    pose proof (search_valid_lemma A eqv route_size a' b' _ LE st epc S X' CH) as V.
    pose proof (record_pts_ok A eqv a' b' reverse (rev epc) (mkR A 0 0 []) s) as RO.
    destruct RO as (_ & PX & PY).
    { unfold inv; simpl. pose proof (zlen_nonneg A a'). pose proof (zlen_nonneg A b').
      repeat split; try lia; destruct reverse; simpl; try reflexivity; constructor. }
    { exact V. }
    { exact R. }
    replace ((px A s + 1 >? zlen A a') && (py A s + 1 >? zlen A b')) with true in C.
    2:{ symmetry. apply andb_true_iff. split; apply Z.gtb_lt; lia. }
    inversion C; subst raw; clear C.
    destruct (search_chain_cost A eqv route_size a' b' _ LE st S X') as (pf1 & P1 & LEN1 & c & CC & CLE).
    destruct (search_lower_bound_lemma A eqv route_size a' b' _ LE st S X') as (pf2 & P2 & LEN2 & LB).
    assert (pf1 = pf2) by nia. subst pf2.
    exists pf1. split; [exact P1|]. split; [|exact LB].
    (* the chain is a monotone path to the corner *)
    pose proof S as S1. unfold search in S1.
    apply (ploop_ok A eqv route_size a' b' _ LE) in S1; [|lia|apply init_inv|exact X'].
    destruct S1 as (EO & (L1 & L2 & r0 & N) & FE).
    pose proof (chain_ok A eqv a' b' _ EO _ _ _ CH) as PTH.
    fold (Proofs_Search.P A a' st (zlen A b' - zlen A a')) in PTH.
    destruct PTH as [[PTH _]|(x & y & r' & N' & _ & PTH)]; [lia|].
    rewrite N in N'. inversion N'; subst x y r'; clear N'.
    pose proof (chain_cc _ _ _ _ CH _ _ CC) as CE. rewrite rcost_fcost in CE.
    pose proof (record_cost A eqv a' b' reverse _ _ (zlen A b' - zlen A a') (rev epc) (mkR A 0 0 []) s PTH R) as RC.
    simpl in RC. rewrite FE in RC.
    apply merge_cost in M; [|constructor]. rewrite ncost_rev in M.
    unfold zc in M. simpl in M. unfold Proofs_Search.F in *.
    replace (0 - 0) with 0 in RC by lia. lia.
  Qed.

  Lemma script_is_shortest_lemma a b script d :
    diff_slice A eqv route_size a b = Ok script ->
    exhausted A eqv route_size a b = Ok false ->
    let a' := if zlen A a >=? zlen A b then b else a in
    let b' := if zlen A a >=? zlen A b then a else b in
    reach A eqv a' b' (zlen A a') (zlen A b') d ->
    Z.of_nat (script_cost script) <= d + (d + (zlen A b' - zlen A a')).
  Proof.
    intros D X a' b' R. destruct (script_cost_exact_lemma a b script D X) as (pf & _ & UB & LB).
    fold a' b' in UB, LB. specialize (LB d R). lia.
  Qed.
End Shortest.
