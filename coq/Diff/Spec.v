(** Specification vocabulary for C16 (definitions only). *)
From Dawn Require Import Diff.Model.
Open Scope Z_scope.

Section SeqSpec.
  Variable A : Type.
  Variable eqv : A -> A -> option bool.

  Definition eqvb (x y : A) : bool := match eqv x y with Some true => true | _ => false end.

  (** "the same element up to the equivalence": identical, or reported equal by [eqv] in either order *)
  Definition equiv (x y : A) : Prop := x = y \/ eqv x y = Some true \/ eqv y x = Some true.

  (** the two projections of an edit script: kept + deleted + old sides of replacements, and
      kept + added + new sides of replacements, in order *)
  Definition old_proj (es : list (edit A)) : list A := flat_map eold es.
  Definition new_proj (es : list (edit A)) : list A := flat_map enew es.

  (** [a] = old value's elements, [b] = new value's elements *)
  Definition faithful (a b : list A) (es : list (edit A)) : Prop :=
    old_proj es = a /\ Forall2 equiv (new_proj es) b.

  Definition znth (l : list A) (i : Z) : option A :=
    if i <? 0 then None else nth_error l (Z.to_nat i).

  (** [cnt] matching pairs a[lo+i] ~ b[lo+k+i], i < cnt *)
  Fixpoint diag_okb (a b : list A) (lo k : Z) (cnt : nat) : bool :=
    match cnt with
    | O => true
    | S c =>
        match znth a lo, znth b (lo + k) with
        | Some u, Some v => eqvb u v && diag_okb a b (lo + 1) k c
        | _, _ => false
        end
    end.

  (** A path is the list of points visited by recordSeq, in walking order.  From (px, py) the walker goes to
      the next point (x, y) by |dy - dx| insertions or deletions followed by min(dx, dy) diagonal steps; the
      path is valid when no point lies behind or outside the two sequences, every diagonal step joins
      equivalent elements, and the walk ends in the far corner. *)
  Fixpoint valid_from (a b : list A) (px py : Z) (pts : list (Z * Z)) : bool :=
    match pts with
    | [] => (px =? zlen A a) && (py =? zlen A b)
    | (x, y) :: rest =>
        (px <=? x) && (py <=? y) && (x <=? zlen A a) && (y <=? zlen A b) &&
        (let c := Z.min (x - px) (y - py) in diag_okb a b (x - c) (y - x) (Z.to_nat c)) &&
        valid_from a b x y rest
    end.

  Definition valid_path (a b : list A) (pts : list (Z * Z)) : bool := valid_from a b 0 0 pts.
End SeqSpec.
