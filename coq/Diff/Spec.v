(** Specification vocabulary for C16 (definitions only). *)
From Dawn Require Import Diff.Model.
Open Scope Z_scope.

Section SeqSpec.
  Variable A : Type.
  Variable eqv : A -> A -> option bool.

  Definition eqvb (x y : A) : bool := match eqv x y with Some true => true | _ => false end.

  (** "the same element up to the equivalence": identical, or reported equal by [eqv] in either order *)
  Definition equiv (x y : A) : Prop := x = y \/ eqv x y = Some true \/ eqv y x = Some true.

  (** the two projections of an edit script: kept + deleted + old sides of replacements, and
      kept + added + new sides of replacements, in order *)
  Definition old_proj (es : list (edit A)) : list A := flat_map eold es.
  Definition new_proj (es : list (edit A)) : list A := flat_map enew es.

  (** [a] = old value's elements, [b] = new value's elements *)
  Definition faithful (a b : list A) (es : list (edit A)) : Prop :=
    old_proj es = a /\ Forall2 equiv (new_proj es) b.

  Definition znth (l : list A) (i : Z) : option A :=
    if i <? 0 then None else nth_error l (Z.to_nat i).

  (** [cnt] matching pairs a[lo+i] ~ b[lo+k+i], i < cnt *)
  Fixpoint diag_okb (a b : list A) (lo k : Z) (cnt : nat) : bool :=
    match cnt with
    | O => true
    | S c =>
        match znth a lo, znth b (lo + k) with
        | Some u, Some v => eqvb u v && diag_okb a b (lo + 1) k c
        | _, _ => false
        end
    end.

  (** A path is the list of points visited by recordSeq, in walking order.  From (px, py) the walker goes to
      the next point (x, y) by |dy - dx| insertions or deletions followed by min(dx, dy) diagonal steps; the
      path is valid when no point lies behind or outside the two sequences, every diagonal step joins
      equivalent elements, and the walk ends in the far corner. *)
  Fixpoint valid_from (a b : list A) (px py : Z) (pts : list (Z * Z)) : bool :=
    match pts with
    | [] => (px =? zlen A a) && (py =? zlen A b)
    | (x, y) :: rest =>
        (px <=? x) && (py <=? y) && (x <=? zlen A a) && (y <=? zlen A b) &&
        (let c := Z.min (x - px) (y - py) in diag_okb a b (x - c) (y - x) (Z.to_nat c)) &&
        valid_from a b x y rest
    end.

  Definition valid_path (a b : list A) (pts : list (Z * Z)) : bool := valid_from a b 0 0 pts.
End SeqSpec.

(** * Value level *)

(** shape of a script entry: kept elements are shown once, a replacement pairs equally many elements *)
Definition edit_shape {A} (e : edit A) : Prop :=
  match ek e with
  | KCommon => eold e = enew e
  | KDelete => enew e = []
  | KAdd => eold e = []
  | KReplace => length (eold e) = length (enew e)
  end.

(** what one entry of a replace payload shows about the pair (o, n) it stands for: a diff carries both
    sides; starlark.None stands for a pair that compares equal *)
Definition entry_shows (d : nat) (o n : value) (od : option vdiff) : Prop :=
  match od with
  | Some df => dold df = o /\ dnew df = n
  | None => veq_d d o n = Some true
  end.

Fixpoint shows_all (d : nat) (os ns : list value) (ds : list (option vdiff)) : Prop :=
  match os, ns, ds with
  | o :: os', n :: ns', x :: ds' => entry_shows d o n x /\ shows_all d os' ns' ds'
  | [], _, [] => True
  | _, [], [] => True
  | _, _, _ => False
  end.

(** how a reported Edit shows the parts of its script entry; [ca] / [cb] are the kinds of the old and the
    new container, [mk c vs] is the slice of kind [c] holding exactly the elements [vs] *)
Inductive rendered (d : nat) (ca cb : ckind) : edit value -> sedit -> Prop :=
| R_common os ns : rendered d ca cb (mkEdit KCommon os ns) (SE KCommon (mk ca os))
| R_delete os ns : rendered d ca cb (mkEdit KDelete os ns) (SE KDelete (mk ca os))
| R_add os ns : rendered d ca cb (mkEdit KAdd os ns) (SE KAdd (mk cb ns))
| R_replace_str os ns :
    stringlike ca && stringlike cb = true ->
    rendered d ca cb (mkEdit KReplace os ns) (SRepl [Some (DLit (mk ca os) (mk cb ns))])
| R_replace os ns ds :
    stringlike ca && stringlike cb = false ->
    shows_all d os ns ds ->
    rendered d ca cb (mkEdit KReplace os ns) (SRepl ds).

(** the value a dict holds for a key *)
Definition dict_get (k : value) (kvs : list (value * value)) : option value := lookup key_eq k kvs.

(** every edit of a mapping diff is for a key removed, changed or added, with the right kind and values *)
Definition map_sound (d : nat) (old new : list (value * value)) (edits : list (value * medit)) : Prop :=
  forall k e, In (k, e) edits ->
    (exists ov, In (k, ov) old /\ dict_get k new = None /\ e = MDel ov) \/
    (exists ov nv df, In (k, ov) old /\ dict_get k new = Some nv /\ veq_d d ov nv = Some false /\
                      e = MRepl df /\ dold df = ov /\ dnew df = nv) \/
    (exists nv, In (k, nv) new /\ dict_get k old = None /\ e = MAdd nv).

(** and every key removed, changed or added has its edit *)
Definition map_complete (d : nat) (old new : list (value * value)) (edits : list (value * medit)) : Prop :=
  (forall k ov, In (k, ov) old -> dict_get k new = None -> In (k, MDel ov) edits) /\
  (forall k ov nv, In (k, ov) old -> dict_get k new = Some nv -> veq_d d ov nv = Some false ->
                   exists df, In (k, MRepl df) edits /\ dold df = ov /\ dnew df = nv) /\
  (forall k nv, In (k, nv) new -> dict_get k old = None -> In (k, MAdd nv) edits).

(** substring test, for "the reason names the key" *)
Fixpoint is_substr (p s : str) : bool :=
  has_prefix p s || match s with [] => false | _ :: s' => is_substr p s' end.

(** the two environments differ at a key *)
Definition env_differs (d : nat) (o n : option value) : Prop :=
  match o, n with
  | None, None => False
  | Some ov, Some nv => veq_d d ov nv = Some false
  | _, _ => True
  end.
