(** Specification vocabulary for the minimality of edit scripts: the edit graph (definitions only). *)
From Dawn Require Import Diff.Model Diff.Spec.
Open Scope Z_scope.

Section EditGraph.
  Variable A : Type.
  Variable eqv : A -> A -> option bool.
  Variables a b : list A.

  (** [reach x y d]: the point (x, y) of the edit graph of [a] and [b] can be reached from the origin by a
      path with [d] deletions (steps along [a]); insertions are steps along [b]; a diagonal step needs two
      elements that the equivalence reports equal *)
  Inductive reach : Z -> Z -> Z -> Prop :=
  | r_origin : reach 0 0 0
  | r_del x y d : reach x y d -> x < zlen A a -> reach (x + 1) y (d + 1)
  | r_ins x y d : reach x y d -> y < zlen A b -> reach x (y + 1) d
  | r_diag x y d u v : reach x y d -> znth A a x = Some u -> znth A b y = Some v -> eqv u v = Some true ->
                       reach (x + 1) (y + 1) d.
End EditGraph.
