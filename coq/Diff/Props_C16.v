(** C16 - Diffs are faithful to both values.  Statements only; the proofs are in Diff/Proofs_*.v. *)
From Dawn Require Import Diff.Model Diff.Proofs_Basic.
Open Scope Z_scope.

(** The diff of two values is empty exactly when they are equal (EqualDepth at the same depth says true). *)
Theorem diff_empty_iff_equal : forall route_size depth a b,
  diff_depth route_size depth a b = Ok None <-> veq_d depth a b = Some true.
Proof. exact diff_depth_empty_iff. Qed.
Print Assumptions diff_empty_iff_equal.

(** Otherwise its old and new sides are the two values in the order given. *)
Theorem diff_sides_in_order : forall route_size depth a b d,
  diff_depth route_size depth a b = Ok (Some d) -> dold d = a /\ dnew d = b.
Proof. exact diff_depth_sides. Qed.
Print Assumptions diff_sides_in_order.
