(** C16 - Diffs are faithful to both values.  Statements only; the proofs are in Diff/Proofs_*.v.
    Vocabulary: Diff/Model.v (the transcription of diff/*.go and function.go:diffEnv) and Diff/Spec.v. *)
From Dawn Require Import Diff.Model Diff.Spec Diff.Proofs_Basic Diff.Proofs_Record Diff.Proofs_Search
     Diff.Proofs_Seq Diff.Proofs_Rounds Diff.Proofs_Value Diff.Proofs_Reason
     Diff.SpecCost Diff.SpecGraph Diff.Proofs_Total Diff.Proofs_Min Diff.Proofs_Opt Diff.Proofs_Short Diff.Sched Diff.Proofs_Sched
     Diff.ModelEnv Diff.Proofs_EnvParts Diff.Proofs_Sides.
Open Scope Z_scope.

(** The diff of two values is empty exactly when they are equal (EqualDepth at the same depth says true). *)
Theorem diff_empty_iff_equal : forall route_size depth a b,
  diff_depth route_size depth a b = Ok None <-> veq_d depth a b = Some true.
Proof. exact diff_depth_empty_iff. Qed.
Print Assumptions diff_empty_iff_equal.

(** Otherwise its old and new sides are the two values in the order given. *)
Theorem diff_sides_in_order : forall route_size depth a b d,
  diff_depth route_size depth a b = Ok (Some d) -> dold d = a /\ dnew d = b.
Proof. exact diff_depth_sides. Qed.
Print Assumptions diff_sides_in_order.

(** First layer of the sequence case.  ANY valid path (Spec.valid_path: a checkable predicate), walked by
    recordSeq/extend and passed through the delete+add -> replace merge, gives a script whose old projection
    (kept + deleted + old sides of replacements) is the old sequence and whose new projection is the new
    sequence up to the equivalence, in order -- for either value of the swap flag [reverse], where the
    walker's [a'], [b'] are (new, old) if [reverse] and (old, new) otherwise. *)
Theorem record_faithful : forall (A : Type) (eqv : A -> A -> option bool) a' b' reverse pts s script,
  valid_path A eqv a' b' pts = true ->
  record_pts A a' b' reverse pts (mkR A 0 0 []) = Ok s ->
  merge A (rev (redits A s)) [] = Ok script ->
  faithful A eqv (if reverse then b' else a') (if reverse then a' else b') script.
Proof. exact record_faithful_lemma. Qed.
Print Assumptions record_faithful.

(** Second layer.  The O(NP) search of compose (shorter sequence first), when it stops because the far corner
    was reached (fp[delta] >= n, i.e. not because the route table was full), has recorded a chain of snake
    end points that is a valid path. *)
Theorem search_valid : forall (A : Type) (eqv : A -> A -> option bool) route_size a b size st epc,
  zlen A a <= zlen A b ->
  search A eqv route_size a b size = Ok st ->
  zlen A b <= fp st (zlen A b - zlen A a + (zlen A a + 1)) ->
  chain (S (length (routes st))) (routes st) (path st (zlen A b - zlen A a + (zlen A a + 1))) = Ok epc ->
  valid_path A eqv a b (rev epc) = true.
Proof. intros A eqv rs a b size st epc H. exact (search_valid_lemma A eqv rs a b size H st epc). Qed.
Print Assumptions search_valid.

(** Both layers together, for diffSlice on any element type: whenever it returns a script at all (i.e. no
    EqualDepth error, and the model's fuel is not exceeded), the script is faithful to both sequences in the
    order given, whatever their relative lengths.  This includes the case in which the route table fills up
    and compose goes round its outer loop again on the remaining suffixes (the search then yields a valid
    path to an intermediate point, and the walker continues from what the earlier rounds recorded). *)
Theorem seq_edits_faithful_generic : forall (A : Type) (eqv : A -> A -> option bool) route_size a b script,
  diff_slice A eqv route_size a b = Ok script ->
  old_proj A script = a /\ Forall2 (equiv A eqv) (new_proj A script) b.
Proof. exact diff_slice_faithful_all. Qed.
Print Assumptions seq_edits_faithful_generic.

(** The route table cannot fill up when (m+1)(n+1) <= defaultRouteSize (2 000 000: e.g. both sequences
    shorter than 1 413 elements); then a single search reaches the far corner. *)
Theorem route_table_suffices : forall (A : Type) (eqv : A -> A -> option bool) route_size a b script,
  (zlen A a + 1) * (zlen A b + 1) <= route_size ->
  diff_slice A eqv route_size a b = Ok script ->
  exhausted A eqv route_size a b = Ok false.
Proof. exact not_exhausted. Qed.
Print Assumptions route_table_suffices.

(** The same for DiffDepth on two sliceable Starlark values (strings, bytes, tuples, lists, in any
    combination; [ea], [eb] are their elements as returned by Index): the diff is a SliceableDiff whose edits
    show ([rendered]) the parts of a script whose old projection is [ea] and whose new projection is [eb] up
    to EqualDepth, in order.  A replace payload entry is a nested diff carrying both elements, or None for a
    pair that compares equal ([entry_shows]). *)
Theorem seq_edits_faithful : forall route_size d a b ca ea cb eb df,
  sliceable a = Some (ca, ea) -> sliceable b = Some (cb, eb) ->
  diff_depth route_size (S d) a b = Ok (Some df) ->
  exists script edits,
    df = DSlice a b edits /\
    Forall2 (rendered d ca cb) script edits /\
    Forall edit_shape script /\
    old_proj value script = ea /\
    Forall2 (equiv value (veq_d depth1000)) (new_proj value script) eb.
Proof. exact seq_edits_faithful_all_lemma. Qed.
Print Assumptions seq_edits_faithful.

(** What is NOT true of the code as it is: that every entry of a replace payload carries its two elements.
    When the route table fills up, the concatenation of the per-round scripts is not minimal and the merge
    can pair two equal elements, which diffReplacements renders as None: both elements vanish from the
    reported diff.  Witness in the model with a route table of 6 points (the harness exhibits the same on the
    real code with its 2 000 000 points, on a 1500 x 1700 pair of tuples). *)
Theorem seq_replacements_carry_sides_refuted :
  exists route_size a b edits ds,
    diff route_size a b = Ok (Some (DSlice a b edits)) /\ In (SRepl ds) edits /\ In None ds.
Proof. exact replace_none_exists. Qed.
Print Assumptions seq_replacements_carry_sides_refuted.

(** What IS true: when the route table is not exhausted, no replace edit pairs two elements that the comparison of
    the edit graph search reports equal (it compares an element of the shorter sequence with one of the longer
    one, hence the orientation), and the two elements are elements of the old and of the new sequence.  Otherwise
    the script would not be a shortest one (script_is_shortest): delete what precedes the pair, insert what
    precedes it, KEEP the pair, and go on -- two elements cheaper.  "Equal" is the comparison's notion, not "same
    type": an int and the float of the same value are such a pair. *)
Theorem replace_entries_pair_unequal_elements :
  forall (A : Type) (eqv : A -> A -> option bool) route_size a b script e i x y,
  diff_slice A eqv route_size a b = Ok script ->
  exhausted A eqv route_size a b = Ok false ->
  In e script -> ek e = KReplace ->
  nth_error (eold e) i = Some x -> nth_error (enew e) i = Some y ->
  In x a /\ In y b /\
  (if zlen A a >=? zlen A b then eqv y x else eqv x y) <> Some true.
Proof. exact replace_pairs_unequal_lemma. Qed.
Print Assumptions replace_entries_pair_unequal_elements.

(** Hence every entry of a replace payload carries its two sides (is a diff, never None) -- PROVIDED the comparison
    by which diffReplacements decides that a pair needs no diff (DiffDepth's EqualDepth, at the depth of the
    elements) never says "equal" where the search's comparison (EqualDepth at depth 1000, shorter sequence's
    element first) does not.  The stages of the diff each compare on their own; this is the statement of what
    goes wrong when one of them uses another notion of equality (say, "values of different types are unequal"
    in the search only: then 1 and 1.0 are deleted and added, merged into a replacement, and rendered as None). *)
Theorem seq_replacements_carry_sides : forall route_size d a b ca ea cb eb edits,
  sliceable a = Some (ca, ea) -> sliceable b = Some (cb, eb) ->
  diff_depth route_size (S d) a b = Ok (Some (DSlice a b edits)) ->
  exhausted value (veq_d depth1000) route_size ea eb = Ok false ->
  (forall o n, In o ea -> In n eb -> veq_d d o n = Some true ->
     (if zlen value ea >=? zlen value eb then veq_d depth1000 n o else veq_d depth1000 o n) = Some true) ->
  forall ds, In (SRepl ds) edits -> ~ In None ds.
Proof. exact seq_replacements_carry_sides_lemma. Qed.
Print Assumptions seq_replacements_carry_sides.

(** The proviso holds outright for sequences of scalars -- None, booleans, ints, floats, strings, bytes: there
    EqualDepth does not depend on the depth and is symmetric, across types too (1 == 1.0 both ways round).  So in
    the diff of two sequences of constants no element ever vanishes into a None entry, whatever the types of the
    numbers in them. *)
Theorem seq_of_scalars_replacements_carry_sides : forall route_size d a b ca ea cb eb edits,
  sliceable a = Some (ca, ea) -> sliceable b = Some (cb, eb) ->
  diff_depth route_size (S d) a b = Ok (Some (DSlice a b edits)) ->
  exhausted value (veq_d depth1000) route_size ea eb = Ok false ->
  forallb scalar ea = true -> forallb scalar eb = true ->
  forall ds, In (SRepl ds) edits -> ~ In None ds.
Proof. exact scalars_carry_sides_lemma. Qed.
Print Assumptions seq_of_scalars_replacements_carry_sides.

(** For mappings there is an edit exactly for each key added, removed or changed, of the right kind and
    carrying the right values ... *)
Theorem mapping_edits_exact : forall route_size d old new df,
  diff_depth route_size (S d) (VDict old) (VDict new) = Ok (Some df) ->
  exists edits, df = DMap (VDict old) (VDict new) edits /\
                map_sound d old new edits /\ map_complete d old new edits.
Proof. exact mapping_edits_exact_lemma. Qed.
Print Assumptions mapping_edits_exact.

(** ... in particular none for a key whose two values are equal (dict keys are distinct and equal to
    themselves). *)
Theorem mapping_no_edit_for_unchanged_key : forall route_size d old new edits k ov nv,
  diff_depth route_size (S d) (VDict old) (VDict new) = Ok (Some (DMap (VDict old) (VDict new) edits)) ->
  NoDup (map fst old) -> key_eq k k = true ->
  In (k, ov) old -> dict_get k new = Some nv -> veq_d d ov nv = Some true ->
  forall e, ~ In (k, e) edits.
Proof.
  intros rs d old new edits k ov nv D. apply mapping_edits_exact_lemma in D as (edits' & E & S & _).
  inversion E; subst edits'. exact (unchanged_key_no_edit d old new edits k ov nv S).
Qed.
Print Assumptions mapping_no_edit_for_unchanged_key.

(** The rebuild reason of an out-of-date target whose old and new environments are dicts that differ
    (DiffDepth, which diffEnv calls at depth 1000, returns a diff) names a key of functionEnvKeys exactly when
    the two environments differ at that key (present in one only, or bound to values that EqualDepth reports
    unequal), whatever the outcome of the preliminary stamp comparison. *)
Theorem reason_names_exactly_differing_keys : forall stamp route_size old new d r,
  NoDup (map fst old) -> NoDup (map fst new) ->
  diff_depth route_size depth1000 (VDict old) (VDict new) = Ok (Some d) ->
  diff_env stamp route_size (VDict old) (VDict new) = Ok (false, r) ->
  forall k, In k function_env_keys ->
    (is_substr k r = true <->
     env_differs (Nat.pred depth1000) (dict_get (VStr k) old) (dict_get (VStr k) new)).
Proof. exact reason_lemma. Qed.
Print Assumptions reason_names_exactly_differing_keys.

(** THE ENVIRONMENT OF A REAL TARGET.  The theorem above speaks of the keys diffEnv has a name for.  The two
    environments of a target are not arbitrary dicts: both are built by envUnpickler (Diff/ModelEnv.v: seven parts
    set by its case "FunctionCode", two more by its case "Function"), and the names written there are a second list,
    separate from functionEnvKeys.  For environments built that way the reason names EVERY part that differs: each key
    of either environment is a string that diffEnv has a name for and is named exactly when the environments differ
    at it, and the reason is never the catch-all "environment changed" (which would name none of the parts that
    differ).  The harness reads the keys of real targets' environments and compares them with [unpickled_env_keys]. *)
Theorem reason_names_every_differing_part_of_a_function_environment :
  forall stamp route_size (old_parts new_parts : env_parts) d r,
  diff_depth route_size depth1000 (VDict (env_of old_parts)) (VDict (env_of new_parts)) = Ok (Some d) ->
  diff_env stamp route_size (VDict (env_of old_parts)) (VDict (env_of new_parts)) = Ok (false, r) ->
  (forall key, In key (map fst (env_of old_parts)) \/ In key (map fst (env_of new_parts)) ->
     exists k, key = VStr k /\
       (is_substr k r = true <->
        env_differs (Nat.pred depth1000) (dict_get key (env_of old_parts)) (dict_get key (env_of new_parts)))) /\
  r <> s_environment_changed.
Proof. exact real_env_reason_lemma. Qed.
Print Assumptions reason_names_every_differing_part_of_a_function_environment.

(** In the remaining out-of-date cases (environments that cannot be compared within the depth limit, or that
    compare equal although the stamp changed, or that are not both dicts) diffEnv gives the generic reason
    "environment changed", which names no key. *)
Theorem generic_reason_names_no_key :
  forallb (fun k => negb (is_substr k s_environment_changed)) function_env_keys = true.
Proof. exact generic_reason_lemma. Qed.
Print Assumptions generic_reason_names_no_key.

(** TOTALITY.  The theorems above are about the runs that return; these say that every run does.
    [Panic] (an index or slice out of range) and [OutOfFuel] (the model's loop bounds exceeded, which is how a
    non-terminating Go loop would show) are explicit outcomes of the model; none is reachable.

    The O(NP) search, on sequences given shorter first and with the fp/path arrays of the size compose
    allocates (at least m + n + 3), returns a state, or the depth error of EqualDepth (and then some pair of
    elements really makes EqualDepth fail) -- for EVERY route-table size.  The fuel of the model that
    suffices is S (length a) iterations of the [for p] loop: p never exceeds the shorter length. *)
Theorem search_total : forall (A : Type) (eqv : A -> A -> option bool) route_size a b size,
  zlen A a <= zlen A b -> zlen A a + zlen A b + 3 <= size ->
  (exists st, search A eqv route_size a b size = Ok st) \/
  ((exists x y, eqv x y = None) /\ search A eqv route_size a b size = ErrDepth).
Proof. exact search_safe_lemma. Qed.
Print Assumptions search_total.

(** diffSlice, for all sequences in either order and every route-table size >= 1 (the code's is 2 000 000),
    returns a script or the depth error.  Fuel that suffices (the model's own): S (length routes) links when
    the route chain is followed back (each link points to an earlier entry), [walk_fuel] steps of the walker
    per point, and S (length a + length b) rounds of compose's outer loop, because a round that stops on a
    full route table has still moved the walker by at least one element; the replace merge cannot slice out
    of range. *)
Theorem diff_slice_total : forall (A : Type) (eqv : A -> A -> option bool) route_size a b,
  1 <= route_size ->
  (exists script, diff_slice A eqv route_size a b = Ok script) \/
  ((exists x y, eqv x y = None) /\ diff_slice A eqv route_size a b = ErrDepth).
Proof. exact diff_slice_total_lemma. Qed.
Print Assumptions diff_slice_total.

(** The bound on the route-table size is needed: with a table of size 0 compose's outer loop makes no
    progress on [1] against [2], whatever the number of rounds (the Go loop would never end; the constant in
    the source is 2 000 000 and the check compares it with the model's parameter). *)
Theorem route_size_zero_loops : forall rounds,
  compose_rounds Z (fun x y => Some (x =? y)) 0 rounds 5 true [1] [2] [] = OutOfFuel.
Proof. exact route_size_zero_loops_lemma. Qed.
Print Assumptions route_size_zero_loops.

(** DiffDepth (hence Diff, its instance at depth CompareLimit) on any two values of the universe, at any
    depth: a diff, "no difference", or the depth error; never a panic, never a loop. *)
Theorem diff_depth_total : forall route_size depth a b,
  1 <= route_size ->
  (exists r, diff_depth route_size depth a b = Ok r) \/ diff_depth route_size depth a b = ErrDepth.
Proof. exact diff_depth_total_lemma. Qed.
Print Assumptions diff_depth_total.

(** diffEnv always answers: its explicit panic "expected a diff in unequal environments" is unreachable and
    a depth error of DiffDepth becomes the generic reason. *)
Theorem diff_env_total : forall route_size, 1 <= route_size ->
  forall stamp old new, exists r, diff_env stamp route_size old new = Ok r.
Proof. exact diff_env_total_lemma. Qed.
Print Assumptions diff_env_total.

(** SIZE OF THE SCRIPT.  [script_cost] counts the elements deleted plus the elements inserted (a
    replacement counts both of its sides), [script_kept] the elements under Common edits.  Every element of
    either sequence is accounted for exactly once: cost + 2 * kept = |a| + |b|; in particular the script
    never deletes and inserts more than |a| + |b| elements. *)
Theorem script_cost_identity : forall (A : Type) (eqv : A -> A -> option bool) route_size a b script,
  diff_slice A eqv route_size a b = Ok script ->
  (script_cost script + 2 * script_kept script = length a + length b)%nat.
Proof. exact script_cost_identity_lemma. Qed.
Print Assumptions script_cost_identity.

(** COMMON PREFIX.  When the route table is not exhausted, the leading run of elements that the search finds
    equal (it compares the shorter sequence's elements with the longer one's, hence the orientation of
    [lcp]) is kept: the script starts with a Common edit holding a prefix of the old sequence that is at
    least as long.  (No such statement holds for a common suffix: see ex_suffix_not_trailing below, where an
    equally short script pairs the last kept element differently.) *)
Theorem common_prefix_kept : forall (A : Type) (eqv : A -> A -> option bool) route_size a b script c,
  diff_slice A eqv route_size a b = Ok script ->
  exhausted A eqv route_size a b = Ok false ->
  lcp A eqv (if zlen A a >=? zlen A b then b else a) (if zlen A a >=? zlen A b then a else b) = Ok c ->
  0 < c ->
  exists vs rest, script = mkEdit KCommon vs vs :: rest /\ vs = firstn (length vs) a /\ c <= zlen A vs.
Proof. exact common_prefix_kept_lemma. Qed.
Print Assumptions common_prefix_kept.

(** MINIMALITY.  [reach x y d] (Diff/SpecGraph.v) says that the point (x, y) of the edit graph of the two
    sequences (shorter one, [a], first) can be reached from the origin by a path with d deletions (steps along
    [a]); insertions are steps along [b], a diagonal step keeps two elements that the equivalence reports
    equal.  A path to the far corner with d deletions has d + delta insertions, delta = |b| - |a|.

    Lower bound (the furthest-point theorem of the O(NP) search): when the search reaches the far corner
    (the table is not exhausted) it has run pf + 1 iterations of its [for p] loop -- visible in the number
    (pf+1)(delta+pf+1) of snakes it recorded -- and NO edit path to the corner has fewer than pf deletions. *)
Theorem search_lower_bound : forall (A : Type) (eqv : A -> A -> option bool) route_size a b size st,
  zlen A a <= zlen A b ->
  search A eqv route_size a b size = Ok st ->
  zlen A b <= fp st (zlen A b - zlen A a + (zlen A a + 1)) ->
  exists pf, 0 <= pf /\
    Z.of_nat (length (routes st)) = (pf + 1) * (zlen A b - zlen A a + pf + 1) /\
    forall d, reach A eqv a b (zlen A a) (zlen A b) d -> pf <= d.
Proof. intros A eqv rs a b size st H. exact (search_lower_bound_lemma A eqv rs a b size H st). Qed.
Print Assumptions search_lower_bound.

(** The script is a shortest edit script.  For all sequences, in either order, and every route-table size
    for which the table is not exhausted (e.g. (|a|+1)(|b|+1) <= route size: route_table_suffices): the
    number of elements the script deletes and inserts (a replacement counts both sides) is at most the
    number of deletions plus insertions, d + (d + delta), of ANY path of the edit graph from the origin to
    the far corner, i.e. of any way of turning one sequence into the other that keeps only elements the
    equivalence reports equal.  ([a'], [b'] are the two sequences shorter first, as the search takes them;
    the script itself is such a way by seq_edits_faithful_generic.)  Proof: the route chain from the corner
    changes diagonal at most delta + 2 pf times (an entry made in iteration p on diagonal k is reached with
    2p + k changes, resp. 2p - k + 2 delta beyond delta), the walker makes exactly one insertion or deletion
    per change, the replace merge preserves the count, and search_lower_bound. *)
Theorem script_is_shortest : forall (A : Type) (eqv : A -> A -> option bool) route_size a b script d,
  diff_slice A eqv route_size a b = Ok script ->
  exhausted A eqv route_size a b = Ok false ->
  let a' := if zlen A a >=? zlen A b then b else a in
  let b' := if zlen A a >=? zlen A b then a else b in
  reach A eqv a' b' (zlen A a') (zlen A b') d ->
  Z.of_nat (script_cost script) <= d + (d + (zlen A b' - zlen A a')).
Proof. exact script_is_shortest_lemma. Qed.
Print Assumptions script_is_shortest.

(** SEVERAL TARGETS AT ONCE.  The runner checks every target on a goroutine of its own, so the loop of diffEnv that
    collects the names of the differing parts runs for many targets at the same time, its iterations interleaved in
    an arbitrary way ([sched]: which target makes the next step; Diff/Sched.v).  With a [reasons] slice per target,
    as in the code that exists, the reason built for a target under ANY schedule is the reason diffEnv gives for
    that target alone -- and hence (reason_names_exactly_differing_keys) names exactly the parts of ITS environment
    that differ, whatever its siblings are -- and it is built as soon as the schedule has given the target its
    [steps_needed] = 10 steps. *)
Theorem reason_independent_of_concurrent_targets :
  forall route_size (envs : list (value * value)) (sched : schedule) i old new stamp s r,
  nth_error envs i = Some (VDict old, VDict new) ->
  (exists d, diff_depth route_size depth1000 (VDict old) (VDict new) = Ok (Some d)) ->
  diff_env stamp route_size (VDict old) (VDict new) = Ok (false, r) ->
  nth_error (run_private (map (fun e => env_has route_size (fst e) (snd e)) envs) sched) i = Some s ->
  (forall r', ts_out s = Some r' -> r' = r) /\
  (steps_needed <= count_occ Nat.eq_dec sched i -> ts_out s = Some r)%nat.
Proof. exact sched_diff_env_lemma. Qed.
Print Assumptions reason_independent_of_concurrent_targets.

(** Why the correspondence harness checks sibling targets concurrently: the same loop over ONE backing array for all
    targets (a package-level scratch slice whose capacity suffices, so that append never reallocates) is NOT
    independent of the schedule.  Two targets, one with changed constants and one with changed names: after the
    schedule 0,0,1,0,... the first is told "names changed", a part of its sibling's environment, although diffEnv
    alone says "constant values changed".  (A statement about this hypothetical variant, not about /repo.) *)
Theorem shared_reasons_buffer_depends_on_schedule :
  exists (envs : list (value * value)) sched i old new s r,
    nth_error envs i = Some (old, new) /\
    diff_env StampDiffers rs2m old new = Ok (false, r) /\
    nth_error (snd (run_shared (map (fun e => env_has rs2m (fst e) (snd e)) envs) sched)) i = Some s /\
    exists r', ss_out s = Some r' /\ r' <> r /\
    r = s_constant_values ++ s_changed /\ r' = s_names ++ s_changed.
Proof. exact shared_refuted_lemma. Qed.
Print Assumptions shared_reasons_buffer_depends_on_schedule.

(** The hypotheses are satisfiable. *)
Example ex_hypotheses :
  let a := VTuple [VInt 1; VInt 2; VInt 3] in
  let b := VTuple [VInt 1; VInt 3] in
  exhausted value (veq_d depth1000) 2000000 [VInt 1; VInt 2; VInt 3] [VInt 1; VInt 3] = Ok false /\
  diff_depth 2000000 10 a b =
    Ok (Some (DSlice a b [SE KCommon (VTuple [VInt 1]); SE KDelete (VTuple [VInt 2]); SE KCommon (VTuple [VInt 3])])) /\
  valid_path Z (fun x y => Some (x =? y)) [3; 1] [1; 2; 3] [(0, 2); (1, 3); (2, 3)] = true.
Proof. vm_compute. auto. Qed.

Example ex_reason :
  diff_env StampDiffers 2000000 (VDict [(VStr s_code, VInt 1); (VStr s_names, VInt 1)])
                   (VDict [(VStr s_code, VInt 2); (VStr s_names, VInt 1)]) = Ok (false, s_code ++ s_changed).
Proof. vm_compute. reflexivity. Qed.

(** "bound" is not "bound to something other than None": a key that holds None on both sides gets no edit, a value
    that becomes None is a change (not a removal), a value that was None is a change (not an addition) *)
Example ex_mapping_none_is_a_value :
  let k := VStr s_code in let n := VStr s_names in
  diff 2000000 (VDict [(k, VNone); (n, VInt 1)]) (VDict [(k, VNone); (n, VInt 2)]) =
    Ok (Some (DMap (VDict [(k, VNone); (n, VInt 1)]) (VDict [(k, VNone); (n, VInt 2)])
                   [(n, MRepl (DLit (VInt 1) (VInt 2)))])) /\
  diff 2000000 (VDict [(k, VInt 1)]) (VDict [(k, VNone)]) =
    Ok (Some (DMap (VDict [(k, VInt 1)]) (VDict [(k, VNone)]) [(k, MRepl (DLit (VInt 1) VNone))])) /\
  diff 2000000 (VDict [(k, VNone)]) (VDict [(k, VInt 1)]) =
    Ok (Some (DMap (VDict [(k, VNone)]) (VDict [(k, VInt 1)]) [(k, MRepl (DLit VNone (VInt 1)))])) /\
  diff 2000000 (VDict [(k, VNone)]) (VDict []) =
    Ok (Some (DMap (VDict [(k, VNone)]) (VDict []) [(k, MDel VNone)])).
Proof. vm_compute. auto. Qed.

(** a real environment in which only the captured variables differ: the reason names them *)
Example ex_reason_free_variables :
  let p v := {| p_names := VTuple []; p_constants := VTuple []; p_predeclared := VDict []; p_universals := VDict [];
                p_functions := VTuple []; p_globals := VDict []; p_code := VBytes [1%N];
                p_defaults := VDict []; p_freevars := VDict [(VStr [118%N], v)] |} in
  diff_env StampDiffers 2000000 (VDict (env_of (p (VInt 1)))) (VDict (env_of (p VNone))) =
    Ok (false, s_free_variables ++ s_changed) /\
  map fst (env_of (p VNone)) = unpickled_env_keys.
Proof. vm_compute. auto. Qed.

(** totality and the size identity on a non-trivial instance: a route table of 3 points is exhausted (several
    rounds), and the script is still produced and accounts for all 4 + 5 elements *)
Example ex_total :
  exhausted Z (fun x y => Some (x =? y)) 3 [1;2;3;4] [2;5;4;7;8] = Ok true /\
  exists script, diff_slice Z (fun x y => Some (x =? y)) 3 [1;2;3;4] [2;5;4;7;8] = Ok script /\
                 (script_cost script + 2 * script_kept script = 9)%nat.
Proof. split; [vm_compute; reflexivity|]. eexists. split; [vm_compute; reflexivity|]. vm_compute. reflexivity. Qed.

Example ex_prefix :
  lcp Z (fun x y => Some (x =? y)) [1;2;7;4] [1;2;5;4;7;8] = Ok 2 /\
  exhausted Z (fun x y => Some (x =? y)) 2000000 [1;2;7;4] [1;2;5;4;7;8] = Ok false /\
  exists rest, diff_slice Z (fun x y => Some (x =? y)) 2000000 [1;2;7;4] [1;2;5;4;7;8] =
               Ok (mkEdit KCommon [1;2] [1;2] :: rest).
Proof. split; [vm_compute; reflexivity|]. split; [vm_compute; reflexivity|]. eexists. vm_compute. reflexivity. Qed.

(** a common last element need not end the script as a Common edit: [9;3] -> [3;3] is reported as
    delete 9, keep 3, add 3 (cost 2, as small as replace 9 by 3, keep 3) *)
Example ex_suffix_not_trailing :
  diff_slice Z (fun x y => Some (x =? y)) 2000000 [9;3] [3;3] =
  Ok [mkEdit KDelete [9] []; mkEdit KCommon [3] [3]; mkEdit KAdd [] [3]].
Proof. vm_compute. reflexivity. Qed.

(** the hypotheses of search_lower_bound on an instance: the corner is reached with 8 = (1+1)(2+1+1) snakes,
    so pf = 1 and every script deletes at least one element; and an edit path exists *)
Example ex_lower_bound :
  (exists st, search Z (fun x y => Some (x =? y)) 2000000 [1;2;7;4] [1;2;5;4;7;8] 13 = Ok st /\
              length (routes st) = 8%nat /\ 6 <= fp st (2 + 5)) /\
  reach Z (fun x y => Some (x =? y)) [1] [1;2] 1 2 0.
Proof.
  split.
  - eexists. split; [vm_compute; reflexivity|]. split; [vm_compute; reflexivity | vm_compute; discriminate].
  - apply (r_ins _ _ _ _ 1 1 0); [|reflexivity].
    apply (r_diag _ _ _ _ 0 0 0 1 1); [apply r_origin | reflexivity | reflexivity | reflexivity].
Qed.

(** script_is_shortest on an instance, with the bound attained: the script costs 4 and an edit path with one
    deletion (and 1 + 2 insertions) exists *)
Example ex_shortest :
  exhausted Z (fun x y => Some (x =? y)) 2000000 [1;2;7;4] [1;2;5;4;7;8] = Ok false /\
  (exists script, diff_slice Z (fun x y => Some (x =? y)) 2000000 [1;2;7;4] [1;2;5;4;7;8] = Ok script /\
                  script_cost script = 4%nat) /\
  reach Z (fun x y => Some (x =? y)) [1;2;7;4] [1;2;5;4;7;8] 4 6 1.
Proof.
  split; [vm_compute; reflexivity|]. split.
  - eexists. split; vm_compute; reflexivity.
  - apply (r_ins _ _ _ _ 4 5 1); [|vm_compute; reflexivity].
    apply (r_del _ _ _ _ 3 5 0); [|vm_compute; reflexivity].
    apply (r_diag _ _ _ _ 2 4 0 7 7); [|reflexivity..].
    apply (r_ins _ _ _ _ 2 3 0); [|vm_compute; reflexivity].
    apply (r_ins _ _ _ _ 2 2 0); [|vm_compute; reflexivity].
    apply (r_diag _ _ _ _ 1 1 0 2 2); [|reflexivity..].
    apply (r_diag _ _ _ _ 0 0 0 1 1); [|reflexivity..].
    apply r_origin.
Qed.

(** two targets checked at once, every interleaving of the first one's 10 steps with 3 of its sibling's: the
    reason of the first is its own *)
Example ex_sched :
  let envs := [(ex_env s_constant_values 1, ex_env s_constant_values 2); (ex_env s_names 1, ex_env s_names 2)] in
  let hs := map (fun e => env_has rs2m (fst e) (snd e)) envs in
  map ts_out (run_private hs [0; 0; 1; 0; 1; 0; 0; 0; 1; 0; 0; 0; 0]%nat) =
    [Some (s_constant_values ++ s_changed); None].
Proof. vm_compute. reflexivity. Qed.

(** numbers: equal without being of one type (1 == 1.0, 0 == -0.0, NaN == NaN), alike without being equal (True, 1);
    an int and the equal float are KEPT by the diff of two tuples, not replaced; one key for a dict *)
Example ex_numbers :
  let one := VFloat (FHalf 2) in
  veq_d 10 (VInt 1) one = Some true /\ veq_d 10 one (VInt 1) = Some true /\
  veq_d 10 (VInt 0) (VFloat FNegZero) = Some true /\ veq_d 10 (VFloat FNaN) (VFloat FNaN) = Some true /\
  veq_d 10 (VBool true) (VInt 1) = Some false /\ veq_d 10 (VFloat (FHalf 1)) (VInt 0) = Some false /\
  diff 2000000 (VTuple [VInt 1; VStr [97%N]]) (VTuple [one; VStr [98%N]]) =
    Ok (Some (DSlice (VTuple [VInt 1; VStr [97%N]]) (VTuple [one; VStr [98%N]])
                [SE KCommon (VTuple [VInt 1]);
                 SRepl [Some (DSlice (VStr [97%N]) (VStr [98%N]) [SRepl [Some (DLit (VStr [97%N]) (VStr [98%N]))]])]])) /\
  diff 2000000 (VDict [(VInt 1, VInt 1)]) (VDict [(one, one)]) = Ok None /\
  diff 2000000 (VDict [(VInt 1, VInt 1)]) (VDict [(one, VInt 2)]) =
    Ok (Some (DMap (VDict [(VInt 1, VInt 1)]) (VDict [(one, VInt 2)]) [(VInt 1, MRepl (DLit (VInt 1) (VInt 2)))])).
Proof. vm_compute. repeat split; reflexivity. Qed.
