(** C07 for heaps: lists, dicts and sets with sharing and cycles (heap_roundtrip). Lock-step simulation of
    the encoder by the decoder. *)
From Dawn Require Import Pickle.Model Pickle.Spec Pickle.Proofs_C15 Pickle.Proofs_Base Pickle.Proofs_Tree Pickle.Proofs_Term.
From Coq Require Import Lia.
Open Scope N_scope.

(* ------------------------------------------------------------------------------------------------ *)
(** * vrel *)

Lemma Forall2_Forall_impl : forall {A B} (P Q : A -> B -> Prop) l l',
    Forall (fun x => forall y, P x y -> Q x y) l -> Forall2 P l l' -> Forall2 Q l l'.
Proof.
  intros A B P Q l l' F H. induction H; constructor.
  - inversion F; subst. auto.
  - inversion F; subst. auto.
Qed.

Lemma vrel_mono : forall rho rho', incl rho rho' -> forall v v', vrel rho v v' -> vrel rho' v v'.
Proof.
  intros rho rho' I v. induction v using val_ind'; intros v' R; inversion R; subst; try constructor.
  - eapply Forall2_Forall_impl; eassumption.
  - apply I. assumption.
Qed.

Lemma Forall2_vrel_mono : forall rho rho', incl rho rho' -> forall l l',
      Forall2 (vrel rho) l l' -> Forall2 (vrel rho') l l'.
Proof. intros rho rho' I l l' H. induction H; constructor; eauto using vrel_mono. Qed.

Lemma nrel_mono : forall rho rho', incl rho rho' -> forall nd nd', nrel rho nd nd' -> nrel rho' nd nd'.
Proof.
  intros rho rho' I nd nd' R. inversion R as [l l' H|kvs kvs' H|l l' H|m n l l' H]; subst; constructor.
  - eapply Forall2_vrel_mono; eassumption.
  - clear R. induction H as [|p p' ? ? Hp]; constructor; auto. destruct Hp as [A B]. split; eapply vrel_mono; eassumption.
  - eapply Forall2_vrel_mono; eassumption.
  - eapply Forall2_vrel_mono; eassumption.
Qed.

Lemma vrel_not_mark : forall rho v v', vrel rho v v' -> v' <> VMark.
Proof. intros rho v v' R. inversion R; discriminate. Qed.

Lemma Forall2_vrel_not_mark : forall rho l l', Forall2 (vrel rho) l l' -> Forall (fun x => x <> VMark) l'.
Proof. intros rho l l' H. induction H; constructor; eauto using vrel_not_mark. Qed.

Lemma hashable_vrel_eq : forall rho v v', hashable v = true -> vrel rho v v' -> v' = v.
Proof.
  intros rho v. induction v using val_ind'; intros v' Hh R;
    inversion R as [ | | | | | | l0 l0' HF2 | a0 a0' HIn ]; subst; try reflexivity.
  - f_equal. cbn [hashable] in Hh. clear R. revert Hh H. induction HF2; intros Hh F; [reflexivity|].
    cbn [forallb] in Hh. apply andb_prop in Hh. destruct Hh as [Hx Hr]. inversion F; subst.
    f_equal; auto.
  - discriminate.
Qed.

(* ------------------------------------------------------------------------------------------------ *)
(** * The memo invariant *)

Definition dmemo_of (rho : corr) : list val := map (fun p => VRef (snd p)) rho.

(** [Inv hl rho est dm n]: encoder memo [est] and decoder memo [dm] describe the correspondence [rho];
    [hl] = size of the source heap, [n] = size of the decoder heap *)
Record Inv (hl : nat) (rho : corr) (est : estate) (dm : list val) (n : nat) : Prop := mkInv {
  inv_next : e_next est = N.of_nat (length rho);
  inv_dmemo : dm = dmemo_of rho;
  inv_find : forall a id, memo_find a (e_memo est) = Some id ->
                          exists a', nth_error rho (N.to_nat id) = Some (a, a');
  inv_none : forall a, memo_find a (e_memo est) = None -> ~ In a (map fst rho);
  inv_src : forall a a', In (a, a') rho -> (a < hl)%nat;
  inv_tgt : forall a a', In (a, a') rho -> (a' < n)%nat;
  inv_nodup_src : NoDup (map fst rho);
  inv_nodup_tgt : NoDup (map snd rho) }.

Lemma Inv_weaken : forall hl rho est dm n n', Inv hl rho est dm n -> (n <= n')%nat -> Inv hl rho est dm n'.
Proof.
  intros hl rho est dm n n' [] L. constructor; auto.
  intros a a' HI. specialize (inv_tgt0 _ _ HI). lia.
Qed.

Lemma Inv0 : forall hl, Inv hl [] estate0 [] 0.
Proof.
  intros hl. constructor; cbn; auto; try (intros; contradiction); try constructor.
  intros a id H. discriminate.
Qed.

Lemma nodup_bound : forall (l : list nat) n, NoDup l -> (forall x, In x l -> (x < n)%nat) -> (length l <= n)%nat.
Proof.
  intros l n ND B.
  assert (I : incl l (seq 0 n)). { intros x Hx. apply in_seq. specialize (B _ Hx). lia. }
  pose proof (NoDup_incl_length ND I) as L. rewrite seq_length in L. exact L.
Qed.

Lemma Inv_length : forall hl rho est dm n, Inv hl rho est dm n -> (length rho <= hl)%nat.
Proof.
  intros hl rho est dm n []. rewrite <- (map_length fst rho). apply nodup_bound; [assumption|].
  intros x Hx. apply in_map_iff in Hx. destruct Hx as [[a a'] [E HI]]. subst. eapply inv_src0. exact HI.
Qed.

Lemma NoDup_app_snoc : forall {A} (l : list A) x, NoDup l -> ~ In x l -> NoDup (l ++ [x]).
Proof.
  intros A l x ND NI. induction ND; cbn.
  - constructor; [intros []|constructor].
  - constructor.
    + rewrite in_app_iff. cbn. intros [HI|[HI|[]]]; [contradiction|]. subst. apply NI. left. reflexivity.
    + apply IHND. intros HI. apply NI. right. exact HI.
Qed.

Lemma Inv_memoize : forall hl rho est dm n a,
    Inv hl rho est dm n -> memo_find a (e_memo est) = None -> (a < hl)%nat ->
    Inv hl (rho ++ [(a, n)]) (e_memoize a est) (dm ++ [VRef n]) (S n).
Proof.
  intros hl rho est dm n a [] MF L. constructor.
  - cbn. rewrite inv_next0, app_length. cbn. lia.
  - subst dm. unfold dmemo_of. rewrite map_app. reflexivity.
  - intros b id H. cbn in H. destruct (Nat.eqb b a) eqn:E.
    + apply Nat.eqb_eq in E. subst b. inversion H; subst id. exists n.
      rewrite inv_next0, Nat2N.id, nth_error_app2 by lia. rewrite Nat.sub_diag. reflexivity.
    + destruct (inv_find0 _ _ H) as [a' Ha']. exists a'.
      rewrite nth_error_app1; [exact Ha'|]. apply nth_error_Some. congruence.
  - intros b H. cbn in H. destruct (Nat.eqb b a) eqn:E; [discriminate|]. apply Nat.eqb_neq in E.
    rewrite map_app, in_app_iff. cbn. intros [HI|[HI|[]]]; [|congruence]. exact (inv_none0 _ H HI).
  - intros b b' HI. apply in_app_iff in HI. destruct HI as [HI|[HI|[]]]; [eauto|]. inversion HI; subst. exact L.
  - intros b b' HI. apply in_app_iff in HI. destruct HI as [HI|[HI|[]]].
    + specialize (inv_tgt0 _ _ HI). lia.
    + inversion HI; subst. lia.
  - rewrite map_app. cbn. apply NoDup_app_snoc; [assumption|]. exact (inv_none0 _ MF).
  - rewrite map_app. cbn. apply NoDup_app_snoc; [assumption|].
    intros HI. apply in_map_iff in HI. destruct HI as [[b b'] [E HI]]. cbn in E. subst b'.
    specialize (inv_tgt0 _ _ HI). lia.
Qed.

(* ------------------------------------------------------------------------------------------------ *)
(** * Decoder steps on containers *)

Lemma nth_error_heap_upd_same : forall h a nd, (a < length h)%nat -> nth_error (heap_upd h a nd) a = Some nd.
Proof. induction h; intros [|a'] nd L; cbn in *; try lia; auto. apply IHh. lia. Qed.

Lemma nth_error_heap_upd_other : forall h a nd x, x <> a -> nth_error (heap_upd h a nd) x = nth_error h x.
Proof.
  induction h; intros [|a'] nd [|x] NE; cbn; try reflexivity; try congruence.
  apply IHh. congruence.
Qed.

(** what APPENDS / SETITEMS / ADDITEMS do to the target object *)
Definition upd_list (nd : node) (items : list val) : node :=
  match nd with NList l => NList (l ++ items) | _ => nd end.
Definition upd_dict (nd : node) (items : list val) : node :=
  match nd, pairs_of items with
  | NDict kvs, Some ps => NDict (fold_left (fun d kv => dict_set d (fst kv) (snd kv)) ps kvs)
  | _, _ => nd
  end.
Definition upd_set (nd : node) (items : list val) : node :=
  match nd with NSet l => NSet (fold_left set_add items l) | _ => nd end.

Definition is_list nd := exists l, nd = NList l.
Definition is_dict nd := exists l, nd = NDict l.
Definition is_set nd := exists l, nd = NSet l.

Section Steps.
  Variable unp : option unpickle_fn.
  Variable lim : N.

  Lemma step_EMPTY_LIST r st :
    step unp lim (opEMPTY_LIST :: r) st
    = SNext r (mkD (VRef (length (d_heap st)) :: d_stack st) (d_memo st) (d_heap st ++ [NList []]) (d_nglob st)).
  Proof. reflexivity. Qed.
  Lemma step_EMPTY_DICT r st :
    step unp lim (opEMPTY_DICT :: r) st
    = SNext r (mkD (VRef (length (d_heap st)) :: d_stack st) (d_memo st) (d_heap st ++ [NDict []]) (d_nglob st)).
  Proof. reflexivity. Qed.
  Lemma step_EMPTY_SET r st :
    step unp lim (opEMPTY_SET :: r) st
    = SNext r (mkD (VRef (length (d_heap st)) :: d_stack st) (d_memo st) (d_heap st ++ [NSet []]) (d_nglob st)).
  Proof. reflexivity. Qed.
  Lemma step_MEMOIZE r st top s : d_stack st = top :: s ->
    step unp lim (opMEMOIZE :: r) st = SNext r (mkD (d_stack st) (d_memo st ++ [top]) (d_heap st) (d_nglob st)).
  Proof. intros E. cbn. rewrite E. reflexivity. Qed.

  Lemma step_APPEND r st v t s l : d_stack st = v :: VRef t :: s -> nth_error (d_heap st) t = Some (NList l) ->
    step unp lim (opAPPEND :: r) st
    = SNext r (mkD (VRef t :: s) (d_memo st) (heap_upd (d_heap st) t (NList (l ++ [v]))) (d_nglob st)).
  Proof. intros E H. cbn. rewrite E, H. reflexivity. Qed.

  Lemma step_STACK_GLOBAL r st m n s : d_stack st = VStr n :: VStr m :: s ->
    step unp lim (opSTACK_GLOBAL :: r) st
    = SNext r (mkD (VGlobal (d_nglob st) m n :: s) (d_memo st) (d_heap st) (d_nglob st + 1)).
  Proof. intros E. cbn. rewrite E. reflexivity. Qed.

  Lemma step_NEWOBJ r st g m n args s : unp = Some obj_unpickler -> d_stack st = VTuple args :: VGlobal g m n :: s ->
    step unp lim (opNEWOBJ :: r) st
    = SNext r (mkD (VRef (length (d_heap st)) :: s) (d_memo st) (d_heap st ++ [NObj m n args]) (d_nglob st)).
  Proof. intros U E. cbn. rewrite E, U. reflexivity. Qed.

  (** the three batch opcodes, uniformly *)
  Definition batch_step (op : N) (kind : node -> Prop) (ok : list val -> Prop) (upd : node -> list val -> node) :=
    forall r st items t below nd,
      d_stack st = rev items ++ VMark :: VRef t :: below ->
      Forall (fun x => x <> VMark) items -> nth_error (d_heap st) t = Some nd -> kind nd -> ok items ->
      step unp lim (op :: r) st
      = SNext r (mkD (VRef t :: below) (d_memo st) (heap_upd (d_heap st) t (upd nd items)) (d_nglob st)).

  Lemma step_APPENDS : batch_step opAPPENDS is_list (fun _ => True) upd_list.
  Proof.
    intros r st items t below nd E NM H [l ->] _.
    change (step unp lim (opAPPENDS :: r) st) with
      (with_mark_below st (fun items tgt below =>
         match tgt with
         | VRef a => match nth_error (d_heap st) a with
                     | Some (NList l) =>
                         SNext r (mkD (tgt :: below) (d_memo st) (heap_upd (d_heap st) a (NList (l ++ items))) (d_nglob st))
                     | _ => SErr
                     end
         | _ => SErr
         end)).
    unfold with_mark_below. rewrite E, split_mark_rev by exact NM. rewrite app_nil_r, H. reflexivity.
  Qed.

  Lemma step_SETITEMS : batch_step opSETITEMS is_dict (fun items => pairs_of items <> None) upd_dict.
  Proof.
    intros r st items t below nd E NM H [l ->] OK.
    change (step unp lim (opSETITEMS :: r) st) with
      (with_mark_below st (fun items tgt below =>
         match tgt with
         | VRef a =>
             match nth_error (d_heap st) a with
             | Some (NDict kvs) =>
                 match pairs_of items with
                 | None => SErr
                 | Some ps =>
                     SNext r (mkD (tgt :: below) (d_memo st)
                                (heap_upd (d_heap st) a
                                   (NDict (fold_left (fun d kv => dict_set d (fst kv) (snd kv)) ps kvs)))
                                (d_nglob st))
                 end
             | _ => SErr
             end
         | _ => SErr
         end)).
    unfold with_mark_below. rewrite E, split_mark_rev by exact NM. rewrite app_nil_r, H. unfold upd_dict.
    destruct (pairs_of items); [reflexivity|congruence].
  Qed.

  Lemma step_ADDITEMS : batch_step opADDITEMS is_set (fun _ => True) upd_set.
  Proof.
    intros r st items t below nd E NM H [l ->] _.
    change (step unp lim (opADDITEMS :: r) st) with
      (with_mark_below st (fun items tgt below =>
         match tgt with
         | VRef a => match nth_error (d_heap st) a with
                     | Some (NSet l) =>
                         SNext r (mkD (tgt :: below) (d_memo st)
                                    (heap_upd (d_heap st) a (NSet (fold_left set_add items l))) (d_nglob st))
                     | _ => SErr
                     end
         | _ => SErr
         end)).
    unfold with_mark_below. rewrite E, split_mark_rev by exact NM. rewrite app_nil_r, H. reflexivity.
  Qed.

  (** BINGET / LONG_BINGET of a memoized object *)
  Lemma reach_get : forall hl rho est dst a id k,
      Inv hl rho est (d_memo dst) (length (d_heap dst)) -> N.of_nat hl <= 4294967296 ->
      memo_find a (e_memo est) = Some id ->
      exists a', In (a, a') rho /\ reach unp lim (enc_get id ++ k) dst k (push (VRef a') dst).
  Proof.
    intros hl rho est dst a id k I HL MF.
    pose proof (Inv_length _ _ _ _ _ I) as LR. destruct I.
    destruct (inv_find0 _ _ MF) as [a' Ha']. exists a'. split; [eapply nth_error_In; exact Ha'|].
    assert (LT : (N.to_nat id < length rho)%nat) by (apply nth_error_Some; congruence).
    assert (M : nth_error (d_memo dst) (N.to_nat id) = Some (VRef a')).
    { rewrite inv_dmemo0. unfold dmemo_of. rewrite nth_error_map, Ha'. reflexivity. }
    apply reach_one. unfold enc_get, binget_limit. destruct (id <? 256) eqn:C.
    - apply N.ltb_lt in C. cbn [app]. rewrite byte_of_small by exact C.
      change (step unp lim (opBINGET :: id :: k) dst) with
        (match nth_error (d_memo dst) (N.to_nat id) with Some v => SNext k (push v dst) | None => SErr end).
      rewrite M. reflexivity.
    - unfold le32. cbn [app].
      match goal with |- step _ _ (_ :: ?b0 :: ?b1 :: ?b2 :: ?b3 :: k) dst = _ =>
        change (step unp lim (opLONG_BINGET :: b0 :: b1 :: b2 :: b3 :: k) dst) with
          (let id := of_le32 b0 b1 b2 b3 in
           if id <? N.of_nat (length (d_memo dst)) then
             match nth_error (d_memo dst) (N.to_nat id) with Some v => SNext k (push v dst) | None => SErr end
           else SErr) end.
      cbv zeta. rewrite of_le32_le32 by lia.
      replace (id <? N.of_nat (length (d_memo dst))) with true.
      + rewrite M. reflexivity.
      + symmetry. apply N.ltb_lt. rewrite inv_dmemo0. unfold dmemo_of. rewrite map_length. lia.
  Qed.
End Steps.

(* ------------------------------------------------------------------------------------------------ *)
(** * List facts: chunks, flat_pairs, dict_set / set_add on distinct keys *)

Lemma in_concat_incl : forall {A} (ls : list (list A)) b, In b ls -> incl b (concat ls).
Proof. intros A ls b HI x Hx. apply in_concat. eauto. Qed.

Lemma flat_pairs_length : forall kvs, length (flat_pairs kvs) = (2 * length kvs)%nat.
Proof. induction kvs; cbn; [reflexivity|]. unfold flat_pairs in IHkvs. rewrite IHkvs. lia. Qed.

Lemma pairs_of_flat : forall kvs, pairs_of (flat_pairs kvs) = Some kvs.
Proof.
  induction kvs as [|[k v] r IH]; [reflexivity|]. cbn. unfold flat_pairs in IH. rewrite IH. reflexivity.
Qed.

Lemma flat_pairs_rel : forall rho kvs items,
    Forall2 (vrel rho) (flat_pairs kvs) items -> exists kvs', items = flat_pairs kvs' /\ Forall2 (prel rho) kvs kvs'.
Proof.
  intros rho kvs. induction kvs as [|[k v] r IH]; intros items F.
  - inversion F; subst. exists []. split; [reflexivity|constructor].
  - cbn in F. inversion F as [|? k' ? t1 Rk F1]; subst. inversion F1 as [|? v' ? t2 Rv F2]; subst.
    destruct (IH _ F2) as [kvs' [-> R]]. exists ((k', v') :: kvs'). split; [reflexivity|].
    constructor; [split; assumption|assumption].
Qed.

Lemma dict_replace_none : forall kvs k v, existsb (key_eq k) (map fst kvs) = false -> dict_replace kvs k v = None.
Proof.
  induction kvs as [|[k' v'] r IH]; intros k v E; [reflexivity|]. cbn in *.
  apply Bool.orb_false_iff in E. destruct E as [E1 E2]. rewrite E1, IH by exact E2. reflexivity.
Qed.

Definition dset (d : list (val * val)) (kv : val * val) := dict_set d (fst kv) (snd kv).

Lemma dict_fold_distinct : forall ps cur,
    distinct_keys (map fst cur) (map fst ps) = true -> fold_left dset ps cur = cur ++ ps.
Proof.
  induction ps as [|[k v] r IH]; intros cur D; cbn [fold_left].
  - rewrite app_nil_r. reflexivity.
  - cbn [map fst distinct_keys] in D. apply andb_prop in D. destruct D as [D D3].
    apply andb_prop in D. destruct D as [D1 D2]. apply Bool.negb_true_iff in D2.
    unfold dset at 2. cbn [fst snd]. unfold dict_set. rewrite D1. cbn [negb].
    rewrite dict_replace_none by exact D2.
    rewrite IH.
    + rewrite <- app_assoc. reflexivity.
    + rewrite map_app. exact D3.
Qed.

Lemma set_fold_distinct : forall items cur, distinct_keys cur items = true -> fold_left set_add items cur = cur ++ items.
Proof.
  induction items as [|k r IH]; intros cur D; cbn [fold_left].
  - rewrite app_nil_r. reflexivity.
  - cbn [distinct_keys] in D. apply andb_prop in D. destruct D as [D D3].
    apply andb_prop in D. destruct D as [D1 D2]. apply Bool.negb_true_iff in D2.
    unfold set_add at 2. rewrite D1, D2. cbn [negb]. rewrite IH by exact D3.
    rewrite <- app_assoc. reflexivity.
Qed.

Lemma Forall2_concat : forall {A B} (R : A -> B -> Prop) ls ls',
    Forall2 (Forall2 R) ls ls' -> Forall2 R (concat ls) (concat ls').
Proof. intros A B R ls ls' H. induction H; cbn; [constructor|]. apply Forall2_app; assumption. Qed.

Lemma Forall2_length' : forall {A B} (R : A -> B -> Prop) l l', Forall2 R l l' -> length l = length l'.
Proof. intros A B R l l' H. induction H; cbn; congruence. Qed.

(** related keys of a well-formed dict / set are the same keys *)
Lemma hashable_keys_eq : forall rho seen ks ks',
    distinct_keys seen ks = true -> Forall2 (vrel rho) ks ks' -> ks' = ks.
Proof.
  intros rho seen ks ks' D F. revert seen D. induction F as [|k k' r r' Rk F IH]; intros seen D; [reflexivity|].
  cbn [distinct_keys] in D. apply andb_prop in D. destruct D as [D D3]. apply andb_prop in D. destruct D as [D1 _].
  f_equal; [eapply hashable_vrel_eq; eassumption|eapply IH; eassumption].
Qed.

(* ------------------------------------------------------------------------------------------------ *)
(** * The simulation *)

Lemma NoDup_map_fst_inj : forall (l : list (addr * addr)) a x y,
    NoDup (map fst l) -> In (a, x) l -> In (a, y) l -> x = y.
Proof.
  induction l as [|[b z] r IH]; intros a x y ND H1 H2; [contradiction|].
  cbn in ND. inversion ND as [|? ? NI ND']; subst.
  destruct H1 as [H1|H1]; destruct H2 as [H2|H2].
  - congruence.
  - inversion H1; subst. exfalso. apply NI. apply in_map_iff. exists (a, y). split; [reflexivity|exact H2].
  - inversion H2; subst. exfalso. apply NI. apply in_map_iff. exists (a, x). split; [reflexivity|exact H1].
  - eapply IH; eassumption.
Qed.

Definition same_store (d d' : dstate) : Prop :=
  d_heap d = d_heap d' /\ d_memo d = d_memo d' /\ d_nglob d = d_nglob d'.

Lemma same_store_refl : forall d, same_store d d.
Proof. intros; repeat split. Qed.
Lemma same_store_set_stack : forall d s, same_store (set_stack d s) d.
Proof. intros; repeat split. Qed.
Lemma same_store_push : forall d v, same_store (push v d) d.
Proof. intros; repeat split. Qed.
Lemma same_store_sym : forall d d', same_store d d' -> same_store d' d.
Proof. intros d d' [A [B C]]. repeat split; congruence. Qed.
Lemma same_store_trans : forall d d' d'', same_store d d' -> same_store d' d'' -> same_store d d''.
Proof. intros d d' d'' [A [B C]] [A' [B' C']]. repeat split; congruence. Qed.

Section Sim.
  Variable unp : option unpickle_fn.
  Variable lim : N.
  Variable pk : option (node -> presult).
  Variable h : heap.
  Hypothesis WFH : wf_heap h.
  (** the pickler/unpickler pair is object-preserving, and no object it takes is reachable from its own
      constructor arguments (both hold trivially when the pickler declines every object of the heap) *)
  Hypothesis HP : host_pair pk unp h.
  Hypothesis AC : host_acyclic pk h.

  Definition INV (rho : corr) (est : estate) (dst : dstate) : Prop :=
    Inv (length h) rho est (d_memo dst) (length (d_heap dst)).

  Lemma INV_same : forall rho est d d', same_store d d' -> INV rho est d -> INV rho est d'.
  Proof. intros rho est d d' [A [B C]] I. unfold INV in *. rewrite <- A, <- B. exact I. Qed.

  (** the effect of a piece of encoder output on the decoder's store: the correspondence is extended by
      objects that are new and, at the end, complete; old objects satisfying [keep] are untouched *)
  Record post (keep : addr -> Prop) (rho : corr) (dst : dstate) (est' : estate) (rho' : corr) (dst' : dstate)
    : Prop := mkPost {
    p_ext : exists rn, rho' = rho ++ rn /\
                       forall a a', In (a, a') rn ->
                                    (length (d_heap dst) <= a')%nat /\ complete rho' h (d_heap dst') a a';
    p_inv : INV rho' est' dst';
    p_len : (length (d_heap dst) <= length (d_heap dst'))%nat;
    p_frame : forall x, (x < length (d_heap dst))%nat -> keep x -> nth_error (d_heap dst') x = nth_error (d_heap dst) x;
    p_nglob : d_nglob dst <= d_nglob dst' }.

  Lemma post_refl : forall keep rho est d d', same_store d d' -> INV rho est d -> post keep rho d est rho d'.
  Proof.
    intros keep rho est d d' S I. pose proof S as [A [B C]]. constructor.
    - exists []. split; [rewrite app_nil_r; reflexivity|]. intros a a' [].
    - eapply INV_same; eassumption.
    - rewrite A. lia.
    - intros. rewrite A. reflexivity.
    - rewrite C. apply N.le_refl.
  Qed.

  Lemma post_same_l : forall keep rho d0 d0' est' rho' d1,
      same_store d0 d0' -> post keep rho d0 est' rho' d1 -> post keep rho d0' est' rho' d1.
  Proof.
    intros keep rho d0 d0' est' rho' d1 [A [B C]] []. constructor; try rewrite <- A; try assumption. rewrite <- C. assumption.
  Qed.

  Lemma post_same_r : forall keep rho d0 est' rho' d1 d1',
      same_store d1 d1' -> post keep rho d0 est' rho' d1 -> post keep rho d0 est' rho' d1'.
  Proof.
    intros keep rho d0 est' rho' d1 d1' S []. pose proof S as [A [B C]].
    constructor; try rewrite <- A; try assumption; [eapply INV_same; eassumption|rewrite <- C; assumption].
  Qed.

  Lemma post_keep : forall (keep keep' : addr -> Prop) rho d0 est' rho' d1,
      (forall x, keep' x -> keep x) -> post keep rho d0 est' rho' d1 -> post keep' rho d0 est' rho' d1.
  Proof. intros keep keep' rho d0 est' rho' d1 K []. constructor; auto. Qed.

  Lemma post_incl : forall keep rho d0 est' rho' d1, post keep rho d0 est' rho' d1 -> incl rho rho'.
  Proof. intros keep rho d0 est' rho' d1 [[rn [-> _]] _ _ _ _]. apply incl_appl, incl_refl. Qed.

  Lemma complete_transport : forall rho rho' dh dh' a a',
      complete rho h dh a a' -> incl rho rho' -> nth_error dh' a' = nth_error dh a' -> complete rho' h dh' a a'.
  Proof.
    intros rho rho' dh dh' a a' [nd [nd' [A [B C]]]] I E. exists nd, nd'.
    repeat split; [exact A|congruence|eapply nrel_mono; eassumption].
  Qed.

  Lemma post_trans : forall (keep : addr -> Prop) rho d0 e1 rho1 d1 e2 rho2 d2,
      (forall x, (length (d_heap d0) <= x)%nat -> keep x) ->
      post keep rho d0 e1 rho1 d1 -> post keep rho1 d1 e2 rho2 d2 -> post keep rho d0 e2 rho2 d2.
  Proof.
    intros keep rho d0 e1 rho1 d1 e2 rho2 d2 K P1 P2.
    pose proof (post_incl _ _ _ _ _ _ P2) as I2.
    destruct P1 as [[rn1 [E1 C1]] I1 L1 F1 G1]. destruct P2 as [[rn2 [E2 C2]] I2' L2 F2 G2].
    constructor.
    - exists (rn1 ++ rn2). split; [subst; rewrite app_assoc; reflexivity|].
      intros a a' HI. apply in_app_iff in HI. destruct HI as [HI|HI].
      + destruct (C1 _ _ HI) as [La Ca]. split; [exact La|].
        eapply complete_transport; [exact Ca|exact I2|].
        apply F2; [|apply K; exact La].
        destruct Ca as [nd [nd' [_ [B _]]]]. apply nth_error_Some. congruence.
      + destruct (C2 _ _ HI) as [La Ca]. split; [lia|exact Ca].
    - exact I2'.
    - lia.
    - intros x Lx Kx. rewrite F2 by (try lia; assumption). apply F1; assumption.
    - eapply N.le_trans; eassumption.
  Qed.

  (** [sim_val enc v]: running the code that [enc] emits for [v] pushes a value related to [v] *)
  Definition sim_val (enc : enc_fn) (v : val) : Prop :=
    forall est b est' rho dst,
      enc est v = Ok (b, est') -> INV rho est dst -> wf_val v ->
      exists rho' dst' v',
        (forall k, reach unp lim (b ++ k) dst k dst') /\
        d_stack dst' = v' :: d_stack dst /\ vrel rho' v v' /\
        post (fun _ => True) rho dst est' rho' dst'.

  Lemma sim_seq : forall enc l,
      Forall (sim_val enc) l -> Forall wf_val l ->
      forall est b est' rho dst,
        enc_seq enc l est = Ok (b, est') -> INV rho est dst ->
        exists rho' dst' l',
          (forall k, reach unp lim (b ++ k) dst k dst') /\
          d_stack dst' = rev l' ++ d_stack dst /\ Forall2 (vrel rho') l l' /\
          post (fun _ => True) rho dst est' rho' dst'.
  Proof.
    intros enc l. induction l as [|x r IH]; intros FS FW est b est' rho dst E I; cbn [enc_seq] in E.
    - inversion E; subst. exists rho, dst, []. split; [|split; [|split]].
      + intros. apply reach_refl.
      + reflexivity.
      + constructor.
      + apply post_refl; [apply same_store_refl|exact I].
    - inversion FS as [|? ? Sx Sr]; inversion FW as [|? ? Wx Wr]; subst.
      destruct (enc est x) as [[b1 est1]| | | |] eqn:E1; try discriminate. cbn [bind] in E.
      destruct (enc_seq enc r est1) as [[b2 est2]| | | |] eqn:E2; try discriminate. cbn [bind] in E.
      inversion E; subst. clear E.
      destruct (Sx _ _ _ _ _ E1 I Wx) as [rho1 [d1 [v1 [R1 [S1 [V1 P1]]]]]].
      destruct (IH Sr Wr _ _ _ _ _ E2 (p_inv _ _ _ _ _ _ P1)) as [rho2 [d2 [l2 [R2 [S2 [V2 P2]]]]]].
      exists rho2, d2, (v1 :: l2). split; [|split; [|split]].
      + intros k. rewrite <- app_assoc. eapply reach_trans; [apply R1|apply R2].
      + rewrite S2, S1. cbn [rev]. rewrite <- app_assoc. reflexivity.
      + constructor; [|exact V2]. eapply vrel_mono; [eapply post_incl; exact P2|exact V1].
      + eapply post_trans; [auto|exact P1|exact P2].
  Qed.

  Lemma sim_batches : forall op kind ok upd,
      batch_step unp lim op kind ok upd -> (forall nd items, kind nd -> kind (upd nd items)) ->
      forall enc bs,
        Forall (Forall (sim_val enc)) bs -> Forall (Forall wf_val) bs ->
        (forall b items', In b bs -> length items' = length b -> ok items') ->
        forall est b est' rho dst t s nd,
          enc_batches enc op bs est = Ok (b, est') -> INV rho est dst ->
          d_stack dst = VRef t :: s -> nth_error (d_heap dst) t = Some nd -> kind nd ->
          exists rho' dst' its,
            (forall k, reach unp lim (b ++ k) dst k dst') /\
            d_stack dst' = VRef t :: s /\ Forall2 (Forall2 (vrel rho')) bs its /\
            nth_error (d_heap dst') t = Some (fold_left upd its nd) /\
            post (fun x => x <> t) rho dst est' rho' dst'.
  Proof.
    intros op kind ok upd BS KP enc bs. induction bs as [|b1 r IH];
      intros FS FW OK est b est' rho dst t s nd E I ST HT KN; cbn [enc_batches] in E.
    - inversion E; subst. exists rho, dst, []. split; [|split; [|split; [|split]]].
      + intros. apply reach_refl.
      + exact ST.
      + constructor.
      + exact HT.
      + apply post_refl; [apply same_store_refl|exact I].
    - inversion FS as [|? ? S1 Sr]; inversion FW as [|? ? W1 Wr]; subst.
      destruct (enc_seq enc b1 est) as [[c1 est1]| | | |] eqn:E1; try discriminate. cbn [bind] in E.
      destruct (enc_batches enc op r est1) as [[c2 est2]| | | |] eqn:E2; try discriminate. cbn [bind] in E.
      inversion E; subst. clear E.
      assert (LT : (t < length (d_heap dst))%nat) by (apply nth_error_Some; congruence).
      set (dA := push VMark dst).
      assert (IA : INV rho est dA) by (eapply INV_same; [apply same_store_sym, same_store_push|exact I]).
      destruct (sim_seq enc b1 S1 W1 _ _ _ _ _ E1 IA) as [rho1 [dB [l1 [RB [SB [V1 P1]]]]]].
      assert (HB : nth_error (d_heap dB) t = Some nd).
      { rewrite (p_frame _ _ _ _ _ _ P1); [exact HT|exact LT|exact Logic.I]. }
      assert (LB : (t < length (d_heap dB))%nat) by (apply nth_error_Some; congruence).
      set (dC := mkD (VRef t :: s) (d_memo dB) (heap_upd (d_heap dB) t (upd nd l1)) (d_nglob dB)).
      assert (STEP : step unp lim (op :: c2) dB = SNext c2 dC /\ forall k, step unp lim (op :: c2 ++ k) dB = SNext (c2 ++ k) dC).
      { assert (G : forall r0, step unp lim (op :: r0) dB = SNext r0 dC).
        { intros r0. apply BS; try assumption.
          - rewrite SB. subst dA. cbn. rewrite ST. reflexivity.
          - eapply Forall2_vrel_not_mark; exact V1.
          - apply (OK b1); [left; reflexivity|]. symmetry. eapply Forall2_length'; exact V1. }
        split; intros; apply G. }
      assert (PBC : post (fun x => x <> t) rho1 dB est1 rho1 dC).
      { constructor.
        - exists []. split; [rewrite app_nil_r; reflexivity|intros a a' []].
        - pose proof (p_inv _ _ _ _ _ _ P1) as IB. unfold INV in *. subst dC. cbn [d_memo d_heap].
          rewrite heap_upd_length. exact IB.
        - subst dC. cbn [d_heap]. rewrite heap_upd_length. lia.
        - intros x Lx Nx. subst dC. cbn [d_heap]. apply nth_error_heap_upd_other. exact Nx.
        - apply N.le_refl. }
      assert (HC : nth_error (d_heap dC) t = Some (upd nd l1)).
      { subst dC. cbn [d_heap]. apply nth_error_heap_upd_same. exact LB. }
      destruct (IH Sr Wr (fun b0 items' HI => OK b0 items' (or_intror HI)) _ _ _ _ dC t s (upd nd l1) E2
                  (p_inv _ _ _ _ _ _ PBC) eq_refl HC (KP _ _ KN))
        as [rho2 [dD [its2 [RD [SD [V2 [HD P2]]]]]]].
      exists rho2, dD, (l1 :: its2). split; [|split; [|split; [|split]]].
      + intros k. cbn [app]. eapply reach_step; [apply step_MARK|]. fold dA.
        rewrite <- app_assoc. eapply reach_trans; [apply RB|]. cbn [app].
        eapply reach_step; [apply (proj2 STEP)|]. apply RD.
      + exact SD.
      + constructor; [|exact V2]. eapply Forall2_vrel_mono; [eapply post_incl; exact P2|exact V1].
      + cbn [fold_left]. exact HD.
      + assert (K : forall x, (length (d_heap dst) <= x)%nat -> x <> t) by (intros; lia).
        eapply post_trans; [exact K| |exact P2].
        eapply post_trans; [exact K| |exact PBC].
        eapply post_same_l; [apply same_store_push|].
        eapply post_keep; [|exact P1]. intros; exact Logic.I.
  Qed.

  (** opening a container: <EMPTY_x> MEMOIZE, then code that only mutates the new object, then a last
      mutation of it *)
  Lemma post_close : forall rho dst est a nd0 est' rho' d3 d4,
      let n := length (d_heap dst) in
      let d2 := mkD (VRef n :: d_stack dst) (d_memo dst ++ [VRef n]) (d_heap dst ++ [nd0]) (d_nglob dst) in
      INV rho est dst ->
      post (fun x => x <> n) (rho ++ [(a, n)]) d2 est' rho' d3 ->
      post (fun x => x <> n) rho' d3 est' rho' d4 ->
      complete rho' h (d_heap d4) a n ->
      post (fun _ => True) rho dst est' rho' d4.
  Proof.
    intros rho dst est a nd0 est' rho' d3 d4 n d2 I P23 P34 C.
    assert (L2 : length (d_heap d2) = S n) by (subst d2; cbn [d_heap]; rewrite app_length; cbn; lia).
    assert (P : post (fun x => x <> n) (rho ++ [(a, n)]) d2 est' rho' d4).
    { eapply post_trans; [|exact P23|exact P34]. intros x Lx. lia. }
    destruct P as [[rn [E CN]] I4 L4 F4 G4]. constructor.
    - exists ((a, n) :: rn). split; [rewrite E, <- app_assoc; reflexivity|].
      intros b b' [HI|HI].
      + inversion HI; subst b b'. split; [lia|exact C].
      + destruct (CN _ _ HI) as [Lb Cb]. split; [lia|exact Cb].
    - exact I4.
    - lia.
    - intros x Lx _. rewrite F4 by lia. subst d2. cbn [d_heap]. apply nth_error_app1. exact Lx.
    - exact G4.
  Qed.

  Lemma INV_open : forall rho est dst a nd0,
      let n := length (d_heap dst) in
      INV rho est dst -> memo_find a (e_memo est) = None -> (a < length h)%nat ->
      INV (rho ++ [(a, n)]) (e_memoize a est)
          (mkD (VRef n :: d_stack dst) (d_memo dst ++ [VRef n]) (d_heap dst ++ [nd0]) (d_nglob dst)).
  Proof.
    intros rho est dst a nd0 n I MF L. unfold INV. cbn [d_memo d_heap].
    rewrite app_length. cbn [length]. rewrite Nat.add_1_r. apply Inv_memoize; assumption.
  Qed.

  Lemma sim_open : forall opE nd0 op kind ok upd,
      (forall r st, step unp lim (opE :: r) st
                    = SNext r (mkD (VRef (length (d_heap st)) :: d_stack st) (d_memo st) (d_heap st ++ [nd0]) (d_nglob st))) ->
      batch_step unp lim op kind ok upd -> (forall nd items, kind nd -> kind (upd nd items)) -> kind nd0 ->
      forall enc bs,
        Forall (Forall (sim_val enc)) bs -> Forall (Forall wf_val) bs ->
        (forall b items', In b bs -> length items' = length b -> ok items') ->
        forall est bb est' rho dst a,
          enc_batches enc op bs (e_memoize a est) = Ok (bb, est') -> INV rho est dst ->
          memo_find a (e_memo est) = None -> (a < length h)%nat ->
          exists rho' dst' its,
            (forall k, reach unp lim (opE :: opMEMOIZE :: bb ++ k) dst k dst') /\
            d_stack dst' = VRef (length (d_heap dst)) :: d_stack dst /\ In (a, length (d_heap dst)) rho' /\
            Forall2 (Forall2 (vrel rho')) bs its /\
            nth_error (d_heap dst') (length (d_heap dst)) = Some (fold_left upd its nd0) /\
            (complete rho' h (d_heap dst') a (length (d_heap dst)) -> post (fun _ => True) rho dst est' rho' dst').
  Proof.
    intros opE nd0 op kind ok upd SE BS KP K0 enc bs FS FW OK est bb est' rho dst a E I MF LA.
    set (n := length (d_heap dst)).
    set (d2 := mkD (VRef n :: d_stack dst) (d_memo dst ++ [VRef n]) (d_heap dst ++ [nd0]) (d_nglob dst)).
    pose proof (INV_open rho est dst a nd0 I MF LA) as I2. fold n in I2. fold d2 in I2.
    assert (H2 : nth_error (d_heap d2) n = Some nd0).
    { subst d2. cbn [d_heap]. rewrite nth_error_app2 by lia. subst n. rewrite Nat.sub_diag. reflexivity. }
    destruct (sim_batches op kind ok upd BS KP enc bs FS FW OK _ _ _ _ d2 n (d_stack dst) nd0 E I2 eq_refl H2 K0)
      as [rho' [d3 [its [R3 [S3 [V3 [H3 P3]]]]]]].
    exists rho', d3, its. split; [|split; [|split; [|split; [|split]]]].
    - intros k. eapply reach_step; [apply SE|]. eapply reach_step.
      + eapply step_MEMOIZE. reflexivity.
      + cbn [d_stack d_memo d_heap d_nglob]. fold n. fold d2. apply R3.
    - exact S3.
    - eapply post_incl; [exact P3|]. apply in_app_iff. right. left. reflexivity.
    - exact V3.
    - exact H3.
    - intros C. eapply post_close with (nd0 := nd0) (d3 := d3); [exact I|exact P3| |exact C].
      apply post_refl; [apply same_store_refl|exact (p_inv _ _ _ _ _ _ P3)].
  Qed.

  Lemma fold_upd_list : forall its cur, fold_left upd_list its (NList cur) = NList (cur ++ concat its).
  Proof.
    induction its as [|x r IH]; intros cur; cbn [fold_left concat].
    - rewrite app_nil_r. reflexivity.
    - cbn [upd_list]. rewrite IH, <- app_assoc. reflexivity.
  Qed.

  Lemma fold_upd_set : forall its cur, fold_left upd_set its (NSet cur) = NSet (fold_left set_add (concat its) cur).
  Proof.
    induction its as [|x r IH]; intros cur; cbn [fold_left concat]; [reflexivity|].
    cbn [upd_set]. rewrite IH, fold_left_app. reflexivity.
  Qed.

  Lemma fold_upd_dict : forall pss cur,
      fold_left upd_dict (map flat_pairs pss) (NDict cur) = NDict (fold_left dset (concat pss) cur).
  Proof.
    induction pss as [|x r IH]; intros cur; cbn [fold_left concat map]; [reflexivity|].
    unfold upd_dict at 2. rewrite pairs_of_flat. fold dset. rewrite IH, fold_left_app. reflexivity.
  Qed.

  Lemma pk_builtin : forall {A} (X : A) (Y : bytes -> bytes -> list val -> A) (Z : A) nd,
      In nd h -> is_list nd \/ is_dict nd ->
      match pk with
      | None => X
      | Some p => match p nd with POk m n args => Y m n args | PCannot => X | PFail => Z end
      end = X.
  Proof. intros A X Y Z nd HI K. eapply host_pair_builtin; [exact HP|exact HI|exact K]. Qed.

  Lemma pairs_of_even : forall n l, length l = (2 * n)%nat -> pairs_of l <> None.
  Proof.
    induction n as [|n IH]; intros l L.
    - destruct l; [discriminate|cbn in L; lia].
    - destruct l as [|k [|v r]]; cbn in L; try lia. cbn [pairs_of].
      specialize (IH r ltac:(lia)). destruct (pairs_of r); [discriminate|contradiction].
  Qed.

  Lemma batches_incl : forall {A} (l : list A) b, In b (batches l) -> incl b l.
  Proof. intros A l b HI. rewrite <- (batches_concat l) at 1. apply in_concat_incl. exact HI. Qed.

  Lemma flat_pairs_wf : forall kvs, Forall wf_val (map fst kvs) -> Forall wf_val (map snd kvs) -> Forall wf_val (flat_pairs kvs).
  Proof.
    induction kvs as [|[k v] r IH]; intros F1 F2; cbn; [constructor|].
    inversion F1; inversion F2; subst. constructor; [assumption|]. constructor; [assumption|]. apply IH; assumption.
  Qed.

  Lemma Forall_map_incl : forall {A B} (P : B -> Prop) (f : A -> B) l b, Forall P (map f l) -> incl b l -> Forall P (map f b).
  Proof.
    intros A B P f l b F I. apply Forall_forall. intros y Hy. apply in_map_iff in Hy. destruct Hy as [x [<- Hx]].
    rewrite Forall_forall in F. apply F. apply in_map. apply I. exact Hx.
  Qed.

  Lemma flat_batches_rel : forall rho pss its,
      Forall2 (Forall2 (vrel rho)) (map flat_pairs pss) its ->
      exists pss', its = map flat_pairs pss' /\ Forall2 (Forall2 (prel rho)) pss pss'.
  Proof.
    intros rho pss. induction pss as [|ps r IH]; intros its F; cbn [map] in F.
    - inversion F; subst. exists []. split; [reflexivity|constructor].
    - inversion F as [|? it ? its' R1 F1]; subst. destruct (flat_pairs_rel _ _ _ R1) as [ps' [-> P1]].
      destruct (IH _ F1) as [pss' [-> P2]]. exists (ps' :: pss'). split; [reflexivity|constructor; assumption].
  Qed.

  Lemma prel_keys : forall rho kvs kvs', Forall2 (prel rho) kvs kvs' -> Forall2 (vrel rho) (map fst kvs) (map fst kvs').
  Proof. intros rho kvs kvs' F. induction F as [|? ? ? ? [A _]]; cbn; constructor; assumption. Qed.

  Theorem encode_sim : forall f v, sim_val (encode pk f h) v.
  Proof.
    induction f as [|f IH]; intros v est b est' rho dst E I W; [discriminate|].
    assert (SQ : forall l, Forall (sim_val (encode pk f h)) l) by (intros l; apply Forall_forall; intros; apply IH).
    assert (SC : forall v0 d, same_store dst (push v0 d) -> same_store dst d).
    { intros v0 d S0. eapply same_store_trans; [exact S0|apply same_store_push]. }
    destruct v; cbn [encode] in E.
    - (* None *) inversion E; subst. exists rho, (push VNone dst), VNone. split; [|split; [|split]].
      + intros k. apply reach_one. apply step_NONE.
      + reflexivity.
      + constructor.
      + apply post_refl; [apply same_store_sym, same_store_push|exact I].
    - (* Bool *) destruct b0; inversion E; subst.
      + exists rho, (push (VBool true) dst), (VBool true). split; [|split; [|split]].
        * intros k. apply reach_one. apply step_TRUE.
        * reflexivity.
        * constructor.
        * apply post_refl; [apply same_store_sym, same_store_push|exact I].
      + exists rho, (push (VBool false) dst), (VBool false). split; [|split; [|split]].
        * intros k. apply reach_one. apply step_FALSE.
        * reflexivity.
        * constructor.
        * apply post_refl; [apply same_store_sym, same_store_push|exact I].
    - (* Int *) inversion E; subst. exists rho, (push (VInt z) dst), (VInt z). split; [|split; [|split]].
      + intros k. apply reach_int.
      + reflexivity.
      + constructor.
      + apply post_refl; [apply same_store_sym, same_store_push|exact I].
    - (* Float *) inversion E; subst. inversion W; subst.
      exists rho, (push (VFloat bits) dst), (VFloat bits). split; [|split; [|split]].
      + intros k. apply reach_float. assumption.
      + reflexivity.
      + constructor.
      + apply post_refl; [apply same_store_sym, same_store_push|exact I].
    - (* Str *) inversion E; subst. inversion W; subst.
      exists rho, (push (VStr s) dst), (VStr s). split; [|split; [|split]].
      + intros k. apply reach_str. assumption.
      + reflexivity.
      + constructor.
      + apply post_refl; [apply same_store_sym, same_store_push|exact I].
    - (* Bytes *) inversion E; subst. inversion W; subst.
      exists rho, (push (VBytes s) dst), (VBytes s). split; [|split; [|split]].
      + intros k. apply reach_bytes. assumption.
      + reflexivity.
      + constructor.
      + apply post_refl; [apply same_store_sym, same_store_push|exact I].
    - (* Tuple *)
      inversion W as [| | | | | |? WL| | |]; subst.
      destruct l as [|x1 [|x2 [|x3 [|x4 rest]]]].
      + inversion E; subst. exists rho, (push (VTuple []) dst), (VTuple []). split; [|split; [|split]].
        * intros k. apply reach_one. apply step_EMPTY_TUPLE.
        * reflexivity.
        * constructor. constructor.
        * apply post_refl; [apply same_store_sym, same_store_push|exact I].
      + destruct (enc_seq (encode pk f h) [x1] est) as [[bb e1]| | | |] eqn:ES; try discriminate.
        cbn [bind] in E. inversion E; subst. clear E.
        destruct (sim_seq _ _ (SQ _) WL _ _ _ _ _ ES I) as [rho1 [d1 [l' [R1 [S1 [V1 P1]]]]]].
        inversion V1 as [|? y1 ? t1 Vx F1]; subst. inversion F1; subst. cbn in S1.
        exists rho1, (set_stack d1 (VTuple [y1] :: d_stack dst)), (VTuple [y1]). split; [|split; [|split]].
        * intros k. rewrite <- app_assoc. eapply reach_trans; [apply R1|]. apply reach_one. cbn [app].
          erewrite step_TUPLE1 by exact S1. reflexivity.
        * reflexivity.
        * constructor. exact V1.
        * eapply post_same_r; [apply same_store_sym, same_store_set_stack|exact P1].
      + destruct (enc_seq (encode pk f h) [x1; x2] est) as [[bb e1]| | | |] eqn:ES; try discriminate.
        cbn [bind] in E. inversion E; subst. clear E.
        destruct (sim_seq _ _ (SQ _) WL _ _ _ _ _ ES I) as [rho1 [d1 [l' [R1 [S1 [V1 P1]]]]]].
        inversion V1 as [|? y1 ? t1 Vx F1]; subst. inversion F1 as [|? y2 ? t2 Vy F2]; subst. inversion F2; subst.
        cbn in S1.
        exists rho1, (set_stack d1 (VTuple [y1; y2] :: d_stack dst)), (VTuple [y1; y2]). split; [|split; [|split]].
        * intros k. rewrite <- app_assoc. eapply reach_trans; [apply R1|]. apply reach_one. cbn [app].
          erewrite step_TUPLE2 by exact S1. reflexivity.
        * reflexivity.
        * constructor. exact V1.
        * eapply post_same_r; [apply same_store_sym, same_store_set_stack|exact P1].
      + destruct (enc_seq (encode pk f h) [x1; x2; x3] est) as [[bb e1]| | | |] eqn:ES; try discriminate.
        cbn [bind] in E. inversion E; subst. clear E.
        destruct (sim_seq _ _ (SQ _) WL _ _ _ _ _ ES I) as [rho1 [d1 [l' [R1 [S1 [V1 P1]]]]]].
        inversion V1 as [|? y1 ? t1 Vx F1]; subst. inversion F1 as [|? y2 ? t2 Vy F2]; subst.
        inversion F2 as [|? y3 ? t3 Vz F3]; subst. inversion F3; subst. cbn in S1.
        exists rho1, (set_stack d1 (VTuple [y1; y2; y3] :: d_stack dst)), (VTuple [y1; y2; y3]).
        split; [|split; [|split]].
        * intros k. rewrite <- app_assoc. eapply reach_trans; [apply R1|]. apply reach_one. cbn [app].
          erewrite step_TUPLE3 by exact S1. reflexivity.
        * reflexivity.
        * constructor. exact V1.
        * eapply post_same_r; [apply same_store_sym, same_store_set_stack|exact P1].
      + remember (x1 :: x2 :: x3 :: x4 :: rest) as l.
        destruct (enc_seq (encode pk f h) l est) as [[bb e1]| | | |] eqn:ES; try discriminate.
        cbn [bind] in E. inversion E. subst b est'. clear E.
        assert (IA : INV rho est (push VMark dst)) by (eapply INV_same; [apply same_store_sym, same_store_push|exact I]).
        destruct (sim_seq _ _ (SQ _) WL _ _ _ _ _ ES IA) as [rho1 [d1 [l' [R1 [S1 [V1 P1]]]]]].
        exists rho1, (set_stack d1 (VTuple l' :: d_stack dst)), (VTuple l'). split; [|split; [|split]].
        * intros k. cbn [app]. eapply reach_step; [apply step_MARK|]. rewrite <- app_assoc.
          eapply reach_trans; [apply R1|]. apply reach_one. cbn [app].
          erewrite step_TUPLE.
          2:{ rewrite S1. cbn [push set_stack d_stack]. apply split_mark_rev. eapply Forall2_vrel_not_mark; exact V1. }
          rewrite app_nil_r. reflexivity.
        * reflexivity.
        * constructor. exact V1.
        * eapply post_same_r; [apply same_store_sym, same_store_set_stack|].
          eapply post_same_l; [apply same_store_push|exact P1].
    - (* Ref *)
      destruct (memo_find a (e_memo est)) as [id|] eqn:MF.
      + inversion E; subst. destruct WFH as [_ HL].
        destruct (reach_get unp lim _ _ _ dst a id [] I HL MF) as [a' [HI _]].
        exists rho, (push (VRef a') dst), (VRef a'). split; [|split; [|split]].
        * intros k. destruct (reach_get unp lim _ _ _ dst a id k I HL MF) as [a'' [HI' R]].
          assert (a'' = a').
          { destruct I. apply (NoDup_map_fst_inj rho a a'' a'); assumption. }
          subst a''. exact R.
        * reflexivity.
        * constructor. exact HI.
        * apply post_refl; [apply same_store_sym, same_store_push|exact I].
      + destruct (nth_error h a) as [nd|] eqn:HA; [|discriminate].
        assert (LA : (a < length h)%nat) by (apply nth_error_Some; congruence).
        assert (InH : In nd h) by (eapply nth_error_In; exact HA).
        assert (WN : wf_node nd) by (destruct WFH as [WF _]; rewrite Forall_forall in WF; apply WF; exact InH).
        destruct nd as [l|kvs|l|m n args].
        * (* list *)
          rewrite pk_builtin in E by first [exact InH|left; eexists; reflexivity|right; eexists; reflexivity]. cbn [wf_node] in WN.
          destruct l as [|x1 [|x2 rest]].
          -- inversion E; subst. clear E.
             destruct (sim_open opEMPTY_LIST (NList []) opAPPENDS is_list (fun _ => True) upd_list
                         (step_EMPTY_LIST unp lim) (step_APPENDS unp lim)
                         ltac:(intros ? ? [l0 ->]; eexists; reflexivity) ltac:(eexists; reflexivity)
                         (encode pk f h) [] ltac:(constructor) ltac:(constructor) ltac:(intros; exact Logic.I)
                         est [] (e_memoize a est) rho dst a eq_refl I MF LA)
               as [rho' [d' [its [R [S [HI [V [H3 P]]]]]]]].
             inversion V; subst. cbn [fold_left] in H3.
             exists rho', d', (VRef (length (d_heap dst))). split; [|split; [|split]].
             ++ exact R.
             ++ exact S.
             ++ constructor. exact HI.
             ++ apply P. exists (NList []), (NList []). repeat split; try assumption. constructor. constructor.
          -- (* one element: x APPEND *)
             destruct (encode pk f h (e_memoize a est) x1) as [[bx e1]| | | |] eqn:EX; try discriminate.
             cbn [bind] in E. inversion E; subst. clear E.
             set (n := length (d_heap dst)).
             set (d2 := mkD (VRef n :: d_stack dst) (d_memo dst ++ [VRef n]) (d_heap dst ++ [NList []]) (d_nglob dst)).
             pose proof (INV_open rho est dst a (NList []) I MF LA) as I2. fold n in I2. fold d2 in I2.
             inversion WN as [|? ? W1 _]; subst.
             destruct (IH x1 _ _ _ _ d2 EX I2 W1) as [rho1 [d3 [y1 [R3 [S3 [V3 P3]]]]]].
             assert (L2 : (n < length (d_heap d2))%nat) by (subst d2; cbn [d_heap]; rewrite app_length; cbn; lia).
             assert (H3 : nth_error (d_heap d3) n = Some (NList [])).
             { rewrite (p_frame _ _ _ _ _ _ P3 n L2 Logic.I). subst d2. cbn [d_heap].
               rewrite nth_error_app2 by lia. subst n. rewrite Nat.sub_diag. reflexivity. }
             assert (L3 : (n < length (d_heap d3))%nat) by (apply nth_error_Some; congruence).
             set (d4 := mkD (VRef n :: d_stack dst) (d_memo d3) (heap_upd (d_heap d3) n (NList ([] ++ [y1]))) (d_nglob d3)).
             assert (P34 : post (fun x => x <> n) rho1 d3 est' rho1 d4).
             { constructor.
               - exists []. split; [rewrite app_nil_r; reflexivity|intros ? ? []].
               - pose proof (p_inv _ _ _ _ _ _ P3) as IB. unfold INV in *. subst d4. cbn [d_memo d_heap].
                 rewrite heap_upd_length. exact IB.
               - subst d4. cbn [d_heap]. rewrite heap_upd_length. lia.
               - intros x Lx Nx. subst d4. cbn [d_heap]. apply nth_error_heap_upd_other. exact Nx.
               - apply N.le_refl. }
             exists rho1, d4, (VRef n). split; [|split; [|split]].
             ++ intros k. cbn [app]. eapply reach_step; [apply step_EMPTY_LIST|]. eapply reach_step.
                ** eapply step_MEMOIZE. reflexivity.
                ** cbn [d_stack d_memo d_heap d_nglob]. fold n. fold d2. rewrite <- app_assoc.
                   eapply reach_trans; [apply R3|]. apply reach_one. cbn [app].
                   erewrite step_APPEND; [reflexivity|rewrite S3; reflexivity|exact H3].
             ++ reflexivity.
             ++ constructor. eapply post_incl; [exact P3|]. apply in_app_iff. right. left. reflexivity.
             ++ eapply post_close with (nd0 := NList []) (d3 := d3); [exact I| |exact P34|].
                ** eapply post_keep; [|exact P3]. intros; exact Logic.I.
                ** exists (NList [x1]), (NList [y1]). repeat split.
                   --- exact HA.
                   --- subst d4. cbn [d_heap]. apply nth_error_heap_upd_same. exact L3.
                   --- constructor. constructor; [exact V3|constructor].
          -- (* batches *)
             remember (x1 :: x2 :: rest) as l.
             destruct (enc_batches (encode pk f h) opAPPENDS (batches l) (e_memoize a est)) as [[bb e1]| | | |] eqn:EB;
               try discriminate.
             cbn [bind] in E. inversion E. subst b est'. clear E.
             assert (FW : Forall (Forall wf_val) (batches l)).
             { apply Forall_forall. intros b0 Hb. apply Forall_forall. intros y Hy.
               rewrite Forall_forall in WN. apply WN. eapply batches_incl; eassumption. }
             destruct (sim_open opEMPTY_LIST (NList []) opAPPENDS is_list (fun _ => True) upd_list
                         (step_EMPTY_LIST unp lim) (step_APPENDS unp lim)
                         ltac:(intros ? ? [l0 ->]; eexists; reflexivity) ltac:(eexists; reflexivity)
                         (encode pk f h) (batches l) ltac:(apply Forall_forall; intros; apply SQ) FW
                         ltac:(intros; exact Logic.I)
                         est bb e1 rho dst a EB I MF LA)
               as [rho' [d' [its [R [S [HI [V [H3 P]]]]]]]].
             exists rho', d', (VRef (length (d_heap dst))). split; [|split; [|split]].
             ++ exact R.
             ++ exact S.
             ++ constructor. exact HI.
             ++ apply P. rewrite fold_upd_list in H3. cbn [app] in H3.
                exists (NList l), (NList (concat its)). repeat split; try assumption.
                constructor. rewrite <- (batches_concat l) at 1. apply Forall2_concat. exact V.
        * (* dict *)
          rewrite pk_builtin in E by first [exact InH|left; eexists; reflexivity|right; eexists; reflexivity]. cbn [wf_node] in WN. destruct WN as [WK [WV DK]].
          destruct (enc_batches (encode pk f h) opSETITEMS (map flat_pairs (batches kvs)) (e_memoize a est))
            as [[bb e1]| | | |] eqn:EB; try discriminate.
          cbn [bind] in E. inversion E. subst b est'. clear E.
          assert (FW : Forall (Forall wf_val) (map flat_pairs (batches kvs))).
          { apply Forall_forall. intros b0 Hb. apply in_map_iff in Hb. destruct Hb as [ps [<- Hps]].
            pose proof (batches_incl _ _ Hps) as IN.
            apply flat_pairs_wf; eapply Forall_map_incl; eassumption. }
          destruct (sim_open opEMPTY_DICT (NDict []) opSETITEMS is_dict (fun items => pairs_of items <> None) upd_dict
                      (step_EMPTY_DICT unp lim) (step_SETITEMS unp lim)
                      ltac:(intros ? ? [l0 ->]; unfold upd_dict; destruct (pairs_of _); eexists; reflexivity)
                      ltac:(eexists; reflexivity)
                      (encode pk f h) (map flat_pairs (batches kvs)) ltac:(apply Forall_forall; intros; apply SQ) FW
                      ltac:(intros b0 items' Hb HL; apply in_map_iff in Hb; destruct Hb as [ps [<- _]];
                            rewrite flat_pairs_length in HL; eapply pairs_of_even; exact HL)
                      est bb e1 rho dst a EB I MF LA)
            as [rho' [d' [its [R [S [HI [V [H3 P]]]]]]]].
          exists rho', d', (VRef (length (d_heap dst))). split; [|split; [|split]].
          -- exact R.
          -- exact S.
          -- constructor. exact HI.
          -- apply P. destruct (flat_batches_rel _ _ _ V) as [pss' [-> PR]].
             rewrite fold_upd_dict in H3.
             assert (KR : Forall2 (prel rho') kvs (concat pss')).
             { rewrite <- (batches_concat kvs) at 1. apply Forall2_concat. exact PR. }
             assert (KE : map fst (concat pss') = map fst kvs).
             { eapply hashable_keys_eq; [exact DK|]. apply prel_keys. exact KR. }
             rewrite dict_fold_distinct in H3 by (cbn [map]; rewrite KE; exact DK). cbn [app] in H3.
             exists (NDict kvs), (NDict (concat pss')). repeat split; try assumption. constructor. exact KR.
        * (* set *)
          cbn [wf_node] in WN. destruct WN as [WL DK].
          destruct (enc_batches (encode pk f h) opADDITEMS (batches l) (e_memoize a est)) as [[bb e1]| | | |] eqn:EB;
            try discriminate.
          cbn [bind] in E. inversion E. subst b est'. clear E.
          assert (FW : Forall (Forall wf_val) (batches l)).
          { apply Forall_forall. intros b0 Hb. apply Forall_forall. intros y Hy.
            rewrite Forall_forall in WL. apply WL. eapply batches_incl; eassumption. }
          destruct (sim_open opEMPTY_SET (NSet []) opADDITEMS is_set (fun _ => True) upd_set
                      (step_EMPTY_SET unp lim) (step_ADDITEMS unp lim)
                      ltac:(intros ? ? [l0 ->]; eexists; reflexivity) ltac:(eexists; reflexivity)
                      (encode pk f h) (batches l) ltac:(apply Forall_forall; intros; apply SQ) FW
                      ltac:(intros; exact Logic.I)
                      est bb e1 rho dst a EB I MF LA)
            as [rho' [d' [its [R [S [HI [V [H3 P]]]]]]]].
          exists rho', d', (VRef (length (d_heap dst))). split; [|split; [|split]].
          -- exact R.
          -- exact S.
          -- constructor. exact HI.
          -- apply P. rewrite fold_upd_set in H3.
             assert (LR : Forall2 (vrel rho') l (concat its)).
             { rewrite <- (batches_concat l) at 1. apply Forall2_concat. exact V. }
             assert (LE : concat its = l) by (eapply hashable_keys_eq; eassumption).
             rewrite set_fold_distinct in H3 by (rewrite LE; exact DK). cbn [app] in H3.
             exists (NSet l), (NSet (concat its)). repeat split; try assumption. constructor. exact LR.
        * (* host object *)
          cbn [wf_node] in WN. pose proof WN as WA.
          destruct (host_pair_taken _ _ _ _ _ _ HP InH) as [TK|[TK [UE [WM WN']]]].
          { rewrite (pk_declined_obj pk) in E by exact TK. discriminate. }
          rewrite (pk_taken pk) with (m := m) (n := n) (args := args) in E by exact TK.
          destruct (encode pk f h est (VTuple args)) as [[b1 st1]| | | |] eqn:EA; try discriminate.
          cbn [bind] in E. inversion E. subst b est'. clear E.
          pose proof (taken_fresh pk h AC f est a _ m n args b1 st1 MF HA TK EA) as MF1.
          set (dC := mkD (VGlobal (d_nglob dst) m n :: d_stack dst) (d_memo dst) (d_heap dst) (d_nglob dst + 1)).
          assert (IC : INV rho est dC) by exact I.
          assert (WT : wf_val (VTuple args)) by (constructor; exact WA).
          destruct (IH (VTuple args) _ _ _ _ dC EA IC WT) as [rho1 [d1 [v1 [R1 [S1 [V1 P1]]]]]].
          inversion V1 as [| | | | | |? args' VA|]; subst.
          set (n1 := length (d_heap d1)).
          set (d2 := mkD (VRef n1 :: d_stack dst) (d_memo d1) (d_heap d1 ++ [NObj m n args']) (d_nglob d1)).
          set (d3 := mkD (VRef n1 :: d_stack dst) (d_memo d1 ++ [VRef n1]) (d_heap d1 ++ [NObj m n args']) (d_nglob d1)).
          pose proof (post_incl _ _ _ _ _ _ P1) as I01.
          assert (P13 : post (fun _ => True) rho1 d1 (e_memoize a st1) (rho1 ++ [(a, n1)]) d3).
          { constructor.
            - exists [(a, n1)]. split; [reflexivity|]. intros x x' [HI|[]]. inversion HI; subst x x'. split; [subst n1; lia|].
              exists (NObj m n args), (NObj m n args'). repeat split.
              + exact HA.
              + subst d3. cbn [d_heap]. rewrite nth_error_app2 by (subst n1; lia). subst n1. rewrite Nat.sub_diag. reflexivity.
              + constructor. eapply Forall2_vrel_mono; [|exact VA]. apply incl_appl, incl_refl.
            - unfold INV. subst d3. cbn [d_memo d_heap]. rewrite app_length. cbn [length]. rewrite Nat.add_1_r.
              apply Inv_memoize; [exact (p_inv _ _ _ _ _ _ P1)|exact MF1|exact LA].
            - subst d3. cbn [d_heap]. rewrite app_length. lia.
            - intros x Lx _. subst d3. cbn [d_heap]. apply nth_error_app1. exact Lx.
            - apply N.le_refl. }
          exists (rho1 ++ [(a, n1)]), d3, (VRef n1). split; [|split; [|split]].
          -- intros k. repeat rewrite <- app_assoc.
             eapply reach_trans; [apply reach_str; exact WM|].
             eapply reach_trans; [apply reach_str; exact WN'|].
             cbn [app]. eapply reach_step; [apply step_STACK_GLOBAL; reflexivity|].
             cbn [push set_stack d_stack d_memo d_heap d_nglob]. fold dC.
             rewrite <- app_assoc. eapply reach_trans; [apply R1|].
             cbn [app]. eapply reach_step; [eapply step_NEWOBJ; [exact UE|exact S1]|]. fold n1. fold d2.
             apply reach_one. erewrite step_MEMOIZE by reflexivity. reflexivity.
          -- reflexivity.
          -- constructor. apply in_app_iff. right. left. reflexivity.
          -- eapply post_trans with (d1 := d1); [auto| |exact P13].
             constructor.
             ++ exact (p_ext _ _ _ _ _ _ P1).
             ++ exact (p_inv _ _ _ _ _ _ P1).
             ++ exact (p_len _ _ _ _ _ _ P1).
             ++ exact (p_frame _ _ _ _ _ _ P1).
             ++ pose proof (p_nglob _ _ _ _ _ _ P1) as G. subst dC. cbn [d_nglob] in G. lia.
    - discriminate.
    - discriminate.
  Qed.
End Sim.

(* ------------------------------------------------------------------------------------------------ *)
(** * The round-trip theorem *)

Theorem host_roundtrip_proof : forall pk unp fuel h v bs,
    wf_heap h -> host_pair pk unp h -> host_acyclic pk h -> wf_val v ->
    encode_top pk fuel h v = Ok bs ->
    exists v' h', decode unp bs = Ok (v', h') /\ iso h v h' v'.
Proof.
  intros pk unp fuel h v bs WFH HP AC W E. unfold encode_top in E.
  destruct (encode pk fuel h estate0 v) as [[b est1]| | | |] eqn:E1; try discriminate.
  cbn [bind] in E. inversion E; subst bs. clear E.
  destruct (encode_sim unp (len (b ++ [opSTOP])) pk h WFH HP AC fuel v estate0 b est1 [] dstate0 E1 (Inv0 _) W)
    as [rho' [d' [v' [R [SS [V P]]]]]].
  exists v', (d_heap d'). split.
  - unfold decode.
    change (run unp (len (b ++ [opSTOP])) (S (length (b ++ [opSTOP]))) (b ++ [opSTOP]) dstate0)
      with (Run unp (len (b ++ [opSTOP])) (b ++ [opSTOP]) dstate0).
    rewrite (reach_Run _ _ _ _ _ _ (R [opSTOP])).
    erewrite Run_done by (apply step_STOP; exact SS). reflexivity.
  - exists rho'. destruct P as [[rn [ER CN]] IN _ _ _]. cbn [app] in ER. subst rn.
    split; [exact V|]. split; [exact (inv_nodup_src _ _ _ _ _ IN)|]. split; [exact (inv_nodup_tgt _ _ _ _ _ IN)|].
    intros a a' HI. apply (CN _ _ HI).
Qed.

Theorem heap_roundtrip_proof : forall pk unp fuel h v bs,
    wf_heap h -> no_host pk h -> wf_val v ->
    encode_top pk fuel h v = Ok bs ->
    exists v' h', decode unp bs = Ok (v', h') /\ iso h v h' v'.
Proof.
  intros pk unp fuel h v bs WFH NH W E.
  eapply host_roundtrip_proof; eauto using no_host_pair, no_host_acyclic.
Qed.

(** two graphs with the same encoding are both isomorphic to the one decoded graph *)
Theorem same_encoding_iso_proof : forall pk unp f1 f2 h1 v1 h2 v2 bs,
    wf_heap h1 -> host_pair pk unp h1 -> host_acyclic pk h1 -> wf_val v1 ->
    wf_heap h2 -> host_pair pk unp h2 -> host_acyclic pk h2 -> wf_val v2 ->
    encode_top pk f1 h1 v1 = Ok bs -> encode_top pk f2 h2 v2 = Ok bs ->
    exists v' h', decode unp bs = Ok (v', h') /\ iso h1 v1 h' v' /\ iso h2 v2 h' v'.
Proof.
  intros pk unp f1 f2 h1 v1 h2 v2 bs W1 N1 A1 V1 W2 N2 A2 V2 E1 E2.
  destruct (host_roundtrip_proof pk unp f1 h1 v1 bs W1 N1 A1 V1 E1) as [v' [h' [D1 I1]]].
  destruct (host_roundtrip_proof pk unp f2 h2 v2 bs W2 N2 A2 V2 E2) as [v'' [h'' [D2 I2]]].
  rewrite D1 in D2. inversion D2; subst. eauto.
Qed.
