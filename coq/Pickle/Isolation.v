(** Several encoder instances whose writes are interleaved (definitions only; proofs: Proofs_Isolation.v).

    An [Encoder] of encode.go owns its Writer, its memo and its id counter; nothing it writes passes through state
    that another instance can see.  The model of that statement: an instance is the sequence of the Write calls it
    still has to make ([todo], any cutting of its encoding into chunks) and what its own Writer has received so far
    ([sink]); a step of instance [i] moves its next chunk to ITS sink and touches no other instance.  A schedule is
    the list of the instances that move, in order -- every interleaving of the instances' writes is a schedule.
    The harness (harness/overlay/pickle/zz_verif_c07_conc_test.go) runs real Encoders under such schedules and
    compares what every Writer received with the encoding of the same value produced alone. *)
From Coq Require Import List.
From Dawn Require Import Pickle.Model.
Import ListNotations.

Record inst := { todo : list bytes; sink : bytes }.

Definition step1 (x : inst) : inst :=
  match todo x with
  | [] => x
  | c :: r => {| todo := r; sink := sink x ++ c |}
  end.

Fixpoint upd {A} (i : nat) (f : A -> A) (l : list A) : list A :=
  match l, i with
  | [], _ => []
  | x :: r, O => f x :: r
  | x :: r, S j => x :: upd j f r
  end.

Definition run (sched : list nat) (w : list inst) : list inst := fold_left (fun w i => upd i step1 w) sched w.

Definition start (writes : list (list bytes)) : list inst := map (fun cs => {| todo := cs; sink := [] |}) writes.

(** every instance has made all its writes *)
Definition finished (w : list inst) : Prop := Forall (fun x => todo x = []) w.

(** an encoder instance at work: the value it encodes and the Write calls it makes *)
Record job := { j_fuel : nat; j_heap : heap; j_val : val; j_writes : list bytes }.
