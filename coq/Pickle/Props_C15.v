(** C15 — Decoding arbitrary bytes yields a value or an error, never a crash.

    [decode unp bs] is the model of pickle.NewDecoder(r, unp).Decode() on the input [bs] (Pickle/Model.v);
    its outcomes are [Ok (value, heap)], [Err] (an error is returned), [Crash] (the process dies), [NilNil]
    ((nil, nil) is returned) and [OutOfFuel] (no answer within length+1 steps: a hang).  The unpickler [unp]
    is ANY function returning a value or an error (a Go runtime error inside it is an error too: Decode's
    recover converts every panic whose value implements [error]); values of the model are never nil.
    [lengths_bounded bs] is the property's hypothesis "declared lengths bounded by the input size". *)
From Dawn Require Import Pickle.Model Pickle.Source Pickle.Proofs_C15 Pickle.Proofs_Source.
Require Dawn.Build.Model Dawn.Build.Proofs_Skip.
Open Scope N_scope.

(** For every unpickler and every byte string the decoder answers within length+1 steps, and never with (nil, nil). *)
Theorem decode_never_hangs_or_nilnil : forall unp bs,
    decode unp bs <> OutOfFuel /\ decode unp bs <> NilNil.
Proof. exact decode_never_hangs_or_nilnil_proof. Qed.
Print Assumptions decode_never_hangs_or_nilnil.

(** ... and with declared lengths bounded by the input size the answer is an error or a (non-nil) value:
    never a crash. *)
Theorem decode_total : forall unp bs,
    lengths_bounded bs = true ->
    decode unp bs = Err \/ exists v h, decode unp bs = Ok (v, h).
Proof. exact decode_total_proof. Qed.
Print Assumptions decode_total.

(** The decoder reads from a SOURCE (Pickle/Source.v): any bytes, after which the reader fails -- by ending (io.EOF) or with
    any other error, sticky or transient (a damaged base64 character of the persisted stamp).  Whatever the bytes and
    whatever the failure, decoding from it neither hangs nor returns (nil, nil), and with bounded declared lengths it
    returns an error or a value: the failure of the source is never waited for. *)
Theorem decode_source_total : forall unp s,
    decode_source unp s <> OutOfFuel /\ decode_source unp s <> NilNil /\
    (lengths_bounded (src_bytes s) = true ->
     decode_source unp s = Err \/ exists v h, decode_source unp s = Ok (v, h)).
Proof. exact decode_source_total_proof. Qed.
Print Assumptions decode_source_total.

(** ... and a source that fails before the end of an input can only turn the value of that input into an error, never
    into another value: if the complete input [src_bytes s ++ more] decodes to [res], then decoding from the source that
    fails after [src_bytes s] returns [res] (it was complete already) or an error -- a damaged record is never decoded
    to something it does not say. *)
Theorem failed_source_never_changes_value : forall unp s more res,
    decode unp (src_bytes s ++ more) = Ok res ->
    lengths_bounded (src_bytes s) = true ->
    decode_source unp s = Ok res \/ decode_source unp s = Err.
Proof. exact failed_source_never_changes_value_proof. Qed.
Print Assumptions failed_source_never_changes_value.

(** function.go's envUnpickler: a value (the heap only grows), a returned error, or a Go runtime error
    (failed unchecked type assertion / index out of range) -- nothing else, in particular never nil. *)
Theorem env_unpickle_total : forall m n args h,
    match env_unpickle m n args h with
    | EOk v h' => (length h <= length h')%nat
    | EErr => True
    | EPanic => True
    end.
Proof. exact env_unpickle_total_proof. Qed.
Print Assumptions env_unpickle_total.

(** hence loading a persisted stamp (Decode with envUnpickler) is total *)
Theorem env_decode_total : forall bs,
    lengths_bounded bs = true ->
    decode (Some env_unpickler) bs = Err \/ exists v h, decode (Some env_unpickler) bs = Ok (v, h).
Proof. exact env_decode_total_proof. Qed.
Print Assumptions env_decode_total.

(** diffEnv: the reason string is built without an out-of-range index or slice bound for every number of
    differing keys (0, 1, 2, n) *)
Theorem reason_total : forall reasons, exists r, reason_of reasons = Ok r.
Proof. exact reason_total_proof. Qed.
Print Assumptions reason_total.

Theorem diff_reason_total : forall has, exists r, diff_reason has = Ok r.
Proof. exact diff_reason_total_proof. Qed.
Print Assumptions diff_reason_total.

(** "... never as a target silently treated as up to date": in the engine model (Build/Model.v) the persisted records of
    a world are arbitrary data; for ANY such world, a build (any mode, not killed) that reports a target up to date found
    in that target's own record exactly the stamp of its present environment and no re-run mark -- a record corrupted into
    anything else makes the target execute (or the load fail). Stamp equality in the model is the byte equality of stamps
    that function.diffEnv tests first since a7d2e7f; that the implementation behaves so on real corrupted record files is
    what the record-layer harness (zz_verif_c15_record_test.go) decides. *)
Theorem corrupted_record_never_silently_up_to_date :
  forall (c : Dawn.Build.Model.bcfg) (w : Dawn.Build.Model.world) l0 l,
    Dawn.Build.Model.c_crashed c = false ->
    In (Dawn.Build.Model.EUpToDate l) (Dawn.Build.Model.o_events (Dawn.Build.Model.build c w l0)) ->
    Dawn.Build.Proofs_Skip.accepted (Dawn.Build.Model.w_proj w) w l.
Proof. exact Dawn.Build.Proofs_Skip.up_to_date_only_with_current_stamp. Qed.
Print Assumptions corrupted_record_never_silently_up_to_date.

(** the hypothesis is satisfiable and not vacuous *)
Example lengths_bounded_ex : lengths_bounded [opBINUNICODE; 1; 0; 0; 0; 97; opSTOP] = true.
Proof. vm_compute. reflexivity. Qed.
Example lengths_unbounded_ex : lengths_bounded [opBINUNICODE; 255; 255; 255; 127; 97; opSTOP] = false
                               /\ decode None [opBINUNICODE; 255; 255; 255; 127; 97; opSTOP] = Crash.
Proof. vm_compute. split; reflexivity. Qed.

(** a source that fails inside the text of an INT (no newline yet): an error; the complete input: the value *)
Example failing_source_ex :
  decode_source None (mkSource [opINT; 49; 48] EndError) = Err
  /\ (exists h, decode None ([opINT; 49; 48] ++ [10; opSTOP]) = Ok (VInt 10, h)).
Proof. vm_compute. split; [reflexivity|eexists; reflexivity]. Qed.
