From Dawn Require Import Pickle.Model.
Open Scope N_scope.
Theorem pipeline_smoke15 : decode None [opSTOP] = Err.
Proof. vm_compute. reflexivity. Qed.
Print Assumptions pipeline_smoke15.
