(** C15 — Decoding arbitrary bytes yields a value or an error, never a crash.

    [decode unp bs] is the model of pickle.NewDecoder(r, unp).Decode() on the input [bs] (Pickle/Model.v);
    its outcomes are [Ok (value, heap)], [Err] (an error is returned), [Crash] (the process dies), [NilNil]
    ((nil, nil) is returned) and [OutOfFuel] (no answer within length+1 steps: a hang).  The unpickler [unp]
    is ANY function returning a value or an error (a Go runtime error inside it is an error too: Decode's
    recover converts every panic whose value implements [error]); values of the model are never nil.
    [lengths_bounded bs] is the property's hypothesis "declared lengths bounded by the input size". *)
From Dawn Require Import Pickle.Model Pickle.Proofs_C15.
Open Scope N_scope.

(** For every unpickler and every byte string the decoder answers within length+1 steps, and never with (nil, nil). *)
Theorem decode_never_hangs_or_nilnil : forall unp bs,
    decode unp bs <> OutOfFuel /\ decode unp bs <> NilNil.
Proof. exact decode_never_hangs_or_nilnil_proof. Qed.
Print Assumptions decode_never_hangs_or_nilnil.

(** ... and with declared lengths bounded by the input size the answer is an error or a (non-nil) value:
    never a crash. *)
Theorem decode_total : forall unp bs,
    lengths_bounded bs = true ->
    decode unp bs = Err \/ exists v h, decode unp bs = Ok (v, h).
Proof. exact decode_total_proof. Qed.
Print Assumptions decode_total.

(** function.go's envUnpickler: a value (the heap only grows), a returned error, or a Go runtime error
    (failed unchecked type assertion / index out of range) -- nothing else, in particular never nil. *)
Theorem env_unpickle_total : forall m n args h,
    match env_unpickle m n args h with
    | EOk v h' => (length h <= length h')%nat
    | EErr => True
    | EPanic => True
    end.
Proof. exact env_unpickle_total_proof. Qed.
Print Assumptions env_unpickle_total.

(** hence loading a persisted stamp (Decode with envUnpickler) is total *)
Theorem env_decode_total : forall bs,
    lengths_bounded bs = true ->
    decode (Some env_unpickler) bs = Err \/ exists v h, decode (Some env_unpickler) bs = Ok (v, h).
Proof. exact env_decode_total_proof. Qed.
Print Assumptions env_decode_total.

(** diffEnv: the reason string is built without an out-of-range index or slice bound for every number of
    differing keys (0, 1, 2, n) *)
Theorem reason_total : forall reasons, exists r, reason_of reasons = Ok r.
Proof. exact reason_total_proof. Qed.
Print Assumptions reason_total.

Theorem diff_reason_total : forall has, exists r, diff_reason has = Ok r.
Proof. exact diff_reason_total_proof. Qed.
Print Assumptions diff_reason_total.

(** the hypothesis is satisfiable and not vacuous *)
Example lengths_bounded_ex : lengths_bounded [opBINUNICODE; 1; 0; 0; 0; 97; opSTOP] = true.
Proof. vm_compute. reflexivity. Qed.
Example lengths_unbounded_ex : lengths_bounded [opBINUNICODE; 255; 255; 255; 127; 97; opSTOP] = false
                               /\ decode None [opBINUNICODE; 255; 255; 255; 127; 97; opSTOP] = Crash.
Proof. vm_compute. split; reflexivity. Qed.
