(** C07: what happens when an object taken by the host pickler is reachable from its own constructor
    arguments -- the case excluded by [host_acyclic].  Both behaviours below are those of the Go code
    (checked through the harness): a fatal stack overflow, and a decoded graph with a duplicated object. *)
From Dawn Require Import Pickle.Model Pickle.Spec Pickle.Proofs_Base Pickle.Proofs_Term Pickle.Proofs_Heap.
From Coq Require Import Lia.
Open Scope N_scope.

(** a host object that is its own constructor argument *)
Definition self_heap : heap := [NObj [118] [72] [VRef 0%nat]].

Lemma self_diverges : forall f,
    encode (Some obj_pickler) f self_heap estate0 (VRef 0%nat) = OutOfFuel /\
    encode (Some obj_pickler) f self_heap estate0 (VTuple [VRef 0%nat]) = OutOfFuel.
Proof.
  induction f as [|f [IH1 IH2]]; [split; reflexivity|]. split.
  - cbn [encode estate0 e_memo memo_find self_heap nth_error obj_pickler]. fold self_heap.
    change (mkE [] 0) with estate0. rewrite IH2. reflexivity.
  - cbn [encode enc_seq]. rewrite IH1. reflexivity.
Qed.

Theorem host_selfref_diverges_proof : forall fuel,
    encode_top (Some obj_pickler) fuel self_heap (VRef 0%nat) = OutOfFuel.
Proof. intros fuel. unfold encode_top. rewrite (proj1 (self_diverges fuel)). reflexivity. Qed.

(** a host object whose argument is a list that contains the object *)
Definition cyc_heap : heap := [NObj [118] [72] [VRef 1%nat]; NList [VRef 0%nat]].
Definition cyc_bytes : bytes :=
  [140; 1; 118; 140; 1; 72; 147; 93; 148; 140; 1; 118; 140; 1; 72; 147; 104; 0; 133; 129; 148; 97; 133; 129; 148; 46].
Definition cyc_decoded : heap := [NList [VRef 1%nat]; NObj [118] [72] [VRef 0%nat]; NObj [118] [72] [VRef 0%nat]].

Lemma cyc_not_iso : ~ iso cyc_heap (VRef 0%nat) cyc_decoded (VRef 2%nat).
Proof.
  intros [rho [V [ND1 [_ C]]]].
  inversion V as [| | | | | | |? ? H02]; subst.
  destruct (C _ _ H02) as [nd [nd' [A [B R]]]]. cbn in A, B. inversion A; inversion B; subst. clear A B.
  inversion R as [| | |? ? ? ? F]; subst. inversion F as [|? ? ? ? V1 _]; subst.
  inversion V1 as [| | | | | | |? ? H10]; subst.
  destruct (C _ _ H10) as [nd [nd' [A [B R']]]]. cbn in A, B. inversion A; inversion B; subst. clear A B.
  inversion R' as [? ? F'| | |]; subst. inversion F' as [|? ? ? ? V2 _]; subst.
  inversion V2 as [| | | | | | |? ? H01]; subst.
  assert (E : 2%nat = 1%nat) by (eapply NoDup_map_fst_inj; eassumption). discriminate.
Qed.

Theorem host_cycle_roundtrip_refuted_proof :
    wf_heap cyc_heap /\ host_pair (Some obj_pickler) (Some obj_unpickler) cyc_heap /\
    ~ host_acyclic (Some obj_pickler) cyc_heap /\
    encode_top (Some obj_pickler) 20 cyc_heap (VRef 0%nat) = Ok cyc_bytes /\
    decode (Some obj_unpickler) cyc_bytes = Ok (VRef 2%nat, cyc_decoded) /\
    ~ iso cyc_heap (VRef 0%nat) cyc_decoded (VRef 2%nat).
Proof.
  split; [|split; [|split; [|split; [|split]]]].
  - split; [|vm_compute; discriminate]. repeat constructor.
  - intros p nd E HI. inversion E; subst. destruct HI as [<-|[<-|[]]]; cbn; [|reflexivity].
    right. repeat split; reflexivity.
  - intros AC. apply (AC 0%nat (NObj [118] [72] [VRef 1%nat]) [118] [72] [VRef 1%nat] (VRef 1%nat) eq_refl eq_refl (or_introl eq_refl)).
    eapply rv_step with (nd := NList [VRef 0%nat]); [reflexivity|left; reflexivity|constructor].
  - vm_compute. reflexivity.
  - vm_compute. reflexivity.
  - exact cyc_not_iso.
Qed.
