(** Shared proof infrastructure for C07: fuel-independent execution of the decoder ([reach]), byte-packing
    arithmetic, the decimal INT form, and the execution of each scalar encoding. *)
From Dawn Require Import Pickle.Model Pickle.Proofs_C15.
From Coq Require Import Lia ZifyBool ZifyNat ZifyN.
Open Scope N_scope.

(* ------------------------------------------------------------------------------------------------ *)
(** * Arithmetic *)

Module Arith.
  Ltac Zify.zify_post_hook ::= Z.div_mod_to_equations.

  Lemma of_le32_le32_mod : forall n,
      of_le32 (byte_of n) (byte_of (n / 256)) (byte_of (n / 65536)) (byte_of (n / 16777216)) = n mod 4294967296.
  Proof. intros n. unfold of_le32, byte_of. lia. Qed.

  Lemma split64 : forall n, n < 18446744073709551616 ->
      n mod 4294967296 + 4294967296 * ((n / 4294967296) mod 4294967296) = n.
  Proof. intros n H. lia. Qed.

  Lemma signed32_low32 : forall z, (-2147483648 <= z <= 2147483647)%Z -> signed32 (low32 z) = z.
  Proof.
    intros z H. unfold signed32, low32.
    destruct (_ <? _) eqn:E; [apply N.ltb_lt in E | apply N.ltb_ge in E]; lia.
  Qed.

  Lemma low32_lt : forall z, low32 z < 4294967296.
  Proof. intros z. unfold low32. lia. Qed.

  Lemma int2_bytes : forall z, (0 <= z < 65536)%Z ->
      Z.of_N (byte_of (Z.to_N z) + 256 * byte_of (Z.to_N z / 256)) = z.
  Proof. intros z H. unfold byte_of. lia. Qed.

  Lemma div10_lt : forall n, n <> 0 -> n / 10 < n.
  Proof. intros n H. lia. Qed.

  Lemma twice_div10 : forall n, 2 * (n / 10) <= n.
  Proof. intros n. lia. Qed.

  Lemma divmod10 : forall n, (n / 10) * 10 + n mod 10 = n.
  Proof. intros n. lia. Qed.

  Lemma mod10_lt : forall n, n mod 10 < 10.
  Proof. intros n. lia. Qed.
  Ltac Zify.zify_post_hook ::= idtac.
End Arith.
Import Arith.

Lemma byte_of_small : forall n, n < 256 -> byte_of n = n.
Proof. intros n H. unfold byte_of. apply N.mod_small. exact H. Qed.

Lemma of_le32_le32 : forall n, n < 4294967296 ->
    of_le32 (byte_of n) (byte_of (n / 256)) (byte_of (n / 65536)) (byte_of (n / 16777216)) = n.
Proof. intros n H. rewrite of_le32_le32_mod. apply N.mod_small. exact H. Qed.

(* ------------------------------------------------------------------------------------------------ *)
(** * takeN / split_first on concatenations *)

Lemma takeN_app : forall s k, takeN (s ++ k) (len s) = Some (s, k).
Proof.
  induction s as [|b s IH]; intros k.
  - simpl. destruct k; reflexivity.
  - unfold len. simpl length. simpl app. unfold takeN; fold takeN.
    replace (N.of_nat (S (length s)) =? 0) with false by (symmetry; apply N.eqb_neq; lia).
    replace (N.of_nat (S (length s)) - 1) with (len s) by (unfold len; lia).
    rewrite IH. reflexivity.
Qed.

Lemma split_first_app : forall c s k, Forall (fun x => x <> c) s -> split_first c (s ++ c :: k) = Some (s, k).
Proof.
  induction s as [|x s IH]; intros k F; simpl.
  - rewrite N.eqb_refl. reflexivity.
  - inversion F; subst. replace (x =? c) with false by (symmetry; apply N.eqb_neq; assumption).
    rewrite IH by assumption. reflexivity.
Qed.

(* ------------------------------------------------------------------------------------------------ *)
(** * The decimal INT form: UnmarshalText (MarshalText z) = z *)

Definition is_digit (c : N) : Prop := 48 <= c <= 57.

Lemma digit_val_digit : forall d, d < 10 -> digit_val (48 + d) = d.
Proof.
  intros d H. unfold digit_val.
  replace (48 <=? 48 + d) with true by (symmetry; apply N.leb_le; lia).
  replace (48 + d <=? 57) with true by (symmetry; apply N.leb_le; lia).
  cbn [andb]. lia.
Qed.

(** one digit through the loop of nat.scan *)
Lemma scan_digit : forall zok d r p0 pu inval count acc, d < 10 ->
    scan_digits 10 zok ((48 + d) :: r) p0 pu inval count acc
    = scan_digits 10 zok r true false inval (count + 1) (acc * 10 + d).
Proof.
  intros. cbn [scan_digits].
  replace (48 + d =? 95) with false by (symmetry; apply N.eqb_neq; lia).
  rewrite digit_val_digit by assumption.
  replace (10 <=? d) with false by (symmetry; apply N.leb_gt; assumption).
  reflexivity.
Qed.

Lemma log2_div10 : forall n, n / 10 <> 0 -> N.log2 (n / 10) < N.log2 n.
Proof.
  intros n H.
  assert (0 < n / 10) by lia.
  pose proof (N.log2_double (n / 10) H0) as D.
  pose proof (N.log2_le_mono (2 * (n / 10)) n (twice_div10 n)) as M.
  lia.
Qed.

Lemma dec_digits_spec : forall f n tail,
    n <> 0 -> (N.to_nat (N.log2 n) < f)%nat ->
    (exists c rest, dec_digits f n tail = c :: rest /\ 49 <= c <= 57) /\
    (Forall is_digit tail -> Forall is_digit (dec_digits f n tail)) /\
    exists k, 0 < k /\
      forall zok p0 pu inval count acc,
        scan_digits 10 zok (dec_digits f n tail) p0 pu inval count acc
        = scan_digits 10 zok tail true false inval (count + k) (acc * 10 ^ k + n).
Proof.
  induction f as [|f IH]; intros n tail Hn Hf; [lia|].
  cbn [dec_digits]. replace (n =? 0) with false by (symmetry; apply N.eqb_neq; assumption).
  pose proof (mod10_lt n) as Hd. pose proof (divmod10 n) as Hdm.
  destruct (N.eq_dec (n / 10) 0) as [Hz|Hnz].
  - (* single (leading) digit *)
    rewrite Hz. assert (n mod 10 = n) by lia.
    assert (E : dec_digits f 0 ((48 + n mod 10) :: tail) = (48 + n mod 10) :: tail) by (destruct f; reflexivity).
    rewrite E. split; [|split].
    + eexists _, _. split; [reflexivity|]. lia.
    + intros F. constructor; [unfold is_digit; lia | exact F].
    + exists 1. split; [lia|]. intros. rewrite scan_digit by assumption. f_equal; lia.
  - pose proof (log2_div10 n Hnz) as Hl.
    destruct (IH (n / 10) ((48 + n mod 10) :: tail) Hnz ltac:(lia)) as [Hh [Hf' [k [Hk Hs]]]].
    split; [|split].
    + exact Hh.
    + intros F. apply Hf'. constructor; [unfold is_digit; lia | exact F].
    + exists (k + 1). split; [lia|]. intros. rewrite Hs. rewrite scan_digit by assumption.
      f_equal; [lia|]. rewrite N.pow_add_r. lia.
Qed.

Lemma parse_dec_N : forall p,
    (exists c rest, dec_N (Npos p) = c :: rest /\ 49 <= c <= 57) /\
    Forall is_digit (dec_N (Npos p)) /\
    scan_nat (dec_N (Npos p)) = Some (Npos p).
Proof.
  intros p. unfold dec_N. cbn [N.eqb].
  destruct (dec_digits_spec (S (N.to_nat (N.log2 (Npos p)))) (Npos p) [] ltac:(discriminate) ltac:(lia))
    as [[c [rest [E Hc]]] [HF [k [Hk Hs]]]].
  split; [eauto|]. split; [apply HF; constructor|].
  unfold scan_nat. rewrite E.
  replace (c =? 48) with false by (symmetry; apply N.eqb_neq; lia).
  rewrite <- E. rewrite Hs. cbn [scan_digits]. simpl orb.
  replace (0 + k =? 0) with false by (symmetry; apply N.eqb_neq; lia).
  f_equal; try lia.
Qed.

Lemma parse_dec_Z : forall z, parse_int_text (dec_Z z) = Some z.
Proof.
  intros [|p|p]; cbn [dec_Z].
  - reflexivity.
  - destruct (parse_dec_N p) as [[c [rest [E Hc]]] [_ S]].
    unfold parse_int_text. rewrite E.
    replace (c =? 45) with false by (symmetry; apply N.eqb_neq; lia).
    replace (c =? 43) with false by (symmetry; apply N.eqb_neq; lia).
    rewrite <- E, S. reflexivity.
  - destruct (parse_dec_N p) as [_ [_ S]].
    unfold parse_int_text. cbn [N.eqb Pos.eqb]. rewrite S. reflexivity.
Qed.

Lemma dec_Z_no_newline : forall z, Forall (fun x => x <> 10) (dec_Z z).
Proof.
  assert (D : forall l, Forall is_digit l -> Forall (fun x => x <> 10) l).
  { intros l F. induction F; constructor; auto. unfold is_digit in H. lia. }
  intros [|p|p]; cbn [dec_Z].
  - constructor; [discriminate|constructor].
  - apply D. apply parse_dec_N.
  - constructor; [discriminate|]. apply D. apply parse_dec_N.
Qed.

(* ------------------------------------------------------------------------------------------------ *)
(** * Induction on values *)

Section ValInd.
  Variable P : val -> Prop.
  Hypothesis Hnone : P VNone.
  Hypothesis Hbool : forall b, P (VBool b).
  Hypothesis Hint : forall z, P (VInt z).
  Hypothesis Hfloat : forall b, P (VFloat b).
  Hypothesis Hstr : forall s, P (VStr s).
  Hypothesis Hbytes : forall s, P (VBytes s).
  Hypothesis Htuple : forall l, Forall P l -> P (VTuple l).
  Hypothesis Href : forall a, P (VRef a).
  Hypothesis Hmark : P VMark.
  Hypothesis Hglobal : forall i m n, P (VGlobal i m n).

  Fixpoint val_ind' (v : val) : P v :=
    match v with
    | VNone => Hnone
    | VBool b => Hbool b
    | VInt z => Hint z
    | VFloat b => Hfloat b
    | VStr s => Hstr s
    | VBytes s => Hbytes s
    | VTuple l => Htuple l ((fix go (l : list val) : Forall P l :=
                               match l with
                               | [] => Forall_nil P
                               | x :: r => Forall_cons x (val_ind' x) (go r)
                               end) l)
    | VRef a => Href a
    | VMark => Hmark
    | VGlobal i m n => Hglobal i m n
    end.
End ValInd.

(* ------------------------------------------------------------------------------------------------ *)
(** * Fuel-independent execution *)

Section Reach.
  Variable unp : option unpickle_fn.
  Variable lim : N.

  Lemma run_fuel_irrel : forall f f' bs st,
      (length bs < f)%nat -> (length bs < f')%nat -> run unp lim f bs st = run unp lim f' bs st.
  Proof.
    induction f as [|f IH]; intros f' bs st L L'; [lia|].
    destruct f' as [|f']; [lia|]. simpl.
    destruct (step unp lim bs st) eqn:E; try reflexivity.
    apply step_shrinks in E. apply IH; lia.
  Qed.

  (** [Run bs st]: the decoder loop started on input [bs] in state [st] *)
  Definition Run (bs : bytes) (st : dstate) : Outcome (val * dstate) := run unp lim (S (length bs)) bs st.

  Lemma run_S : forall f bs st,
      run unp lim (S f) bs st = match step unp lim bs st with
                                | SNext r st' => run unp lim f r st'
                                | SDone v st' => Ok (v, st')
                                | SErr => Err
                                | SCrash => Crash
                                end.
  Proof. reflexivity. Qed.

  Lemma Run_step : forall bs st r st', step unp lim bs st = SNext r st' -> Run bs st = Run r st'.
  Proof.
    intros bs st r st' E. unfold Run. rewrite (run_S (length bs) bs st). rewrite E.
    apply step_shrinks in E. apply run_fuel_irrel; lia.
  Qed.

  Lemma Run_done : forall bs st v st', step unp lim bs st = SDone v st' -> Run bs st = Ok (v, st').
  Proof. intros bs st v st' E. unfold Run. rewrite run_S. rewrite E. reflexivity. Qed.

  (** [reach bs st bs' st']: from input [bs] and state [st] the decoder arrives, after some steps, at the
      remaining input [bs'] in state [st'] *)
  Inductive reach : bytes -> dstate -> bytes -> dstate -> Prop :=
  | reach_refl : forall bs st, reach bs st bs st
  | reach_step : forall bs st r st1 bs' st',
      step unp lim bs st = SNext r st1 -> reach r st1 bs' st' -> reach bs st bs' st'.

  Lemma reach_trans : forall a sa b sb c sc, reach a sa b sb -> reach b sb c sc -> reach a sa c sc.
  Proof. intros a sa b sb c sc H. induction H; intros H2; [exact H2|]. eapply reach_step; eauto. Qed.

  Lemma reach_one : forall bs st r st', step unp lim bs st = SNext r st' -> reach bs st r st'.
  Proof. intros. eapply reach_step; [eassumption|apply reach_refl]. Qed.

  Lemma reach_Run : forall bs st bs' st', reach bs st bs' st' -> Run bs st = Run bs' st'.
  Proof. intros bs st bs' st' H. induction H; [reflexivity|]. rewrite (Run_step _ _ _ _ H). exact IHreach. Qed.

  (** ** one step per opcode *)
  Ltac stp := intros; reflexivity.

  Lemma step_MARK r st : step unp lim (opMARK :: r) st = SNext r (push VMark st). Proof. stp. Qed.
  Lemma step_NONE r st : step unp lim (opNONE :: r) st = SNext r (push VNone st). Proof. stp. Qed.
  Lemma step_TRUE r st : step unp lim (opNEWTRUE :: r) st = SNext r (push (VBool true) st). Proof. stp. Qed.
  Lemma step_FALSE r st : step unp lim (opNEWFALSE :: r) st = SNext r (push (VBool false) st). Proof. stp. Qed.
  Lemma step_EMPTY_TUPLE r st : step unp lim (opEMPTY_TUPLE :: r) st = SNext r (push (VTuple []) st). Proof. stp. Qed.
  Lemma step_TUPLE1 r st a s : d_stack st = a :: s ->
    step unp lim (opTUPLE1 :: r) st = SNext r (set_stack st (VTuple [a] :: s)).
  Proof. intros E. cbn. rewrite E. reflexivity. Qed.
  Lemma step_TUPLE2 r st a b s : d_stack st = b :: a :: s ->
    step unp lim (opTUPLE2 :: r) st = SNext r (set_stack st (VTuple [a; b] :: s)).
  Proof. intros E. cbn. rewrite E. reflexivity. Qed.
  Lemma step_TUPLE3 r st a b c s : d_stack st = c :: b :: a :: s ->
    step unp lim (opTUPLE3 :: r) st = SNext r (set_stack st (VTuple [a; b; c] :: s)).
  Proof. intros E. cbn. rewrite E. reflexivity. Qed.
  Lemma step_TUPLE r st items below : split_mark (d_stack st) [] = Some (items, below) ->
    step unp lim (opTUPLE :: r) st = SNext r (set_stack st (VTuple items :: below)).
  Proof. intros E. cbn. rewrite E. reflexivity. Qed.
  Lemma step_STOP r st v s : d_stack st = v :: s -> step unp lim (opSTOP :: r) st = SDone v (set_stack st s).
  Proof. intros E. cbn. rewrite E. reflexivity. Qed.

  (** ** scalars *)

  Lemma reach_int : forall z k st, reach (enc_int z ++ k) st k (push (VInt z) st).
  Proof.
    intros z k st. unfold enc_int, int4_min, int4_max, int1_limit, int2_limit.
    destruct ((z <? -2147483648) || (2147483647 <? z))%Z eqn:C4.
    - (* decimal INT *)
      apply reach_one. cbn [app]. rewrite <- app_assoc. cbn [app].
      change (step unp lim (opINT :: dec_Z z ++ 10 :: k) st)
        with (match split_first 10 (dec_Z z ++ 10 :: k) with
              | None => SErr
              | Some (text, r') => match parse_int_text text with
                                   | Some z => SNext r' (push (VInt z) st)
                                   | None => SErr
                                   end
              end).
      rewrite split_first_app by apply dec_Z_no_newline. rewrite parse_dec_Z. reflexivity.
    - apply Bool.orb_false_iff in C4. destruct C4 as [C4a C4b].
      apply Z.ltb_ge in C4a. apply Z.ltb_ge in C4b.
      destruct ((0 <=? z) && (z <? Z.of_N 256))%Z eqn:C1.
      + apply andb_prop in C1. destruct C1 as [C1a C1b]. apply Z.leb_le in C1a. apply Z.ltb_lt in C1b.
        apply reach_one. cbn. rewrite byte_of_small by lia. rewrite Z2N.id by lia. reflexivity.
      + destruct ((0 <=? z) && (z <? Z.of_N 65536))%Z eqn:C2.
        * apply andb_prop in C2. destruct C2 as [C2a C2b]. apply Z.leb_le in C2a. apply Z.ltb_lt in C2b.
          apply reach_one. cbn [app].
          change (step unp lim (opBININT2 :: byte_of (Z.to_N z) :: byte_of (Z.to_N z / 256) :: k) st)
            with (SNext k (push (VInt (Z.of_N (byte_of (Z.to_N z) + 256 * byte_of (Z.to_N z / 256)))) st)).
          rewrite Arith.int2_bytes by lia. reflexivity.
        * apply reach_one. unfold le32. cbn [app].
          match goal with |- step _ _ (_ :: ?b0 :: ?b1 :: ?b2 :: ?b3 :: k) st = _ =>
            change (step unp lim (opBININT :: b0 :: b1 :: b2 :: b3 :: k) st)
              with (SNext k (push (VInt (signed32 (of_le32 b0 b1 b2 b3))) st)) end.
          rewrite of_le32_le32 by apply Arith.low32_lt.
          rewrite Arith.signed32_low32 by lia. reflexivity.
  Qed.

  Lemma reach_float : forall bits k st, bits < 18446744073709551616 ->
      reach (enc_float bits ++ k) st k (push (VFloat bits) st).
  Proof.
    intros bits k st H. apply reach_one. unfold enc_float, le64, le32. cbn [app].
    match goal with |- step _ _ (_ :: ?b0 :: ?b1 :: ?b2 :: ?b3 :: ?b4 :: ?b5 :: ?b6 :: ?b7 :: k) st = _ =>
      change (step unp lim (opBINFLOAT :: b0 :: b1 :: b2 :: b3 :: b4 :: b5 :: b6 :: b7 :: k) st)
        with (SNext k (push (VFloat (of_le32 b0 b1 b2 b3 + 4294967296 * of_le32 b4 b5 b6 b7)) st)) end.
    rewrite !of_le32_le32_mod. rewrite Arith.split64 by exact H. reflexivity.
  Qed.

  Lemma reach_string_gen : forall (opS opL : N) (mk : bytes -> val) s k st,
      (forall n r, step unp lim (opS :: n :: r) st = read_string lim mk true n r st) ->
      (forall b0 b1 b2 b3 r, step unp lim (opL :: b0 :: b1 :: b2 :: b3 :: r) st
                             = read_string lim mk false (of_le32 b0 b1 b2 b3) r st) ->
      len s < 4294967296 ->
      reach (enc_string opS opL s ++ k) st k (push (mk s) st).
  Proof.
    intros opS opL mk s k st HS HL W. apply reach_one. unfold enc_string, short_limit.
    destruct (len s <? 256) eqn:C.
    - apply N.ltb_lt in C. cbn [app]. rewrite HS. unfold read_string.
      rewrite byte_of_small by exact C. rewrite takeN_app. reflexivity.
    - unfold le32. cbn [app]. rewrite HL. unfold read_string.
      rewrite of_le32_le32 by exact W. rewrite takeN_app. reflexivity.
  Qed.

  Lemma reach_str : forall s k st, len s < 4294967296 ->
      reach (enc_string opSHORT_BINUNICODE opBINUNICODE s ++ k) st k (push (VStr s) st).
  Proof. intros. apply reach_string_gen; auto; intros; reflexivity. Qed.

  Lemma reach_bytes : forall s k st, len s < 4294967296 ->
      reach (enc_string opSHORT_BINBYTES opBINBYTES s ++ k) st k (push (VBytes s) st).
  Proof. intros. apply reach_string_gen; auto; intros; reflexivity. Qed.
End Reach.
