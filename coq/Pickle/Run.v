(** Case evaluation for the C07 / C15 correspondence checks: the harness writes the implementation's
    answers, this file recomputes them with the model and returns the indices of disagreeing cases. *)
From Dawn Require Import Pickle.Model.
From Coq Require Import String Ascii.
Open Scope N_scope.

(** hex text -> bytes (the harness hex-encodes all byte strings) *)
Definition hexval (c : ascii) : N :=
  let n := N_of_ascii c in
  if n <? 58 then n - 48 else n - 87.

Fixpoint unhex (s : string) : bytes :=
  match s with
  | String a (String b r) => (16 * hexval a + hexval b) :: unhex r
  | _ => []
  end.

(** [ints a n] = VInt a, VInt (a+1), ... (n values): compact rendering of long runs *)
Fixpoint ints (a : Z) (n : nat) : list val :=
  match n with O => [] | S n' => VInt a :: ints (a + 1) n' end.

(** Canonical graph: heap objects are numbered in first-visit (pre-order, left to right) order. *)
Inductive cv :=
| CNone | CBool (b : bool) | CInt (z : Z) | CFloat (bits : N) | CStr (s : bytes) | CBytes (s : bytes)
| CTuple (l : list cv)
| CList (id : N) (l : list cv)
| CDict (id : N) (l : list cv)          (* k1, v1, k2, v2, ... *)
| CSet (id : N) (l : list cv)
| CObj (id : N) (m n : bytes) (l : list cv)
| CBack (id : N)
| CMark
| CGlobal (m n : bytes)
| CBad.

Fixpoint cints (a : Z) (n : nat) : list cv :=
  match n with O => [] | S n' => CInt a :: cints (a + 1) n' end.

Fixpoint seen_find (a : addr) (m : list (addr * N)) : option N :=
  match m with
  | [] => None
  | (a', id) :: r => if Nat.eqb a a' then Some id else seen_find a r
  end.

Fixpoint canon (fuel : nat) (h : heap) (seen : list (addr * N)) (v : val) : cv * list (addr * N) :=
  match fuel with
  | O => (CBad, seen)
  | S f =>
      let seq := fix go (l : list val) (seen : list (addr * N)) : list cv * list (addr * N) :=
                   match l with
                   | [] => ([], seen)
                   | x :: r => let '(c, s1) := canon f h seen x in
                               let '(cs, s2) := go r s1 in (c :: cs, s2)
                   end in
      match v with
      | VNone => (CNone, seen)
      | VBool b => (CBool b, seen)
      | VInt z => (CInt z, seen)
      | VFloat b => (CFloat b, seen)
      | VStr s => (CStr s, seen)
      | VBytes s => (CBytes s, seen)
      | VTuple l => let '(cs, s1) := seq l seen in (CTuple cs, s1)
      | VMark => (CMark, seen)
      | VGlobal _ m n => (CGlobal m n, seen)
      | VRef a =>
          match seen_find a seen with
          | Some id => (CBack id, seen)
          | None =>
              let id := N.of_nat (List.length seen) in
              let seen' := (a, id) :: seen in
              match nth_error h a with
              | None => (CBad, seen)
              | Some (NList l) => let '(cs, s1) := seq l seen' in (CList id cs, s1)
              | Some (NDict kvs) =>
                  let '(cs, s1) := seq (flat_map (fun kv => [fst kv; snd kv]) kvs) seen' in (CDict id cs, s1)
              | Some (NSet l) => let '(cs, s1) := seq l seen' in (CSet id cs, s1)
              | Some (NObj m n args) => let '(cs, s1) := seq args seen' in (CObj id m n cs, s1)
              end
          end
      end
  end.

Fixpoint cv_eqb (x y : cv) {struct x} : bool :=
  let leq := fix go (l l' : list cv) : bool :=
               match l, l' with
               | [], [] => true
               | a :: r, b :: r' => cv_eqb a b && go r r'
               | _, _ => false
               end in
  match x, y with
  | CNone, CNone => true
  | CBool a, CBool b => Bool.eqb a b
  | CInt a, CInt b => (a =? b)%Z
  | CFloat a, CFloat b => a =? b
  | CStr a, CStr b => str_eqb a b
  | CBytes a, CBytes b => str_eqb a b
  | CTuple l, CTuple l' => leq l l'
  | CList i l, CList j l' => (i =? j) && leq l l'
  | CDict i l, CDict j l' => (i =? j) && leq l l'
  | CSet i l, CSet j l' => (i =? j) && leq l l'
  | CObj i m n l, CObj j m' n' l' => (i =? j) && str_eqb m m' && str_eqb n n' && leq l l'
  | CBack i, CBack j => i =? j
  | CMark, CMark => true
  | CGlobal m n, CGlobal m' n' => str_eqb m m' && str_eqb n n'
  | _, _ => false
  end.

Definition canon_top (h : heap) (v : val) : cv := fst (canon 200 h [] v).

(** which unpickler the harness used *)
Definition unp_of (k : N) : option unpickle_fn :=
  if k =? 0 then None else if k =? 1 then Some obj_unpickler else Some env_unpickler.

Inductive dexp := DOk (c : cv) | DErr.

Inductive case :=
(** C07: the described value (heap + root): expected encoding and expected dump of decode(encoding);
    [None] = Encode returned an error *)
| CRoundTrip (h : heap) (v : val) (exp : option (bytes * cv))
(** the model's dump of the described value itself (validates the harness' value builder) *)
| CSource (h : heap) (v : val) (exp : cv)
(** C15: decoding arbitrary bytes *)
| CDecode (unp : N) (input : bytes) (exp : dexp)
(** diffEnv reason for a set of differing keys (bit i = functionEnvKeys[i]) *)
| CReason (mask : list bool) (exp : bytes).

Fixpoint mask_has (keys : list bytes) (mask : list bool) (k : bytes) : bool :=
  match keys, mask with
  | k' :: ks, b :: ms => if str_eqb k k' then b else mask_has ks ms k
  | _, _ => false
  end.

Definition check_case (c : case) : bool :=
  match c with
  | CRoundTrip h v exp =>
      match encode_top (Some obj_pickler) 100 h v, exp with
      | Ok bs, Some (ebs, ec) =>
          str_eqb bs ebs &&
          match decode (Some obj_unpickler) ebs with
          | Ok (v', h') => cv_eqb (canon_top h' v') ec
          | _ => false
          end
      | Err, None => true
      | _, _ => false
      end
  | CSource h v exp => cv_eqb (canon_top h v) exp
  | CDecode k input exp =>
      match decode (unp_of k) input, exp with
      | Ok (v, h), DOk c => cv_eqb (canon_top h v) c
      | Err, DErr => true
      | _, _ => false
      end
  | CReason mask exp =>
      match diff_reason (mask_has function_env_keys mask) with
      | Ok r => str_eqb r exp
      | _ => false
      end
  end.

Definition mismatches (cs : list (N * case)) : list N :=
  map fst (filter (fun ic => negb (check_case (snd ic))) cs).

(** [pat n seed]: the harness' patterned byte string of length [n]: byte i = (seed + 7 i) mod 256 *)
Fixpoint pat_nat (n : nat) (x : N) : bytes :=
  match n with O => [] | S n' => x :: pat_nat n' ((x + 7) mod 256) end.
Definition pat (n seed : N) : bytes := pat_nat (N.to_nat n) (seed mod 256).
