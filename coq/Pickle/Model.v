(** Executable model of /repo/pickle/{encode,decode}.go (plus function.go's envUnpickler and the reason
    construction of diffEnv).  No proofs in this file.

    Values.  Immutable Starlark values are trees ([VNone] .. [VTuple]); mutable containers and host objects
    live in a heap and are referred to by address ([VRef a]), so sharing and cycles are first-class.
    [VMark] and [VGlobal] are the decoder's internal stack values ([mark], [*global]); a [*global] is a
    pointer, its identity (used by Starlark's == on dict keys) is the allocation number [id].

    Abstractions (what is NOT modelled):
    - Go's hash function: dict/set lookup is modelled by key equality alone.  This is exact unless two
      UNEQUAL keys that are tuples nested deeper than starlark.CompareLimit (10) have colliding 32-bit hashes.
    - host objects returned by a generic unpickler are heap objects [NObj]; they are unhashable.
    - memory: [Grow(n)] for a declared length [n] beyond the total input size is outcome [Crash]
      (the property excludes such inputs: "declared lengths bounded by the input size").
    - only [*starlark.List] and [*starlark.Dict] among the Sequence / IterableMapping / HasAttrs host types. *)
From Dawn Require Export Base.Bytes Gen.Opcodes.
From Coq Require Export ZArith.
Open Scope N_scope.

Definition bytes := list N.
Definition addr := nat.

Inductive val :=
| VNone
| VBool (b : bool)
| VInt (z : Z)
| VFloat (bits : N)
| VStr (s : bytes)
| VBytes (s : bytes)
| VTuple (l : list val)
| VRef (a : addr)
| VMark
| VGlobal (id : N) (m n : bytes).

Inductive node :=
| NList (l : list val)
| NDict (kvs : list (val * val))
| NSet (l : list val)
| NObj (m n : bytes) (args : list val).

Definition heap := list node.

Inductive Outcome (A : Type) :=
| Ok (a : A)
| Err          (* an error is returned *)
| Crash        (* the process dies / a panic escapes *)
| NilNil       (* (nil, nil) is returned *)
| OutOfFuel.   (* the model ran out of fuel: non-termination of the Go code, or too little fuel *)
Arguments Ok {A} a.
Arguments Err {A}.
Arguments Crash {A}.
Arguments NilNil {A}.
Arguments OutOfFuel {A}.

Definition bind {A B} (o : Outcome A) (f : A -> Outcome B) : Outcome B :=
  match o with
  | Ok a => f a
  | Err => Err
  | Crash => Crash
  | NilNil => NilNil
  | OutOfFuel => OutOfFuel
  end.

(* ------------------------------------------------------------------------------------------------ *)
(** * Byte packing *)

Definition byte_of (n : N) : N := n mod 256.                     (* Go: byte(x) *)

(** byte(l), byte(l>>8), byte(l>>16), byte(l>>24) *)
Definition le32 (n : N) : bytes :=
  [byte_of n; byte_of (n / 256); byte_of (n / 65536); byte_of (n / 16777216)].

Definition le64 (n : N) : bytes :=
  le32 n ++ le32 (n / 4294967296).

Definition of_le32 (b0 b1 b2 b3 : N) : N := b0 + 256 * b1 + 65536 * b2 + 16777216 * b3.

(** two's complement low 32 bits of an int64 *)
Definition low32 (z : Z) : N := Z.to_N (z mod 4294967296)%Z.

(** int(int32(u)) *)
Definition signed32 (u : N) : Z :=
  if u <? 2147483648 then Z.of_N u else (Z.of_N u - 4294967296)%Z.

(** [takeN bs n]: the next [n] bytes ([None]: fewer than [n] available). Structural on [bs], so a
    declared length of 2^32-1 costs nothing. *)
Fixpoint takeN (bs : bytes) (n : N) {struct bs} : option (bytes * bytes) :=
  if n =? 0 then Some ([], bs)
  else match bs with
       | [] => None
       | b :: r => match takeN r (n - 1) with
                   | Some (x, y) => Some (b :: x, y)
                   | None => None
                   end
       end.

Definition len (s : bytes) : N := N.of_nat (length s).

(* ------------------------------------------------------------------------------------------------ *)
(** * Integers as text: big.Int.MarshalText / UnmarshalText *)

Fixpoint dec_digits (fuel : nat) (n : N) (acc : bytes) : bytes :=
  match fuel with
  | O => acc
  | S f => if n =? 0 then acc else dec_digits f (n / 10) ((48 + n mod 10) :: acc)
  end.

Definition dec_N (n : N) : bytes := if n =? 0 then [48] else dec_digits (S (N.to_nat (N.log2 n))) n [].

(** x.BigInt().MarshalText(): canonical decimal, '-' for negatives *)
Definition dec_Z (z : Z) : bytes :=
  match z with
  | Z0 => [48]
  | Zpos p => dec_N (Npos p)
  | Zneg p => 45 :: dec_N (Npos p)
  end.

(** value of a digit character in nat.scan: '0'..'9', 'a'..'z', 'A'..'Z' (bases <= 36), else 255 *)
Definition digit_val (c : N) : N :=
  if (48 <=? c) && (c <=? 57) then c - 48
  else if (97 <=? c) && (c <=? 122) then c - 97 + 10
  else if (65 <=? c) && (c <=? 90) then c - 65 + 10
  else 255.

(** The digit loop of nat.scan with base argument 0 (so '_' separators are allowed).
    [prev0]: previous char was a digit or the "0" prefix; [prevu]: previous char was '_'.
    [zero_ok]: the prefix was a lone "0" (octal), so no further digit is required. *)
Fixpoint scan_digits (b : N) (zero_ok : bool) (s : bytes) (prev0 prevu inval : bool) (count : N) (acc : N)
  : option N :=
  match s with
  | [] => if inval || prevu then None
          else if count =? 0 then (if zero_ok then Some 0 else None)
          else Some acc
  | c :: r =>
      if c =? 95 then scan_digits b zero_ok r false true (inval || negb prev0) count acc
      else let d := digit_val c in
           if b <=? d then None  (* ch does not belong to the number: leftover input, UnmarshalText fails *)
           else scan_digits b zero_ok r true false inval (count + 1) (acc * b + d)
  end.

Definition scan_nat (s : bytes) : option N :=
  match s with
  | [] => None
  | c :: r =>
      if c =? 48 then
        match r with
        | [] => Some 0
        | c2 :: r2 =>
            if (c2 =? 98) || (c2 =? 66) then scan_digits 2 false r2 true false false 0 0
            else if (c2 =? 111) || (c2 =? 79) then scan_digits 8 false r2 true false false 0 0
            else if (c2 =? 120) || (c2 =? 88) then scan_digits 16 false r2 true false false 0 0
            else scan_digits 8 true r true false false 0 0
        end
      else scan_digits 10 false s false false false 0 0
  end.

(** big.Int.UnmarshalText = SetString(text, 0) and all input consumed *)
Definition parse_int_text (s : bytes) : option Z :=
  match s with
  | [] => None
  | c :: r =>
      let '(neg, s1) := if c =? 45 then (true, r) else if c =? 43 then (false, r) else (false, s) in
      match scan_nat s1 with
      | None => None
      | Some n => Some (if neg then (- Z.of_N n)%Z else Z.of_N n)
      end
  end.

(* ------------------------------------------------------------------------------------------------ *)
(** * Starlark hashing and key equality (hashtable.insert) *)

Fixpoint hashable (v : val) : bool :=
  match v with
  | VTuple l => forallb hashable l
  | VRef _ => false            (* list, dict, set: unhashable; host objects of the test unpickler too *)
  | _ => true
  end.

Definition f_exp (bits : N) : N := (bits / 4503599627370496) mod 2048.
Definition f_frac (bits : N) : N := bits mod 4503599627370496.
Definition f_neg (bits : N) : bool := 9223372036854775808 <=? bits mod 18446744073709551616.
Definition f_isnan (bits : N) : bool := (f_exp bits =? 2047) && negb (f_frac bits =? 0).
Definition f_isinf (bits : N) : bool := (f_exp bits =? 2047) && (f_frac bits =? 0).
Definition f_iszero (bits : N) : bool := (f_exp bits =? 0) && (f_frac bits =? 0).

(** floatCmp(x, y) == 0: numeric equality, -0 == +0, and all NaNs equal each other *)
Definition float_eq (a b : N) : bool :=
  (f_isnan a && f_isnan b) || (f_iszero a && f_iszero b)
  || (negb (f_isnan a) && negb (f_isnan b) && (a mod 18446744073709551616 =? b mod 18446744073709551616)).

(** x.rational().Cmp(y.rational()) == 0 for a finite float: value = m * 2^e exactly *)
Definition int_float_eq (z : Z) (bits : N) : bool :=
  if f_exp bits =? 2047 then false
  else
    let m := if f_exp bits =? 0 then f_frac bits else 4503599627370496 + f_frac bits in
    let e : Z := if f_exp bits =? 0 then (-1074)%Z else (Z.of_N (f_exp bits) - 1075)%Z in
    let sm : Z := if f_neg bits then (- Z.of_N m)%Z else Z.of_N m in
    if (0 <=? e)%Z then (z =? sm * 2 ^ e)%Z
    else let d := (2 ^ (- e))%Z in ((sm mod d =? 0)%Z && (z =? sm / d)%Z).

Fixpoint key_eq (x y : val) {struct x} : bool :=
  match x, y with
  | VNone, VNone => true
  | VBool a, VBool b => Bool.eqb a b
  | VInt a, VInt b => (a =? b)%Z
  | VFloat a, VFloat b => float_eq a b
  | VInt a, VFloat b => int_float_eq a b
  | VFloat a, VInt b => int_float_eq b a
  | VStr a, VStr b => str_eqb a b
  | VBytes a, VBytes b => str_eqb a b
  | VTuple l, VTuple l' =>
      (fix go (l : list val) (l' : list val) : bool :=
         match l, l' with
         | [], [] => true
         | a :: r, b :: r' => key_eq a b && go r r'
         | _, _ => false
         end) l l'
  | VMark, VMark => true
  | VGlobal i _ _, VGlobal j _ _ => i =? j   (* pointer identity *)
  | _, _ => false
  end.

(** nesting levels visited by EqualDepth on equal keys: a scalar is 1 level *)
Fixpoint levels (v : val) : N :=
  match v with
  | VTuple l => 1 + fold_right (fun x m => N.max (levels x) m) 0 l
  | _ => 1
  end.

Definition compare_limit : N := 10.

(** dict.SetKey(k, v) with the error dropped (decode.go ignores it): unhashable key -> unchanged;
    an equal key found: comparison deeper than CompareLimit -> error -> unchanged, else value replaced
    in place; otherwise appended. *)
Fixpoint dict_replace (kvs : list (val * val)) (k v : val) : option (list (val * val)) :=
  match kvs with
  | [] => None
  | (k', v') :: r =>
      if key_eq k k' then Some ((k', v) :: r)
      else match dict_replace r k v with
           | Some r' => Some ((k', v') :: r')
           | None => None
           end
  end.

Definition dict_set (kvs : list (val * val)) (k v : val) : list (val * val) :=
  if negb (hashable k) then kvs
  else match dict_replace kvs k v with
       | Some kvs' => if compare_limit <? levels k then kvs else kvs'
       | None => kvs ++ [(k, v)]
       end.

(** set.Insert(v), error dropped *)
Definition set_add (l : list val) (k : val) : list val :=
  if negb (hashable k) then l
  else if existsb (key_eq k) l then l
  else l ++ [k].

(* ------------------------------------------------------------------------------------------------ *)
(** * Encoder (encode.go) *)

Inductive presult :=
| PCannot                                  (* ErrCannotPickle *)
| PFail                                    (* any other error *)
| POk (m n : bytes) (args : list val).

Record estate := mkE { e_memo : list (addr * N); e_next : N }.

Fixpoint memo_find (a : addr) (m : list (addr * N)) : option N :=
  match m with
  | [] => None
  | (a', id) :: r => if Nat.eqb a a' then Some id else memo_find a r
  end.

(** e.memoize(x) for a comparable x: id := nextID; nextID++; memo[x] = id; emit MEMOIZE *)
Definition e_memoize (a : addr) (st : estate) : estate :=
  mkE ((a, e_next st) :: e_memo st) (e_next st + 1).

Definition enc_get (id : N) : bytes :=
  if id <? binget_limit then [opBINGET; byte_of id] else opLONG_BINGET :: le32 id.

Definition enc_string (opShort opLong : N) (s : bytes) : bytes :=
  (if len s <? short_limit then [opShort; byte_of (len s)] else opLong :: le32 (len s)) ++ s.

Definition enc_int (z : Z) : bytes :=
  if ((z <? int4_min) || (int4_max <? z))%Z then opINT :: dec_Z z ++ [10]
  else if ((0 <=? z) && (z <? Z.of_N int1_limit))%Z then [opBININT1; byte_of (Z.to_N z)]
  else if ((0 <=? z) && (z <? Z.of_N int2_limit))%Z then [opBININT2; byte_of (Z.to_N z); byte_of (Z.to_N z / 256)]
  else opBININT :: le32 (low32 z).

Definition enc_float (bits : N) : bytes := opBINFLOAT :: le64 bits.

(** successive batches of at most [k] elements ([fuel] >= length suffices) *)
Fixpoint chunks {A} (fuel : nat) (k : nat) (l : list A) : list (list A) :=
  match fuel with
  | O => []
  | S f => match l with
           | [] => []
           | _ => firstn k l :: chunks f k (skipn k l)
           end
  end.

Definition batches {A} (l : list A) : list (list A) := chunks (length l) (N.to_nat batch_size) l.

Definition enc_fn := estate -> val -> Outcome (bytes * estate).

(** encode the values of [l] one after the other *)
Fixpoint enc_seq (enc : enc_fn) (l : list val) (st : estate) {struct l} : Outcome (bytes * estate) :=
  match l with
  | [] => Ok ([], st)
  | x :: r =>
      bind (enc st x) (fun '(b1, st1) =>
      bind (enc_seq enc r st1) (fun '(b2, st2) => Ok (b1 ++ b2, st2)))
  end.

(** for each batch: MARK elems... <op> *)
Fixpoint enc_batches (enc : enc_fn) (op : N) (bs : list (list val)) (st : estate) {struct bs}
  : Outcome (bytes * estate) :=
  match bs with
  | [] => Ok ([], st)
  | b :: r =>
      bind (enc_seq enc b st) (fun '(b1, st1) =>
      bind (enc_batches enc op r st1) (fun '(b2, st2) => Ok (opMARK :: b1 ++ op :: b2, st2)))
  end.

Definition flat_pairs (kvs : list (val * val)) : list val := flat_map (fun kv => [fst kv; snd kv]) kvs.

Section Encoder.
  (** the host Pickler ([None]: e.pickler == nil) *)
  Variable pickler : option (node -> presult).

  Fixpoint encode (fuel : nat) (h : heap) (st : estate) (v : val) {struct fuel} : Outcome (bytes * estate) :=
    match fuel with
    | O => OutOfFuel
    | S f =>
        let enc_seq := enc_seq (encode f h) in
        let enc_batches := enc_batches (encode f h) in
        match v with
        | VNone => Ok ([opNONE], st)
        | VBool true => Ok ([opNEWTRUE], st)
        | VBool false => Ok ([opNEWFALSE], st)
        | VInt z => Ok (enc_int z, st)
        | VFloat bits => Ok (enc_float bits, st)
        | VStr s => Ok (enc_string opSHORT_BINUNICODE opBINUNICODE s, st)
        | VBytes s => Ok (enc_string opSHORT_BINBYTES opBINBYTES s, st)
        | VTuple l =>
            (* tuples are slices: not comparable, never memoized *)
            match l with
            | [] => Ok ([opEMPTY_TUPLE], st)
            | [_] => bind (enc_seq l st) (fun '(b, st1) => Ok (b ++ [opTUPLE1], st1))
            | [_; _] => bind (enc_seq l st) (fun '(b, st1) => Ok (b ++ [opTUPLE2], st1))
            | [_; _; _] => bind (enc_seq l st) (fun '(b, st1) => Ok (b ++ [opTUPLE3], st1))
            | _ => bind (enc_seq l st) (fun '(b, st1) => Ok (opMARK :: b ++ [opTUPLE], st1))
            end
        | VRef a =>
            match memo_find a (e_memo st) with
            | Some id => Ok (enc_get id, st)
            | None =>
                match nth_error h a with
                | None => Err
                | Some (NSet l) =>
                    bind (enc_batches opADDITEMS (batches l) (e_memoize a st)) (fun '(b, st1) =>
                    Ok (opEMPTY_SET :: opMEMOIZE :: b, st1))
                | Some nd =>
                    (* encodeComplex: the pickler is asked first *)
                    let builtin :=
                      match nd with
                      | NDict kvs =>
                          bind (enc_batches opSETITEMS
                                  (map flat_pairs (batches kvs)) (e_memoize a st))
                               (fun '(b, st1) => Ok (opEMPTY_DICT :: opMEMOIZE :: b, st1))
                      | NList l =>
                          match l with
                          | [] => Ok ([opEMPTY_LIST; opMEMOIZE], e_memoize a st)
                          | [x] => bind (encode f h (e_memoize a st) x) (fun '(b, st1) =>
                                   Ok (opEMPTY_LIST :: opMEMOIZE :: b ++ [opAPPEND], st1))
                          | _ => bind (enc_batches opAPPENDS (batches l) (e_memoize a st)) (fun '(b, st1) =>
                                 Ok (opEMPTY_LIST :: opMEMOIZE :: b, st1))
                          end
                      | _ => Err   (* "cannot pickle value of type %T" *)
                      end in
                    match pickler with
                    | None => builtin
                    | Some p =>
                        match p nd with
                        | POk m n args =>
                            bind (encode f h st (VTuple args)) (fun '(b, st1) =>
                            Ok (enc_string opSHORT_BINUNICODE opBINUNICODE m
                                ++ enc_string opSHORT_BINUNICODE opBINUNICODE n
                                ++ opSTACK_GLOBAL :: b ++ [opNEWOBJ; opMEMOIZE], e_memoize a st1))
                        | PCannot => builtin
                        | PFail => Err
                        end
                    end
                end
            end
        | VMark => Err
        | VGlobal _ _ _ => Err
        end
    end.

  Definition estate0 : estate := mkE [] 0.

  (** Encoder.Encode *)
  Definition encode_top (fuel : nat) (h : heap) (v : val) : Outcome bytes :=
    bind (encode fuel h estate0 v) (fun '(b, _) => Ok (b ++ [opSTOP])).
End Encoder.

(* ------------------------------------------------------------------------------------------------ *)
(** * Decoder (decode.go) *)

Record dstate := mkD { d_stack : list val;   (* head = top of stack *)
                       d_memo : list val;    (* in MEMOIZE order *)
                       d_heap : heap;
                       d_nglob : N }.

Definition dstate0 : dstate := mkD [] [] [] 0.

Definition set_stack (st : dstate) (s : list val) : dstate := mkD s (d_memo st) (d_heap st) (d_nglob st).
Definition push (v : val) (st : dstate) : dstate := set_stack st (v :: d_stack st).

Fixpoint heap_upd (h : heap) (a : addr) (nd : node) : heap :=
  match h, a with
  | [], _ => []
  | _ :: r, O => nd :: r
  | x :: r, S a' => x :: heap_upd r a' nd
  end.

(** the part of the stack above the topmost mark (in push order) and the part below it *)
Fixpoint split_mark (s : list val) (above : list val) : option (list val * list val) :=
  match s with
  | [] => None
  | VMark :: below => Some (above, below)
  | x :: r => split_mark r (x :: above)
  end.

Fixpoint pairs_of (l : list val) : option (list (val * val)) :=
  match l with
  | [] => Some []
  | k :: v :: r => match pairs_of r with Some p => Some ((k, v) :: p) | None => None end
  | [_] => None
  end.

Inductive sres :=
| SNext (rest : bytes) (st : dstate)
| SDone (v : val) (st : dstate)
| SErr                   (* panic(failure(...)) or a Go runtime error: Decode returns the error *)
| SCrash.

Definition unpickle_fn := bytes -> bytes -> list val -> heap -> option (val * heap).

Inductive opk :=
| KMARK
| KMEMOIZE
| KBINGET
| KLONG_BINGET
| KSTOP
| KNONE
| KNEWTRUE
| KNEWFALSE
| KINT
| KBININT1
| KBININT2
| KBININT
| KBINFLOAT
| KSHORT_BINUNICODE
| KBINUNICODE
| KSHORT_BINBYTES
| KBINBYTES
| KEMPTY_LIST
| KAPPEND
| KAPPENDS
| KEMPTY_TUPLE
| KTUPLE1
| KTUPLE2
| KTUPLE3
| KTUPLE
| KEMPTY_DICT
| KSETITEMS
| KEMPTY_SET
| KADDITEMS
| KSTACK_GLOBAL
| KNEWOBJ
| KOTHER.

(** the opcode table of decode.go's switch (constants from Gen/Opcodes.v), in source order *)
Definition classify (op : N) : opk :=
  if op =? opMARK then KMARK
  else if op =? opMEMOIZE then KMEMOIZE
  else if op =? opBINGET then KBINGET
  else if op =? opLONG_BINGET then KLONG_BINGET
  else if op =? opSTOP then KSTOP
  else if op =? opNONE then KNONE
  else if op =? opNEWTRUE then KNEWTRUE
  else if op =? opNEWFALSE then KNEWFALSE
  else if op =? opINT then KINT
  else if op =? opBININT1 then KBININT1
  else if op =? opBININT2 then KBININT2
  else if op =? opBININT then KBININT
  else if op =? opBINFLOAT then KBINFLOAT
  else if op =? opSHORT_BINUNICODE then KSHORT_BINUNICODE
  else if op =? opBINUNICODE then KBINUNICODE
  else if op =? opSHORT_BINBYTES then KSHORT_BINBYTES
  else if op =? opBINBYTES then KBINBYTES
  else if op =? opEMPTY_LIST then KEMPTY_LIST
  else if op =? opAPPEND then KAPPEND
  else if op =? opAPPENDS then KAPPENDS
  else if op =? opEMPTY_TUPLE then KEMPTY_TUPLE
  else if op =? opTUPLE1 then KTUPLE1
  else if op =? opTUPLE2 then KTUPLE2
  else if op =? opTUPLE3 then KTUPLE3
  else if op =? opTUPLE then KTUPLE
  else if op =? opEMPTY_DICT then KEMPTY_DICT
  else if op =? opSETITEMS then KSETITEMS
  else if op =? opEMPTY_SET then KEMPTY_SET
  else if op =? opADDITEMS then KADDITEMS
  else if op =? opSTACK_GLOBAL then KSTACK_GLOBAL
  else if op =? opNEWOBJ then KNEWOBJ
  else KOTHER.

Section Decoder.
  (** the host Unpickler ([None]: d.unpickler == nil). It returns a non-nil value (and possibly allocates
      or mutates heap objects) or an error; a Go runtime error inside it is an error too (see [Decode]). *)
  Variable unpickler : option unpickle_fn.
  (** total size of the input, for the declared-length bound *)
  Variable limit : N.

  (** decodeString(n): b.Grow(n) then io.CopyN *)
  Definition read_string (mk : bytes -> val) (short : bool) (n : N) (r : bytes) (st : dstate) : sres :=
    match takeN r n with
    | Some (s, r') => SNext r' (push (mk s) st)
    | None => if short || (n <=? limit) then SErr else SCrash   (* a 1-byte length allocates < 256 bytes *)
    end.

  (** APPENDS / SETITEMS / ADDITEMS: scan down to the mark while i > 0; i == 0 -> underflow *)
  Definition with_mark_below (st : dstate) (f : list val -> val -> list val -> sres) : sres :=
    match split_mark (d_stack st) [] with
    | None => SErr
    | Some (_, []) => SErr              (* the mark is d.stack[0] (or absent): i == 0 *)
    | Some (items, tgt :: below) => f items tgt below
    end.

  Definition step (bs : bytes) (st : dstate) : sres :=
    match bs with
    | [] => SErr
    | op :: r =>
        match classify op with
        | KMARK => SNext r (push VMark st)
        | KMEMOIZE =>
          match d_stack st with
          | [] => SErr
          | top :: _ => SNext r (mkD (d_stack st) (d_memo st ++ [top]) (d_heap st) (d_nglob st))
          end
        | KBINGET =>
          match r with
          | [] => SErr
          | id :: r' => match nth_error (d_memo st) (N.to_nat id) with
                        | Some v => SNext r' (push v st)
                        | None => SErr
                        end
          end
        | KLONG_BINGET =>
          match r with
          | b0 :: b1 :: b2 :: b3 :: r' =>
              let id := of_le32 b0 b1 b2 b3 in
              if id <? N.of_nat (length (d_memo st)) then
                match nth_error (d_memo st) (N.to_nat id) with
                | Some v => SNext r' (push v st)
                | None => SErr
                end
              else SErr
          | _ => SErr
          end
        | KSTOP =>
          match d_stack st with
          | [] => SErr
          | v :: s => SDone v (set_stack st s)
          end
        | KNONE => SNext r (push VNone st)
        | KNEWTRUE => SNext r (push (VBool true) st)
        | KNEWFALSE => SNext r (push (VBool false) st)
        | KINT =>
          match split_first 10 r with
          | None => SErr
          | Some (text, r') => match parse_int_text text with
                               | Some z => SNext r' (push (VInt z) st)
                               | None => SErr
                               end
          end
        | KBININT1 =>
          match r with
          | b :: r' => SNext r' (push (VInt (Z.of_N b)) st)
          | _ => SErr
          end
        | KBININT2 =>
          match r with
          | l :: hb :: r' => SNext r' (push (VInt (Z.of_N (l + 256 * hb))) st)
          | _ => SErr
          end
        | KBININT =>
          match r with
          | b0 :: b1 :: b2 :: b3 :: r' => SNext r' (push (VInt (signed32 (of_le32 b0 b1 b2 b3))) st)
          | _ => SErr
          end
        | KBINFLOAT =>
          match r with
          | b0 :: b1 :: b2 :: b3 :: b4 :: b5 :: b6 :: b7 :: r' =>
              SNext r' (push (VFloat (of_le32 b0 b1 b2 b3 + 4294967296 * of_le32 b4 b5 b6 b7)) st)
          | _ => SErr
          end
        | KSHORT_BINUNICODE =>
          match r with
          | n :: r' => read_string VStr true n r' st
          | _ => SErr
          end
        | KBINUNICODE =>
          match r with
          | b0 :: b1 :: b2 :: b3 :: r' => read_string VStr false (of_le32 b0 b1 b2 b3) r' st
          | _ => SErr
          end
        | KSHORT_BINBYTES =>
          match r with
          | n :: r' => read_string VBytes true n r' st
          | _ => SErr
          end
        | KBINBYTES =>
          match r with
          | b0 :: b1 :: b2 :: b3 :: r' => read_string VBytes false (of_le32 b0 b1 b2 b3) r' st
          | _ => SErr
          end
        | KEMPTY_LIST =>
          SNext r (mkD (VRef (length (d_heap st)) :: d_stack st) (d_memo st) (d_heap st ++ [NList []]) (d_nglob st))
        | KAPPEND =>
          match d_stack st with
          | v :: VRef a :: s =>
              match nth_error (d_heap st) a with
              | Some (NList l) =>
                  SNext r (mkD (VRef a :: s) (d_memo st) (heap_upd (d_heap st) a (NList (l ++ [v]))) (d_nglob st))
              | _ => SErr
              end
          | _ => SErr
          end
        | KAPPENDS =>
          with_mark_below st (fun items tgt below =>
            match tgt with
            | VRef a =>
                match nth_error (d_heap st) a with
                | Some (NList l) =>
                    SNext r (mkD (tgt :: below) (d_memo st) (heap_upd (d_heap st) a (NList (l ++ items))) (d_nglob st))
                | _ => SErr
                end
            | _ => SErr
            end)
        | KEMPTY_TUPLE => SNext r (push (VTuple []) st)
        | KTUPLE1 =>
          match d_stack st with
          | a :: s => SNext r (set_stack st (VTuple [a] :: s))
          | _ => SErr
          end
        | KTUPLE2 =>
          match d_stack st with
          | b :: a :: s => SNext r (set_stack st (VTuple [a; b] :: s))
          | _ => SErr
          end
        | KTUPLE3 =>
          match d_stack st with
          | c :: b :: a :: s => SNext r (set_stack st (VTuple [a; b; c] :: s))
          | _ => SErr
          end
        | KTUPLE =>
          (* the mark may be d.stack[0] here *)
          match split_mark (d_stack st) [] with
          | None => SErr
          | Some (items, below) => SNext r (set_stack st (VTuple items :: below))
          end
        | KEMPTY_DICT =>
          SNext r (mkD (VRef (length (d_heap st)) :: d_stack st) (d_memo st) (d_heap st ++ [NDict []]) (d_nglob st))
        | KSETITEMS =>
          with_mark_below st (fun items tgt below =>
            match tgt with
            | VRef a =>
                match nth_error (d_heap st) a with
                | Some (NDict kvs) =>
                    match pairs_of items with
                    | None => SErr
                    | Some ps =>
                        SNext r (mkD (tgt :: below) (d_memo st)
                                   (heap_upd (d_heap st) a
                                      (NDict (fold_left (fun d kv => dict_set d (fst kv) (snd kv)) ps kvs)))
                                   (d_nglob st))
                    end
                | _ => SErr
                end
            | _ => SErr
            end)
        | KEMPTY_SET =>
          SNext r (mkD (VRef (length (d_heap st)) :: d_stack st) (d_memo st) (d_heap st ++ [NSet []]) (d_nglob st))
        | KADDITEMS =>
          with_mark_below st (fun items tgt below =>
            match tgt with
            | VRef a =>
                match nth_error (d_heap st) a with
                | Some (NSet l) =>
                    SNext r (mkD (tgt :: below) (d_memo st)
                               (heap_upd (d_heap st) a (NSet (fold_left set_add items l))) (d_nglob st))
                | _ => SErr
                end
            | _ => SErr
            end)
        | KSTACK_GLOBAL =>
          match d_stack st with
          | VStr n :: VStr m :: s =>
              SNext r (mkD (VGlobal (d_nglob st) m n :: s) (d_memo st) (d_heap st) (d_nglob st + 1))
          | _ => SErr
          end
        | KNEWOBJ =>
          match d_stack st with
          | VTuple args :: VGlobal _ m n :: s =>
              match unpickler with
              | None => SErr
              | Some u => match u m n args (d_heap st) with
                          | Some (v, h') => SNext r (mkD (v :: s) (d_memo st) h' (d_nglob st))
                          | None => SErr
                          end
              end
          | _ => SErr
          end
        | KOTHER => SErr    (* "unimplemented opcode" *)
        end
    end.

  (** d.decode(): the loop.  Every step consumes at least one byte, so [fuel] = S (length bs) suffices. *)
  Fixpoint run (fuel : nat) (bs : bytes) (st : dstate) : Outcome (val * dstate) :=
    match fuel with
    | O => OutOfFuel
    | S f => match step bs st with
             | SNext r st' => run f r st'
             | SDone v st' => Ok (v, st')
             | SErr => Err
             | SCrash => Crash
             end
    end.
End Decoder.

(** Decoder.Decode on a fresh decoder: value and final heap *)
Definition decode (unpickler : option unpickle_fn) (bs : bytes) : Outcome (val * heap) :=
  bind (run unpickler (len bs) (S (length bs)) bs dstate0) (fun '(v, st) => Ok (v, d_heap st)).

(** The declared-length hypothesis of C15 ("declared lengths bounded by the input size"), syntactically:
    walk the input along opcode boundaries (inline arguments skipped as the decoder skips them, whatever the
    stack holds) and require every 4-byte declared string length met on the way to be at most [limit]. *)
Inductive scan_res := SSNext (rest : bytes) | SSStop | SSOver.

Definition drop_bytes (n : nat) (r : bytes) : scan_res :=
  if Nat.leb n (length r) then SSNext (skipn n r) else SSStop.

Definition scan_step (limit : N) (bs : bytes) : scan_res :=
  match bs with
  | [] => SSStop
  | op :: r =>
      match classify op with
      | KBINGET | KBININT1 => drop_bytes 1 r
      | KBININT2 => drop_bytes 2 r
      | KLONG_BINGET | KBININT => drop_bytes 4 r
      | KBINFLOAT => drop_bytes 8 r
      | KINT => match split_first 10 r with Some (_, r') => SSNext r' | None => SSStop end
      | KSHORT_BINUNICODE | KSHORT_BINBYTES =>
          match r with
          | n :: r' => match takeN r' n with Some (_, r'') => SSNext r'' | None => SSStop end
          | [] => SSStop
          end
      | KBINUNICODE | KBINBYTES =>
          match r with
          | b0 :: b1 :: b2 :: b3 :: r' =>
              if limit <? of_le32 b0 b1 b2 b3 then SSOver
              else match takeN r' (of_le32 b0 b1 b2 b3) with Some (_, r'') => SSNext r'' | None => SSStop end
          | _ => SSStop
          end
      | KSTOP => SSStop
      | _ => SSNext r
      end
  end.

Fixpoint lens_ok (limit : N) (fuel : nat) (bs : bytes) : bool :=
  match fuel with
  | O => true
  | S f => match scan_step limit bs with
           | SSNext r => lens_ok limit f r
           | SSStop => true
           | SSOver => false
           end
  end.

Definition lengths_bounded (bs : bytes) : bool := lens_ok (len bs) (S (length bs)) bs.

(* ------------------------------------------------------------------------------------------------ *)
(** * The object-preserving host pickler/unpickler pair used for C07 (harness: testObj) *)

Definition obj_pickler : node -> presult :=
  fun nd => match nd with NObj m n args => POk m n args | _ => PCannot end.

Definition obj_unpickler : unpickle_fn :=
  fun m n args h => Some (VRef (length h), h ++ [NObj m n args]).

(* ------------------------------------------------------------------------------------------------ *)
(** * function.go: envUnpickler, makeDictFromAssociationList *)

Inductive eres :=
| EOk (v : val) (h : heap)
| EErr                       (* returned error *)
| EPanic.                    (* Go runtime error (failed type assertion without ok, index out of range) *)

Definition s_dawn : bytes := [100;97;119;110].
Definition s_Target : bytes := [84;97;114;103;101;116].
Definition s_Recursive : bytes := [82;101;99;117;114;115;105;118;101].
Definition s_Builtin : bytes := [66;117;105;108;116;105;110].
Definition s_FunctionCode : bytes := [70;117;110;99;116;105;111;110;67;111;100;101].
Definition s_Function : bytes := [70;117;110;99;116;105;111;110].
Definition s_Range : bytes := [82;97;110;103;101].
Definition s_Iterable : bytes := [73;116;101;114;97;98;108;101].
Definition s_Mandatory : bytes := [77;97;110;100;97;116;111;114;121].
Definition s_mandatory : bytes := [109;97;110;100;97;116;111;114;121].
Definition s_Unassigned : bytes := [85;110;97;115;115;105;103;110;101;100].
Definition s_unassigned : bytes := [117;110;97;115;115;105;103;110;101;100].
Definition s_recursive_function : bytes :=
  [114;101;99;117;114;115;105;118;101;32;102;117;110;99;116;105;111;110].
Definition k_names : bytes := [110;97;109;101;115].
Definition k_constants : bytes := [99;111;110;115;116;97;110;116;32;118;97;108;117;101;115].
Definition k_predeclared : bytes := [112;114;101;100;101;99;108;97;114;101;100;32;118;97;108;117;101;115].
Definition k_universals : bytes := [117;110;105;118;101;114;115;97;108;32;118;97;108;117;101;115].
Definition k_functions : bytes := [102;117;110;99;116;105;111;110;32;118;97;108;117;101;115].
Definition k_globals : bytes := [103;108;111;98;97;108;32;118;97;108;117;101;115].
Definition k_defaults : bytes :=
  [100;101;102;97;117;108;116;32;112;97;114;97;109;101;116;101;114;32;118;97;108;117;101;115].
Definition k_freevars : bytes := [102;114;101;101;32;118;97;114;105;97;98;108;101;115].
Definition k_code : bytes := [99;111;100;101].

(** the loop of makeDictFromAssociationList: pair := pv.(Tuple); dict.SetKey(pair[0].(String), pair[1]) *)
Fixpoint assoc_pairs (l : list val) (acc : list (val * val)) : option (list (val * val)) :=
  match l with
  | [] => Some acc
  | VTuple (VStr k :: v :: _) :: r => assoc_pairs r (dict_set acc (VStr k) v)
  | _ => None     (* not a tuple / pair[0] out of range / not a string / pair[1] out of range *)
  end.

Definition make_dict (al : val) (h : heap) : option (val * heap) :=
  match al with
  | VTuple l => match assoc_pairs l [] with
                | Some kvs => Some (VRef (length h), h ++ [NDict kvs])
                | None => None
                end
  | _ => Some (VNone, h)
  end.

Definition env_unpickle (m n : bytes) (args : list val) (h : heap) : eres :=
  if negb (str_eqb m s_dawn) then EErr
  else if str_eqb n s_Target then
    match args with [a] => EOk a h | _ => EErr end
  else if str_eqb n s_Recursive then
    (* since 7738be5 the placeholder carries (name, ordinal); records with the old one-element form still decode *)
    match args with
    | [a] => EOk (VTuple [VStr s_recursive_function; a]) h
    | [a; b] => EOk (VTuple [VStr s_recursive_function; a; b]) h
    | _ => EErr
    end
  else if str_eqb n s_Builtin then
    (* since 6cdac65 a builtin carries (name[, receiver]); records with the old empty form still decode *)
    match args with
    | [] | [_] | [_; _] => EOk (VTuple args) h
    | _ => EErr
    end
  else if str_eqb n s_Range then
    (* since d823318: a range, by its text *)
    match args with [a] => EOk (VTuple [a]) h | _ => EErr end
  else if str_eqb n s_Iterable then
    (* since the fix that followed d823318: an iterable that is neither sequence nor mapping, as (type, elements) *)
    match args with [a; b] => EOk (VTuple [a; b]) h | _ => EErr end
  else if str_eqb n s_Mandatory then
    (* since 06af877: placeholder default of a keyword-only parameter without default *)
    match args with [] => EOk (VTuple [VStr s_mandatory]) h | _ => EErr end
  else if str_eqb n s_Unassigned then
    (* since 06af877: a captured variable that was never assigned *)
    match args with [] => EOk (VTuple [VStr s_unassigned]) h | _ => EErr end
  else if str_eqb n s_FunctionCode then
    match args with
    | [a0; globals; bytecode] =>
        match a0 with
        | VTuple (names :: constants :: predeclared :: universals :: functions :: _) =>
            let a := length h in
            let h0 := h ++ [NDict []] in
            match make_dict predeclared h0 with
            | None => EPanic
            | Some (dp, h1) =>
                match make_dict universals h1 with
                | None => EPanic
                | Some (du, h2) =>
                    match make_dict globals h2 with
                    | None => EPanic
                    | Some (dg, h3) =>
                        EOk (VRef a)
                          (heap_upd h3 a
                             (NDict [(VStr k_names, names); (VStr k_constants, constants);
                                     (VStr k_predeclared, dp); (VStr k_universals, du);
                                     (VStr k_functions, functions); (VStr k_globals, dg);
                                     (VStr k_code, bytecode)]))
                    end
                end
            end
        | _ => EPanic     (* args[0].(Tuple) fails, or module[i] out of range *)
        end
    | _ => EErr
    end
  else if str_eqb n s_Function then
    match args with
    | [defaults; freevars; code] =>
        match code with
        | VRef a =>
            match nth_error h a with
            | Some (NDict kvs) =>
                match make_dict defaults h with
                | None => EPanic
                | Some (dd, h1) =>
                    let kvs1 := dict_set kvs (VStr k_defaults) dd in
                    match make_dict freevars (heap_upd h1 a (NDict kvs1)) with
                    | None => EPanic
                    | Some (df, h2) =>
                        EOk (VRef a) (heap_upd h2 a (NDict (dict_set kvs1 (VStr k_freevars) df)))
                    end
                end
            | _ => EPanic
            end
        | _ => EPanic         (* args[2] asserted to be a Dict pointer *)
        end
    | _ => EErr
    end
  else EErr.

(** as seen through Decode's recover: a runtime error implements [error], so it satisfies the assertion
    [recover().(failure)] and becomes the returned error *)
Definition env_unpickler : unpickle_fn :=
  fun m n args h => match env_unpickle m n args h with
                    | EOk v h' => Some (v, h')
                    | EErr => None
                    | EPanic => None
                    end.

(* ------------------------------------------------------------------------------------------------ *)
(** * function.go diffEnv: construction of the reason string *)

Definition function_env_keys : list bytes :=
  [k_names; k_constants; k_predeclared; k_universals; k_functions; k_globals; k_defaults; k_freevars; k_code].

(** reasons[i] *)
Definition index {A} (l : list A) (i : Z) : Outcome A :=
  if (i <? 0)%Z then Crash else match nth_error l (Z.to_nat i) with Some x => Ok x | None => Crash end.

(** reasons[:n] *)
Definition slice_to {A} (l : list A) (n : Z) : Outcome (list A) :=
  if ((n <? 0) || (Z.of_nat (length l) <? n))%Z then Crash else Ok (firstn (Z.to_nat n) l).

Fixpoint join_sep (sep : bytes) (l : list bytes) : bytes :=
  match l with
  | [] => []
  | [x] => x
  | x :: r => x ++ sep ++ join_sep sep r
  end.

Definition s_environment : bytes := [101;110;118;105;114;111;110;109;101;110;116].
Definition s_and : bytes := [32;97;110;100;32].
Definition s_comma : bytes := [44;32].
Definition s_comma_and : bytes := [44;32;97;110;100;32].
Definition s_changed : bytes := [32;99;104;97;110;103;101;100].

(** the switch over len(reasons) *)
Definition reason_of (reasons : list bytes) : Outcome bytes :=
  let n := Z.of_nat (length reasons) in
  bind (match length reasons with
        | O => Ok s_environment
        | 1%nat => index reasons 0
        | 2%nat => bind (index reasons 0) (fun r0 => bind (index reasons 1) (fun r1 => Ok (r0 ++ s_and ++ r1)))
        | _ => bind (slice_to reasons (n - 1)) (fun pre =>
               bind (index reasons (n - 1)) (fun last => Ok (join_sep s_comma pre ++ s_comma_and ++ last)))
        end) (fun r => Ok (r ++ s_changed)).

(** [has k] = md.Has(k): the keys of functionEnvKeys that differ, in that order *)
Definition diff_reason (has : bytes -> bool) : Outcome bytes :=
  reason_of (filter has function_env_keys).
