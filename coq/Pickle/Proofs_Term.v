(** C07: the encoder's control skeleton (outcome and memo, bytes dropped), what it memoizes, and its
    termination on every heap -- shared and cyclic containers included -- in which no object taken by the
    host pickler is reachable from its own constructor arguments. *)
From Dawn Require Import Pickle.Model Pickle.Spec Pickle.Proofs_Base Pickle.Proofs_Tree.
From Coq Require Import Lia.
Open Scope N_scope.

(* ------------------------------------------------------------------------------------------------ *)
(** * List facts about batches *)

Lemma chunks_concat : forall {A} fuel k (l : list A), (0 < k)%nat -> (length l <= fuel)%nat -> concat (chunks fuel k l) = l.
Proof.
  intros A fuel. induction fuel as [|f IH]; intros k l K L.
  - destruct l; [reflexivity|cbn in L; lia].
  - destruct l as [|x r]; [reflexivity|]. cbn [chunks concat].
    rewrite IH; [apply firstn_skipn|exact K|].
    rewrite skipn_length. cbn [length] in *. lia.
Qed.

Lemma batches_concat : forall {A} (l : list A), concat (batches l) = l.
Proof. intros. unfold batches. apply chunks_concat; [unfold batch_size; lia|lia]. Qed.

Lemma flat_pairs_concat : forall pss, concat (map flat_pairs pss) = flat_pairs (concat pss).
Proof.
  induction pss; [reflexivity|]. cbn. rewrite IHpss. unfold flat_pairs. rewrite flat_map_app. reflexivity.
Qed.

(* ------------------------------------------------------------------------------------------------ *)
(** * The skeleton: outcome and final encoder state *)

Definition ost {A B} (o : Outcome (A * B)) : Outcome B :=
  match o with
  | Ok (_, s) => Ok s
  | Err => Err
  | Crash => Crash
  | NilNil => NilNil
  | OutOfFuel => OutOfFuel
  end.

Lemma ost_ok : forall {A B} (o : Outcome (A * B)) b s, o = Ok (b, s) -> ost o = Ok s.
Proof. intros; subst; reflexivity. Qed.

Lemma ost_fuel : forall {A B} (o : Outcome (A * B)), ost o <> OutOfFuel -> o <> OutOfFuel.
Proof. intros A B o H E. subst. apply H. reflexivity. Qed.

Lemma ost_seq_cons : forall (enc : enc_fn) x r st,
    ost (enc_seq enc (x :: r) st) = bind (ost (enc st x)) (fun st1 => ost (enc_seq enc r st1)).
Proof.
  intros. cbn [enc_seq]. destruct (enc st x) as [[b1 st1]| | | |]; try reflexivity. cbn [bind ost].
  destruct (enc_seq enc r st1) as [[b2 st2]| | | |]; reflexivity.
Qed.

Lemma ost_seq_app : forall (enc : enc_fn) l1 l2 st,
    ost (enc_seq enc (l1 ++ l2) st) = bind (ost (enc_seq enc l1 st)) (fun st1 => ost (enc_seq enc l2 st1)).
Proof.
  intros enc l1. induction l1 as [|x r IH]; intros l2 st; [reflexivity|].
  cbn [app]. rewrite !ost_seq_cons. destruct (ost (enc st x)); try reflexivity. cbn [bind]. apply IH.
Qed.

Lemma ost_batches : forall (enc : enc_fn) op bs st,
    ost (enc_batches enc op bs st) = ost (enc_seq enc (concat bs) st).
Proof.
  intros enc op bs. induction bs as [|b r IH]; intros st; [reflexivity|].
  cbn [concat]. rewrite ost_seq_app. cbn [enc_batches].
  destruct (enc_seq enc b st) as [[b1 st1]| | | |]; try reflexivity. cbn [bind ost]. rewrite <- IH.
  destruct (enc_batches enc op r st1) as [[b2 st2]| | | |]; reflexivity.
Qed.

(** the pickler dispatch of encodeComplex, by what [taken] says *)
Lemma pk_taken : forall pk {A} (X : A) (Y : bytes -> bytes -> list val -> A) (Z : A) nd m n args,
    taken pk nd = Some (m, n, args) ->
    match pk with
    | None => X
    | Some p => match p nd with POk m n args => Y m n args | PCannot => X | PFail => Z end
    end = Y m n args.
Proof.
  intros [p|] A X Y Z nd m n args TK; unfold taken in TK; [|destruct nd; discriminate].
  destruct nd; try discriminate;
    match type of TK with match ?T with _ => _ end = _ => destruct T end; try discriminate; inversion TK; reflexivity.
Qed.

Lemma pk_declined_obj : forall pk {A} (X : A) (Y : bytes -> bytes -> list val -> A) m n args,
    taken pk (NObj m n args) = None ->
    match pk with
    | None => X
    | Some p => match p (NObj m n args) with POk m n args => Y m n args | PCannot => X | PFail => X end
    end = X.
Proof.
  intros [p|] A X Y m n args TK; [|reflexivity]. unfold taken in TK.
  destruct (p (NObj m n args)); [reflexivity|reflexivity|discriminate].
Qed.

Lemma host_pair_taken : forall pk unp h m n args,
    host_pair pk unp h -> In (NObj m n args) h ->
    taken pk (NObj m n args) = None \/
    (taken pk (NObj m n args) = Some (m, n, args) /\ unp = Some obj_unpickler /\ len m < 4294967296 /\ len n < 4294967296).
Proof.
  intros [p|] unp h m n args HP HI; [|left; reflexivity]. specialize (HP p _ eq_refl HI). cbn beta iota in HP. unfold taken.
  destruct HP as [->|[-> U]]; [left; reflexivity|right; split; [reflexivity|exact U]].
Qed.

Lemma host_pair_builtin : forall pk unp h {A} (X : A) (Y : bytes -> bytes -> list val -> A) (Z : A) nd,
    host_pair pk unp h -> In nd h -> (exists l, nd = NList l) \/ (exists l, nd = NDict l) ->
    match pk with
    | None => X
    | Some p => match p nd with POk m n args => Y m n args | PCannot => X | PFail => Z end
    end = X.
Proof.
  intros [p|] unp h A X Y Z nd HP HI K; [|reflexivity]. specialize (HP p nd eq_refl HI).
  destruct K as [[l ->]|[l ->]]; rewrite HP; reflexivity.
Qed.

Lemma no_host_pair : forall pk unp h, no_host pk h -> host_pair pk unp h.
Proof.
  intros pk unp h NH p nd E HI. rewrite (NH p nd E HI). destruct nd; auto.
Qed.

Lemma no_host_acyclic : forall pk h, no_host pk h -> host_acyclic pk h.
Proof.
  intros pk h NH a nd m n args x HA TK. exfalso. apply nth_error_In in HA. unfold taken in TK.
  destruct pk as [p|]; [|destruct nd; discriminate]. rewrite (NH p nd eq_refl HA) in TK. destruct nd; discriminate.
Qed.

(** a set of addresses that is closed under "the encoder descends" contains everything reachable from a
    value whose references lie in it (used to establish [host_acyclic] on concrete heaps) *)
Lemma reach_closed : forall pk h (S : addr -> bool),
    (forall b nd, S b = true -> nth_error h b = Some nd ->
                  forallb (fun x => forallb S (refs x)) (succs pk nd) = true) ->
    forall v a, reach_val pk h v a -> forallb S (refs v) = true -> S a = true.
Proof.
  intros pk h S CL v a R. induction R as [a|l x a HI R IH|b nd x a HB HI R IH]; intros F.
  - cbn in F. apply andb_prop in F. exact (proj1 F).
  - apply IH. cbn [refs] in F. rewrite forallb_forall in *. intros c Hc. apply F. apply in_flat_map. eauto.
  - cbn in F. apply andb_prop in F. destruct F as [Sb _]. pose proof (CL b nd Sb HB) as C.
    rewrite forallb_forall in C. apply IH. apply C. exact HI.
Qed.

Section Skeleton.
  Variable pk : option (node -> presult).
  Variable h : heap.

  Lemma ost_tuple : forall f st l,
      ost (encode pk (S f) h st (VTuple l)) = ost (enc_seq (encode pk f h) l st).
  Proof.
    intros f st l. cbn [encode]. destruct l as [|x1 [|x2 [|x3 [|x4 rest]]]]; [reflexivity| | | |];
      match goal with |- ost (bind ?o _) = _ => destruct o as [[b1 st1]| | | |]; reflexivity end.
  Qed.

  Lemma ost_ref_memo : forall f st a id, memo_find a (e_memo st) = Some id ->
      ost (encode pk (S f) h st (VRef a)) = Ok st.
  Proof. intros f st a id MF. cbn [encode]. rewrite MF. reflexivity. Qed.

  Lemma ost_ref_dangling : forall f st a, memo_find a (e_memo st) = None -> nth_error h a = None ->
      ost (encode pk (S f) h st (VRef a)) = Err.
  Proof. intros f st a MF HA. cbn [encode]. rewrite MF, HA. reflexivity. Qed.

  Lemma ost_seq_one : forall (enc : enc_fn) x st, ost (enc_seq enc [x] st) = ost (enc st x).
  Proof. intros. rewrite ost_seq_cons. destruct (ost (enc st x)); reflexivity. Qed.

  (** an object that the pickler does not take: an error, or its contents after memoizing it *)
  Lemma ost_ref_builtin : forall f st a nd,
      memo_find a (e_memo st) = None -> nth_error h a = Some nd -> taken pk nd = None ->
      (ost (encode pk (S f) h st (VRef a)) = Err /\ ~ node_ok pk nd) \/
      ost (encode pk (S f) h st (VRef a)) = ost (enc_seq (encode pk f h) (succs pk nd) (e_memoize a st)).
  Proof.
    intros f st a nd MF HA TK. unfold succs. rewrite TK. cbn [encode]. rewrite MF, HA.
    destruct nd as [l|kvs|l|m n args].
    - (* list *)
      assert (B : forall o : Outcome (bytes * estate),
                 o = match l with
                     | [] => Ok ([opEMPTY_LIST; opMEMOIZE], e_memoize a st)
                     | [x] => bind (encode pk f h (e_memoize a st) x) (fun '(b, st1) =>
                              Ok (opEMPTY_LIST :: opMEMOIZE :: b ++ [opAPPEND], st1))
                     | _ => bind (enc_batches (encode pk f h) opAPPENDS (batches l) (e_memoize a st)) (fun '(b, st1) =>
                            Ok (opEMPTY_LIST :: opMEMOIZE :: b, st1))
                     end ->
                 ost o = ost (enc_seq (encode pk f h) l (e_memoize a st))).
      { intros o ->. destruct l as [|x1 [|x2 rest]]; [reflexivity| |].
        - rewrite ost_seq_one. destruct (encode pk f h (e_memoize a st) x1) as [[b1 st1]| | | |]; reflexivity.
        - rewrite <- (batches_concat (x1 :: x2 :: rest)) at 2. rewrite <- ost_batches with (op := opAPPENDS).
          destruct (enc_batches _ _ _ _) as [[b1 st1]| | | |]; reflexivity. }
      unfold taken in TK. destruct pk as [p|]; [|right; apply B; reflexivity].
      destruct (p (NList l)) as [| |m n args] eqn:PE;
        [right; apply B; reflexivity|left; split; [reflexivity|cbn; rewrite PE; auto]|discriminate].
    - (* dict *)
      assert (B : ost (bind (enc_batches (encode pk f h) opSETITEMS (map flat_pairs (batches kvs)) (e_memoize a st))
                         (fun '(b, st1) => Ok (opEMPTY_DICT :: opMEMOIZE :: b, st1)))
                  = ost (enc_seq (encode pk f h) (flat_pairs kvs) (e_memoize a st))).
      { rewrite <- (batches_concat kvs) at 2. rewrite <- flat_pairs_concat, <- ost_batches with (op := opSETITEMS).
        destruct (enc_batches _ _ _ _) as [[b1 st1]| | | |]; reflexivity. }
      unfold taken in TK. destruct pk as [p|]; [|right; exact B].
      destruct (p (NDict kvs)) as [| |m n args] eqn:PE;
        [right; exact B|left; split; [reflexivity|cbn; rewrite PE; auto]|discriminate].
    - (* set *)
      right. rewrite <- (batches_concat l) at 2. rewrite <- ost_batches with (op := opADDITEMS).
      destruct (enc_batches _ _ _ _) as [[b1 st1]| | | |]; reflexivity.
    - (* host object not taken *)
      left. split; [|cbn [node_ok]; rewrite TK; auto]. unfold taken in TK. destruct pk as [p|]; [|reflexivity].
      destruct (p (NObj m n args)) as [| |m' n' args']; [reflexivity|reflexivity|discriminate].
  Qed.

  (** an object that the pickler takes: its arguments as one tuple, memoized afterwards *)
  Lemma ost_ref_taken : forall f st a nd m n args,
      memo_find a (e_memo st) = None -> nth_error h a = Some nd -> taken pk nd = Some (m, n, args) ->
      ost (encode pk (S f) h st (VRef a))
      = bind (ost (encode pk f h st (VTuple args))) (fun st1 => Ok (e_memoize a st1)).
  Proof.
    intros f st a nd m n args MF HA TK. cbn [encode]. rewrite MF, HA.
    unfold taken in TK. destruct nd as [l|kvs|l|m0 n0 args0]; try discriminate;
      (destruct pk as [p|]; [|discriminate]);
      match type of TK with match ?X with _ => _ end = _ => destruct X as [| |m' n' args'] end; try discriminate;
      inversion TK; subst;
      match goal with |- ost (bind ?o _) = _ => destruct o as [[b1 st1]| | | |]; reflexivity end.
  Qed.

  (* ---------------------------------------------------------------------------------------------- *)
  (** * What the encoder memoizes: nothing is forgotten, and only objects it can reach are added *)

  Definition M (st : estate) (a : addr) : Prop := memo_find a (e_memo st) <> None.

  Definition ext (l : list val) (st st1 : estate) : Prop :=
    (forall a, M st a -> M st1 a) /\
    (forall a, M st1 a -> M st a \/ exists x, In x l /\ reach_val pk h x a).

  Lemma ext_refl : forall l st, ext l st st.
  Proof. intros; split; auto. Qed.

  Lemma M_memoize : forall st a x, M (e_memoize a st) x <-> x = a \/ M st x.
  Proof.
    intros st a x. unfold M. cbn [e_memoize e_memo memo_find]. destruct (Nat.eqb x a) eqn:E.
    - apply Nat.eqb_eq in E. split; [auto|intros _; discriminate].
    - apply Nat.eqb_neq in E. split; [auto|intros [?|?]; [contradiction|assumption]].
  Qed.

  Lemma seq_ext : forall (enc : enc_fn) l,
      (forall x st st1, In x l -> ost (enc st x) = Ok st1 -> ext [x] st st1) ->
      forall st st1, ost (enc_seq enc l st) = Ok st1 -> ext l st st1.
  Proof.
    intros enc l. induction l as [|x r IH]; intros HX st st1 E.
    - cbn in E. inversion E; subst. apply ext_refl.
    - rewrite ost_seq_cons in E. destruct (ost (enc st x)) as [st2| | | |] eqn:E1; try discriminate. cbn [bind] in E.
      destruct (HX x st st2 (or_introl eq_refl) E1) as [A1 B1].
      destruct (IH (fun y s s1 HI => HX y s s1 (or_intror HI)) st2 st1 E) as [A2 B2]. split.
      + auto.
      + intros a Ha. destruct (B2 a Ha) as [H2|[y [HI R]]].
        * destruct (B1 a H2) as [H1|[y [[<-|[]] R]]]; [left; exact H1|]. right. exists x. split; [left; reflexivity|exact R].
        * right. exists y. split; [right; exact HI|exact R].
  Qed.

  Theorem encode_ext : forall f st v st1, ost (encode pk f h st v) = Ok st1 -> ext [v] st st1.
  Proof.
    induction f as [|f IH]; intros st v st1 E; [discriminate|].
    assert (SQ : forall l s s1, ost (enc_seq (encode pk f h) l s) = Ok s1 -> ext l s s1).
    { intros l s s1. apply seq_ext. intros; apply IH; assumption. }
    destruct v; try (cbn in E; inversion E; subst; apply ext_refl); try discriminate.
    - destruct b; cbn in E; inversion E; subst; apply ext_refl.
    - (* tuple *)
      rewrite ost_tuple in E. destruct (SQ _ _ _ E) as [A B]. split; [exact A|].
      intros a Ha. destruct (B a Ha) as [H1|[x [HI R]]]; [left; exact H1|].
      right. exists (VTuple l). split; [left; reflexivity|]. eapply rv_tuple; eassumption.
    - (* ref *)
      destruct (memo_find a (e_memo st)) as [id|] eqn:MF.
      { rewrite (ost_ref_memo f st a id MF) in E. inversion E; subst. apply ext_refl. }
      destruct (nth_error h a) as [nd|] eqn:HA.
      2:{ rewrite (ost_ref_dangling f st a MF HA) in E. discriminate. }
      destruct (taken pk nd) as [[[m n] args]|] eqn:TK.
      + rewrite (ost_ref_taken f st a nd m n args MF HA TK) in E.
        destruct (ost (encode pk f h st (VTuple args))) as [st2| | | |] eqn:E2; try discriminate.
        cbn [bind] in E. inversion E; subst st1. destruct (IH _ _ _ E2) as [A B]. split.
        * intros x Hx. apply M_memoize. right. auto.
        * intros x Hx. apply M_memoize in Hx. destruct Hx as [->|Hx].
          -- right. exists (VRef a). split; [left; reflexivity|constructor].
          -- destruct (B x Hx) as [H1|[y [[<-|[]] R]]]; [left; exact H1|].
             right. exists (VRef a). split; [left; reflexivity|].
             inversion R as [|? y ? HI Ry|]; subst.
             eapply rv_step; [exact HA| |exact Ry]. unfold succs. rewrite TK. exact HI.
      + destruct (ost_ref_builtin f st a nd MF HA TK) as [[EE _]|EE]; rewrite EE in E; [discriminate|].
        destruct (SQ _ _ _ E) as [A B]. split.
        * intros x Hx. apply A. apply M_memoize. right. exact Hx.
        * intros x Hx. destruct (B x Hx) as [H1|[y [HI R]]].
          -- apply M_memoize in H1. destruct H1 as [->|H1]; [|left; exact H1].
             right. exists (VRef a). split; [left; reflexivity|constructor].
          -- right. exists (VRef a). split; [left; reflexivity|]. eapply rv_step; eassumption.
  Qed.

  (** the address of an object taken by the pickler is still unmemoized after its arguments are encoded *)
  Lemma taken_fresh : host_acyclic pk h ->
      forall f st a nd m n args b st1,
        memo_find a (e_memo st) = None -> nth_error h a = Some nd -> taken pk nd = Some (m, n, args) ->
        encode pk f h st (VTuple args) = Ok (b, st1) -> memo_find a (e_memo st1) = None.
  Proof.
    intros AC f st a nd m n args b st1 MF HA TK E.
    destruct (encode_ext f st (VTuple args) st1 (ost_ok _ _ _ E)) as [_ B].
    destruct (memo_find a (e_memo st1)) as [id|] eqn:MF1; [|reflexivity]. exfalso.
    destruct (B a) as [H1|[y [[<-|[]] R]]].
    - unfold M. rewrite MF1. discriminate.
    - apply H1. exact MF.
    - inversion R as [|? x ? HI Rx|]; subst. exact (AC a nd m n args x HA TK HI Rx).
  Qed.

  (* ---------------------------------------------------------------------------------------------- *)
  (** * Termination *)

  (** [fr P st a]: [a] is neither memoized nor one of the taken objects [P] whose arguments are being encoded *)
  Definition fr (P : list addr) (st : estate) (a : addr) : bool :=
    match memo_find a (e_memo st) with
    | Some _ => false
    | None => negb (existsb (Nat.eqb a) P)
    end.

  Definition nfree (P : list addr) (st : estate) : nat := length (filter (fr P st) (seq 0 (length h))).

  Lemma filter_length_le : forall {A} (p q : A -> bool) l,
      (forall x, q x = true -> p x = true) -> (length (filter q l) <= length (filter p l))%nat.
  Proof.
    intros A p q l I. induction l as [|x r IH]; [cbn; lia|]. cbn [filter].
    destruct (q x) eqn:Q; [rewrite (I _ Q); cbn; lia|]. destruct (p x); cbn; lia.
  Qed.

  Lemma filter_length_lt : forall {A} (p q : A -> bool) l a,
      (forall x, q x = true -> p x = true) -> In a l -> p a = true -> q a = false ->
      (length (filter q l) < length (filter p l))%nat.
  Proof.
    intros A p q l a I. induction l as [|x r IH]; intros HI PA QA; [contradiction|]. cbn [filter].
    destruct HI as [->|HI].
    - rewrite PA, QA. cbn [length]. pose proof (filter_length_le p q r I). lia.
    - specialize (IH HI PA QA). destruct (q x) eqn:Q; [rewrite (I _ Q); cbn; lia|]. destruct (p x); cbn; lia.
  Qed.

  Lemma nfree_mono : forall P st st1, (forall a, M st a -> M st1 a) -> (nfree P st1 <= nfree P st)%nat.
  Proof.
    intros P st st1 A. apply filter_length_le. intros x. unfold fr.
    destruct (memo_find x (e_memo st1)) eqn:E1; [discriminate|].
    destruct (memo_find x (e_memo st)) eqn:E0; [|auto].
    exfalso. assert (Mx : M st x) by (unfold M; rewrite E0; discriminate). apply (A _ Mx). exact E1.
  Qed.

  Lemma nfree_memoize : forall P st a, (a < length h)%nat -> fr P st a = true ->
      (nfree P (e_memoize a st) < nfree P st)%nat.
  Proof.
    intros P st a L F. apply filter_length_lt with (a := a).
    - intros x. unfold fr. cbn [e_memoize e_memo memo_find]. destruct (Nat.eqb x a); [discriminate|auto].
    - apply in_seq. lia.
    - exact F.
    - unfold fr. cbn [e_memoize e_memo memo_find]. rewrite Nat.eqb_refl. reflexivity.
  Qed.

  Lemma nfree_take : forall (P : list addr) st (a : addr), (a < length h)%nat -> fr P st a = true ->
      (nfree (a :: P) st < nfree P st)%nat.
  Proof.
    intros P st a L F. apply filter_length_lt with (a := a).
    - intros x. unfold fr. destruct (memo_find x (e_memo st)); [auto|]. cbn [existsb].
      destruct (Nat.eqb x a); [discriminate|auto].
    - apply in_seq. lia.
    - exact F.
    - unfold fr in *. destruct (memo_find a (e_memo st)); [reflexivity|]. cbn [existsb].
      rewrite Nat.eqb_refl. reflexivity.
  Qed.

  Lemma fr_intro : forall P st a, memo_find a (e_memo st) = None -> ~ In a P -> fr P st a = true.
  Proof.
    intros P st a MF NI. unfold fr. rewrite MF. destruct (existsb (Nat.eqb a) P) eqn:E; [|reflexivity].
    exfalso. apply existsb_exists in E. destruct E as [x [HI E]]. apply Nat.eqb_eq in E. subst. contradiction.
  Qed.

  Lemma node_depth_le : forall a nd, nth_error h a = Some nd -> (node_depth pk nd <= heap_depth pk h)%nat.
  Proof.
    intros a nd HA. apply nth_error_In in HA. unfold heap_depth. induction h as [|y r IH]; [contradiction|].
    cbn [fold_right]. destruct HA as [->|HI]; [lia|]. specialize (IH HI). lia.
  Qed.

  Lemma succs_depth : forall nd x, In x (succs pk nd) -> (S (depth x) <= node_depth pk nd)%nat.
  Proof. intros nd x HI. unfold node_depth. cbn [depth]. pose proof (fold_max_le _ _ HI). lia. Qed.

  Definition W : nat := S (S (heap_depth pk h)).

  Lemma seq_term : forall (enc : enc_fn) P k l,
      (forall x st, In x l -> (nfree P st <= k)%nat -> enc st x <> OutOfFuel) ->
      (forall x st st1, In x l -> ost (enc st x) = Ok st1 -> forall a, M st a -> M st1 a) ->
      forall st, (nfree P st <= k)%nat -> ost (enc_seq enc l st) <> OutOfFuel.
  Proof.
    intros enc P k l. induction l as [|x r IH]; intros T MM st K; [discriminate|].
    rewrite ost_seq_cons. destruct (ost (enc st x)) as [st2| | | |] eqn:E1; try discriminate; cbn [bind].
    - apply IH.
      + intros y s HI. apply T. right. exact HI.
      + intros y s s1 HI. apply MM. right. exact HI.
      + pose proof (nfree_mono P st st2 (MM x st st2 (or_introl eq_refl) E1)). lia.
    - exfalso. apply (T x st (or_introl eq_refl) K). destruct (enc st x) as [[? ?]| | | |]; try discriminate. reflexivity.
  Qed.

  (* ---------------------------------------------------------------------------------------------- *)
  (** * No error on an encodable graph *)

  Definition fine (o : Outcome estate) : Prop := match o with Ok _ | OutOfFuel => True | _ => False end.

  Lemma seq_fine : forall (enc : enc_fn) l,
      (forall x st, In x l -> fine (ost (enc st x))) -> forall st, fine (ost (enc_seq enc l st)).
  Proof.
    intros enc l. induction l as [|x r IH]; intros T st; [exact Logic.I|].
    rewrite ost_seq_cons. pose proof (T x st (or_introl eq_refl)) as Fx.
    destruct (ost (enc st x)) as [st2| | | |]; try contradiction; cbn [bind]; [|exact Logic.I].
    apply IH. intros y s HI. apply T. right. exact HI.
  Qed.

  Theorem encode_fine : heap_ok pk h -> forall f st v, val_ok h v -> fine (ost (encode pk f h st v)).
  Proof.
    intros HO. induction f as [|f IH]; intros st v VO; [exact Logic.I|].
    destruct VO as [|b| | | | |l FL|a LA]; try exact Logic.I.
    - destruct b; exact Logic.I.
    - rewrite ost_tuple. apply seq_fine. intros x s HI. apply IH. rewrite Forall_forall in FL. apply FL. exact HI.
    - destruct (memo_find a (e_memo st)) as [id|] eqn:MF.
      { rewrite (ost_ref_memo f st a id MF). exact Logic.I. }
      destruct (nth_error h a) as [nd|] eqn:HA.
      2:{ exfalso. apply nth_error_None in HA. lia. }
      destruct (HO nd (nth_error_In _ _ HA)) as [NK SK].
      destruct (taken pk nd) as [[[m n] args]|] eqn:TK.
      + rewrite (ost_ref_taken f st a nd m n args MF HA TK).
        assert (FA : fine (ost (encode pk f h st (VTuple args)))).
        { apply IH. constructor. unfold succs in SK. rewrite TK in SK. exact SK. }
        destruct (ost (encode pk f h st (VTuple args))); try contradiction; exact Logic.I.
      + destruct (ost_ref_builtin f st a nd MF HA TK) as [[_ NO]|EE]; [contradiction|]. rewrite EE.
        apply seq_fine. intros x s HI. apply IH. rewrite Forall_forall in SK. apply SK. exact HI.
  Qed.

  Hypothesis AC : host_acyclic pk h.

  Theorem encode_term : forall f k P st v,
      (nfree P st <= k)%nat -> (forall b, In b P -> ~ reach_val pk h v b) ->
      (S (depth v) + k * W <= f)%nat -> encode pk f h st v <> OutOfFuel.
  Proof.
    induction f as [|f IH]; intros k P st v K NR F; [lia|].
    assert (MM : forall l x s s1, In x l -> ost (encode pk f h s x) = Ok s1 -> forall a, M s a -> M s1 a).
    { intros l x s s1 _ E. exact (proj1 (encode_ext f s x s1 E)). }
    destruct v; try (cbn; discriminate).
    - destruct b; cbn; discriminate.
    - (* tuple *)
      apply ost_fuel. rewrite ost_tuple. apply seq_term with (P := P) (k := k); [|apply MM|exact K].
      intros x s HI Ks. apply IH with (k := k) (P := P); [exact Ks| |].
      + intros b Hb R. apply (NR b Hb). eapply rv_tuple; eassumption.
      + pose proof (fold_max_le _ _ HI). cbn [depth] in F. lia.
    - (* ref *)
      apply ost_fuel.
      destruct (memo_find a (e_memo st)) as [id|] eqn:MF.
      { rewrite (ost_ref_memo f st a id MF). discriminate. }
      destruct (nth_error h a) as [nd|] eqn:HA.
      2:{ rewrite (ost_ref_dangling f st a MF HA). discriminate. }
      assert (LA : (a < length h)%nat) by (apply nth_error_Some; congruence).
      assert (FA : fr P st a = true).
      { apply fr_intro; [exact MF|]. intros HI. apply (NR a HI). constructor. }
      pose proof (node_depth_le a nd HA) as ND.
      destruct (taken pk nd) as [[[m n] args]|] eqn:TK.
      + rewrite (ost_ref_taken f st a nd m n args MF HA TK).
        pose proof (nfree_take P st a LA FA) as LT.
        assert (T : encode pk f h st (VTuple args) <> OutOfFuel).
        { apply IH with (k := pred k) (P := a :: P); [clear - LT K; lia| |].
          - intros b [<-|Hb] R.
            + inversion R as [|? x ? HI Rx|]; subst. exact (AC a nd m n args x HA TK HI Rx).
            + apply (NR b Hb). inversion R as [|? x ? HI Rx|]; subst.
              eapply rv_step; [exact HA| |exact Rx]. unfold succs. rewrite TK. exact HI.
          - assert (DE : depth (VTuple args) = node_depth pk nd) by (unfold node_depth, succs; rewrite TK; reflexivity).
            rewrite DE. unfold W in *. destruct k as [|k']; [lia|]. cbn [pred]. cbn [depth] in F. lia. }
        destruct (encode pk f h st (VTuple args)) as [[? ?]| | | |]; try discriminate. contradiction.
      + destruct (ost_ref_builtin f st a nd MF HA TK) as [[EE _]|EE]; rewrite EE; [discriminate|].
        pose proof (nfree_memoize P st a LA FA) as LT.
        apply seq_term with (P := P) (k := pred k); [|apply MM|clear - LT K; lia].
        intros x s HI Ks. apply IH with (k := pred k) (P := P); [exact Ks| |].
        * intros b Hb R. apply (NR b Hb). eapply rv_step; eassumption.
        * pose proof (succs_depth nd x HI). unfold W in *. destruct k as [|k']; [lia|]. cbn [pred]. cbn [depth] in F. lia.
  Qed.
End Skeleton.

(** Encoder.Encode with the prescribed fuel never runs out of fuel *)
Theorem encode_terminates_proof : forall pk h v, host_acyclic pk h -> encode_top pk (enc_fuel pk h v) h v <> OutOfFuel.
Proof.
  intros pk h v AC. unfold encode_top.
  assert (T : encode pk (enc_fuel pk h v) h estate0 v <> OutOfFuel).
  { apply encode_term with (k := length h) (P := []); [exact AC| |intros b []|].
    - unfold nfree. rewrite <- (seq_length (length h) 0) at 2. generalize (seq 0 (length h)). intros l.
      induction l as [|x r IHr]; [cbn; lia|]. cbn [filter]. destruct (fr [] estate0 x); cbn [length]; lia.
    - unfold enc_fuel, W. lia. }
  destruct (encode pk (enc_fuel pk h v) h estate0 v) as [[b st]| | | |]; try discriminate. contradiction.
Qed.

(** ... and on an encodable graph it returns bytes *)
Theorem heap_encodable_proof : forall pk h v, host_acyclic pk h -> heap_ok pk h -> val_ok h v ->
    exists bs, encode_top pk (enc_fuel pk h v) h v = Ok bs.
Proof.
  intros pk h v AC HO VO. pose proof (encode_terminates_proof pk h v AC) as T. unfold encode_top in *.
  pose proof (encode_fine pk h HO (enc_fuel pk h v) estate0 v VO) as F.
  destruct (encode pk (enc_fuel pk h v) h estate0 v) as [[b st]| | | |]; cbn in F; try contradiction.
  eexists; reflexivity.
Qed.
