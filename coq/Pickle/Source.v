(** The decoder's source (C15).

    pickle.NewDecoder takes an io.Reader, not a byte string: in dawn it is a base64 stream decoder over the persisted
    stamp (function.go, load).  A reader delivers some bytes and then fails for good, with io.EOF when the input simply
    ends, or with any other error (base64.CorruptInputError for a damaged character, a failed read of the medium).
    Every read of the decoder goes through

        func (r reader) Read(b []byte) (int, error) {
            n, err := io.ReadFull(r.r, b)
            if err != nil { panic(failure(err)) }
            return n, nil
        }

    so a request that the remaining bytes cannot satisfy ends the decoding with an error WHATEVER the reader's error
    is, and the callers (readByte, readUint32, readUint64, the INT text scan, io.CopyN in decodeString) never see a
    short or failed read.  That is what the model's "the list has run out -> Err" stands for; this file makes the
    abstraction explicit so that it can be tested: a source is the bytes it delivers plus the way it ends, and decoding
    from it is decoding the delivered bytes. *)
From Dawn Require Import Pickle.Model.

(** how the source fails after its last byte *)
Inductive src_end :=
| EndEOF                (* io.EOF (io.ReadFull turns it into io.ErrUnexpectedEOF after a partial read) *)
| EndError              (* any other error, returned on every further Read (sticky), e.g. base64.CorruptInputError *)
| EndTransient.         (* an error returned once, after which the reader would go on: the decoder has given up by then *)

Record source := mkSource { src_bytes : bytes; src_ends : src_end }.

(** reader.Read(b) with len(b) = n on a source: the bytes, or the panic(failure(err)) -- the same for every [src_end] *)
Definition reader_read (n : nat) (s : source) : option (bytes * source) :=
  if Nat.leb n (length (src_bytes s))
  then Some (firstn n (src_bytes s), mkSource (skipn n (src_bytes s)) (src_ends s))
  else None.

(** Decoder.Decode reading from [s] *)
Definition decode_source (unpickler : option unpickle_fn) (s : source) : Outcome (val * heap) :=
  decode unpickler (src_bytes s).
