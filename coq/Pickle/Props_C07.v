(** C07 — Pickle codec round-trips every value exactly.

    [encode_top pk fuel h v] models Encoder.Encode on the value [v] whose mutable objects live in the heap
    [h] (Pickle/Model.v); [decode unp bs] models Decoder.Decode: the decoded value and the decoder's heap.
    [fuel] bounds the encoder's recursion depth only; the hypotheses [encode_top ... = Ok bs] say "the encoder
    returned these bytes": [encode_terminates] and [heap_encodable] show that with fuel [enc_fuel pk h v] the
    encoder never runs out of fuel and returns bytes for every encodable graph, shared and cyclic ones included.
    Sharing of immutable tuples is not observable in Starlark and is not part of the isomorphism.

    The one excluded shape is an object taken by the host pickler that is reachable from its own constructor
    arguments ([host_acyclic]): the pickler's NEWOBJ protocol memoizes such an object only after its arguments, and
    the code then either overflows the stack ([host_selfref_diverges]) or emits an encoding that decodes to a graph
    with the object duplicated ([host_cycle_roundtrip_refuted]). *)
From Dawn Require Import Pickle.Model Pickle.Spec Pickle.Proofs_Tree Pickle.Proofs_Term Pickle.Proofs_Heap Pickle.Proofs_HostCycle.
From Dawn Require Import Pickle.Spec_Graph Pickle.Proofs_IsoEq Pickle.EnvPair Pickle.Proofs_EnvPair.
Open Scope N_scope.

(** Integers of EVERY magnitude (BININT1, BININT2, BININT and the decimal INT form). *)
Theorem int_roundtrip : forall unp z, decode unp (enc_int z ++ [opSTOP]) = Ok (VInt z, []).
Proof. exact int_roundtrip_proof. Qed.
Print Assumptions int_roundtrip.

(** Strings and bytes of every length below 2^32 (the short and the 4-byte-length forms). *)
Theorem string_roundtrip : forall unp s, len s < 4294967296 ->
    decode unp (enc_string opSHORT_BINUNICODE opBINUNICODE s ++ [opSTOP]) = Ok (VStr s, []) /\
    decode unp (enc_string opSHORT_BINBYTES opBINBYTES s ++ [opSTOP]) = Ok (VBytes s, []).
Proof. exact string_roundtrip_proof. Qed.
Print Assumptions string_roundtrip.

(** Floats: all 64 bits, NaN payloads and signed zeros included. *)
Theorem float_roundtrip : forall unp bits, bits < 18446744073709551616 ->
    decode unp (enc_float bits ++ [opSTOP]) = Ok (VFloat bits, []).
Proof. exact float_roundtrip_proof. Qed.
Print Assumptions float_roundtrip.

(** Arbitrarily nested immutable values (None, bools, ints, floats, strings, bytes, tuples of any arity):
    decoding the encoding yields exactly the value, and allocates nothing. *)
Theorem tree_roundtrip : forall pk unp fuel h v bs,
    heap_free v -> wf_val v -> encode_top pk fuel h v = Ok bs -> decode unp bs = Ok (v, []).
Proof. exact tree_roundtrip_proof. Qed.
Print Assumptions tree_roundtrip.

(** ... and the encoder accepts every such value. *)
Theorem tree_encodable : forall pk h v, heap_free v -> exists bs, encode_top pk (S (depth v)) h v = Ok bs.
Proof. exact tree_encodable_proof. Qed.
Print Assumptions tree_encodable.

(** Consequently two immutable values that differ never decode to equal values (nor share an encoding). *)
Theorem tree_distinct : forall pk unp f1 f2 h1 h2 v1 v2 bs1 bs2,
    heap_free v1 -> wf_val v1 -> heap_free v2 -> wf_val v2 ->
    encode_top pk f1 h1 v1 = Ok bs1 -> encode_top pk f2 h2 v2 = Ok bs2 ->
    v1 <> v2 -> decode unp bs1 <> decode unp bs2 /\ bs1 <> bs2.
Proof. exact tree_distinct_proof. Qed.
Print Assumptions tree_distinct.

(** The encoder terminates: with the fuel [enc_fuel pk h v] = 1 + depth v + |h| * (2 + deepest value stored in
    the heap), [encode_top] never runs out of fuel -- for EVERY heap (dangling references, decoder-internal
    values, failing picklers included: those end in an error) with shared and cyclic lists, dicts and sets,
    provided no object taken by the host pickler is reachable from its own constructor arguments.  [reach_val],
    [host_acyclic]: Pickle/Spec.v.  Without a pickler, or with one that declines every object of the heap, the
    proviso holds trivially ([no_host_acyclic]). *)
Theorem encode_terminates : forall pk h v,
    host_acyclic pk h -> encode_top pk (enc_fuel pk h v) h v <> OutOfFuel.
Proof. exact encode_terminates_proof. Qed.
Print Assumptions encode_terminates.

(** ... in particular for ALL heaps when there is no host pickler, or when it declines every object. *)
Theorem encode_terminates_no_host : forall pk h v,
    no_host pk h -> encode_top pk (enc_fuel pk h v) h v <> OutOfFuel.
Proof. exact (fun pk h v NH => encode_terminates_proof pk h v (no_host_acyclic pk h NH)). Qed.
Print Assumptions encode_terminates_no_host.

(** ... and it returns bytes when the graph is encodable: no dangling reference or decoder-internal value in
    the root or in any object ([val_ok]), the pickler takes every host object and fails on none ([heap_ok]). *)
Theorem heap_encodable : forall pk h v,
    host_acyclic pk h -> heap_ok pk h -> val_ok h v ->
    exists bs, encode_top pk (enc_fuel pk h v) h v = Ok bs.
Proof. exact heap_encodable_proof. Qed.
Print Assumptions heap_encodable.

(** The proviso is necessary, in the model as in the code: a host object that is its own constructor argument
    makes the encoder recurse forever (Go: fatal "stack overflow" in Encoder.encodeComplex) ... *)
Theorem host_selfref_diverges : forall fuel,
    encode_top (Some obj_pickler) fuel [NObj [118] [72] [VRef 0%nat]] (VRef 0%nat) = OutOfFuel.
Proof. exact host_selfref_diverges_proof. Qed.
Print Assumptions host_selfref_diverges.

(** Lists, dicts, sets of ANY size (any number of 1000-element batches) AND objects taken by the host pickler,
    nested anywhere, shared and self-referential, the constructor arguments of host objects being arbitrary
    (mutable, shared, cyclic) values: the decoded graph is isomorphic to the source graph -- a one-to-one
    correspondence [rho] between the reachable source objects and the decoded objects under which the roots
    agree and every pair of corresponding objects has the same kind (for host objects: the same module and
    name) and pairwise corresponding contents / constructor arguments in the same order.
    [wf_heap]: Go-representable sizes, dict keys / set elements hashable and pairwise distinct (Starlark's own
    invariant), fewer than 2^32 objects.  [host_pair]: the pickler declines lists and dicts and takes a host
    object apart into its module, name and arguments, which the unpickler puts together again (the harness'
    pair [obj_pickler] / [obj_unpickler]; a pickler that declines everything qualifies with any unpickler:
    [no_host_pair]).  [host_acyclic]: see above. *)
Theorem heap_roundtrip : forall pk unp fuel h v bs,
    wf_heap h -> host_pair pk unp h -> host_acyclic pk h -> wf_val v ->
    encode_top pk fuel h v = Ok bs ->
    exists v' h', decode unp bs = Ok (v', h') /\ iso h v h' v'.
Proof. exact host_roundtrip_proof. Qed.
Print Assumptions heap_roundtrip.

(** [host_acyclic] cannot be dropped from [heap_roundtrip]: a host object whose argument is a list that
    contains the object satisfies every other hypothesis, is encoded without error (the list is memoized, so
    the second visit of the object stops at it), and decodes to a graph with TWO copies of the object -- not
    isomorphic to the source.  The code emits exactly these bytes and decodes them to exactly this graph. *)
Theorem host_cycle_roundtrip_refuted :
    wf_heap cyc_heap /\ host_pair (Some obj_pickler) (Some obj_unpickler) cyc_heap /\
    ~ host_acyclic (Some obj_pickler) cyc_heap /\
    encode_top (Some obj_pickler) 20 cyc_heap (VRef 0%nat) = Ok cyc_bytes /\
    decode (Some obj_unpickler) cyc_bytes = Ok (VRef 2%nat, cyc_decoded) /\
    ~ iso cyc_heap (VRef 0%nat) cyc_decoded (VRef 2%nat).
Proof. exact host_cycle_roundtrip_refuted_proof. Qed.
Print Assumptions host_cycle_roundtrip_refuted.

(** Consequently two graphs with the same encoding are both isomorphic to the one graph that decodes from
    it: values that differ (are not isomorphic) never decode to equal values. *)
Theorem same_encoding_iso : forall pk unp f1 f2 h1 v1 h2 v2 bs,
    wf_heap h1 -> host_pair pk unp h1 -> host_acyclic pk h1 -> wf_val v1 ->
    wf_heap h2 -> host_pair pk unp h2 -> host_acyclic pk h2 -> wf_val v2 ->
    encode_top pk f1 h1 v1 = Ok bs -> encode_top pk f2 h2 v2 = Ok bs ->
    exists v' h', decode unp bs = Ok (v', h') /\ iso h1 v1 h' v' /\ iso h2 v2 h' v'.
Proof. exact same_encoding_iso_proof. Qed.
Print Assumptions same_encoding_iso.

(** A host object with immutable constructor arguments, in closed form: the decoded heap is exactly the object. *)
Theorem obj_roundtrip : forall fuel h a m n args bs,
    nth_error h a = Some (NObj m n args) ->
    Forall heap_free args -> Forall wf_val args -> len m < 4294967296 -> len n < 4294967296 ->
    encode_top (Some obj_pickler) fuel h (VRef a) = Ok bs ->
    decode (Some obj_unpickler) bs = Ok (VRef 0%nat, [NObj m n args]).
Proof. exact obj_roundtrip_proof. Qed.
Print Assumptions obj_roundtrip.

(** The hypotheses are satisfiable: a list containing itself and a dict that is its own value, shared; the
    pickler declines all of it, which gives [host_pair] and [host_acyclic] for free. *)
Definition ex_heap : heap :=
  [NList [VInt 1; VRef 0%nat; VRef 1%nat]; NDict [(VStr [115], VRef 1%nat); (VTuple [VInt 2; VNone], VRef 0%nat)];
   NSet [VInt 7; VStr [120]]].

Example ex_wf : wf_heap ex_heap /\ no_host (Some obj_pickler) ex_heap /\
                host_pair (Some obj_pickler) (Some obj_unpickler) ex_heap /\ host_acyclic (Some obj_pickler) ex_heap /\
                exists bs, encode_top (Some obj_pickler) 10 ex_heap (VTuple [VRef 0%nat; VRef 2%nat; VRef 0%nat]) = Ok bs.
Proof.
  assert (NH : no_host (Some obj_pickler) ex_heap).
  { intros p nd E HI. inversion E; subst. cbn in HI. destruct HI as [<-|[<-|[<-|[]]]]; reflexivity. }
  split; [|split; [exact NH|split; [apply no_host_pair; exact NH|split; [apply no_host_acyclic; exact NH|]]]].
  - split; [|vm_compute; discriminate]. repeat constructor.
  - vm_compute. eexists; reflexivity.
Qed.

(** ... and with host objects whose arguments are mutable, shared and cyclic: object 0 is built from the list 1
    (which contains itself and the dict 3, whose value is the list again), from the object 2 and an integer;
    object 2 from the same list and a tuple holding the dict.  Neither object is reachable from its own arguments. *)
Definition ex_host_heap : heap :=
  [NObj [118] [72] [VRef 1%nat; VRef 2%nat; VInt 5];
   NList [VInt 1; VRef 1%nat; VRef 3%nat];
   NObj [118] [75] [VRef 1%nat; VTuple [VRef 3%nat]];
   NDict [(VStr [115], VRef 1%nat)]].
Definition ex_host_root : val := VTuple [VRef 0%nat; VRef 2%nat; VRef 1%nat].

Example ex_host_wf :
    wf_heap ex_host_heap /\ host_pair (Some obj_pickler) (Some obj_unpickler) ex_host_heap /\
    host_acyclic (Some obj_pickler) ex_host_heap /\ heap_ok (Some obj_pickler) ex_host_heap /\
    val_ok ex_host_heap ex_host_root /\ wf_val ex_host_root /\
    exists bs, encode_top (Some obj_pickler) (enc_fuel (Some obj_pickler) ex_host_heap ex_host_root)
                 ex_host_heap ex_host_root = Ok bs.
Proof.
  assert (AC : host_acyclic (Some obj_pickler) ex_host_heap).
  { intros a nd m n args x HA TK HI R.
    assert (C13 : forall b nd0, ((b =? 1) || (b =? 3))%nat = true -> nth_error ex_host_heap b = Some nd0 ->
                    forallb (fun y => forallb (fun c => ((c =? 1) || (c =? 3))%nat) (refs y)) (succs (Some obj_pickler) nd0) = true).
    { intros b nd0 Sb HB. destruct b as [|[|[|[|b]]]]; cbn in Sb; try discriminate; cbn in HB; inversion HB; subst; reflexivity. }
    assert (C123 : forall b nd0, ((b =? 1) || (b =? 2) || (b =? 3))%nat = true -> nth_error ex_host_heap b = Some nd0 ->
                    forallb (fun y => forallb (fun c => ((c =? 1) || (c =? 2) || (c =? 3))%nat) (refs y)) (succs (Some obj_pickler) nd0) = true).
    { intros b nd0 Sb HB. destruct b as [|[|[|[|b]]]]; cbn in Sb; try discriminate; cbn in HB; inversion HB; subst; reflexivity. }
    destruct a as [|[|[|[|a]]]]; cbn in HA; inversion HA; subst; cbn in TK; try discriminate; inversion TK; subst.
    - pose proof (reach_closed _ _ _ C123 x 0%nat R) as RC.
      destruct HI as [<-|[<-|[<-|[]]]]; specialize (RC eq_refl); discriminate.
    - pose proof (reach_closed _ _ _ C13 x 2%nat R) as RC.
      destruct HI as [<-|[<-|[]]]; specialize (RC eq_refl); discriminate.
    - destruct a; discriminate. }
  split; [|split; [|split; [exact AC|split; [|split; [|split]]]]].
  - split; [|vm_compute; discriminate]. repeat constructor.
  - intros p nd E HI. inversion E; subst. cbn in HI.
    destruct HI as [<-|[<-|[<-|[<-|[]]]]]; cbn; try reflexivity; right; repeat split; reflexivity.
  - intros nd HI. cbn in HI. destruct HI as [<-|[<-|[<-|[<-|[]]]]]; (split; [cbn; try discriminate; exact I|]);
      cbn; repeat constructor.
  - repeat constructor.
  - repeat constructor.
  - vm_compute. eexists; reflexivity.
Qed.

(** * [iso] is an equivalence, and the "consequently" clause for heaps

    [iso] is symmetric and transitive on all graphs, and reflexive exactly on the well-formed ones ([graph_wf],
    Pickle/Spec_Graph.v: some set of addresses contains the root's references, each of them holds an object, and
    the contents of these objects mention only addresses of the set and no decoder-internal value). *)
Theorem iso_sym : forall h v h' v', iso h v h' v' -> iso h' v' h v.
Proof. exact iso_sym_proof. Qed.
Print Assumptions iso_sym.

Theorem iso_trans : forall h1 v1 h2 v2 h3 v3, iso h1 v1 h2 v2 -> iso h2 v2 h3 v3 -> iso h1 v1 h3 v3.
Proof. exact iso_trans_proof. Qed.
Print Assumptions iso_trans.

Theorem iso_refl : forall h v, graph_wf h v -> iso h v h v.
Proof. exact iso_refl_proof. Qed.
Print Assumptions iso_refl.

(** ... and nowhere else: the well-formed graphs are exactly the domain of [iso] *)
Theorem iso_refl_iff : forall h v, iso h v h v <-> graph_wf h v.
Proof. exact iso_refl_iff_proof. Qed.
Print Assumptions iso_refl_iff.

(** Encodable graphs (the hypotheses of [heap_encodable], with the object-preserving pair) are well-formed ... *)
Theorem encodable_graph_well_formed : forall pk unp h v,
    host_pair pk unp h -> heap_ok pk h -> val_ok h v -> graph_wf h v.
Proof. exact encodable_graph_wf. Qed.
Print Assumptions encodable_graph_well_formed.

(** ... and so is whatever the encoder accepted under the hypotheses of [heap_roundtrip], and the graph decoded from it. *)
Theorem roundtrip_graphs_well_formed : forall pk unp fuel h v bs,
    wf_heap h -> host_pair pk unp h -> host_acyclic pk h -> wf_val v ->
    encode_top pk fuel h v = Ok bs ->
    graph_wf h v /\ exists v' h', decode unp bs = Ok (v', h') /\ graph_wf h' v'.
Proof. exact roundtrip_graphs_wf. Qed.
Print Assumptions roundtrip_graphs_well_formed.

(** A boolean sufficient test (root and all objects of the heap are over the heap), for examples. *)
Theorem closedb_graph_wf : forall h v, closedb h v = true -> graph_wf h v.
Proof. exact closedb_sound. Qed.
Print Assumptions closedb_graph_wf.

(** The "consequently" clause at full strength, for value graphs with sharing, cycles and host objects: the graphs
    decoded from the encodings of two value graphs are isomorphic exactly when the two source graphs are.  So
    values that differ never decode to values that are equal even up to renaming of objects ... *)
Theorem decoded_iso_iff_source_iso : forall pk unp f1 f2 h1 v1 h2 v2 bs1 bs2 v1' h1' v2' h2',
    wf_heap h1 -> host_pair pk unp h1 -> host_acyclic pk h1 -> wf_val v1 ->
    wf_heap h2 -> host_pair pk unp h2 -> host_acyclic pk h2 -> wf_val v2 ->
    encode_top pk f1 h1 v1 = Ok bs1 -> encode_top pk f2 h2 v2 = Ok bs2 ->
    decode unp bs1 = Ok (v1', h1') -> decode unp bs2 = Ok (v2', h2') ->
    (iso h1' v1' h2' v2' <-> iso h1 v1 h2 v2).
Proof. exact decoded_iso_iff_source_iso_proof. Qed.
Print Assumptions decoded_iso_iff_source_iso.

(** ... in the form of [tree_distinct]: two value graphs that differ (are not isomorphic) both decode, to graphs
    that are not isomorphic; a fortiori the decoder's answers are not equal, and neither are the encodings. *)
Theorem heap_distinct : forall pk unp f1 f2 h1 v1 h2 v2 bs1 bs2,
    wf_heap h1 -> host_pair pk unp h1 -> host_acyclic pk h1 -> wf_val v1 ->
    wf_heap h2 -> host_pair pk unp h2 -> host_acyclic pk h2 -> wf_val v2 ->
    encode_top pk f1 h1 v1 = Ok bs1 -> encode_top pk f2 h2 v2 = Ok bs2 ->
    ~ iso h1 v1 h2 v2 ->
    (exists v1' h1' v2' h2', decode unp bs1 = Ok (v1', h1') /\ decode unp bs2 = Ok (v2', h2') /\
                             ~ iso h1' v1' h2' v2') /\
    decode unp bs1 <> decode unp bs2 /\ bs1 <> bs2.
Proof. exact heap_distinct_proof. Qed.
Print Assumptions heap_distinct.

(** The hypotheses are satisfiable on a shared, cyclic graph: [ex_heap] (a list containing itself and a dict that is
    its own value) is well-formed, hence isomorphic to itself. *)
Example ex_graph_wf : closedb ex_heap (VTuple [VRef 0%nat; VRef 2%nat; VRef 0%nat]) = true /\
                      iso ex_heap (VTuple [VRef 0%nat; VRef 2%nat; VRef 0%nat]) ex_heap (VTuple [VRef 0%nat; VRef 2%nat; VRef 0%nat]).
Proof. split; [vm_compute; reflexivity|]. apply iso_refl_proof. apply closedb_sound. vm_compute. reflexivity. Qed.

(** Two different graphs are told apart: a list that contains itself and two lists that contain each other have
    the same infinite unfolding, but not the same sharing -- they are not isomorphic, satisfy every hypothesis of
    [heap_distinct], and so decode to different (non-isomorphic) graphs. *)
Example ex_told_apart :
    ~ iso self_heap (VRef 0%nat) pair_heap (VRef 0%nat) /\
    wf_heap self_heap /\ host_pair (Some obj_pickler) (Some obj_unpickler) self_heap /\ host_acyclic (Some obj_pickler) self_heap /\
    wf_heap pair_heap /\ host_pair (Some obj_pickler) (Some obj_unpickler) pair_heap /\ host_acyclic (Some obj_pickler) pair_heap /\
    exists bs1 bs2, encode_top (Some obj_pickler) 10 self_heap (VRef 0%nat) = Ok bs1 /\
                    encode_top (Some obj_pickler) 10 pair_heap (VRef 0%nat) = Ok bs2 /\
                    decode (Some obj_unpickler) bs1 = Ok (VRef 0%nat, self_heap) /\
                    decode (Some obj_unpickler) bs2 = Ok (VRef 0%nat, pair_heap).
Proof.
  assert (NH : forall h, Forall (fun nd => match nd with NObj _ _ _ => False | _ => True end) h -> no_host (Some obj_pickler) h).
  { intros h FA p nd E HI. inversion E; subst. rewrite Forall_forall in FA. specialize (FA _ HI). destruct nd; try reflexivity; contradiction. }
  split; [exact self_pair_not_iso|].
  split; [split; [repeat constructor|vm_compute; discriminate]|].
  split; [apply no_host_pair; apply NH; repeat constructor|].
  split; [apply no_host_acyclic; apply NH; repeat constructor|].
  split; [split; [repeat constructor|vm_compute; discriminate]|].
  split; [apply no_host_pair; apply NH; repeat constructor|].
  split; [apply no_host_acyclic; apply NH; repeat constructor|].
  eexists. eexists. split; [vm_compute; reflexivity|]. split; [vm_compute; reflexivity|].
  split; vm_compute; reflexivity.
Qed.

(** * dawn's own pair: function.go envPickler / envUnpickler (Pickle/EnvPair.v)

    The pair is NOT object-preserving, by design: envUnpickler turns what envPickler took apart into the plain data
    of a fingerprint (a target into its label, a builtin, a range and the placeholders into tuples, a code object into
    a dict, a function into that same dict with two more keys).  It satisfies [host_pair] exactly on the heaps in
    which envPickler takes no object at all ... *)
Theorem env_pair_host_pair_iff : forall h,
    host_pair (Some env_pickler) (Some env_unpickler) h <-> no_host (Some env_pickler) h.
Proof. exact env_pair_host_pair_iff_proof. Qed.
Print Assumptions env_pair_host_pair_iff.

(** ... in general: whatever bytes are decoded with envUnpickler, the decoder's heap holds lists, dicts and sets
    only ([noobj]) -- envUnpickler never builds a host object ... *)
Theorem env_decode_no_host_object : forall bs v h,
    decode (Some env_unpickler) bs = Ok (v, h) -> noobj h.
Proof. exact env_decode_no_host_object_proof. Qed.
Print Assumptions env_decode_no_host_object.

(** ... so NO value graph in which the encoder arrives at a host object (of any kind envPickler takes, or any other)
    is isomorphic to anything the decoder returns with envUnpickler, for any input bytes -- in particular for the
    graph's own encoding: the round trip fails for every object kind the pair handles, not for one of them. *)
Theorem env_roundtrip_never_iso : forall h v a m n args bs v' h',
    reach_val (Some env_pickler) h v a -> nth_error h a = Some (NObj m n args) ->
    decode (Some env_unpickler) bs = Ok (v', h') ->
    ~ iso h v h' v'.
Proof. exact env_roundtrip_never_iso_proof. Qed.
Print Assumptions env_roundtrip_never_iso.

(** Witnesses, kind by kind: a target function satisfies every other hypothesis of [heap_roundtrip], is encoded,
    and decodes to the string that is its label: no object at all ... *)
Theorem env_target_roundtrip_refuted :
    wf_heap target_heap /\ host_acyclic (Some env_pickler) target_heap /\ heap_ok (Some env_pickler) target_heap /\
    exists bs, encode_top (Some env_pickler) (enc_fuel (Some env_pickler) target_heap (VRef 0%nat)) target_heap (VRef 0%nat) = Ok bs /\
               decode (Some env_unpickler) bs = Ok (VStr lbl, []) /\
               ~ iso target_heap (VRef 0%nat) [] (VStr lbl).
Proof. exact env_target_roundtrip_refuted_proof. Qed.
Print Assumptions env_target_roundtrip_refuted.

(** ... a Starlark function and its code object (two objects) decode to ONE dict ... *)
Theorem env_function_roundtrip_refuted :
    wf_heap fun_heap /\ host_acyclic (Some env_pickler) fun_heap /\ heap_ok (Some env_pickler) fun_heap /\
    exists bs, encode_top (Some env_pickler) (enc_fuel (Some env_pickler) fun_heap (VRef 0%nat)) fun_heap (VRef 0%nat) = Ok bs /\
               decode (Some env_unpickler) bs = Ok (VRef 0%nat, fun_decoded) /\
               ~ iso fun_heap (VRef 0%nat) fun_decoded (VRef 0%nat).
Proof. exact env_function_roundtrip_refuted_proof. Qed.
Print Assumptions env_function_roundtrip_refuted.

(** ... and the "consequently" clause fails for DECODED environments: the target function and the string that is its
    label differ, have different encodings, and decode to equal values. *)
Theorem env_distinct_refuted :
    exists bs1 bs2,
      encode_top (Some env_pickler) 10 target_heap (VRef 0%nat) = Ok bs1 /\
      encode_top (Some env_pickler) 10 [] (VStr lbl) = Ok bs2 /\
      ~ iso target_heap (VRef 0%nat) [] (VStr lbl) /\ bs1 <> bs2 /\
      decode (Some env_unpickler) bs1 = decode (Some env_unpickler) bs2.
Proof. exact env_distinct_refuted_proof. Qed.
Print Assumptions env_distinct_refuted.

(** What does hold for dawn's pickler is the clause on STAMPS (the encodings under envPickler), which is what
    function.go compares first: envPickler paired with an object-preserving unpickler satisfies [host_pair] on every
    heap, so two value graphs with the same stamp are isomorphic -- environments that differ never have equal
    stamps.  (Stateless part of the pickler; the "Recursive" placeholder of recursionPickler is C08's subject.) *)
Theorem env_stamp_injective : forall f1 f2 h1 v1 h2 v2 bs,
    wf_heap h1 -> host_acyclic (Some env_pickler) h1 -> wf_val v1 ->
    wf_heap h2 -> host_acyclic (Some env_pickler) h2 -> wf_val v2 ->
    encode_top (Some env_pickler) f1 h1 v1 = Ok bs -> encode_top (Some env_pickler) f2 h2 v2 = Ok bs ->
    iso h1 v1 h2 v2.
Proof. exact env_stamp_injective_proof. Qed.
Print Assumptions env_stamp_injective.

(** Instance isolation: several Encoders at work at the same time, their Write calls interleaved in ANY order
    ([sched]) and their encodings cut into Write calls in ANY way ([j_writes]; Pickle/Isolation.v).  An instance's
    step moves its next chunk to its own Writer and touches nothing else -- the Encoder of encode.go keeps all its
    state (Writer, memo, id counter) in the struct.  Then, when all writes are made, every Writer has received
    exactly the encoding its instance produces alone, and it decodes to a graph isomorphic to that instance's
    value: the round trip holds for each instance whatever the others do.  The isolation harness
    (harness/overlay/pickle/zz_verif_c07_conc_test.go) checks the modelling assumption on the code: real Encoders
    and Decoders run under such schedules (hand-over at every Write, Read, Pickle and Unpickle call) and on free
    goroutines must write / decode exactly what they write / decode alone. *)
From Dawn Require Import Pickle.Isolation Pickle.Proofs_Isolation.
Theorem interleaved_codecs_isolated : forall pk unp (jobs : list job) (sched : list nat),
    Forall (fun j => wf_heap (j_heap j) /\ host_pair pk unp (j_heap j) /\ host_acyclic pk (j_heap j) /\ wf_val (j_val j) /\
                     encode_top pk (j_fuel j) (j_heap j) (j_val j) = Ok (concat (j_writes j))) jobs ->
    finished (run sched (start (map j_writes jobs))) ->
    Forall2 (fun j x => encode_top pk (j_fuel j) (j_heap j) (j_val j) = Ok (sink x) /\
                        exists v' h', decode unp (sink x) = Ok (v', h') /\ iso (j_heap j) (j_val j) h' v')
            jobs (run sched (start (map j_writes jobs))).
Proof. exact interleaved_codecs_isolated_proof. Qed.
Print Assumptions interleaved_codecs_isolated.

(** The hypotheses are satisfiable: None, a list containing itself and a tuple, written opcode by opcode, under a
    schedule that interleaves the three instances. *)
Definition ex_jobs : list job :=
  [ {| j_fuel := 5; j_heap := []; j_val := VNone; j_writes := [[opNONE]; [opSTOP]] |};
    {| j_fuel := 5; j_heap := [NList [VRef 0%nat; VBool true]]; j_val := VRef 0%nat;
       j_writes := [[opEMPTY_LIST]; [opMEMOIZE]; [opMARK]; [opBINGET; 0]; [opNEWTRUE]; [opAPPENDS]; [opSTOP]] |};
    {| j_fuel := 5; j_heap := []; j_val := VTuple [VBool true; VInt 256]; j_writes := [[opNEWTRUE]; [opBININT2; 0; 1]; [opTUPLE2]; [opSTOP]] |} ].
Definition ex_sched : list nat := [0; 1; 2; 1; 0; 2; 2; 1; 1; 2; 1; 1; 1]%nat.

Example ex_interleaving :
    Forall (fun j => wf_heap (j_heap j) /\ host_pair (Some obj_pickler) (Some obj_unpickler) (j_heap j) /\
                     host_acyclic (Some obj_pickler) (j_heap j) /\ wf_val (j_val j) /\
                     encode_top (Some obj_pickler) (j_fuel j) (j_heap j) (j_val j) = Ok (concat (j_writes j))) ex_jobs /\
    finished (run ex_sched (start (map j_writes ex_jobs))).
Proof.
  assert (NH : forall h, Forall (fun nd => match nd with NObj _ _ _ => False | _ => True end) h -> no_host (Some obj_pickler) h).
  { intros h FA p nd E HI. inversion E; subst. rewrite Forall_forall in FA. specialize (FA _ HI). destruct nd; try reflexivity; contradiction. }
  split.
  - repeat constructor; cbn [j_heap j_val j_fuel j_writes];
      try (apply no_host_pair; apply NH; repeat constructor); try (apply no_host_acyclic; apply NH; repeat constructor);
      try (vm_compute; discriminate); try (vm_compute; reflexivity).
  - vm_compute. repeat constructor.
Qed.
