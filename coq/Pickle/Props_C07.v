(** C07 — Pickle codec round-trips every value exactly.

    [encode_top pk fuel h v] models Encoder.Encode on the value [v] whose mutable objects live in the heap
    [h] (Pickle/Model.v); [decode unp bs] models Decoder.Decode: the decoded value and the decoder's heap.
    [fuel] bounds the encoder's recursion depth only; the hypotheses [encode_top ... = Ok bs] say "the encoder
    returned these bytes" ([tree_encodable] and the examples below show they are satisfiable).
    Sharing of immutable tuples is not observable in Starlark and is not part of the isomorphism. *)
From Dawn Require Import Pickle.Model Pickle.Spec Pickle.Proofs_Tree Pickle.Proofs_Heap.
Open Scope N_scope.

(** Integers of EVERY magnitude (BININT1, BININT2, BININT and the decimal INT form). *)
Theorem int_roundtrip : forall unp z, decode unp (enc_int z ++ [opSTOP]) = Ok (VInt z, []).
Proof. exact int_roundtrip_proof. Qed.
Print Assumptions int_roundtrip.

(** Strings and bytes of every length below 2^32 (the short and the 4-byte-length forms). *)
Theorem string_roundtrip : forall unp s, len s < 4294967296 ->
    decode unp (enc_string opSHORT_BINUNICODE opBINUNICODE s ++ [opSTOP]) = Ok (VStr s, []) /\
    decode unp (enc_string opSHORT_BINBYTES opBINBYTES s ++ [opSTOP]) = Ok (VBytes s, []).
Proof. exact string_roundtrip_proof. Qed.
Print Assumptions string_roundtrip.

(** Floats: all 64 bits, NaN payloads and signed zeros included. *)
Theorem float_roundtrip : forall unp bits, bits < 18446744073709551616 ->
    decode unp (enc_float bits ++ [opSTOP]) = Ok (VFloat bits, []).
Proof. exact float_roundtrip_proof. Qed.
Print Assumptions float_roundtrip.

(** Arbitrarily nested immutable values (None, bools, ints, floats, strings, bytes, tuples of any arity):
    decoding the encoding yields exactly the value, and allocates nothing. *)
Theorem tree_roundtrip : forall pk unp fuel h v bs,
    heap_free v -> wf_val v -> encode_top pk fuel h v = Ok bs -> decode unp bs = Ok (v, []).
Proof. exact tree_roundtrip_proof. Qed.
Print Assumptions tree_roundtrip.

(** ... and the encoder accepts every such value. *)
Theorem tree_encodable : forall pk h v, heap_free v -> exists bs, encode_top pk (S (depth v)) h v = Ok bs.
Proof. exact tree_encodable_proof. Qed.
Print Assumptions tree_encodable.

(** Consequently two immutable values that differ never decode to equal values (nor share an encoding). *)
Theorem tree_distinct : forall pk unp f1 f2 h1 h2 v1 v2 bs1 bs2,
    heap_free v1 -> wf_val v1 -> heap_free v2 -> wf_val v2 ->
    encode_top pk f1 h1 v1 = Ok bs1 -> encode_top pk f2 h2 v2 = Ok bs2 ->
    v1 <> v2 -> decode unp bs1 <> decode unp bs2 /\ bs1 <> bs2.
Proof. exact tree_distinct_proof. Qed.
Print Assumptions tree_distinct.

(** Lists, dicts and sets of ANY size (any number of 1000-element batches), nested anywhere, shared and
    self-referential: the decoded graph is isomorphic to the source graph -- a one-to-one correspondence
    [rho] between the reachable source objects and the decoded objects under which the roots agree and
    every pair of corresponding objects has the same kind and pairwise corresponding contents in the same
    order.  [wf_heap]: Go-representable sizes, dict keys / set elements hashable and pairwise distinct
    (Starlark's own invariant), fewer than 2^32 objects.  [no_host]: the host pickler declines the
    objects of this heap (host objects: see [obj_roundtrip] and the note in the check's META). *)
Theorem heap_roundtrip : forall pk unp fuel h v bs,
    wf_heap h -> no_host pk h -> wf_val v ->
    encode_top pk fuel h v = Ok bs ->
    exists v' h', decode unp bs = Ok (v', h') /\ iso h v h' v'.
Proof. exact heap_roundtrip_proof. Qed.
Print Assumptions heap_roundtrip.

(** Consequently two graphs with the same encoding are both isomorphic to the one graph that decodes from
    it: values that differ (are not isomorphic) never decode to equal values. *)
Theorem same_encoding_iso : forall pk unp f1 f2 h1 v1 h2 v2 bs,
    wf_heap h1 -> no_host pk h1 -> wf_val v1 -> wf_heap h2 -> no_host pk h2 -> wf_val v2 ->
    encode_top pk f1 h1 v1 = Ok bs -> encode_top pk f2 h2 v2 = Ok bs ->
    exists v' h', decode unp bs = Ok (v', h') /\ iso h1 v1 h' v' /\ iso h2 v2 h' v'.
Proof. exact same_encoding_iso_proof. Qed.
Print Assumptions same_encoding_iso.

(** A value handled by the host pickler (object-preserving pair), constructor arguments immutable. *)
Theorem obj_roundtrip : forall fuel h a m n args bs,
    nth_error h a = Some (NObj m n args) ->
    Forall heap_free args -> Forall wf_val args -> len m < 4294967296 -> len n < 4294967296 ->
    encode_top (Some obj_pickler) fuel h (VRef a) = Ok bs ->
    decode (Some obj_unpickler) bs = Ok (VRef 0%nat, [NObj m n args]).
Proof. exact obj_roundtrip_proof. Qed.
Print Assumptions obj_roundtrip.

(** The hypotheses are satisfiable: a list containing itself and a dict that is its own value, shared. *)
Definition ex_heap : heap :=
  [NList [VInt 1; VRef 0%nat; VRef 1%nat]; NDict [(VStr [115], VRef 1%nat); (VTuple [VInt 2; VNone], VRef 0%nat)];
   NSet [VInt 7; VStr [120]]].

Example ex_wf : wf_heap ex_heap /\ no_host (Some obj_pickler) ex_heap /\
                exists bs, encode_top (Some obj_pickler) 10 ex_heap (VTuple [VRef 0%nat; VRef 2%nat; VRef 0%nat]) = Ok bs.
Proof.
  split; [|split].
  - split; [|vm_compute; discriminate]. repeat constructor.
  - intros p nd E HI. inversion E; subst. cbn in HI.
    destruct HI as [<-|[<-|[<-|[]]]]; reflexivity.
  - vm_compute. eexists; reflexivity.
Qed.
