(** C07 — Pickle codec round-trips every value exactly.

    [encode_top pk fuel h v] models Encoder.Encode on the value [v] whose mutable objects live in the heap
    [h] (Pickle/Model.v); [decode unp bs] models Decoder.Decode: the decoded value and the decoder's heap.
    [fuel] bounds the encoder's recursion depth only; the hypotheses [encode_top ... = Ok bs] say "the encoder
    returned these bytes": [encode_terminates] and [heap_encodable] show that with fuel [enc_fuel pk h v] the
    encoder never runs out of fuel and returns bytes for every encodable graph, shared and cyclic ones included.
    Sharing of immutable tuples is not observable in Starlark and is not part of the isomorphism.

    The one excluded shape is an object taken by the host pickler that is reachable from its own constructor
    arguments ([host_acyclic]): the pickler's NEWOBJ protocol memoizes such an object only after its arguments, and
    the code then either overflows the stack ([host_selfref_diverges]) or emits an encoding that decodes to a graph
    with the object duplicated ([host_cycle_roundtrip_refuted]). *)
From Dawn Require Import Pickle.Model Pickle.Spec Pickle.Proofs_Tree Pickle.Proofs_Term Pickle.Proofs_Heap Pickle.Proofs_HostCycle.
Open Scope N_scope.

(** Integers of EVERY magnitude (BININT1, BININT2, BININT and the decimal INT form). *)
Theorem int_roundtrip : forall unp z, decode unp (enc_int z ++ [opSTOP]) = Ok (VInt z, []).
Proof. exact int_roundtrip_proof. Qed.
Print Assumptions int_roundtrip.

(** Strings and bytes of every length below 2^32 (the short and the 4-byte-length forms). *)
Theorem string_roundtrip : forall unp s, len s < 4294967296 ->
    decode unp (enc_string opSHORT_BINUNICODE opBINUNICODE s ++ [opSTOP]) = Ok (VStr s, []) /\
    decode unp (enc_string opSHORT_BINBYTES opBINBYTES s ++ [opSTOP]) = Ok (VBytes s, []).
Proof. exact string_roundtrip_proof. Qed.
Print Assumptions string_roundtrip.

(** Floats: all 64 bits, NaN payloads and signed zeros included. *)
Theorem float_roundtrip : forall unp bits, bits < 18446744073709551616 ->
    decode unp (enc_float bits ++ [opSTOP]) = Ok (VFloat bits, []).
Proof. exact float_roundtrip_proof. Qed.
Print Assumptions float_roundtrip.

(** Arbitrarily nested immutable values (None, bools, ints, floats, strings, bytes, tuples of any arity):
    decoding the encoding yields exactly the value, and allocates nothing. *)
Theorem tree_roundtrip : forall pk unp fuel h v bs,
    heap_free v -> wf_val v -> encode_top pk fuel h v = Ok bs -> decode unp bs = Ok (v, []).
Proof. exact tree_roundtrip_proof. Qed.
Print Assumptions tree_roundtrip.

(** ... and the encoder accepts every such value. *)
Theorem tree_encodable : forall pk h v, heap_free v -> exists bs, encode_top pk (S (depth v)) h v = Ok bs.
Proof. exact tree_encodable_proof. Qed.
Print Assumptions tree_encodable.

(** Consequently two immutable values that differ never decode to equal values (nor share an encoding). *)
Theorem tree_distinct : forall pk unp f1 f2 h1 h2 v1 v2 bs1 bs2,
    heap_free v1 -> wf_val v1 -> heap_free v2 -> wf_val v2 ->
    encode_top pk f1 h1 v1 = Ok bs1 -> encode_top pk f2 h2 v2 = Ok bs2 ->
    v1 <> v2 -> decode unp bs1 <> decode unp bs2 /\ bs1 <> bs2.
Proof. exact tree_distinct_proof. Qed.
Print Assumptions tree_distinct.

(** The encoder terminates: with the fuel [enc_fuel pk h v] = 1 + depth v + |h| * (2 + deepest value stored in
    the heap), [encode_top] never runs out of fuel -- for EVERY heap (dangling references, decoder-internal
    values, failing picklers included: those end in an error) with shared and cyclic lists, dicts and sets,
    provided no object taken by the host pickler is reachable from its own constructor arguments.  [reach_val],
    [host_acyclic]: Pickle/Spec.v.  Without a pickler, or with one that declines every object of the heap, the
    proviso holds trivially ([no_host_acyclic]). *)
Theorem encode_terminates : forall pk h v,
    host_acyclic pk h -> encode_top pk (enc_fuel pk h v) h v <> OutOfFuel.
Proof. exact encode_terminates_proof. Qed.
Print Assumptions encode_terminates.

(** ... in particular for ALL heaps when there is no host pickler, or when it declines every object. *)
Theorem encode_terminates_no_host : forall pk h v,
    no_host pk h -> encode_top pk (enc_fuel pk h v) h v <> OutOfFuel.
Proof. exact (fun pk h v NH => encode_terminates_proof pk h v (no_host_acyclic pk h NH)). Qed.
Print Assumptions encode_terminates_no_host.

(** ... and it returns bytes when the graph is encodable: no dangling reference or decoder-internal value in
    the root or in any object ([val_ok]), the pickler takes every host object and fails on none ([heap_ok]). *)
Theorem heap_encodable : forall pk h v,
    host_acyclic pk h -> heap_ok pk h -> val_ok h v ->
    exists bs, encode_top pk (enc_fuel pk h v) h v = Ok bs.
Proof. exact heap_encodable_proof. Qed.
Print Assumptions heap_encodable.

(** The proviso is necessary, in the model as in the code: a host object that is its own constructor argument
    makes the encoder recurse forever (Go: fatal "stack overflow" in Encoder.encodeComplex) ... *)
Theorem host_selfref_diverges : forall fuel,
    encode_top (Some obj_pickler) fuel [NObj [118] [72] [VRef 0%nat]] (VRef 0%nat) = OutOfFuel.
Proof. exact host_selfref_diverges_proof. Qed.
Print Assumptions host_selfref_diverges.

(** Lists, dicts, sets of ANY size (any number of 1000-element batches) AND objects taken by the host pickler,
    nested anywhere, shared and self-referential, the constructor arguments of host objects being arbitrary
    (mutable, shared, cyclic) values: the decoded graph is isomorphic to the source graph -- a one-to-one
    correspondence [rho] between the reachable source objects and the decoded objects under which the roots
    agree and every pair of corresponding objects has the same kind (for host objects: the same module and
    name) and pairwise corresponding contents / constructor arguments in the same order.
    [wf_heap]: Go-representable sizes, dict keys / set elements hashable and pairwise distinct (Starlark's own
    invariant), fewer than 2^32 objects.  [host_pair]: the pickler declines lists and dicts and takes a host
    object apart into its module, name and arguments, which the unpickler puts together again (the harness'
    pair [obj_pickler] / [obj_unpickler]; a pickler that declines everything qualifies with any unpickler:
    [no_host_pair]).  [host_acyclic]: see above. *)
Theorem heap_roundtrip : forall pk unp fuel h v bs,
    wf_heap h -> host_pair pk unp h -> host_acyclic pk h -> wf_val v ->
    encode_top pk fuel h v = Ok bs ->
    exists v' h', decode unp bs = Ok (v', h') /\ iso h v h' v'.
Proof. exact host_roundtrip_proof. Qed.
Print Assumptions heap_roundtrip.

(** [host_acyclic] cannot be dropped from [heap_roundtrip]: a host object whose argument is a list that
    contains the object satisfies every other hypothesis, is encoded without error (the list is memoized, so
    the second visit of the object stops at it), and decodes to a graph with TWO copies of the object -- not
    isomorphic to the source.  The code emits exactly these bytes and decodes them to exactly this graph. *)
Theorem host_cycle_roundtrip_refuted :
    wf_heap cyc_heap /\ host_pair (Some obj_pickler) (Some obj_unpickler) cyc_heap /\
    ~ host_acyclic (Some obj_pickler) cyc_heap /\
    encode_top (Some obj_pickler) 20 cyc_heap (VRef 0%nat) = Ok cyc_bytes /\
    decode (Some obj_unpickler) cyc_bytes = Ok (VRef 2%nat, cyc_decoded) /\
    ~ iso cyc_heap (VRef 0%nat) cyc_decoded (VRef 2%nat).
Proof. exact host_cycle_roundtrip_refuted_proof. Qed.
Print Assumptions host_cycle_roundtrip_refuted.

(** Consequently two graphs with the same encoding are both isomorphic to the one graph that decodes from
    it: values that differ (are not isomorphic) never decode to equal values. *)
Theorem same_encoding_iso : forall pk unp f1 f2 h1 v1 h2 v2 bs,
    wf_heap h1 -> host_pair pk unp h1 -> host_acyclic pk h1 -> wf_val v1 ->
    wf_heap h2 -> host_pair pk unp h2 -> host_acyclic pk h2 -> wf_val v2 ->
    encode_top pk f1 h1 v1 = Ok bs -> encode_top pk f2 h2 v2 = Ok bs ->
    exists v' h', decode unp bs = Ok (v', h') /\ iso h1 v1 h' v' /\ iso h2 v2 h' v'.
Proof. exact same_encoding_iso_proof. Qed.
Print Assumptions same_encoding_iso.

(** A host object with immutable constructor arguments, in closed form: the decoded heap is exactly the object. *)
Theorem obj_roundtrip : forall fuel h a m n args bs,
    nth_error h a = Some (NObj m n args) ->
    Forall heap_free args -> Forall wf_val args -> len m < 4294967296 -> len n < 4294967296 ->
    encode_top (Some obj_pickler) fuel h (VRef a) = Ok bs ->
    decode (Some obj_unpickler) bs = Ok (VRef 0%nat, [NObj m n args]).
Proof. exact obj_roundtrip_proof. Qed.
Print Assumptions obj_roundtrip.

(** The hypotheses are satisfiable: a list containing itself and a dict that is its own value, shared; the
    pickler declines all of it, which gives [host_pair] and [host_acyclic] for free. *)
Definition ex_heap : heap :=
  [NList [VInt 1; VRef 0%nat; VRef 1%nat]; NDict [(VStr [115], VRef 1%nat); (VTuple [VInt 2; VNone], VRef 0%nat)];
   NSet [VInt 7; VStr [120]]].

Example ex_wf : wf_heap ex_heap /\ no_host (Some obj_pickler) ex_heap /\
                host_pair (Some obj_pickler) (Some obj_unpickler) ex_heap /\ host_acyclic (Some obj_pickler) ex_heap /\
                exists bs, encode_top (Some obj_pickler) 10 ex_heap (VTuple [VRef 0%nat; VRef 2%nat; VRef 0%nat]) = Ok bs.
Proof.
  assert (NH : no_host (Some obj_pickler) ex_heap).
  { intros p nd E HI. inversion E; subst. cbn in HI. destruct HI as [<-|[<-|[<-|[]]]]; reflexivity. }
  split; [|split; [exact NH|split; [apply no_host_pair; exact NH|split; [apply no_host_acyclic; exact NH|]]]].
  - split; [|vm_compute; discriminate]. repeat constructor.
  - vm_compute. eexists; reflexivity.
Qed.

(** ... and with host objects whose arguments are mutable, shared and cyclic: object 0 is built from the list 1
    (which contains itself and the dict 3, whose value is the list again), from the object 2 and an integer;
    object 2 from the same list and a tuple holding the dict.  Neither object is reachable from its own arguments. *)
Definition ex_host_heap : heap :=
  [NObj [118] [72] [VRef 1%nat; VRef 2%nat; VInt 5];
   NList [VInt 1; VRef 1%nat; VRef 3%nat];
   NObj [118] [75] [VRef 1%nat; VTuple [VRef 3%nat]];
   NDict [(VStr [115], VRef 1%nat)]].
Definition ex_host_root : val := VTuple [VRef 0%nat; VRef 2%nat; VRef 1%nat].

Example ex_host_wf :
    wf_heap ex_host_heap /\ host_pair (Some obj_pickler) (Some obj_unpickler) ex_host_heap /\
    host_acyclic (Some obj_pickler) ex_host_heap /\ heap_ok (Some obj_pickler) ex_host_heap /\
    val_ok ex_host_heap ex_host_root /\ wf_val ex_host_root /\
    exists bs, encode_top (Some obj_pickler) (enc_fuel (Some obj_pickler) ex_host_heap ex_host_root)
                 ex_host_heap ex_host_root = Ok bs.
Proof.
  assert (AC : host_acyclic (Some obj_pickler) ex_host_heap).
  { intros a nd m n args x HA TK HI R.
    assert (C13 : forall b nd0, ((b =? 1) || (b =? 3))%nat = true -> nth_error ex_host_heap b = Some nd0 ->
                    forallb (fun y => forallb (fun c => ((c =? 1) || (c =? 3))%nat) (refs y)) (succs (Some obj_pickler) nd0) = true).
    { intros b nd0 Sb HB. destruct b as [|[|[|[|b]]]]; cbn in Sb; try discriminate; cbn in HB; inversion HB; subst; reflexivity. }
    assert (C123 : forall b nd0, ((b =? 1) || (b =? 2) || (b =? 3))%nat = true -> nth_error ex_host_heap b = Some nd0 ->
                    forallb (fun y => forallb (fun c => ((c =? 1) || (c =? 2) || (c =? 3))%nat) (refs y)) (succs (Some obj_pickler) nd0) = true).
    { intros b nd0 Sb HB. destruct b as [|[|[|[|b]]]]; cbn in Sb; try discriminate; cbn in HB; inversion HB; subst; reflexivity. }
    destruct a as [|[|[|[|a]]]]; cbn in HA; inversion HA; subst; cbn in TK; try discriminate; inversion TK; subst.
    - pose proof (reach_closed _ _ _ C123 x 0%nat R) as RC.
      destruct HI as [<-|[<-|[<-|[]]]]; specialize (RC eq_refl); discriminate.
    - pose proof (reach_closed _ _ _ C13 x 2%nat R) as RC.
      destruct HI as [<-|[<-|[]]]; specialize (RC eq_refl); discriminate.
    - destruct a; discriminate. }
  split; [|split; [|split; [exact AC|split; [|split; [|split]]]]].
  - split; [|vm_compute; discriminate]. repeat constructor.
  - intros p nd E HI. inversion E; subst. cbn in HI.
    destruct HI as [<-|[<-|[<-|[<-|[]]]]]; cbn; try reflexivity; right; repeat split; reflexivity.
  - intros nd HI. cbn in HI. destruct HI as [<-|[<-|[<-|[<-|[]]]]]; (split; [cbn; try discriminate; exact I|]);
      cbn; repeat constructor.
  - repeat constructor.
  - repeat constructor.
  - vm_compute. eexists; reflexivity.
Qed.

(** Instance isolation: several Encoders at work at the same time, their Write calls interleaved in ANY order
    ([sched]) and their encodings cut into Write calls in ANY way ([j_writes]; Pickle/Isolation.v).  An instance's
    step moves its next chunk to its own Writer and touches nothing else -- the Encoder of encode.go keeps all its
    state (Writer, memo, id counter) in the struct.  Then, when all writes are made, every Writer has received
    exactly the encoding its instance produces alone, and it decodes to a graph isomorphic to that instance's
    value: the round trip holds for each instance whatever the others do.  The isolation harness
    (harness/overlay/pickle/zz_verif_c07_conc_test.go) checks the modelling assumption on the code: real Encoders
    and Decoders run under such schedules (hand-over at every Write, Read, Pickle and Unpickle call) and on free
    goroutines must write / decode exactly what they write / decode alone. *)
From Dawn Require Import Pickle.Isolation Pickle.Proofs_Isolation.
Theorem interleaved_codecs_isolated : forall pk unp (jobs : list job) (sched : list nat),
    Forall (fun j => wf_heap (j_heap j) /\ host_pair pk unp (j_heap j) /\ host_acyclic pk (j_heap j) /\ wf_val (j_val j) /\
                     encode_top pk (j_fuel j) (j_heap j) (j_val j) = Ok (concat (j_writes j))) jobs ->
    finished (run sched (start (map j_writes jobs))) ->
    Forall2 (fun j x => encode_top pk (j_fuel j) (j_heap j) (j_val j) = Ok (sink x) /\
                        exists v' h', decode unp (sink x) = Ok (v', h') /\ iso (j_heap j) (j_val j) h' v')
            jobs (run sched (start (map j_writes jobs))).
Proof. exact interleaved_codecs_isolated_proof. Qed.
Print Assumptions interleaved_codecs_isolated.

(** The hypotheses are satisfiable: None, a list containing itself and a tuple, written opcode by opcode, under a
    schedule that interleaves the three instances. *)
Definition ex_jobs : list job :=
  [ {| j_fuel := 5; j_heap := []; j_val := VNone; j_writes := [[opNONE]; [opSTOP]] |};
    {| j_fuel := 5; j_heap := [NList [VRef 0%nat; VBool true]]; j_val := VRef 0%nat;
       j_writes := [[opEMPTY_LIST]; [opMEMOIZE]; [opMARK]; [opBINGET; 0]; [opNEWTRUE]; [opAPPENDS]; [opSTOP]] |};
    {| j_fuel := 5; j_heap := []; j_val := VTuple [VBool true; VInt 256]; j_writes := [[opNEWTRUE]; [opBININT2; 0; 1]; [opTUPLE2]; [opSTOP]] |} ].
Definition ex_sched : list nat := [0; 1; 2; 1; 0; 2; 2; 1; 1; 2; 1; 1; 1]%nat.

Example ex_interleaving :
    Forall (fun j => wf_heap (j_heap j) /\ host_pair (Some obj_pickler) (Some obj_unpickler) (j_heap j) /\
                     host_acyclic (Some obj_pickler) (j_heap j) /\ wf_val (j_val j) /\
                     encode_top (Some obj_pickler) (j_fuel j) (j_heap j) (j_val j) = Ok (concat (j_writes j))) ex_jobs /\
    finished (run ex_sched (start (map j_writes ex_jobs))).
Proof.
  assert (NH : forall h, Forall (fun nd => match nd with NObj _ _ _ => False | _ => True end) h -> no_host (Some obj_pickler) h).
  { intros h FA p nd E HI. inversion E; subst. rewrite Forall_forall in FA. specialize (FA _ HI). destruct nd; try reflexivity; contradiction. }
  split.
  - repeat constructor; cbn [j_heap j_val j_fuel j_writes];
      try (apply no_host_pair; apply NH; repeat constructor); try (apply no_host_acyclic; apply NH; repeat constructor);
      try (vm_compute; discriminate); try (vm_compute; reflexivity).
  - vm_compute. repeat constructor.
Qed.
