From Dawn Require Import Pickle.Model.
Open Scope N_scope.
Theorem pipeline_smoke : decode None (enc_int 5 ++ [opSTOP]) = Ok (VInt 5, []).
Proof. vm_compute. reflexivity. Qed.
Print Assumptions pipeline_smoke.
