(** C15: a source that fails can only turn a value into an error, never into another value. *)
From Dawn Require Import Pickle.Model Pickle.Source Pickle.Proofs_C15.
From Coq Require Import Lia List.
Import ListNotations.
Open Scope N_scope.

Lemma takeN_app : forall bs n s r e, takeN bs n = Some (s, r) -> takeN (bs ++ e) n = Some (s, r ++ e).
Proof.
  induction bs as [|b bs IH]; intros n s r e H.
  - cbn [takeN] in H. destruct (n =? 0) eqn:E; [|discriminate]. inversion H; subst.
    cbn [app]. destruct e; cbn [takeN]; rewrite E; reflexivity.
  - cbn [takeN app] in *. destruct (n =? 0) eqn:E.
    + inversion H; subst. reflexivity.
    + destruct (takeN bs (n - 1)) as [[x y]|] eqn:T; [|discriminate].
      inversion H; subst. rewrite (IH _ _ _ e T). reflexivity.
Qed.

Lemma split_first_app : forall c s a b e, split_first c s = Some (a, b) -> split_first c (s ++ e) = Some (a, b ++ e).
Proof.
  induction s as [|x s IH]; intros a b e H; [discriminate|].
  cbn [split_first app] in *. destruct (x =? c).
  - inversion H; subst. reflexivity.
  - destruct (split_first c s) as [[a' b']|] eqn:T; [|discriminate].
    inversion H; subst. rewrite (IH _ _ e eq_refl). reflexivity.
Qed.

Ltac src_crush e :=
  repeat (cbn [app] in *;
          match goal with
          | H : SNext _ _ = SNext _ _ |- _ => inversion H; subst; clear H
          | H : SDone _ _ = SDone _ _ |- _ => inversion H; subst; clear H
          | H : SErr = _ |- _ => discriminate H
          | H : SCrash = _ |- _ => discriminate H
          | H : SNext _ _ = SDone _ _ |- _ => discriminate H
          | H : SDone _ _ = SNext _ _ |- _ => discriminate H
          | H : takeN _ _ = Some _ |- _ => rewrite (takeN_app _ _ _ _ e H); clear H
          | H : split_first _ _ = Some _ |- _ => rewrite (split_first_app _ _ _ _ e H); clear H
          | H : context[match ?x with _ => _ end] |- _ => destruct x eqn:?
          | H : context[if ?x then _ else _] |- _ => destruct x eqn:?
          end); cbn [app]; try reflexivity.

Lemma step_app : forall unp L L' bs e st,
    (forall r st', step unp L bs st = SNext r st' -> step unp L' (bs ++ e) st = SNext (r ++ e) st') /\
    (forall v st', step unp L bs st = SDone v st' -> step unp L' (bs ++ e) st = SDone v st').
Proof.
  intros unp L L' bs e st. destruct bs as [|op r]; [split; intros; discriminate|].
  cbn [app]. unfold step, read_string, with_mark_below.
  destruct (classify op); split; intros ? ? H; src_crush e.
Qed.

Lemma run_app : forall unp L L' f bs e st res,
    run unp L f bs st = Ok res -> forall f', (f <= f')%nat -> run unp L' f' (bs ++ e) st = Ok res.
Proof.
  induction f as [|f IH]; intros bs e st res H f' Hf; [discriminate|].
  destruct f' as [|f']; [lia|]. cbn [run] in *.
  destruct (step_app unp L L' bs e st) as [HN HD].
  destruct (step unp L bs st) as [r0 st'|v st'| |] eqn:S; try discriminate.
  - rewrite (HN _ _ eq_refl). apply IH; [exact H|lia].
  - rewrite (HD _ _ eq_refl). exact H.
Qed.

(** a value, once decoded, does not depend on what the source would have delivered afterwards *)
Theorem decode_app_proof : forall unp bs e res, decode unp bs = Ok res -> decode unp (bs ++ e) = Ok res.
Proof.
  intros unp bs e res. unfold decode.
  destruct (run unp (len bs) (S (length bs)) bs dstate0) as [[v st]| | | |] eqn:R; cbn [bind]; try discriminate.
  intro H. rewrite (run_app _ _ (len (bs ++ e)) _ _ e _ _ R (S (length (bs ++ e)))).
  - exact H.
  - rewrite app_length. lia.
Qed.

(** ... hence a source that fails before the end of an input can only turn that input's value into an error *)
Theorem failed_source_never_changes_value_proof : forall unp s more res,
    decode unp (src_bytes s ++ more) = Ok res ->
    lengths_bounded (src_bytes s) = true ->
    decode_source unp s = Ok res \/ decode_source unp s = Err.
Proof.
  intros unp s more res H LB. unfold decode_source.
  destruct (decode_total_proof unp (src_bytes s) LB) as [E|[v [h E]]]; [right; exact E|left].
  rewrite (decode_app_proof _ _ more _ E) in H. rewrite E. exact H.
Qed.

