From Coq Require Import List Lia.
From Dawn Require Import Pickle.Model Pickle.Spec Pickle.Proofs_Heap Pickle.Proofs_HostCycle.
From Dawn Require Import Pickle.Isolation.
Import ListNotations.

(** what an instance has written plus what it still has to write *)
Definition total (x : inst) : bytes := sink x ++ concat (todo x).

Lemma step1_total : forall x, total (step1 x) = total x.
Proof.
  intros [td sk]. unfold step1, total. cbn. destruct td as [|c r]; cbn; [reflexivity|].
  rewrite <- app_assoc. reflexivity.
Qed.

Lemma upd_total : forall i w, map total (upd i step1 w) = map total w.
Proof.
  intros i w. revert i. induction w as [|x r IH]; intros i; [destruct i; reflexivity|].
  destruct i; cbn; [rewrite step1_total; reflexivity|rewrite IH; reflexivity].
Qed.

Lemma run_total : forall sched w, map total (run sched w) = map total w.
Proof.
  induction sched as [|i s IH]; intros w; [reflexivity|].
  cbn. unfold run in IH. rewrite IH. apply upd_total.
Qed.

Lemma start_total : forall writes, map total (start writes) = map (@concat _) writes.
Proof. induction writes as [|cs r IH]; [reflexivity|]. cbn. rewrite <- IH. reflexivity. Qed.

Lemma finished_sinks : forall w, finished w -> map sink w = map total w.
Proof.
  induction 1 as [|x r Hx _ IH]; [reflexivity|]. cbn. rewrite IH. unfold total. rewrite Hx. cbn.
  rewrite app_nil_r. reflexivity.
Qed.

(** Whatever the schedule and however the encodings are cut into writes: when all writes are made, every
    Writer has received exactly the concatenation of its own instance's writes. *)
Lemma interleaved_sinks : forall writes sched,
    finished (run sched (start writes)) -> map sink (run sched (start writes)) = map (@concat _) writes.
Proof.
  intros writes sched F. rewrite (finished_sinks _ F), run_total. apply start_total.
Qed.

Lemma map_nth_F2 : forall {A B C} (f : A -> C) (g : B -> C) (la : list A) (lb : list B),
    map f la = map g lb -> Forall2 (fun a b => f a = g b) la lb.
Proof.
  intros A B C f g la. induction la as [|a r IH]; intros [|b s] E; cbn in E; try discriminate; [constructor|].
  injection E as E1 E2. constructor; [exact E1|apply IH; exact E2].
Qed.

Lemma interleaved_codecs_isolated_proof : forall pk unp (jobs : list job) (sched : list nat),
    Forall (fun j => wf_heap (j_heap j) /\ host_pair pk unp (j_heap j) /\ host_acyclic pk (j_heap j) /\ wf_val (j_val j) /\
                     encode_top pk (j_fuel j) (j_heap j) (j_val j) = Ok (concat (j_writes j))) jobs ->
    finished (run sched (start (map j_writes jobs))) ->
    Forall2 (fun j x => encode_top pk (j_fuel j) (j_heap j) (j_val j) = Ok (sink x) /\
                        exists v' h', decode unp (sink x) = Ok (v', h') /\ iso (j_heap j) (j_val j) h' v')
            jobs (run sched (start (map j_writes jobs))).
Proof.
  intros pk unp jobs sched HJ F.
  pose proof (interleaved_sinks _ _ F) as E. rewrite map_map in E.
  apply map_nth_F2 in E.
  remember (run sched (start (map j_writes jobs))) as w eqn:Hw. clear Hw F.
  revert HJ. induction E as [|x j w' jobs' Hx _ IH]; intros HJ; [constructor|].
  inversion HJ as [|? ? (WF & HP & HA & WV & EN) HJ']; subst.
  constructor; [|apply IH; assumption].
  rewrite Hx. split; [exact EN|].
  exact (host_roundtrip_proof pk unp _ _ _ _ WF HP HA WV EN).
Qed.
