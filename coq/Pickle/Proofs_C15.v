(** Proofs for C15: totality of the decoder, of envUnpickler and of the diffEnv reason construction. *)
From Dawn Require Import Pickle.Model.
From Coq Require Import Lia.
Open Scope N_scope.

Lemma takeN_len : forall bs n s r, takeN bs n = Some (s, r) -> length bs = (length s + length r)%nat.
Proof.
  induction bs as [|b bs IH]; intros n s r H; simpl in H.
  - destruct (n =? 0); inversion H; reflexivity.
  - destruct (n =? 0).
    + inversion H; reflexivity.
    + destruct (takeN bs (n - 1)) as [[x y]|] eqn:E; inversion H; subst.
      apply IH in E. simpl. lia.
Qed.

Lemma takeN_n : forall bs n s r, takeN bs n = Some (s, r) -> n = N.of_nat (length s).
Proof.
  induction bs as [|b bs IH]; intros n s r H; simpl in H.
  - destruct (n =? 0) eqn:E; inversion H; subst. apply N.eqb_eq in E. subst. reflexivity.
  - destruct (n =? 0) eqn:E.
    + inversion H; subst. apply N.eqb_eq in E. subst. reflexivity.
    + destruct (takeN bs (n - 1)) as [[x y]|] eqn:E2; inversion H; subst.
      apply IH in E2. apply N.eqb_neq in E. simpl length. lia.
Qed.

Lemma split_first_len : forall c s a b, split_first c s = Some (a, b) -> (length b < length s)%nat.
Proof.
  induction s as [|x s IH]; intros a b H; simpl in H; [discriminate|].
  destruct (x =? c).
  - inversion H; subst. simpl. lia.
  - destruct (split_first c s) as [[a' b']|] eqn:E; inversion H; subst.
    specialize (IH _ _ eq_refl). simpl. lia.
Qed.

Ltac break_match H :=
  repeat match type of H with
         | context [match ?x with _ => _ end] => destruct x eqn:?; try discriminate H
         | context [if ?x then _ else _] => destruct x eqn:?; try discriminate H
         end.

Ltac use_len :=
  repeat match goal with
         | H : takeN _ _ = Some _ |- _ => apply takeN_len in H
         | H : split_first _ _ = Some _ |- _ => apply split_first_len in H
         end.

Section Total.
  Variable unp : option unpickle_fn.
  Variable lim : N.

  Lemma step_shrinks : forall bs st r st', step unp lim bs st = SNext r st' -> (length r < length bs)%nat.
  Proof.
    intros bs st r st' H. unfold step, read_string, with_mark_below in H.
    destruct bs as [|op r0]; [discriminate|].
    destruct (classify op); break_match H; inversion H; subst; use_len; simpl in *; lia.
  Qed.

  Lemma run_fuel_enough : forall f bs st, (length bs < f)%nat -> run unp lim f bs st <> OutOfFuel.
  Proof.
    induction f as [|f IH]; intros bs st L; [lia|].
    simpl. destruct (step unp lim bs st) eqn:E; try discriminate.
    apply step_shrinks in E. apply IH. lia.
  Qed.

  Lemma run_not_nilnil : forall f bs st, run unp lim f bs st <> NilNil.
  Proof.
    induction f as [|f IH]; intros bs st; simpl; [discriminate|].
    destruct (step unp lim bs st); try discriminate. apply IH.
  Qed.

  (** the scanner walks the decoder's own opcode boundaries *)
  Lemma step_scan_next : forall bs st r st',
      len bs <= lim -> step unp lim bs st = SNext r st' -> scan_step lim bs = SSNext r.
  Proof.
    intros bs st r st' L H. unfold step, read_string, with_mark_below in H. unfold scan_step, drop_bytes.
    destruct bs as [|op r0]; [discriminate|].
    destruct (classify op); break_match H; inversion H; subst; try reflexivity.
    all: match goal with E : takeN _ _ = Some _ |- _ =>
           pose proof (takeN_n _ _ _ _ E); apply takeN_len in E end.
    all: unfold len in L; simpl length in L.
    all: match goal with |- (if ?c then _ else _) = _ => destruct c eqn:C; [apply N.ltb_lt in C; lia | reflexivity] end.
  Qed.

  Lemma step_scan_crash : forall bs st, step unp lim bs st = SCrash -> scan_step lim bs = SSOver.
  Proof.
    intros bs st H. unfold step, read_string, with_mark_below in H. unfold scan_step, drop_bytes.
    destruct bs as [|op r0]; [discriminate|].
    destruct (classify op); break_match H; try discriminate H.
    all: match goal with C : (_ || (_ <=? _)) = false |- _ =>
           apply Bool.orb_false_iff in C; destruct C as [_ C]; apply N.leb_gt in C end.
    all: match goal with |- (if ?c then _ else _) = _ => destruct c eqn:C'; [reflexivity | apply N.ltb_ge in C'; lia] end.
  Qed.

  Lemma run_no_crash : forall f f' bs st,
      (length bs < f')%nat -> len bs <= lim -> lens_ok lim f' bs = true -> run unp lim f bs st <> Crash.
  Proof.
    induction f as [|f IH]; intros f' bs st Lf L OK; simpl; [discriminate|].
    destruct f' as [|f']; [lia|]. simpl in OK.
    destruct (step unp lim bs st) eqn:E; try discriminate.
    - pose proof (step_shrinks _ _ _ _ E) as S.
      rewrite (step_scan_next _ _ _ _ L E) in OK.
      apply (IH f'); [lia | unfold len in *; lia | exact OK].
    - rewrite (step_scan_crash _ _ E) in OK. discriminate.
  Qed.
End Total.

(** * decode *)

Theorem decode_never_hangs_or_nilnil_proof : forall unp bs,
    decode unp bs <> OutOfFuel /\ decode unp bs <> NilNil.
Proof.
  intros unp bs. unfold decode.
  pose proof (run_fuel_enough unp (len bs) (S (length bs)) bs dstate0 (Nat.lt_succ_diag_r _)) as F.
  pose proof (run_not_nilnil unp (len bs) (S (length bs)) bs dstate0) as NN.
  destruct (run unp (len bs) (S (length bs)) bs dstate0) as [[v st]| | | |]; simpl; split; congruence.
Qed.

Theorem decode_total_proof : forall unp bs,
    lengths_bounded bs = true ->
    decode unp bs = Err \/ exists v h, decode unp bs = Ok (v, h).
Proof.
  intros unp bs LB. unfold decode.
  pose proof (run_fuel_enough unp (len bs) (S (length bs)) bs dstate0 (Nat.lt_succ_diag_r _)) as F.
  pose proof (run_not_nilnil unp (len bs) (S (length bs)) bs dstate0) as NN.
  pose proof (run_no_crash unp (len bs) (S (length bs)) (S (length bs)) bs dstate0
                (Nat.lt_succ_diag_r _) (N.le_refl _) LB) as NC.
  destruct (run unp (len bs) (S (length bs)) bs dstate0) as [[v st]| | | |]; simpl; try congruence.
  - right. eauto.
  - left. reflexivity.
Qed.

(** * envUnpickler *)

Lemma heap_upd_length : forall h a nd, length (heap_upd h a nd) = length h.
Proof. induction h; intros [|a'] nd; simpl; auto. Qed.

Lemma make_dict_grows : forall al h v h', make_dict al h = Some (v, h') -> (length h <= length h')%nat.
Proof.
  intros al h v h' H. unfold make_dict in H.
  destruct al; try (inversion H; subst; lia).
  destruct (assoc_pairs l []); inversion H; subst. rewrite app_length. simpl. lia.
Qed.

Theorem env_unpickle_total_proof : forall m n args h,
    match env_unpickle m n args h with
    | EOk v h' => (length h <= length h')%nat
    | EErr => True
    | EPanic => True
    end.
Proof.
  intros m n args h. destruct (env_unpickle m n args h) as [v h'| |] eqn:E; auto.
  unfold env_unpickle in E. break_match E; inversion E; subst; try lia.
  all: repeat match goal with H : make_dict _ _ = Some _ |- _ => apply make_dict_grows in H end.
  all: repeat rewrite heap_upd_length in *; repeat rewrite app_length in *; simpl in *; try lia.
Qed.

Theorem env_decode_total_proof : forall bs,
    lengths_bounded bs = true ->
    decode (Some env_unpickler) bs = Err \/ exists v h, decode (Some env_unpickler) bs = Ok (v, h).
Proof. intros bs. apply decode_total_proof. Qed.

(** * diffEnv reason *)

Lemma index_last : forall (l : list bytes) x, index (l ++ [x]) (Z.of_nat (length (l ++ [x])) - 1) = Ok x.
Proof.
  intros l x. unfold index. rewrite app_length. simpl length.
  replace (Z.of_nat (length l + 1) - 1)%Z with (Z.of_nat (length l)) by lia.
  destruct (Z.of_nat (length l) <? 0)%Z eqn:E; [apply Z.ltb_lt in E; lia|].
  rewrite Nat2Z.id. rewrite nth_error_app2 by lia. rewrite Nat.sub_diag. reflexivity.
Qed.

Theorem reason_total_proof : forall reasons, exists r, reason_of reasons = Ok r.
Proof.
  intros reasons. unfold reason_of.
  destruct reasons as [|a [|b [|c rest]]]; try (cbn; eexists; reflexivity).
  (* three or more: reasons[:len-1] and reasons[len-1] *)
  destruct (exists_last (l := a :: b :: c :: rest) ltac:(discriminate)) as [pre [lastx E]].
  cbn [length].
  replace (Z.of_nat (S (S (S (length rest))))) with (Z.of_nat (length (a :: b :: c :: rest))) by reflexivity.
  rewrite E. rewrite index_last. unfold slice_to. rewrite app_length. cbn [length].
  destruct ((Z.of_nat (length pre + 1) - 1 <? 0) || (Z.of_nat (length pre + 1) <? Z.of_nat (length pre + 1) - 1))%Z eqn:C.
  - apply Bool.orb_true_iff in C. destruct C as [C|C]; apply Z.ltb_lt in C; lia.
  - cbn [bind]. eexists; reflexivity.
Qed.

Theorem diff_reason_total_proof : forall has, exists r, diff_reason has = Ok r.
Proof. intros has. apply reason_total_proof. Qed.

(* ------------------------------------------------------------------------------------------------ *)
(** * decoding from a source that fails (Pickle/Source.v) *)
From Dawn Require Import Pickle.Source.

Theorem decode_source_total_proof : forall unp s,
    decode_source unp s <> OutOfFuel /\ decode_source unp s <> NilNil /\
    (lengths_bounded (src_bytes s) = true ->
     decode_source unp s = Err \/ exists v h, decode_source unp s = Ok (v, h)).
Proof.
  intros unp s. unfold decode_source.
  destruct (decode_never_hangs_or_nilnil_proof unp (src_bytes s)) as [H1 H2].
  repeat split; auto. apply decode_total_proof.
Qed.

Theorem decode_source_end_irrelevant_proof : forall unp bs e1 e2,
    decode_source unp (mkSource bs e1) = decode_source unp (mkSource bs e2).
Proof. reflexivity. Qed.

(** reader.Read never hands its caller a short read: it is all n bytes or the failure *)
Theorem reader_read_all_or_failure_proof : forall n s got rest,
    reader_read n s = Some (got, rest) ->
    length got = n /\ src_bytes s = got ++ src_bytes rest /\ src_ends rest = src_ends s.
Proof.
  intros n s got rest. unfold reader_read.
  destruct (Nat.leb n (length (src_bytes s))) eqn:E; [|discriminate].
  intro H. inversion H; subst; clear H. apply Nat.leb_le in E. cbn [src_bytes src_ends].
  split; [apply firstn_length_le; exact E|]. split; [symmetry; apply firstn_skipn|reflexivity].
Qed.
