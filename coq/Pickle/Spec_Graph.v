(** Vocabulary of the C07 theorems about [iso] as an equivalence (definitions only).

    [iso] (Pickle/Spec.v) relates the graph reachable from a root in one heap to the graph reachable from a
    root in another.  It is symmetric and transitive on ALL graphs; it is reflexive exactly on the graphs that
    are "closed": some set of addresses contains every address the root mentions, every one of these addresses
    holds an object, and the contents of these objects again mention only addresses of the set and no
    decoder-internal value ([VMark], [VGlobal]).  That is [graph_wf]; [closedb] is a sufficient boolean test
    (the whole heap is closed), convenient for examples. *)
From Dawn Require Import Pickle.Model Pickle.Spec.
Open Scope N_scope.

(** [val_in S v]: a Starlark value (no decoder-internal value) whose references all lie in [S] *)
Inductive val_in (S : list addr) : val -> Prop :=
| vi_none : val_in S VNone
| vi_bool : forall b, val_in S (VBool b)
| vi_int : forall z, val_in S (VInt z)
| vi_float : forall bits, val_in S (VFloat bits)
| vi_str : forall s, val_in S (VStr s)
| vi_bytes : forall s, val_in S (VBytes s)
| vi_tuple : forall l, Forall (val_in S) l -> val_in S (VTuple l)
| vi_ref : forall a, In a S -> val_in S (VRef a).

(** the values stored in an object, in order (dict: key, value, key, value, ...) *)
Definition node_vals (nd : node) : list val :=
  match nd with
  | NList l => l
  | NDict kvs => flat_pairs kvs
  | NSet l => l
  | NObj _ _ args => args
  end.

(** the address set [S] contains the root's references and is closed under "contents of" *)
Definition closed_on (S : list addr) (h : heap) (v : val) : Prop :=
  val_in S v /\
  forall a, In a S -> exists nd, nth_error h a = Some nd /\ Forall (val_in S) (node_vals nd).

(** a well-formed value graph: no dangling reference and no decoder-internal value in its reachable part *)
Definition graph_wf (h : heap) (v : val) : Prop := exists S, closed_on S h v.

(** boolean sufficient condition: root and ALL objects of the heap are over the heap ([val_ok] as a boolean) *)
Fixpoint val_okb (h : heap) (v : val) : bool :=
  match v with
  | VTuple l => forallb (val_okb h) l
  | VRef a => Nat.ltb a (length h)
  | VMark => false
  | VGlobal _ _ _ => false
  | _ => true
  end.

Definition closedb (h : heap) (v : val) : bool :=
  val_okb h v && forallb (fun nd => forallb (val_okb h) (node_vals nd)) h.

(** the correspondences used by the proofs: inverse, identity on a set, composition *)
Definition flip (rho : corr) : corr := map (fun p => (snd p, fst p)) rho.

Definition diag (S : list addr) : corr := map (fun a => (a, a)) S.

Fixpoint lookup (b : addr) (rho : corr) : option addr :=
  match rho with
  | [] => None
  | (x, y) :: r => if Nat.eqb b x then Some y else lookup b r
  end.

Definition comp (r1 r2 : corr) : corr :=
  flat_map (fun p => match lookup (snd p) r2 with Some c => [(fst p, c)] | None => [] end) r1.
