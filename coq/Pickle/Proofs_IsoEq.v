(** C07: [iso] is an equivalence on well-formed value graphs, and the "consequently" clause for heaps. *)
From Dawn Require Import Pickle.Model Pickle.Spec Pickle.Proofs_Base Pickle.Proofs_Term Pickle.Proofs_Heap.
From Dawn Require Import Pickle.Spec_Graph.
From Coq Require Import Lia.
Open Scope N_scope.

(* ------------------------------------------------------------------------------------------------ *)
(** * Lists of pairs *)

Lemma NoDup_map_snd_inj : forall (l : list (addr * addr)) a x y,
    NoDup (map snd l) -> In (x, a) l -> In (y, a) l -> x = y.
Proof.
  induction l as [|[z b] r IH]; intros a x y ND H1 H2; [contradiction|].
  cbn in ND. inversion ND as [|? ? NI ND']; subst.
  destruct H1 as [H1|H1]; destruct H2 as [H2|H2].
  - congruence.
  - inversion H1; subst. exfalso. apply NI. apply in_map_iff. exists (y, a). split; [reflexivity|exact H2].
  - inversion H2; subst. exfalso. apply NI. apply in_map_iff. exists (x, a). split; [reflexivity|exact H1].
  - eapply IH; eassumption.
Qed.

Lemma in_map_fst : forall (l : list (addr * addr)) a b, In (a, b) l -> In a (map fst l).
Proof. intros l a b H. apply in_map_iff. exists (a, b). split; [reflexivity|exact H]. Qed.

Lemma in_map_snd : forall (l : list (addr * addr)) a b, In (a, b) l -> In b (map snd l).
Proof. intros l a b H. apply in_map_iff. exists (a, b). split; [reflexivity|exact H]. Qed.

(* ------------------------------------------------------------------------------------------------ *)
(** * Symmetry *)

Lemma in_flip : forall rho a b, In (a, b) rho -> In (b, a) (flip rho).
Proof. intros rho a b H. unfold flip. apply in_map_iff. exists (a, b). split; [reflexivity|exact H]. Qed.

Lemma in_flip_inv : forall rho a b, In (a, b) (flip rho) -> In (b, a) rho.
Proof.
  intros rho a b H. unfold flip in H. apply in_map_iff in H. destruct H as [[x y] [E HI]].
  cbn in E. inversion E; subst. exact HI.
Qed.

Lemma map_fst_flip : forall rho, map fst (flip rho) = map snd rho.
Proof. intros rho. unfold flip. rewrite map_map. apply map_ext. intros [x y]. reflexivity. Qed.

Lemma map_snd_flip : forall rho, map snd (flip rho) = map fst rho.
Proof. intros rho. unfold flip. rewrite map_map. apply map_ext. intros [x y]. reflexivity. Qed.

Lemma vrel_flip : forall rho v v', vrel rho v v' -> vrel (flip rho) v' v.
Proof.
  intros rho v. induction v as [| | | | | |l IHl| | |] using val_ind'; intros v' R;
    inversion R as [ | | | | | | l0 l0' HF2 | a0 a0' HIn ]; subst; try constructor.
  - clear R. revert IHl. induction HF2 as [|x y r r' Hxy Hr IH]; intros IHl; constructor.
    + inversion IHl; subst. auto.
    + inversion IHl; subst. auto.
  - apply in_flip. exact HIn.
Qed.

Lemma Forall2_vrel_flip : forall rho l l', Forall2 (vrel rho) l l' -> Forall2 (vrel (flip rho)) l' l.
Proof. intros rho l l' H. induction H; constructor; auto using vrel_flip. Qed.

Lemma nrel_flip : forall rho nd nd', nrel rho nd nd' -> nrel (flip rho) nd' nd.
Proof.
  intros rho nd nd' R. inversion R as [l l' H|kvs kvs' H|l l' H|m n l l' H]; subst; constructor.
  - apply Forall2_vrel_flip. exact H.
  - clear R. induction H as [|p p' r r' Hp Hr IH]; constructor; auto.
    destruct Hp as [A B]. split; apply vrel_flip; assumption.
  - apply Forall2_vrel_flip. exact H.
  - apply Forall2_vrel_flip. exact H.
Qed.

Theorem iso_sym_proof : forall h v h' v', iso h v h' v' -> iso h' v' h v.
Proof.
  intros h v h' v' [rho [V [N1 [N2 C]]]]. exists (flip rho).
  split; [apply vrel_flip; exact V|]. split; [rewrite map_fst_flip; exact N2|].
  split; [rewrite map_snd_flip; exact N1|].
  intros a a' HI. apply in_flip_inv in HI. destruct (C _ _ HI) as [nd [nd' [H1 [H2 R]]]].
  exists nd', nd. split; [exact H2|]. split; [exact H1|]. apply nrel_flip. exact R.
Qed.

(* ------------------------------------------------------------------------------------------------ *)
(** * Transitivity *)

Lemma lookup_in : forall rho b c, lookup b rho = Some c -> In (b, c) rho.
Proof.
  induction rho as [|[x y] r IH]; intros b c H; cbn in H; [discriminate|].
  destruct (Nat.eqb b x) eqn:E.
  - apply Nat.eqb_eq in E. inversion H; subst. left. reflexivity.
  - right. apply IH. exact H.
Qed.

Lemma in_lookup : forall rho b c, NoDup (map fst rho) -> In (b, c) rho -> lookup b rho = Some c.
Proof.
  induction rho as [|[x y] r IH]; intros b c ND HI; [contradiction|].
  cbn in ND. inversion ND as [|? ? NI ND']; subst. cbn [lookup].
  destruct HI as [HI|HI].
  - inversion HI; subst. rewrite Nat.eqb_refl. reflexivity.
  - destruct (Nat.eqb b x) eqn:E.
    + apply Nat.eqb_eq in E. subst x. exfalso. apply NI. eapply in_map_fst. exact HI.
    + apply IH; assumption.
Qed.

Lemma in_comp : forall r1 r2 a c,
    In (a, c) (comp r1 r2) <-> exists b, In (a, b) r1 /\ lookup b r2 = Some c.
Proof.
  intros r1 r2 a c. unfold comp. rewrite in_flat_map. split.
  - intros [[x b] [HI H]]. cbn [fst snd] in H. destruct (lookup b r2) as [c'|] eqn:L; [|contradiction].
    destruct H as [H|[]]. inversion H; subst. exists b. split; assumption.
  - intros [b [HI L]]. exists (a, b). split; [exact HI|]. cbn [fst snd]. rewrite L. left. reflexivity.
Qed.

Lemma comp_cons : forall p r1 r2,
    comp (p :: r1) r2 = (match lookup (snd p) r2 with Some c => [(fst p, c)] | None => [] end) ++ comp r1 r2.
Proof. reflexivity. Qed.

Lemma comp_fst_incl : forall r1 r2 a, In a (map fst (comp r1 r2)) -> In a (map fst r1).
Proof.
  intros r1 r2 a H. apply in_map_iff in H. destruct H as [[x c] [E HI]]. cbn in E. subst x.
  apply in_comp in HI. destruct HI as [b [HI _]]. eapply in_map_fst. exact HI.
Qed.

Lemma comp_nodup_fst : forall r1 r2, NoDup (map fst r1) -> NoDup (map fst (comp r1 r2)).
Proof.
  induction r1 as [|[a b] r IH]; intros r2 ND; [cbn; constructor|].
  cbn in ND. inversion ND as [|? ? NI ND']; subst. rewrite comp_cons. cbn [fst snd].
  destruct (lookup b r2) as [c|]; cbn [app map fst].
  - constructor; [|apply IH; exact ND']. intros HI. apply NI. eapply comp_fst_incl. exact HI.
  - apply IH. exact ND'.
Qed.

Lemma comp_nodup_snd : forall r1 r2,
    NoDup (map snd r1) -> NoDup (map snd r2) -> NoDup (map snd (comp r1 r2)).
Proof.
  induction r1 as [|[a b] r IH]; intros r2 ND1 ND2; [cbn; constructor|].
  cbn in ND1. inversion ND1 as [|? ? NI ND1']; subst. rewrite comp_cons. cbn [fst snd].
  destruct (lookup b r2) as [c|] eqn:L; cbn [app map snd].
  - constructor; [|apply IH; assumption]. intros HI.
    apply in_map_iff in HI. destruct HI as [[x c'] [E HI]]. cbn in E. subst c'.
    apply in_comp in HI. destruct HI as [b' [HI L']].
    apply lookup_in in L. apply lookup_in in L'.
    assert (EB : b = b') by exact (NoDup_map_snd_inj r2 c b b' ND2 L L'). subst b'.
    apply NI. eapply in_map_snd. exact HI.
  - apply IH; assumption.
Qed.

Lemma vrel_comp : forall r1 r2, NoDup (map fst r2) ->
    forall x y z, vrel r1 x y -> vrel r2 y z -> vrel (comp r1 r2) x z.
Proof.
  intros r1 r2 ND x. induction x as [| | | | | |l IHl| | |] using val_ind'; intros vy vz R1 R2;
    inversion R1 as [ | | | | | | l1 l1' HF1 | a1 a1' HIn1 ]; subst;
    inversion R2 as [ | | | | | | l2 l2' HF2 | a2 a2' HIn2 ]; subst; try constructor.
  - clear R1 R2. revert l2' HF2 IHl.
    induction HF1 as [|x y r r' Hxy Hr IH]; intros l2' HF2 IHl; inversion HF2; subst; constructor.
    + inversion IHl; subst. eauto.
    + inversion IHl; subst. eauto.
  - apply in_comp. exists a1'. split; [exact HIn1|]. apply in_lookup; assumption.
Qed.

Lemma Forall2_vrel_comp : forall r1 r2, NoDup (map fst r2) ->
    forall l l' l'', Forall2 (vrel r1) l l' -> Forall2 (vrel r2) l' l'' -> Forall2 (vrel (comp r1 r2)) l l''.
Proof.
  intros r1 r2 ND l l' l'' H. revert l''. induction H; intros l'' H2; inversion H2; subst; constructor;
    eauto using vrel_comp.
Qed.

Lemma nrel_comp : forall r1 r2, NoDup (map fst r2) ->
    forall n1 n2 n3, nrel r1 n1 n2 -> nrel r2 n2 n3 -> nrel (comp r1 r2) n1 n3.
Proof.
  intros r1 r2 ND n1 n2 n3 R1 R2.
  inversion R1 as [l l' H|kvs kvs' H|l l' H|m n l l' H]; subst;
    inversion R2 as [k k' H'|kk kk' H'|k k' H'|m' n' k k' H']; subst; constructor.
  - eapply Forall2_vrel_comp; eassumption.
  - clear R1 R2. revert kk' H'. induction H as [|p p' r r' Hp Hr IH]; intros kk' H'; inversion H'; subst; constructor.
    + destruct Hp as [A B]. match goal with HQ : prel r2 p' _ |- _ => destruct HQ as [A' B'] end.
      split; eapply vrel_comp; eassumption.
    + eauto.
  - eapply Forall2_vrel_comp; eassumption.
  - eapply Forall2_vrel_comp; eassumption.
Qed.

Theorem iso_trans_proof : forall h1 v1 h2 v2 h3 v3,
    iso h1 v1 h2 v2 -> iso h2 v2 h3 v3 -> iso h1 v1 h3 v3.
Proof.
  intros h1 v1 h2 v2 h3 v3 [r1 [V1 [F1 [S1 C1]]]] [r2 [V2 [F2 [S2 C2]]]].
  exists (comp r1 r2).
  split; [eapply vrel_comp; eassumption|].
  split; [apply comp_nodup_fst; exact F1|].
  split; [apply comp_nodup_snd; assumption|].
  intros a c HI. apply in_comp in HI. destruct HI as [b [HI L]]. apply lookup_in in L.
  destruct (C1 _ _ HI) as [n1 [n2 [HA [HB R1]]]].
  destruct (C2 _ _ L) as [n2' [n3 [HB' [HC R2]]]].
  rewrite HB in HB'. inversion HB'; subst n2'.
  exists n1, n3. split; [exact HA|]. split; [exact HC|]. eapply nrel_comp; eassumption.
Qed.

(* ------------------------------------------------------------------------------------------------ *)
(** * Reflexivity, exactly on well-formed graphs *)

Lemma in_diag : forall S a, In a S -> In (a, a) (diag S).
Proof. intros S a H. unfold diag. apply in_map_iff. exists a. split; [reflexivity|exact H]. Qed.

Lemma in_diag_inv : forall S a b, In (a, b) (diag S) -> a = b /\ In a S.
Proof.
  intros S a b H. unfold diag in H. apply in_map_iff in H. destruct H as [x [E HI]].
  inversion E; subst. split; [reflexivity|exact HI].
Qed.

Lemma map_fst_diag : forall S, map fst (diag S) = S.
Proof. intros S. unfold diag. rewrite map_map. cbn. apply map_id. Qed.

Lemma map_snd_diag : forall S, map snd (diag S) = S.
Proof. intros S. unfold diag. rewrite map_map. cbn. apply map_id. Qed.

Lemma val_in_vrel_diag : forall S S', incl S S' -> forall v, val_in S v -> vrel (diag S') v v.
Proof.
  intros S S' I v. induction v as [| | | | | |l IHl| | |] using val_ind'; intros W;
    inversion W as [ | | | | | | l0 HF | a0 HIn ]; subst; try constructor.
  - clear W. induction l as [|x r IH]; constructor.
    + inversion IHl; subst. inversion HF; subst. auto.
    + inversion IHl; subst. inversion HF; subst. auto.
  - apply in_diag. apply I. exact HIn.
Qed.

Lemma Forall_val_in_vrel_diag : forall S S', incl S S' -> forall l,
    Forall (val_in S) l -> Forall2 (vrel (diag S')) l l.
Proof. intros S S' I l H. induction H; constructor; eauto using val_in_vrel_diag. Qed.

Lemma flat_pairs_prel_diag : forall S S', incl S S' -> forall kvs,
    Forall (val_in S) (flat_pairs kvs) -> Forall2 (prel (diag S')) kvs kvs.
Proof.
  intros S S' I kvs. induction kvs as [|[k v] r IH]; intros H; constructor.
  - cbn in H. inversion H as [|? ? Hk H']; subst. inversion H' as [|? ? Hv H'']; subst.
    split; cbn [fst snd]; eapply val_in_vrel_diag; eassumption.
  - apply IH. cbn in H. inversion H as [|? ? Hk H']; subst. inversion H' as [|? ? Hv H'']; subst. exact H''.
Qed.

Lemma node_vals_nrel_diag : forall S S', incl S S' -> forall nd,
    Forall (val_in S) (node_vals nd) -> nrel (diag S') nd nd.
Proof.
  intros S S' I nd H. destruct nd as [l|kvs|l|m n args]; cbn [node_vals] in H; constructor.
  - eapply Forall_val_in_vrel_diag; eassumption.
  - eapply flat_pairs_prel_diag; eassumption.
  - eapply Forall_val_in_vrel_diag; eassumption.
  - eapply Forall_val_in_vrel_diag; eassumption.
Qed.

Theorem iso_refl_proof : forall h v, graph_wf h v -> iso h v h v.
Proof.
  intros h v [S [V C]]. exists (diag (nodup Nat.eq_dec S)).
  assert (I : incl S (nodup Nat.eq_dec S)) by (intros x Hx; apply nodup_In; exact Hx).
  split; [eapply val_in_vrel_diag; eassumption|].
  split; [rewrite map_fst_diag; apply NoDup_nodup|].
  split; [rewrite map_snd_diag; apply NoDup_nodup|].
  intros a a' HI. apply in_diag_inv in HI. destruct HI as [<- HI]. apply nodup_In in HI.
  destruct (C _ HI) as [nd [HA F]]. exists nd, nd. split; [exact HA|]. split; [exact HA|].
  eapply node_vals_nrel_diag; eassumption.
Qed.

(** both sides of an isomorphism are well-formed graphs *)
Lemma vrel_val_in : forall rho v v', vrel rho v v' -> val_in (map fst rho) v.
Proof.
  intros rho v. induction v as [| | | | | |l IHl| | |] using val_ind'; intros v' R;
    inversion R as [ | | | | | | l0 l0' HF2 | a0 a0' HIn ]; subst; try constructor.
  - clear R. revert IHl. induction HF2 as [|x y r r' Hxy Hr IH]; intros IHl; constructor.
    + inversion IHl; subst. eauto.
    + inversion IHl; subst. auto.
  - eapply in_map_fst. exact HIn.
Qed.

Lemma Forall2_vrel_val_in : forall rho l l', Forall2 (vrel rho) l l' -> Forall (val_in (map fst rho)) l.
Proof. intros rho l l' H. induction H; constructor; eauto using vrel_val_in. Qed.

Lemma nrel_node_vals_in : forall rho nd nd', nrel rho nd nd' -> Forall (val_in (map fst rho)) (node_vals nd).
Proof.
  intros rho nd nd' R. inversion R as [l l' H|kvs kvs' H|l l' H|m n l l' H]; subst; cbn [node_vals].
  - eapply Forall2_vrel_val_in. exact H.
  - clear R. induction H as [|p p' r r' Hp Hr IH]; [constructor|].
    destruct Hp as [A B]. cbn. constructor; [eapply vrel_val_in; exact A|].
    constructor; [eapply vrel_val_in; exact B|]. exact IH.
  - eapply Forall2_vrel_val_in. exact H.
  - eapply Forall2_vrel_val_in. exact H.
Qed.

Theorem iso_wf_left : forall h v h' v', iso h v h' v' -> graph_wf h v.
Proof.
  intros h v h' v' [rho [V [N1 [N2 C]]]]. exists (map fst rho). split; [eapply vrel_val_in; exact V|].
  intros a HI. apply in_map_iff in HI. destruct HI as [[x a'] [E HI]]. cbn in E. subst x.
  destruct (C _ _ HI) as [nd [nd' [H1 [H2 R]]]]. exists nd. split; [exact H1|].
  eapply nrel_node_vals_in. exact R.
Qed.

Theorem iso_wf_right : forall h v h' v', iso h v h' v' -> graph_wf h' v'.
Proof. intros h v h' v' I. apply iso_sym_proof in I. eapply iso_wf_left. exact I. Qed.

Theorem iso_refl_iff_proof : forall h v, iso h v h v <-> graph_wf h v.
Proof. intros h v. split; [apply iso_wf_left|apply iso_refl_proof]. Qed.

(* ------------------------------------------------------------------------------------------------ *)
(** * Which graphs are well-formed: the boolean test, encodable graphs, decoded graphs *)

Lemma val_okb_in : forall h v, val_okb h v = true -> val_in (seq 0 (length h)) v.
Proof.
  intros h v. induction v as [| | | | | |l IHl| | |] using val_ind'; intros H; cbn [val_okb] in H;
    try discriminate; try constructor.
  - induction l as [|x r IH]; constructor.
    + inversion IHl; subst. cbn [forallb] in H. apply andb_prop in H. tauto.
    + inversion IHl; subst. cbn [forallb] in H. apply andb_prop in H. apply IH; tauto.
  - apply in_seq. apply Nat.ltb_lt in H. lia.
Qed.

Theorem closedb_sound : forall h v, closedb h v = true -> graph_wf h v.
Proof.
  intros h v H. unfold closedb in H. apply andb_prop in H. destruct H as [HV HH].
  exists (seq 0 (length h)). split; [apply val_okb_in; exact HV|].
  intros a HI. apply in_seq in HI.
  destruct (nth_error h a) as [nd|] eqn:HA; [|apply nth_error_None in HA; lia].
  exists nd. split; [reflexivity|]. rewrite forallb_forall in HH.
  specialize (HH nd (nth_error_In _ _ HA)). rewrite forallb_forall in HH.
  apply Forall_forall. intros x Hx. apply val_okb_in. apply HH. exact Hx.
Qed.

Lemma val_ok_in : forall h v, val_ok h v -> val_in (seq 0 (length h)) v.
Proof.
  intros h v. induction v as [| | | | | |l IHl| | |] using val_ind'; intros H;
    inversion H as [ | | | | | | l0 HF | a0 HL ]; subst; try constructor.
  - clear H. induction l as [|x r IH]; constructor.
    + inversion IHl; subst. inversion HF; subst. auto.
    + inversion IHl; subst. inversion HF; subst. auto.
  - apply in_seq. lia.
Qed.

(** under an object-preserving pair the encoder descends into exactly the contents of every object it accepts *)
Lemma succs_node_vals : forall pk unp h nd,
    host_pair pk unp h -> In nd h -> node_ok pk nd -> succs pk nd = node_vals nd.
Proof.
  intros pk unp h nd HP HI NO. unfold succs, taken. destruct pk as [p|].
  - specialize (HP p nd eq_refl HI). destruct nd as [l|kvs|l|m n args]; cbn [node_vals].
    + rewrite HP. reflexivity.
    + rewrite HP. reflexivity.
    + reflexivity.
    + destruct HP as [HP|[HP _]].
      * exfalso. cbn [node_ok] in NO. apply NO. unfold taken. rewrite HP. reflexivity.
      * rewrite HP. reflexivity.
  - destruct nd as [l|kvs|l|m n args]; cbn [node_vals]; try reflexivity.
    exfalso. cbn [node_ok] in NO. apply NO. reflexivity.
Qed.

(** encodable graphs (the hypotheses of [heap_encodable] plus [host_pair]) are well-formed *)
Theorem encodable_graph_wf : forall pk unp h v,
    host_pair pk unp h -> heap_ok pk h -> val_ok h v -> graph_wf h v.
Proof.
  intros pk unp h v HP HO VO. exists (seq 0 (length h)). split; [apply val_ok_in; exact VO|].
  intros a HI. apply in_seq in HI.
  destruct (nth_error h a) as [nd|] eqn:HA; [|apply nth_error_None in HA; lia].
  exists nd. split; [reflexivity|]. pose proof (nth_error_In _ _ HA) as InH.
  destruct (HO nd InH) as [NO F]. rewrite (succs_node_vals pk unp h nd HP InH NO) in F.
  apply Forall_forall. intros x Hx. rewrite Forall_forall in F. apply val_ok_in. apply F. exact Hx.
Qed.

(** whatever the encoder accepted (hypotheses of [heap_roundtrip]): source graph and decoded graph are well-formed *)
Theorem roundtrip_graphs_wf : forall pk unp fuel h v bs,
    wf_heap h -> host_pair pk unp h -> host_acyclic pk h -> wf_val v ->
    encode_top pk fuel h v = Ok bs ->
    graph_wf h v /\ exists v' h', decode unp bs = Ok (v', h') /\ graph_wf h' v'.
Proof.
  intros pk unp fuel h v bs WFH HP AC W E.
  destruct (host_roundtrip_proof pk unp fuel h v bs WFH HP AC W E) as [v' [h' [D I]]].
  split; [eapply iso_wf_left; exact I|]. exists v', h'. split; [exact D|]. eapply iso_wf_right. exact I.
Qed.

(* ------------------------------------------------------------------------------------------------ *)
(** * The "consequently" clause for heaps *)

(** the decoded graphs are isomorphic exactly when the source graphs are *)
Theorem decoded_iso_iff_source_iso_proof : forall pk unp f1 f2 h1 v1 h2 v2 bs1 bs2 v1' h1' v2' h2',
    wf_heap h1 -> host_pair pk unp h1 -> host_acyclic pk h1 -> wf_val v1 ->
    wf_heap h2 -> host_pair pk unp h2 -> host_acyclic pk h2 -> wf_val v2 ->
    encode_top pk f1 h1 v1 = Ok bs1 -> encode_top pk f2 h2 v2 = Ok bs2 ->
    decode unp bs1 = Ok (v1', h1') -> decode unp bs2 = Ok (v2', h2') ->
    (iso h1' v1' h2' v2' <-> iso h1 v1 h2 v2).
Proof.
  intros pk unp f1 f2 h1 v1 h2 v2 bs1 bs2 v1' h1' v2' h2' W1 P1 A1 V1 W2 P2 A2 V2 E1 E2 D1 D2.
  destruct (host_roundtrip_proof pk unp f1 h1 v1 bs1 W1 P1 A1 V1 E1) as [x1 [g1 [D1' I1]]].
  destruct (host_roundtrip_proof pk unp f2 h2 v2 bs2 W2 P2 A2 V2 E2) as [x2 [g2 [D2' I2]]].
  rewrite D1 in D1'. inversion D1'; subst x1 g1. rewrite D2 in D2'. inversion D2'; subst x2 g2.
  split; intros I.
  - eapply iso_trans_proof; [exact I1|]. eapply iso_trans_proof; [exact I|]. apply iso_sym_proof. exact I2.
  - eapply iso_trans_proof; [apply iso_sym_proof; exact I1|]. eapply iso_trans_proof; [exact I|]. exact I2.
Qed.

(** two value graphs that differ (are not isomorphic) are both decoded, to graphs that differ: not isomorphic,
    a fortiori not equal; nor do they share an encoding *)
Theorem heap_distinct_proof : forall pk unp f1 f2 h1 v1 h2 v2 bs1 bs2,
    wf_heap h1 -> host_pair pk unp h1 -> host_acyclic pk h1 -> wf_val v1 ->
    wf_heap h2 -> host_pair pk unp h2 -> host_acyclic pk h2 -> wf_val v2 ->
    encode_top pk f1 h1 v1 = Ok bs1 -> encode_top pk f2 h2 v2 = Ok bs2 ->
    ~ iso h1 v1 h2 v2 ->
    (exists v1' h1' v2' h2', decode unp bs1 = Ok (v1', h1') /\ decode unp bs2 = Ok (v2', h2') /\
                             ~ iso h1' v1' h2' v2') /\
    decode unp bs1 <> decode unp bs2 /\ bs1 <> bs2.
Proof.
  intros pk unp f1 f2 h1 v1 h2 v2 bs1 bs2 W1 P1 A1 V1 W2 P2 A2 V2 E1 E2 NI.
  destruct (host_roundtrip_proof pk unp f1 h1 v1 bs1 W1 P1 A1 V1 E1) as [x1 [g1 [D1 I1]]].
  destruct (host_roundtrip_proof pk unp f2 h2 v2 bs2 W2 P2 A2 V2 E2) as [x2 [g2 [D2 I2]]].
  assert (ND : ~ iso g1 x1 g2 x2).
  { intros I. apply NI.
    eapply iso_trans_proof; [exact I1|]. eapply iso_trans_proof; [exact I|]. apply iso_sym_proof. exact I2. }
  assert (NE : decode unp bs1 <> decode unp bs2).
  { intros EQ. rewrite D1, D2 in EQ. inversion EQ; subst x2 g2. apply ND.
    apply iso_refl_proof. eapply iso_wf_right. exact I1. }
  split; [exists x1, g1, x2, g2; auto|]. split; [exact NE|].
  intros EQ. apply NE. rewrite EQ. reflexivity.
Qed.

(* ------------------------------------------------------------------------------------------------ *)
(** * A witness: a list containing itself and two lists containing each other have the same infinite
      unfolding, and are not isomorphic *)

Definition self_heap : heap := [NList [VRef 0%nat]].
Definition pair_heap : heap := [NList [VRef 1%nat]; NList [VRef 0%nat]].

Lemma self_pair_not_iso : ~ iso self_heap (VRef 0%nat) pair_heap (VRef 0%nat).
Proof.
  intros [rho [V [N1 [N2 C]]]]. inversion V as [ | | | | | | | a a' HI ]; subst.
  destruct (C _ _ HI) as [nd [nd' [H1 [H2 R]]]]. cbn in H1, H2. inversion H1; subst nd. inversion H2; subst nd'.
  inversion R as [l l' H| | | ]; subst. inversion H as [|x y r r' Hxy Hr]; subst.
  inversion Hxy as [ | | | | | | | b b' HI' ]; subst.
  pose proof (NoDup_map_fst_inj rho _ _ _ N1 HI HI') as EQ. discriminate.
Qed.
