(** The pickler dawn installs (function.go envPickler), as a host pickler of the C07 model (definitions only).

    A host object is represented in the model's heap by what its pickler takes it apart into:
    [NObj m n args] is the object for which Pickle returns (m, n, args).  Under this representation envPickler is
    the function below: it takes the objects of module "dawn" whose kind it knows -- a target function ("Target",
    (label)), a builtin ("Builtin", (name[, receiver])), a code object ("FunctionCode", (module, globals, bytecode)),
    a Starlark function ("Function", (defaults, freevars, code)), the placeholders "Unassigned" and "Mandatory", a
    range ("Range", (text)) -- and declines everything else (ErrCannotPickle: lists and dicts go to the encoder's
    own cases).  The unpickler side is [env_unpickler] (Pickle/Model.v).

    Not represented: recursionPickler's placeholder ("Recursive", (name, ordinal)) for a function met again while
    its own environment is being pickled.  It depends on the pickler's state (the [seen] map), which a function
    [node -> presult] does not have; in the model such a value is one that violates [host_acyclic].  The traversal
    with the placeholder is the subject of Fingerprint/Model.v (C08). *)
From Dawn Require Import Pickle.Model Pickle.Spec.
Open Scope N_scope.

Definition env_kinds : list bytes :=
  [s_Target; s_Builtin; s_FunctionCode; s_Function; s_Unassigned; s_Mandatory; s_Range].

Definition env_pickler : node -> presult :=
  fun nd => match nd with
            | NObj m n args => if str_eqb m s_dawn && existsb (str_eqb n) env_kinds then POk m n args else PCannot
            | _ => PCannot
            end.

(** a heap of lists, dicts and sets only: no host object *)
Definition is_builtin_node (nd : node) : Prop := match nd with NObj _ _ _ => False | _ => True end.
Definition noobj (h : heap) : Prop := Forall is_builtin_node h.

(** witnesses *)
Definition lbl : bytes := [47;47;58;120].                       (* "//:x" *)

(** a target function, and the string that is its label *)
Definition target_heap : heap := [NObj s_dawn s_Target [VStr lbl]].

(** a Starlark function [def f(a=1)] with one captured variable, and its code object *)
Definition fun_heap : heap :=
  [NObj s_dawn s_Function [VTuple [VTuple [VStr [97]; VInt 1]]; VTuple [VTuple [VStr [99]; VInt 2]]; VRef 1%nat];
   NObj s_dawn s_FunctionCode
     [VTuple [VTuple [VStr [110]]; VTuple [VInt 7]; VTuple []; VTuple []; VTuple []]; VTuple []; VBytes [1; 2; 3]]].

(** what [fun_heap] decodes to: ONE dict for the two objects *)
Definition fun_decoded : heap :=
  [NDict [(VStr k_names, VTuple [VStr [110]]); (VStr k_constants, VTuple [VInt 7]);
          (VStr k_predeclared, VRef 1%nat); (VStr k_universals, VRef 2%nat);
          (VStr k_functions, VTuple []); (VStr k_globals, VRef 3%nat); (VStr k_code, VBytes [1; 2; 3]);
          (VStr k_defaults, VRef 4%nat); (VStr k_freevars, VRef 5%nat)];
   NDict []; NDict []; NDict []; NDict [(VStr [97], VInt 1)]; NDict [(VStr [99], VInt 2)]].
