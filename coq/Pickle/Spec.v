(** Vocabulary of the C07 theorems (definitions only). *)
From Dawn Require Import Pickle.Model.
Open Scope N_scope.

(** [heap_free v]: an immutable tree: no reference to a heap object, no decoder-internal value *)
Inductive heap_free : val -> Prop :=
| hf_none : heap_free VNone
| hf_bool : forall b, heap_free (VBool b)
| hf_int : forall z, heap_free (VInt z)
| hf_float : forall bits, heap_free (VFloat bits)
| hf_str : forall s, heap_free (VStr s)
| hf_bytes : forall s, heap_free (VBytes s)
| hf_tuple : forall l, Forall heap_free l -> heap_free (VTuple l).

(** [wf_val v]: representable in Go: float bits are 64 bits, string and bytes lengths fit the 4-byte
    length field (integers are unbounded) *)
Inductive wf_val : val -> Prop :=
| wf_none : wf_val VNone
| wf_bool : forall b, wf_val (VBool b)
| wf_int : forall z, wf_val (VInt z)
| wf_float : forall bits, bits < 18446744073709551616 -> wf_val (VFloat bits)
| wf_str : forall s, len s < 4294967296 -> wf_val (VStr s)
| wf_bytes : forall s, len s < 4294967296 -> wf_val (VBytes s)
| wf_tuple : forall l, Forall wf_val l -> wf_val (VTuple l)
| wf_ref : forall a, wf_val (VRef a)
| wf_mark : wf_val VMark
| wf_global : forall i m n, wf_val (VGlobal i m n).

(** nesting depth of tuples: [S (depth v)] is enough fuel for the encoder on a tree *)
Fixpoint depth (v : val) : nat :=
  match v with
  | VTuple l => S (fold_right (fun x m => Nat.max (depth x) m) O l)
  | _ => O
  end.

(** * Graph isomorphism between a source heap and a decoded heap *)

(** a correspondence between source addresses and decoder addresses (in memoization order) *)
Definition corr := list (addr * addr).

(** [vrel rho v v']: [v'] is [v] with every source address renamed along [rho] *)
Inductive vrel (rho : corr) : val -> val -> Prop :=
| vr_none : vrel rho VNone VNone
| vr_bool : forall b, vrel rho (VBool b) (VBool b)
| vr_int : forall z, vrel rho (VInt z) (VInt z)
| vr_float : forall b, vrel rho (VFloat b) (VFloat b)
| vr_str : forall s, vrel rho (VStr s) (VStr s)
| vr_bytes : forall s, vrel rho (VBytes s) (VBytes s)
| vr_tuple : forall l l', Forall2 (vrel rho) l l' -> vrel rho (VTuple l) (VTuple l')
| vr_ref : forall a a', In (a, a') rho -> vrel rho (VRef a) (VRef a').

Definition prel (rho : corr) (p p' : val * val) : Prop := vrel rho (fst p) (fst p') /\ vrel rho (snd p) (snd p').

(** same kind of object, contents renamed, same order *)
Inductive nrel (rho : corr) : node -> node -> Prop :=
| nr_list : forall l l', Forall2 (vrel rho) l l' -> nrel rho (NList l) (NList l')
| nr_dict : forall kvs kvs', Forall2 (prel rho) kvs kvs' -> nrel rho (NDict kvs) (NDict kvs')
| nr_set : forall l l', Forall2 (vrel rho) l l' -> nrel rho (NSet l) (NSet l')
| nr_obj : forall m n args args', Forall2 (vrel rho) args args' -> nrel rho (NObj m n args) (NObj m n args').

(** the object at source address [a] and the object at decoder address [a'] correspond *)
Definition complete (rho : corr) (h dh : heap) (a a' : addr) : Prop :=
  exists nd nd', nth_error h a = Some nd /\ nth_error dh a' = Some nd' /\ nrel rho nd nd'.

(** [iso h v h' v']: the graph reachable from [v] in [h] and the graph reachable from [v'] in [h'] are
    isomorphic: a one-to-one correspondence of objects under which the roots and the contents of all
    corresponding objects agree -- identical type, structure, contents and sharing, cycles included. *)
Definition iso (h : heap) (v : val) (h' : heap) (v' : val) : Prop :=
  exists rho, vrel rho v v' /\ NoDup (map fst rho) /\ NoDup (map snd rho) /\
              forall a a', In (a, a') rho -> complete rho h h' a a'.

(** Starlark's own invariant on dict keys / set elements: hashable and pairwise distinct under == *)
Fixpoint distinct_keys (seen ks : list val) : bool :=
  match ks with
  | [] => true
  | k :: r => hashable k && negb (existsb (key_eq k) seen) && distinct_keys (seen ++ [k]) r
  end.

Definition wf_node (nd : node) : Prop :=
  match nd with
  | NList l => Forall wf_val l
  | NDict kvs => Forall wf_val (map fst kvs) /\ Forall wf_val (map snd kvs) /\ distinct_keys [] (map fst kvs) = true
  | NSet l => Forall wf_val l /\ distinct_keys [] l = true
  | NObj _ _ args => Forall wf_val args
  end.

(** a source heap that exists in Go: well-formed objects, fewer than 2^32 of them *)
Definition wf_heap (h : heap) : Prop := Forall wf_node h /\ N.of_nat (length h) <= 4294967296.

(** the host pickler declines every object of the heap (lists, dicts, sets only) *)
Definition no_host (pk : option (node -> presult)) (h : heap) : Prop :=
  forall p nd, pk = Some p -> In nd h -> p nd = PCannot.

(** * Host objects: what the encoder visits, and when it terminates *)

(** [taken pk nd]: the host pickler is asked about [nd] (sets never reach it) and takes it *)
Definition taken (pk : option (node -> presult)) (nd : node) : option (bytes * bytes * list val) :=
  match nd, pk with
  | NSet _, _ => None
  | _, None => None
  | _, Some p => match p nd with POk m n args => Some (m, n, args) | _ => None end
  end.

(** the values the encoder descends into below an object: the pickler's constructor arguments when the
    pickler takes it, its contents otherwise (nothing when encoding it is an error) *)
Definition succs (pk : option (node -> presult)) (nd : node) : list val :=
  match taken pk nd with
  | Some (_, _, args) => args
  | None => match nd with
            | NList l => l
            | NDict kvs => flat_pairs kvs
            | NSet l => l
            | NObj _ _ _ => []
            end
  end.

(** [reach_val pk h v a]: the encoder, started on [v], can arrive at the object at address [a] *)
Inductive reach_val (pk : option (node -> presult)) (h : heap) : val -> addr -> Prop :=
| rv_ref : forall a, reach_val pk h (VRef a) a
| rv_tuple : forall l x a, In x l -> reach_val pk h x a -> reach_val pk h (VTuple l) a
| rv_step : forall b nd x a, nth_error h b = Some nd -> In x (succs pk nd) -> reach_val pk h x a ->
                             reach_val pk h (VRef b) a.

(** the addresses a value mentions *)
Fixpoint refs (v : val) : list addr :=
  match v with
  | VRef a => [a]
  | VTuple l => flat_map refs l
  | _ => []
  end.

(** no object taken by the host pickler is reachable from its own constructor arguments.  (Lists, dicts
    and sets may contain themselves: they are memoized BEFORE their contents; an object taken by the pickler
    is memoized AFTER its arguments, as in pickle's NEWOBJ protocol.) *)
Definition host_acyclic (pk : option (node -> presult)) (h : heap) : Prop :=
  forall a nd m n args x, nth_error h a = Some nd -> taken pk nd = Some (m, n, args) -> In x args ->
                          ~ reach_val pk h x a.

(** the host pickler/unpickler pair is object-preserving on this heap: the pickler declines lists, dicts and
    sets, and a host object is taken apart into exactly its module, name and arguments, which the unpickler
    [obj_unpickler] puts together again (module and name fit the 4-byte length field) *)
Definition host_pair (pk : option (node -> presult)) (unp : option unpickle_fn) (h : heap) : Prop :=
  forall p nd, pk = Some p -> In nd h ->
               match nd with
               | NObj m n args => p nd = PCannot \/
                                  (p nd = POk m n args /\ unp = Some obj_unpickler /\
                                   len m < 4294967296 /\ len n < 4294967296)
               | NSet _ => True     (* sets are never offered to the pickler *)
               | _ => p nd = PCannot
               end.

(** fuel the encoder needs: every object is entered at most once, and below an object the tuple nesting is
    bounded by the deepest value stored in the heap (or returned by the pickler) *)
Definition node_depth (pk : option (node -> presult)) (nd : node) : nat := depth (VTuple (succs pk nd)).
Definition heap_depth (pk : option (node -> presult)) (h : heap) : nat :=
  fold_right (fun nd m => Nat.max (node_depth pk nd) m) O h.
Definition enc_fuel (pk : option (node -> presult)) (h : heap) (v : val) : nat :=
  S (depth v) + length h * S (S (heap_depth pk h)).

(** * Encodable graphs *)

(** [val_ok h v]: a Starlark value over the heap [h]: no dangling reference, no decoder-internal value *)
Inductive val_ok (h : heap) : val -> Prop :=
| vo_none : val_ok h VNone
| vo_bool : forall b, val_ok h (VBool b)
| vo_int : forall z, val_ok h (VInt z)
| vo_float : forall bits, val_ok h (VFloat bits)
| vo_str : forall s, val_ok h (VStr s)
| vo_bytes : forall s, val_ok h (VBytes s)
| vo_tuple : forall l, Forall (val_ok h) l -> val_ok h (VTuple l)
| vo_ref : forall a, (a < length h)%nat -> val_ok h (VRef a).

(** the encoder has a case for the object: the pickler takes every host object and fails on none *)
Definition node_ok (pk : option (node -> presult)) (nd : node) : Prop :=
  match nd with
  | NSet _ => True
  | NObj _ _ _ => taken pk nd <> None
  | _ => match pk with Some p => p nd <> PFail | None => True end
  end.

Definition heap_ok (pk : option (node -> presult)) (h : heap) : Prop :=
  forall nd, In nd h -> node_ok pk nd /\ Forall (val_ok h) (succs pk nd).
