(** C07 for immutable values: tree_roundtrip. *)
From Dawn Require Import Pickle.Model Pickle.Spec Pickle.Proofs_C15 Pickle.Proofs_Base.
From Coq Require Import Lia.
Open Scope N_scope.

Definition pushes (l : list val) (dst : dstate) : dstate := set_stack dst (rev l ++ d_stack dst).

Lemma pushes_nil : forall dst, pushes [] dst = set_stack dst (d_stack dst).
Proof. reflexivity. Qed.

Lemma pushes_cons : forall x r dst, pushes (x :: r) dst = pushes r (push x dst).
Proof. intros. unfold pushes, push, set_stack. cbn. rewrite <- app_assoc. reflexivity. Qed.

Lemma set_stack_id : forall dst, set_stack dst (d_stack dst) = dst.
Proof. intros []. reflexivity. Qed.

Lemma split_mark_rev : forall l s acc,
    Forall (fun x => x <> VMark) l -> split_mark (rev l ++ VMark :: s) acc = Some (l ++ acc, s).
Proof.
  intros l. induction l as [|x l IH] using rev_ind; intros s acc F.
  - reflexivity.
  - rewrite rev_app_distr. cbn [rev app]. apply Forall_app in F. destruct F as [Fl Fx].
    inversion Fx; subst. destruct x; try congruence; cbn [split_mark]; rewrite IH by assumption;
      rewrite <- app_assoc; reflexivity.
Qed.

Lemma heap_free_not_mark : forall l, Forall heap_free l -> Forall (fun x => x <> VMark) l.
Proof. intros l F. induction F; constructor; auto. intros ->. inversion H. Qed.

Definition tree_ok (enc : enc_fn) (v : val) : Prop :=
  forall st b st', enc st v = Ok (b, st') ->
    st' = st /\ forall unp lim k dst, reach unp lim (b ++ k) dst k (push v dst).

Lemma enc_seq_tree : forall (enc : enc_fn) l st b st',
    Forall (tree_ok enc) l ->
    enc_seq enc l st = Ok (b, st') ->
    st' = st /\ forall unp lim k dst, reach unp lim (b ++ k) dst k (pushes l dst).
Proof.
  intros enc l. induction l as [|x r IH]; intros st b st' F E; cbn [enc_seq] in E.
  - inversion E; subst. split; [reflexivity|]. intros. rewrite pushes_nil, set_stack_id. apply reach_refl.
  - inversion F as [|? ? Fx Fr]; subst.
    destruct (enc st x) as [[b1 st1]| | | |] eqn:E1; try discriminate. cbn [bind] in E.
    destruct (enc_seq enc r st1) as [[b2 st2]| | | |] eqn:E2; try discriminate. cbn [bind] in E.
    inversion E; subst.
    destruct (Fx _ _ _ E1) as [-> R1]. destruct (IH _ _ _ Fr E2) as [-> R2].
    split; [reflexivity|]. intros. rewrite <- app_assoc. rewrite pushes_cons.
    eapply reach_trans; [apply R1 | apply R2].
Qed.

Lemma encode_tree : forall pk f h v, heap_free v -> wf_val v -> tree_ok (encode pk f h) v.
Proof.
  intros pk f h. induction f as [|f IH]; intros v HF WF st b st' E; [discriminate|].
  destruct v; cbn [encode] in E; try (inversion HF; fail).
  - inversion E; subst. split; [reflexivity|]. intros. apply reach_one. apply step_NONE.
  - destruct b0; inversion E; subst; (split; [reflexivity|]); intros; apply reach_one;
      [apply step_TRUE | apply step_FALSE].
  - inversion E; subst. split; [reflexivity|]. intros. apply reach_int.
  - inversion E; subst. inversion WF; subst. split; [reflexivity|]. intros. apply reach_float. assumption.
  - inversion E; subst. inversion WF; subst. split; [reflexivity|]. intros. apply reach_str. assumption.
  - inversion E; subst. inversion WF; subst. split; [reflexivity|]. intros. apply reach_bytes. assumption.
  - (* tuples *)
    inversion HF as [| | | | | |? HFl]; subst. inversion WF as [| | | | | |? WFl| | |]; subst.
    assert (OK : Forall (tree_ok (encode pk f h)) l).
    { clear E HF WF. induction l as [|x r IHl]; constructor.
      - inversion HFl; inversion WFl; subst. apply IH; assumption.
      - inversion HFl; inversion WFl; subst. apply IHl; assumption. }
    pose proof (heap_free_not_mark _ HFl) as NM.
    destruct l as [|a [|b1 [|c [|d rest]]]].
    + inversion E; subst. split; [reflexivity|]. intros. apply reach_one. apply step_EMPTY_TUPLE.
    + destruct (enc_seq (encode pk f h) [a] st) as [[bb st1]| | | |] eqn:ES; try discriminate.
      cbn [bind] in E. inversion E; subst. destruct (enc_seq_tree _ _ _ _ _ OK ES) as [-> R].
      split; [reflexivity|]. intros. rewrite <- app_assoc. eapply reach_trans; [apply R|].
      apply reach_one. cbn [app]. erewrite step_TUPLE1 by reflexivity. reflexivity.
    + destruct (enc_seq (encode pk f h) [a; b1] st) as [[bb st1]| | | |] eqn:ES; try discriminate.
      cbn [bind] in E. inversion E; subst. destruct (enc_seq_tree _ _ _ _ _ OK ES) as [-> R].
      split; [reflexivity|]. intros. rewrite <- app_assoc. eapply reach_trans; [apply R|].
      apply reach_one. cbn [app]. erewrite step_TUPLE2 by reflexivity. reflexivity.
    + destruct (enc_seq (encode pk f h) [a; b1; c] st) as [[bb st1]| | | |] eqn:ES; try discriminate.
      cbn [bind] in E. inversion E; subst. destruct (enc_seq_tree _ _ _ _ _ OK ES) as [-> R].
      split; [reflexivity|]. intros. rewrite <- app_assoc. eapply reach_trans; [apply R|].
      apply reach_one. cbn [app]. erewrite step_TUPLE3 by reflexivity. reflexivity.
    + remember (a :: b1 :: c :: d :: rest) as l.
      destruct (enc_seq (encode pk f h) l st) as [[bb st1]| | | |] eqn:ES; try discriminate.
      cbn [bind] in E. inversion E. subst b st'. clear E. destruct (enc_seq_tree _ _ _ _ _ OK ES) as [-> R].
      split; [reflexivity|]. intros. cbn [app]. rewrite <- app_assoc.
      eapply reach_step; [apply step_MARK|]. eapply reach_trans; [apply R|].
      apply reach_one. cbn [app].
      erewrite step_TUPLE.
      2:{ unfold pushes, push, set_stack. cbn [d_stack]. apply split_mark_rev. exact NM. }
      rewrite app_nil_r. reflexivity.
Qed.

Theorem tree_roundtrip_proof : forall pk unp fuel h v bs,
    heap_free v -> wf_val v -> encode_top pk fuel h v = Ok bs -> decode unp bs = Ok (v, []).
Proof.
  intros pk unp fuel h v bs HF WF E. unfold encode_top in E.
  destruct (encode pk fuel h estate0 v) as [[b st1]| | | |] eqn:E1; try discriminate.
  cbn [bind] in E. inversion E; subst bs. clear E.
  destruct (encode_tree pk fuel h v HF WF _ _ _ E1) as [_ R].
  unfold decode. change (run unp (len (b ++ [opSTOP])) (S (length (b ++ [opSTOP]))) (b ++ [opSTOP]) dstate0)
    with (Run unp (len (b ++ [opSTOP])) (b ++ [opSTOP]) dstate0).
  rewrite (reach_Run _ _ _ _ _ _ (R unp (len (b ++ [opSTOP])) [opSTOP] dstate0)).
  erewrite Run_done by (apply step_STOP; reflexivity). reflexivity.
Qed.

(** * Corollaries *)

Theorem int_roundtrip_proof : forall unp z, decode unp (enc_int z ++ [opSTOP]) = Ok (VInt z, []).
Proof.
  intros unp z. unfold decode.
  change (run unp (len (enc_int z ++ [opSTOP])) (S (length (enc_int z ++ [opSTOP]))) (enc_int z ++ [opSTOP]) dstate0)
    with (Run unp (len (enc_int z ++ [opSTOP])) (enc_int z ++ [opSTOP]) dstate0).
  rewrite (reach_Run _ _ _ _ _ _ (reach_int unp _ z [opSTOP] dstate0)).
  erewrite Run_done by (apply step_STOP; reflexivity). reflexivity.
Qed.

Theorem string_roundtrip_proof : forall unp s, len s < 4294967296 ->
    decode unp (enc_string opSHORT_BINUNICODE opBINUNICODE s ++ [opSTOP]) = Ok (VStr s, []) /\
    decode unp (enc_string opSHORT_BINBYTES opBINBYTES s ++ [opSTOP]) = Ok (VBytes s, []).
Proof.
  intros unp s W. split; unfold decode.
  - set (bs := enc_string opSHORT_BINUNICODE opBINUNICODE s ++ [opSTOP]).
    change (run unp (len bs) (S (length bs)) bs dstate0) with (Run unp (len bs) bs dstate0).
    rewrite (reach_Run _ _ _ _ _ _ (reach_str unp _ s [opSTOP] dstate0 W)).
    erewrite Run_done by (apply step_STOP; reflexivity). reflexivity.
  - set (bs := enc_string opSHORT_BINBYTES opBINBYTES s ++ [opSTOP]).
    change (run unp (len bs) (S (length bs)) bs dstate0) with (Run unp (len bs) bs dstate0).
    rewrite (reach_Run _ _ _ _ _ _ (reach_bytes unp _ s [opSTOP] dstate0 W)).
    erewrite Run_done by (apply step_STOP; reflexivity). reflexivity.
Qed.

Theorem float_roundtrip_proof : forall unp bits, bits < 18446744073709551616 ->
    decode unp (enc_float bits ++ [opSTOP]) = Ok (VFloat bits, []).
Proof.
  intros unp bits W. unfold decode. set (bs := enc_float bits ++ [opSTOP]).
  change (run unp (len bs) (S (length bs)) bs dstate0) with (Run unp (len bs) bs dstate0).
  rewrite (reach_Run _ _ _ _ _ _ (reach_float unp _ bits [opSTOP] dstate0 W)).
  erewrite Run_done by (apply step_STOP; reflexivity). reflexivity.
Qed.

(** different trees never decode equal (and therefore never have the same encoding) *)
Theorem tree_distinct_proof : forall pk unp f1 f2 h1 h2 v1 v2 bs1 bs2,
    heap_free v1 -> wf_val v1 -> heap_free v2 -> wf_val v2 ->
    encode_top pk f1 h1 v1 = Ok bs1 -> encode_top pk f2 h2 v2 = Ok bs2 ->
    v1 <> v2 -> decode unp bs1 <> decode unp bs2 /\ bs1 <> bs2.
Proof.
  intros pk unp f1 f2 h1 h2 v1 v2 bs1 bs2 H1 W1 H2 W2 E1 E2 NE.
  pose proof (tree_roundtrip_proof pk unp f1 h1 v1 bs1 H1 W1 E1) as D1.
  pose proof (tree_roundtrip_proof pk unp f2 h2 v2 bs2 H2 W2 E2) as D2.
  assert (decode unp bs1 <> decode unp bs2) by (rewrite D1, D2; congruence).
  split; [assumption|]. intros ->. contradiction.
Qed.

(** the encoder accepts every tree, with fuel [S (depth v)] *)
Lemma enc_seq_all_ok : forall (enc : enc_fn) l st,
    Forall (fun x => exists b, forall st, enc st x = Ok (b, st)) l -> exists b, enc_seq enc l st = Ok (b, st).
Proof.
  intros enc l st F. induction F as [|x r [bx Hx] _ IH]; cbn [enc_seq].
  - eexists; reflexivity.
  - destruct IH as [br Hr]. rewrite Hx. cbn [bind]. rewrite Hr. cbn [bind]. eexists; reflexivity.
Qed.

Lemma fold_max_le : forall l x, In x l -> (depth x <= fold_right (fun x m => Nat.max (depth x) m) O l)%nat.
Proof.
  induction l as [|y r IH]; intros x HI; [contradiction|]. cbn [fold_right].
  destruct HI as [->|HI]; [lia|]. specialize (IH _ HI). lia.
Qed.

Section TreeTotal.
  Variable pk : option (node -> presult).
  Variable h : heap.

  Lemma tree_total : forall v, heap_free v -> forall f, (depth v < f)%nat -> exists b, forall st, encode pk f h st v = Ok (b, st).
  Proof.
    induction v as [| | | | | |l IHl| | |] using val_ind'; intros HF f L; (destruct f as [|f]; [lia|]);
      try (inversion HF; fail); try (eexists; intros; reflexivity).
    - destruct b; eexists; intros; reflexivity.
    - (* tuple *)
      assert (OK : Forall (fun x => exists b, forall st, encode pk f h st x = Ok (b, st)) l).
      { inversion HF as [| | | | | |? HFl]; subst. cbn [depth] in L.
        assert (B : forall x, In x l -> (depth x < f)%nat).
        { intros x HI. pose proof (fold_max_le l x HI). lia. }
        clear L HF. induction l as [|x r IHr]; constructor.
        - inversion HFl; inversion IHl; subst. auto using in_eq.
        - inversion HFl; inversion IHl; subst. apply IHr; auto using in_cons. }
      assert (SQ' : exists b, forall st, enc_seq (encode pk f h) l st = Ok (b, st)).
      { clear HF L IHl. induction OK as [|x r [bx Hx] _ IHOK]; cbn [enc_seq].
        - eexists; reflexivity.
        - destruct IHOK as [br Hr]. exists (bx ++ br). intros st. rewrite Hx. cbn [bind]. rewrite Hr. reflexivity. }
      destruct SQ' as [bl Hl]. cbn [encode].
      destruct l as [|a [|b1 [|c [|d rest]]]].
      + eexists; intros; reflexivity.
      + eexists. intros st. rewrite Hl. reflexivity.
      + eexists. intros st. rewrite Hl. reflexivity.
      + eexists. intros st. rewrite Hl. reflexivity.
      + eexists. intros st. rewrite Hl. reflexivity.
  Qed.
End TreeTotal.

Theorem tree_encodable_proof : forall pk h v, heap_free v -> exists bs, encode_top pk (S (depth v)) h v = Ok bs.
Proof.
  intros pk h v HF. destruct (tree_total pk h v HF (S (depth v)) ltac:(lia)) as [b Hb].
  unfold encode_top. rewrite Hb. eexists; reflexivity.
Qed.

(** * A host object whose constructor arguments are trees *)

Theorem obj_roundtrip_proof : forall fuel h a m n args bs,
    nth_error h a = Some (NObj m n args) ->
    Forall heap_free args -> Forall wf_val args -> len m < 4294967296 -> len n < 4294967296 ->
    encode_top (Some obj_pickler) fuel h (VRef a) = Ok bs ->
    decode (Some obj_unpickler) bs = Ok (VRef 0%nat, [NObj m n args]).
Proof.
  intros fuel h a m n args bs HA HF WF Lm Ln E. unfold encode_top in E.
  destruct fuel as [|f]; [discriminate|]. cbn [encode estate0 e_memo memo_find] in E. rewrite HA in E.
  cbn [obj_pickler] in E.
  destruct (encode (Some obj_pickler) f h estate0 (VTuple args)) as [[b st1]| | | |] eqn:EA; try discriminate.
  cbn [bind] in E. inversion E; subst bs. clear E.
  destruct (encode_tree _ f h (VTuple args) (hf_tuple _ HF) (wf_tuple _ WF) _ _ _ EA) as [_ R].
  unfold decode.
  set (bs := (enc_string opSHORT_BINUNICODE opBINUNICODE m ++ enc_string opSHORT_BINUNICODE opBINUNICODE n ++
              opSTACK_GLOBAL :: b ++ [opNEWOBJ; opMEMOIZE]) ++ [opSTOP]).
  change (run (Some obj_unpickler) (len bs) (S (length bs)) bs dstate0) with (Run (Some obj_unpickler) (len bs) bs dstate0).
  set (u := Some obj_unpickler). set (lim := len bs).
  assert (RR : reach u lim bs dstate0 [opSTOP]
                 (mkD [VRef 0%nat] [VRef 0%nat] [NObj m n args] 1)).
  { subst bs. repeat rewrite <- app_assoc.
    eapply reach_trans; [apply reach_str; exact Lm|].
    eapply reach_trans; [apply reach_str; exact Ln|].
    cbn [app]. eapply reach_step; [reflexivity|]. cbn [push set_stack d_stack dstate0 d_memo d_heap d_nglob].
    rewrite <- app_assoc. eapply reach_trans; [apply R|].
    cbn [app]. eapply reach_step; [reflexivity|]. eapply reach_step; [reflexivity|]. apply reach_refl. }
  rewrite (reach_Run _ _ _ _ _ _ RR). erewrite Run_done by (apply step_STOP; reflexivity). reflexivity.
Qed.
