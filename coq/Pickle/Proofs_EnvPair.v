(** C07 and dawn's own pickler/unpickler pair (function.go envPickler / envUnpickler). *)
From Dawn Require Import Pickle.Model Pickle.Spec Pickle.Proofs_C15 Pickle.Proofs_Base Pickle.Proofs_Term Pickle.Proofs_Heap.
From Dawn Require Import Pickle.Spec_Graph Pickle.Proofs_IsoEq Pickle.EnvPair.
From Coq Require Import Lia.
Open Scope N_scope.

(* ------------------------------------------------------------------------------------------------ *)
(** * What envPickler takes *)

Lemma env_kinds_short : Forall (fun k => len k < 4294967296) env_kinds.
Proof. repeat constructor. Qed.

Lemma env_pickler_taken : forall m n,
    (str_eqb m s_dawn && existsb (str_eqb n) env_kinds)%bool = true ->
    len m < 4294967296 /\ len n < 4294967296.
Proof.
  intros m n H. apply andb_prop in H. destruct H as [Hm Hn].
  destruct (str_eqb_spec m s_dawn) as [->|]; [|discriminate]. split; [reflexivity|].
  apply existsb_exists in Hn. destruct Hn as [k [HI Hk]].
  destruct (str_eqb_spec n k) as [->|]; [|discriminate].
  pose proof env_kinds_short as F. rewrite Forall_forall in F. apply F. exact HI.
Qed.

(** with the object-preserving unpickler of the harness, envPickler is an object-preserving pair on EVERY heap *)
Lemma env_obj_host_pair : forall h, host_pair (Some env_pickler) (Some obj_unpickler) h.
Proof.
  intros h p nd E HI. inversion E; subst p. destruct nd as [l|kvs|l|m n args]; try reflexivity; try exact I.
  cbn [env_pickler].
  destruct (str_eqb m s_dawn && existsb (str_eqb n) env_kinds)%bool eqn:C; [right|left; reflexivity].
  destruct (env_pickler_taken m n C) as [Lm Ln]. repeat split; assumption.
Qed.

(** the stamp (the encoding under envPickler) determines the value graph up to isomorphism: two graphs that differ
    never have the same stamp.  This is the form of the "consequently" clause dawn relies on: function.go compares
    stamps, not decoded environments. *)
Theorem env_stamp_injective_proof : forall f1 f2 h1 v1 h2 v2 bs,
    wf_heap h1 -> host_acyclic (Some env_pickler) h1 -> wf_val v1 ->
    wf_heap h2 -> host_acyclic (Some env_pickler) h2 -> wf_val v2 ->
    encode_top (Some env_pickler) f1 h1 v1 = Ok bs -> encode_top (Some env_pickler) f2 h2 v2 = Ok bs ->
    iso h1 v1 h2 v2.
Proof.
  intros f1 f2 h1 v1 h2 v2 bs W1 A1 V1 W2 A2 V2 E1 E2.
  destruct (same_encoding_iso_proof (Some env_pickler) (Some obj_unpickler) f1 f2 h1 v1 h2 v2 bs
              W1 (env_obj_host_pair h1) A1 V1 W2 (env_obj_host_pair h2) A2 V2 E1 E2) as [v' [h' [_ [I1 I2]]]].
  eapply iso_trans_proof; [exact I1|]. apply iso_sym_proof. exact I2.
Qed.

(* ------------------------------------------------------------------------------------------------ *)
(** * envPickler / envUnpickler is not an object-preserving pair *)

Lemma env_unpickler_not_obj : Some env_unpickler <> Some obj_unpickler.
Proof.
  intros E. inversion E as [F].
  pose proof (f_equal (fun u : unpickle_fn => u [] [] [] []) F) as C. vm_compute in C. discriminate.
Qed.

(** the pair qualifies exactly on the heaps in which envPickler takes no object at all *)
Theorem env_pair_host_pair_iff_proof : forall h,
    host_pair (Some env_pickler) (Some env_unpickler) h <-> no_host (Some env_pickler) h.
Proof.
  intros h. split; [|apply no_host_pair].
  intros HP p nd E HI. pose proof (HP p nd E HI) as H. inversion E; subst p.
  destruct nd as [l|kvs|l|m n args]; try exact H; try reflexivity.
  destruct H as [H|[_ [U _]]]; [exact H|]. exfalso. exact (env_unpickler_not_obj U).
Qed.

(* ------------------------------------------------------------------------------------------------ *)
(** * Witnesses *)

Lemma nth0_inv : forall (nd : node) a nd', nth_error [nd] a = Some nd' -> a = 0%nat /\ nd' = nd.
Proof. intros nd [|[|a]] nd' H; cbn in H; inversion H; auto. Qed.

Lemma target_acyclic : host_acyclic (Some env_pickler) target_heap.
Proof.
  intros a nd m n args x HA TK HI R. apply nth0_inv in HA. destruct HA as [-> ->].
  vm_compute in TK. inversion TK; subst. destruct HI as [<-|[]]. inversion R.
Qed.

Lemma target_not_iso : ~ iso target_heap (VRef 0%nat) [] (VStr lbl).
Proof. intros [rho [V _]]. inversion V. Qed.

(** a target function decodes to the string that is its label: not an object at all *)
Theorem env_target_roundtrip_refuted_proof :
    wf_heap target_heap /\ host_acyclic (Some env_pickler) target_heap /\ heap_ok (Some env_pickler) target_heap /\
    exists bs, encode_top (Some env_pickler) (enc_fuel (Some env_pickler) target_heap (VRef 0%nat)) target_heap (VRef 0%nat) = Ok bs /\
               decode (Some env_unpickler) bs = Ok (VStr lbl, []) /\
               ~ iso target_heap (VRef 0%nat) [] (VStr lbl).
Proof.
  split; [split; [repeat constructor|vm_compute; discriminate]|].
  split; [exact target_acyclic|].
  split.
  { intros nd HI. destruct HI as [<-|[]]. split; [vm_compute; discriminate|]. vm_compute. repeat constructor. }
  eexists. split; [vm_compute; reflexivity|]. split; [vm_compute; reflexivity|exact target_not_iso].
Qed.

(** ... so under dawn's pair two values that differ -- the target function and the string -- decode to EQUAL
    values, from different encodings *)
Theorem env_distinct_refuted_proof :
    exists bs1 bs2,
      encode_top (Some env_pickler) 10 target_heap (VRef 0%nat) = Ok bs1 /\
      encode_top (Some env_pickler) 10 [] (VStr lbl) = Ok bs2 /\
      ~ iso target_heap (VRef 0%nat) [] (VStr lbl) /\ bs1 <> bs2 /\
      decode (Some env_unpickler) bs1 = decode (Some env_unpickler) bs2.
Proof.
  eexists. eexists. split; [vm_compute; reflexivity|]. split; [vm_compute; reflexivity|].
  split; [exact target_not_iso|]. split; [discriminate|]. vm_compute. reflexivity.
Qed.

Lemma fun_acyclic : host_acyclic (Some env_pickler) fun_heap.
Proof.
  intros a nd m n args x HA TK HI R.
  destruct a as [|[|a]]; cbn in HA; [| |destruct a; discriminate]; inversion HA; subst nd; vm_compute in TK;
    inversion TK; subst.
  - (* the function: its arguments reach the code object only *)
    assert (CL : forall b nd0, Nat.eqb b 1 = true -> nth_error fun_heap b = Some nd0 ->
                   forallb (fun y => forallb (fun c => Nat.eqb c 1) (refs y)) (succs (Some env_pickler) nd0) = true).
    { intros b nd0 Sb HB. apply Nat.eqb_eq in Sb. subst b. cbn in HB. inversion HB; subst. reflexivity. }
    pose proof (reach_closed _ _ _ CL x 0%nat R) as RC.
    destruct HI as [<-|[<-|[<-|[]]]]; specialize (RC eq_refl); discriminate.
  - (* the code object: its arguments mention no object *)
    assert (CL : forall b nd0, (fun _ : nat => false) b = true -> nth_error fun_heap b = Some nd0 ->
                   forallb (fun y => forallb (fun _ : nat => false) (refs y)) (succs (Some env_pickler) nd0) = true).
    { intros b nd0 Sb. discriminate. }
    pose proof (reach_closed _ _ _ CL x 1%nat R) as RC.
    destruct HI as [<-|[<-|[<-|[]]]]; specialize (RC eq_refl); discriminate.
Qed.

(** a Starlark function and its code object -- two objects -- decode to ONE dict (plus the dicts made from the
    association lists): another kind of object, another number of objects *)
Theorem env_function_roundtrip_refuted_proof :
    wf_heap fun_heap /\ host_acyclic (Some env_pickler) fun_heap /\ heap_ok (Some env_pickler) fun_heap /\
    exists bs, encode_top (Some env_pickler) (enc_fuel (Some env_pickler) fun_heap (VRef 0%nat)) fun_heap (VRef 0%nat) = Ok bs /\
               decode (Some env_unpickler) bs = Ok (VRef 0%nat, fun_decoded) /\
               ~ iso fun_heap (VRef 0%nat) fun_decoded (VRef 0%nat).
Proof.
  split; [split; [repeat constructor|vm_compute; discriminate]|].
  split; [exact fun_acyclic|].
  split.
  { intros nd HI. destruct HI as [<-|[<-|[]]]; (split; [vm_compute; discriminate|]); vm_compute; repeat constructor. }
  eexists. split; [vm_compute; reflexivity|]. split; [vm_compute; reflexivity|].
  intros [rho [V [_ [_ C]]]]. inversion V as [ | | | | | | | a a' HI ]; subst.
  destruct (C _ _ HI) as [nd [nd' [H1 [H2 R]]]]. cbn in H1, H2. inversion H1; subst nd. inversion H2; subst nd'.
  inversion R.
Qed.

(* ------------------------------------------------------------------------------------------------ *)
(** * In general: envUnpickler never builds a host object *)

Lemma noobj_app : forall h nd, noobj h -> is_builtin_node nd -> noobj (h ++ [nd]).
Proof. intros h nd H B. apply Forall_app. split; [exact H|constructor; [exact B|constructor]]. Qed.

Lemma noobj_upd : forall h a nd, noobj h -> is_builtin_node nd -> noobj (heap_upd h a nd).
Proof.
  induction h as [|x r IH]; intros a nd H B; [destruct a; constructor|].
  inversion H; subst. destruct a as [|a]; cbn [heap_upd]; constructor; auto. apply IH; assumption.
Qed.

Lemma make_dict_noobj : forall al h v h', noobj h -> make_dict al h = Some (v, h') -> noobj h'.
Proof.
  intros al h v h' N H. unfold make_dict in H.
  destruct al; try (inversion H; subst; exact N).
  destruct (assoc_pairs l []); inversion H; subst. apply noobj_app; [exact N|exact I].
Qed.

Lemma env_unpickle_noobj : forall m n args h v h', noobj h -> env_unpickle m n args h = EOk v h' -> noobj h'.
Proof.
  intros m n args h v h' N H. unfold env_unpickle in H.
  break_match H; inversion H; subst; try exact N.
  - (* FunctionCode *)
    apply noobj_upd; [|exact I].
    repeat match goal with
           | E : make_dict _ _ = Some _ |- _ => apply make_dict_noobj in E; [|clear E]
           end; try assumption.
    all: try (apply noobj_app; [exact N|exact I]).
  - (* Function *)
    apply noobj_upd; [|exact I].
    match goal with E : make_dict _ (heap_upd _ _ _) = Some _ |- _ => apply make_dict_noobj in E; [exact E|] end.
    apply noobj_upd; [|exact I].
    match goal with E : make_dict _ h = Some _ |- _ => apply make_dict_noobj in E; [exact E|exact N] end.
Qed.

Lemma env_unpickler_noobj : forall m n args h v h', noobj h -> env_unpickler m n args h = Some (v, h') -> noobj h'.
Proof.
  intros m n args h v h' N H. unfold env_unpickler in H.
  destruct (env_unpickle m n args h) eqn:E; inversion H; subst. eapply env_unpickle_noobj; eassumption.
Qed.

Section NoObj.
  Variable unp : option unpickle_fn.
  Variable lim : N.
  Hypothesis unp_noobj : forall u, unp = Some u ->
      forall m n args h v h', noobj h -> u m n args h = Some (v, h') -> noobj h'.

  Lemma step_noobj : forall bs st,
      noobj (d_heap st) ->
      match step unp lim bs st with
      | SNext _ st' => noobj (d_heap st')
      | SDone _ st' => noobj (d_heap st')
      | _ => True
      end.
  Proof.
    intros bs st N. destruct (step unp lim bs st) as [r st'|v st'| |] eqn:H; try exact I.
    - unfold step, read_string, with_mark_below in H.
      destruct bs as [|op r0]; [discriminate|].
      destruct (classify op); break_match H; inversion H; subst; cbn [d_heap push set_stack];
        first [exact N
              |apply noobj_app; [exact N|exact I]
              |apply noobj_upd; [exact N|exact I]
              |eapply (unp_noobj _ eq_refl); [exact N|eassumption]].
    - unfold step, read_string, with_mark_below in H.
      destruct bs as [|op r0]; [discriminate|].
      destruct (classify op); break_match H; inversion H; subst; cbn [d_heap push set_stack]; exact N.
  Qed.

  Lemma run_noobj : forall f bs st v st',
      noobj (d_heap st) -> run unp lim f bs st = Ok (v, st') -> noobj (d_heap st').
  Proof.
    induction f as [|f IH]; intros bs st v st' N H; [discriminate|].
    cbn [run] in H. pose proof (step_noobj bs st N) as S.
    destruct (step unp lim bs st) as [r st1|v1 st1| |]; try discriminate.
    - eapply IH; eassumption.
    - inversion H; subst. exact S.
  Qed.
End NoObj.

(** whatever bytes are decoded with envUnpickler, the resulting heap holds lists, dicts and sets only *)
Theorem env_decode_no_host_object_proof : forall bs v h,
    decode (Some env_unpickler) bs = Ok (v, h) -> noobj h.
Proof.
  intros bs v h H. unfold decode in H.
  destruct (run (Some env_unpickler) (len bs) (S (length bs)) bs dstate0) as [[v0 st]| | | |] eqn:R; try discriminate.
  cbn [bind] in H. inversion H; subst.
  assert (UN : forall u, Some env_unpickler = Some u ->
                 forall m n args h0 v1 h1, noobj h0 -> u m n args h0 = Some (v1, h1) -> noobj h1).
  { intros u E m n args h0 v1 h1 N U. inversion E; subst u. eapply env_unpickler_noobj; eassumption. }
  apply (run_noobj (Some env_unpickler) (len bs) UN (S (length bs)) bs dstate0 v st); [constructor|exact R].
Qed.

(** every object the encoder can arrive at is in the domain of an isomorphism *)
Lemma Forall2_in_left : forall {A B} (R : A -> B -> Prop) l l' x,
    Forall2 R l l' -> In x l -> exists y, In y l' /\ R x y.
Proof.
  intros A B R l l' x H. induction H as [|a b r r' Hab Hr IH]; intros HI; [contradiction|].
  destruct HI as [<-|HI]; [exists b; split; [left; reflexivity|exact Hab]|].
  destruct (IH HI) as [y [Hy Rxy]]. exists y. split; [right; exact Hy|exact Rxy].
Qed.

Lemma nrel_node_vals : forall rho nd nd', nrel rho nd nd' -> Forall2 (vrel rho) (node_vals nd) (node_vals nd').
Proof.
  intros rho nd nd' R. inversion R as [l l' H|kvs kvs' H|l l' H|m n l l' H]; subst; cbn [node_vals]; try exact H.
  clear R. induction H as [|p p' r r' Hp Hr IH]; [constructor|].
  destruct Hp as [A B]. cbn. constructor; [exact A|]. constructor; [exact B|exact IH].
Qed.

Lemma iso_reach_in_dom : forall pk h h' rho,
    (forall nd, In nd h -> incl (succs pk nd) (node_vals nd)) ->
    (forall a a', In (a, a') rho -> complete rho h h' a a') ->
    forall v a, reach_val pk h v a -> forall v', vrel rho v v' -> exists a', In (a, a') rho.
Proof.
  intros pk h h' rho SV C v a R. induction R as [a|l x a HI R IH|b nd x a HB HI R IH]; intros v' V.
  - inversion V as [ | | | | | | | a0 a0' HIn ]; subst. exists a0'. exact HIn.
  - inversion V as [ | | | | | | l0 l0' HF | ]; subst.
    destruct (Forall2_in_left _ _ _ _ HF HI) as [x' [_ Vx]]. eapply IH. exact Vx.
  - inversion V as [ | | | | | | | b0 b0' HIn ]; subst.
    destruct (C _ _ HIn) as [nd0 [nd' [H1 [H2 NR]]]]. rewrite HB in H1. inversion H1; subst nd0.
    apply nrel_node_vals in NR.
    assert (HI' : In x (node_vals nd)) by (apply (SV nd (nth_error_In _ _ HB)); exact HI).
    destruct (Forall2_in_left _ _ _ _ NR HI') as [x' [_ Vx]]. eapply IH. exact Vx.
Qed.

Lemma env_succs_incl : forall nd, incl (succs (Some env_pickler) nd) (node_vals nd).
Proof.
  intros nd. unfold succs, taken. destruct nd as [l|kvs|l|m n args]; cbn [env_pickler node_vals]; try apply incl_refl.
  destruct (str_eqb m s_dawn && existsb (str_eqb n) env_kinds)%bool; [apply incl_refl|intros x []].
Qed.

(** No value graph in which the encoder (with envPickler) arrives at a host object is isomorphic to ANYTHING the
    decoder returns with envUnpickler -- for any input bytes, in particular for the graph's own encoding. *)
Theorem env_roundtrip_never_iso_proof : forall h v a m n args bs v' h',
    reach_val (Some env_pickler) h v a -> nth_error h a = Some (NObj m n args) ->
    decode (Some env_unpickler) bs = Ok (v', h') ->
    ~ iso h v h' v'.
Proof.
  intros h v a m n args bs v' h' R HA D [rho [V [_ [_ C]]]].
  destruct (iso_reach_in_dom (Some env_pickler) h h' rho (fun nd _ => env_succs_incl nd) C v a R v' V) as [a' HI].
  destruct (C _ _ HI) as [nd [nd' [H1 [H2 NR]]]]. rewrite HA in H1. inversion H1; subst nd.
  pose proof (env_decode_no_host_object_proof bs v' h' D) as N. unfold noobj in N. rewrite Forall_forall in N.
  specialize (N nd' (nth_error_In _ _ H2)). inversion NR; subst. exact N.
Qed.
