(** Case evaluation for the C19 correspondence check. *)
From Dawn Require Import Config.Model Config.File Config.Session.

Inductive case :=
| CWrite (c : config) (bytes : str)              (* WriteConfigFile's output *)
| CLoad (bytes : str) (exp : option config)      (* LoadConfigBytes on bytes the writer produced *)
| CSemver (v : str) (ok : bool)
| CClean (p out : str)
| CRewrite (old : file) (c : config) (bytes : str)   (* the file WriteConfigFile leaves at a path that was in state [old] *)
| CSession (init : fsys) (ops : list op) (loads : list (option config)) (final : list (N * file))
                                                   (* a process: what its loads returned, the files it left *)
| CCommand (before : file) (resolved : option (list req)) (after : file).
                                                   (* dawn get / dawn tidy on a dawn.toml in state [before] *)

Fixpoint list_eqb {A} (eqb : A -> A -> bool) (a b : list A) : bool :=
  match a, b with
  | [], [] => true
  | x :: a', y :: b' => eqb x y && list_eqb eqb a' b'
  | _, _ => false
  end.

Definition req_eqb (a b : req) : bool :=
  str_eqb (r_name a) (r_name b) && str_eqb (r_path a) (r_path b) && str_eqb (r_version a) (r_version b).

Definition config_eqb (a b : config) : bool :=
  str_eqb (c_name a) (c_name b) && str_eqb (c_version a) (c_version b) &&
  list_eqb str_eqb (c_ignore a) (c_ignore b) && list_eqb req_eqb (c_reqs a) (c_reqs b).

Definition opt_eqb {A} (eqb : A -> A -> bool) (a b : option A) : bool :=
  match a, b with
  | None, None => true
  | Some x, Some y => eqb x y
  | _, _ => false
  end.

Definition check_case (c : case) : bool :=
  match c with
  | CWrite cfg bytes => str_eqb (write cfg) bytes
  | CLoad bytes exp =>
      match load bytes, exp with
      | None, None => true
      | Some a, Some b => config_eqb a b
      | _, _ => false
      end
  | CSemver v ok => Bool.eqb (semver_canonical v) ok
  | CClean p out => str_eqb (clean_path p) out
  | CRewrite old cfg bytes => str_eqb (write_config_file old cfg) bytes
  | CSession init ops loads final =>
      list_eqb (opt_eqb config_eqb) (results init ops) loads &&
      forallb (fun fb => opt_eqb str_eqb (fs_get (exec init ops) (fst fb)) (snd fb)) final
  | CCommand before resolved after => opt_eqb str_eqb (command before (fun _ => resolved)) after
  end.

Definition mismatches (cs : list (N * case)) : list N :=
  map fst (filter (fun ic => negb (check_case (snd ic))) cs).
