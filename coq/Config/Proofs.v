(** Proofs for C19: string and key encode/decode round trips, then the document. *)
From Dawn Require Import Config.Model.
From Coq Require Import Lia ZifyBool ZifyN.

Local Open Scope N_scope.

Arguments N.ltb : simpl never.
Arguments N.leb : simpl never.
Arguments N.eqb : simpl never.
Arguments N.div : simpl never.
Arguments N.modulo : simpl never.
Arguments N.mul : simpl never.
Arguments N.add : simpl never.
Arguments N.sub : simpl never.

(** * UTF-8 characters *)

Ltac split_ifs :=
  repeat match goal with
         | Hx : context [if ?c then _ else _] |- _ => destruct c eqn:?
         end.

Definition high (ch : str) : Prop := Forall (fun b => 128 <= b) ch.

Lemma take_app ch rest : is_uchar ch = true -> utf8_take (ch ++ rest) = Some (ch, rest).
Proof.
  unfold is_uchar, utf8_take, cont, between.
  destruct ch as [|b0 [|b1 [|b2 [|b3 [|b4 t]]]]]; simpl; intros H;
    repeat match type of H with
           | context [if ?c then _ else _] => destruct c eqn:?; simpl in H |- *
           end; try discriminate; try reflexivity.
Qed.

Lemma uchar_cases ch : is_uchar ch = true ->
  (exists b, ch = [b] /\ b < 128) \/ (exists b t, ch = b :: t /\ high ch).
Proof.
  unfold is_uchar, utf8_take, cont, between, high.
  destruct ch as [|b0 [|b1 [|b2 [|b3 [|b4 t]]]]]; simpl; intros H; try discriminate;
    repeat match type of H with
           | context [if ?c then _ else _] => destruct c eqn:?; simpl in H
           end; try discriminate;
    try (left; eexists; split; [reflexivity|lia]);
    right; do 2 eexists; (split; [reflexivity|]); split_ifs; repeat (apply Forall_cons; [lia|]); apply Forall_nil.
Qed.

(** * The string encoder and decoder *)

Lemma enc_high b : 128 <= b -> enc_byte b = [b].
Proof.
  intros H. unfold enc_byte.
  repeat match goal with |- context [if ?c then _ else _] => destruct c eqn:? end; try reflexivity; lia.
Qed.

Lemma flat_map_high ch : high ch -> flat_map enc_byte ch = ch.
Proof.
  induction 1 as [|b ch Hb _ IH]; [reflexivity|]. simpl. rewrite (enc_high b Hb), IH. reflexivity.
Qed.

Lemma hex_roundtrip d : d < 16 -> hex_val (hex_upper d) = Some d.
Proof.
  intros H. unfold hex_val, hex_upper, between.
  destruct (d <? 10) eqn:E.
  - replace ((48 <=? 48 + d) && (48 + d <=? 57)) with true by lia. f_equal. lia.
  - replace ((48 <=? 55 + d) && (55 + d <=? 57)) with false by lia.
    replace ((65 <=? 55 + d) && (55 + d <=? 70)) with true by lia. f_equal. lia.
Qed.

Lemma basic_step b : b < 128 -> forall f tail,
  parse_basic (S f) (enc_byte b ++ tail) = map_fst (cons b) (parse_basic f tail).
Proof.
  intros Hb f tail. unfold enc_byte.
  destruct (b =? 92) eqn:E1; [apply N.eqb_eq in E1; subst; reflexivity|].
  destruct (b =? 34) eqn:E2; [apply N.eqb_eq in E2; subst; reflexivity|].
  destruct (b =? 8) eqn:E3; [apply N.eqb_eq in E3; subst; reflexivity|].
  destruct (b =? 12) eqn:E4; [apply N.eqb_eq in E4; subst; reflexivity|].
  destruct (b =? 10) eqn:E5; [apply N.eqb_eq in E5; subst; reflexivity|].
  destruct (b =? 13) eqn:E6; [apply N.eqb_eq in E6; subst; reflexivity|].
  destruct (b =? 9) eqn:E7; [apply N.eqb_eq in E7; subst; reflexivity|].
  destruct ((b <=? 8) || (10 <=? b) && (b <=? 31) || (b =? 127)) eqn:E8.
  - cbn [app parse_basic parse_escape]. replace (92 =? 34) with false by reflexivity.
    replace (92 =? 92) with true by reflexivity. cbn iota.
    assert (H16 : b / 16 < 16) by (apply N.div_lt_upper_bound; lia).
    assert (Hm : b mod 16 < 16) by (apply N.mod_lt; lia).
    rewrite (hex_roundtrip _ H16), (hex_roundtrip _ Hm).
    assert (Hd : 16 * (b / 16) + b mod 16 = b) by (symmetry; apply N.div_mod; lia).
    rewrite Hd. replace (b <? 128) with true by lia. reflexivity.
  - cbn [app parse_basic]. rewrite E2, E1. replace (b <? 128) with true by lia.
    replace (raw_bad b) with false by (unfold raw_bad, invalid_ascii; lia). reflexivity.
Qed.

Definition uchars (cs : list str) : Prop := Forall (fun ch => is_uchar ch = true) cs.

Lemma high_head b t : high (b :: t) -> (b <? 128) = false /\ (b =? 34) = false /\ (b =? 92) = false /\ (b =? 39) = false.
Proof. intros H. inversion H; subst. lia. Qed.

Lemma parse_basic_ok cs : uchars cs -> forall fuel rest, (length cs < fuel)%nat ->
  parse_basic fuel (flat_map enc_byte (concat cs) ++ 34 :: rest) = Some (concat cs, rest).
Proof.
  induction 1 as [|ch cs Hch _ IH]; intros fuel rest Hf.
  - destruct fuel; [simpl in Hf; lia|]. reflexivity.
  - destruct fuel as [|f]; [simpl in Hf; lia|]. simpl in Hf.
    simpl concat. rewrite flat_map_app, <- app_assoc.
    destruct (uchar_cases ch Hch) as [[b [-> Hb]]|[b [t [-> Hh]]]].
    + simpl flat_map. rewrite app_nil_r. rewrite (basic_step b Hb). rewrite IH by lia. reflexivity.
    + rewrite (flat_map_high _ Hh).
      destruct (high_head b t Hh) as [H1 [H2 [H3 _]]].
      change (parse_basic (S f) ((b :: t) ++ flat_map enc_byte (concat cs) ++ 34 :: rest))
        with (if b =? 34 then Some ([], t ++ flat_map enc_byte (concat cs) ++ 34 :: rest)
              else if b =? 92 then
                match parse_escape (t ++ flat_map enc_byte (concat cs) ++ 34 :: rest) with
                | Some (c, r') => map_fst (cons c) (parse_basic f r')
                | None => None
                end
              else if b <? 128 then (if raw_bad b then None else map_fst (cons b) (parse_basic f (t ++ flat_map enc_byte (concat cs) ++ 34 :: rest)))
              else match utf8_take ((b :: t) ++ flat_map enc_byte (concat cs) ++ 34 :: rest) with
                   | Some (ch, r') => map_fst (app ch) (parse_basic f r')
                   | None => None
                   end).
      rewrite H2, H3, H1. rewrite (take_app _ _ Hch). rewrite IH by lia. reflexivity.
Qed.

Lemma nq_app a b : needs_quoting (a ++ b) = needs_quoting a || needs_quoting b.
Proof. apply existsb_app. Qed.

Lemma parse_lit_ok cs : uchars cs -> needs_quoting (concat cs) = false -> forall fuel rest, (length cs < fuel)%nat ->
  parse_lit fuel (concat cs ++ 39 :: rest) = Some (concat cs, rest).
Proof.
  induction 1 as [|ch cs Hch _ IH]; intros Hq fuel rest Hf.
  - destruct fuel; [simpl in Hf; lia|]. reflexivity.
  - destruct fuel as [|f]; [simpl in Hf; lia|]. simpl in Hf.
    simpl concat in *. rewrite nq_app in Hq. apply orb_false_iff in Hq. destruct Hq as [Hq1 Hq2].
    rewrite <- app_assoc.
    destruct (uchar_cases ch Hch) as [[b [-> Hb]]|[b [t [-> Hh]]]].
    + simpl in Hq1. rewrite orb_false_r in Hq1.
      cbn [app parse_lit].
      replace (b =? 39) with false by (unfold needs_quoting_byte in Hq1; lia).
      replace (b <? 128) with true by lia.
      replace (raw_bad b) with false by (unfold needs_quoting_byte in Hq1; unfold raw_bad; lia).
      rewrite IH by (auto; lia). reflexivity.
    + destruct (high_head b t Hh) as [H1 [_ [_ H4]]].
      change (parse_lit (S f) ((b :: t) ++ concat cs ++ 39 :: rest))
        with (if b =? 39 then Some ([], t ++ concat cs ++ 39 :: rest)
              else if b <? 128 then (if raw_bad b then None else map_fst (cons b) (parse_lit f (t ++ concat cs ++ 39 :: rest)))
              else match utf8_take ((b :: t) ++ concat cs ++ 39 :: rest) with
                   | Some (ch, r') => map_fst (app ch) (parse_lit f r')
                   | None => None
                   end).
      rewrite H4, H1. rewrite (take_app _ _ Hch). rewrite IH by (auto; lia). reflexivity.
Qed.

Lemma uchar_nonempty ch : is_uchar ch = true -> (1 <= length ch)%nat.
Proof. destruct ch; [discriminate|simpl; lia]. Qed.

Lemma length_concat_uchars cs : uchars cs -> (length cs <= length (concat cs))%nat.
Proof.
  induction 1 as [|ch cs Hch _ IH]; [simpl; lia|]. simpl. rewrite app_length.
  pose proof (uchar_nonempty ch Hch). lia.
Qed.

Lemma length_flat_map_enc s : (length s <= length (flat_map enc_byte s))%nat.
Proof.
  induction s as [|b s IH]; [simpl; lia|]. simpl. rewrite app_length.
  assert (1 <= length (enc_byte b))%nat.
  { unfold enc_byte. repeat match goal with |- context [if ?c then _ else _] => destruct c end; simpl; lia. }
  lia.
Qed.

(** Every UTF-8 string: decode (encode s) = s, whatever follows. *)
Lemma parse_string_ok s rest : utf8 s -> parse_string (encode_string s ++ rest) = Some (s, rest).
Proof.
  intros [cs [Hcs ->]]. unfold encode_string.
  pose proof (length_concat_uchars cs Hcs) as Hl.
  destruct (needs_quoting (concat cs)) eqn:Eq.
  - change ((34 :: flat_map enc_byte (concat cs) ++ [34]) ++ rest)
      with (34 :: (flat_map enc_byte (concat cs) ++ [34]) ++ rest).
    rewrite <- app_assoc. unfold parse_string.
    replace (34 =? 39) with false by reflexivity. replace (34 =? 34) with true by reflexivity.
    apply parse_basic_ok; [exact Hcs|].
    pose proof (length_flat_map_enc (concat cs)). simpl. rewrite !app_length. simpl. lia.
  - change ((39 :: concat cs ++ [39]) ++ rest) with (39 :: (concat cs ++ [39]) ++ rest).
    rewrite <- app_assoc. unfold parse_string.
    replace (39 =? 39) with true by reflexivity.
    apply parse_lit_ok; [exact Hcs|exact Eq|].
    simpl. rewrite !app_length. simpl. lia.
Qed.

Lemma encode_string_head s : exists b t, encode_string s = b :: t /\ ((b =? 39) || (b =? 34)) = true.
Proof.
  unfold encode_string. destruct (needs_quoting s); do 2 eexists; split; reflexivity.
Qed.

(** * Keys, arrays, requirement lines *)

Lemma span_app p k x rest : forallb p k = true -> p x = false -> span p (k ++ x :: rest) = (k, x :: rest).
Proof.
  induction k as [|b k IH]; simpl; intros Hk Hx.
  - now rewrite Hx.
  - apply andb_true_iff in Hk. destruct Hk as [Hb Hk]. rewrite Hb, (IH Hk Hx). reflexivity.
Qed.

Lemma not_exists_negb {A} (p : A -> bool) l : existsb (fun b => negb (p b)) l = false -> forallb p l = true.
Proof.
  induction l as [|a l IH]; simpl; [reflexivity|]. intros H. apply orb_false_iff in H. destruct H as [H1 H2].
  apply negb_false_iff in H1. now rewrite H1, IH.
Qed.

Lemma parse_key_cons b s :
  parse_key (b :: s) =
  if (b =? 39) || (b =? 34) then parse_string (b :: s)
  else let (k, r) := span is_plain_byte (b :: s) in if isnil k then None else Some (k, r).
Proof. reflexivity. Qed.

(** Every UTF-8 key, the empty one included: decode (encode k) = k (a key is followed by " = "). *)
Lemma parse_key_ok k rest : utf8 k -> parse_key (encode_key k ++ 32 :: rest) = Some (k, 32 :: rest).
Proof.
  intros Hk. unfold encode_key. destruct (must_quote k) eqn:Eq.
  - destruct (encode_string_head k) as [b [t [E Hb]]].
    pose proof (parse_string_ok k (32 :: rest) Hk) as Hp. rewrite E in *.
    simpl app in *. rewrite parse_key_cons, Hb. exact Hp.
  - unfold must_quote in Eq. apply orb_false_iff in Eq. destruct Eq as [En Ep].
    destruct k as [|b k]; [discriminate|]. apply not_exists_negb in Ep.
    simpl app. rewrite parse_key_cons.
    assert (Hb : is_plain_byte b = true) by (simpl in Ep; apply andb_true_iff in Ep; tauto).
    replace ((b =? 39) || (b =? 34)) with false by (unfold is_plain_byte in Hb; lia).
    change (b :: k ++ 32 :: rest) with ((b :: k) ++ 32 :: rest).
    rewrite (span_app is_plain_byte (b :: k) 32 rest Ep eq_refl). reflexivity.
Qed.

Lemma strip_prefix_app p s : strip_prefix p (p ++ s) = Some s.
Proof. induction p as [|x p IH]; simpl; [destruct s; reflexivity|]. now rewrite N.eqb_refl. Qed.

Lemma length_encode_string s : (2 <= length (encode_string s))%nat.
Proof. unfold encode_string. destruct (needs_quoting s); simpl; rewrite app_length; simpl; lia. Qed.

Lemma length_join_comma l : (length l <= length (join_comma (map encode_string l)))%nat.
Proof.
  induction l as [|a l IH]; [simpl; lia|].
  pose proof (length_encode_string a). destruct l as [|a2 l].
  - simpl. lia.
  - change (join_comma (map encode_string (a :: a2 :: l)))
      with (encode_string a ++ 44 :: 32 :: join_comma (map encode_string (a2 :: l))).
    rewrite app_length. simpl length in *. lia.
Qed.

Lemma parse_array_items_ok l : Forall utf8 l -> l <> [] -> forall fuel rest, (length l <= fuel)%nat ->
  parse_array_items fuel (join_comma (map encode_string l) ++ 93 :: rest) = Some (l, rest).
Proof.
  induction 1 as [|a l Ha _ IH]; intros Hne fuel rest Hf; [congruence|].
  destruct fuel as [|f]; [simpl in Hf; lia|]. simpl in Hf.
  destruct l as [|a2 l].
  - simpl join_comma. cbn [parse_array_items]. rewrite (parse_string_ok a (93 :: rest) Ha).
    replace (93 =? 93) with true by reflexivity. reflexivity.
  - change (join_comma (map encode_string (a :: a2 :: l)))
      with (encode_string a ++ 44 :: 32 :: join_comma (map encode_string (a2 :: l))).
    rewrite <- app_assoc. cbn [parse_array_items].
    change ((44 :: 32 :: join_comma (map encode_string (a2 :: l))) ++ 93 :: rest)
      with (44 :: 32 :: join_comma (map encode_string (a2 :: l)) ++ 93 :: rest).
    rewrite (parse_string_ok a _ Ha).
    replace (44 =? 93) with false by reflexivity. replace (44 =? 44) with true by reflexivity.
    replace (32 =? 32) with true by reflexivity.
    rewrite IH; [reflexivity|discriminate|simpl in *; lia].
Qed.

Lemma parse_array_ok l rest : Forall utf8 l -> l <> [] -> parse_array (encode_array l ++ rest) = Some (l, rest).
Proof.
  intros Hl Hne. unfold encode_array.
  change ((91 :: join_comma (map encode_string l) ++ [93]) ++ rest)
    with (91 :: (join_comma (map encode_string l) ++ [93]) ++ rest).
  rewrite <- app_assoc. simpl app at 2.
  pose proof (length_join_comma l) as Hlen.
  assert (Hhead : exists b t, join_comma (map encode_string l) ++ 93 :: rest = b :: t /\ (b =? 93) = false).
  { destruct l as [|a l]; [congruence|]. destruct (encode_string_head a) as [b [t [E Hb]]].
    destruct l as [|a2 l].
    - simpl join_comma. rewrite E. exists b. eexists. split; [reflexivity|lia].
    - change (join_comma (map encode_string (a :: a2 :: l)))
        with (encode_string a ++ 44 :: 32 :: join_comma (map encode_string (a2 :: l))).
      rewrite E. exists b. eexists. split; [reflexivity|lia]. }
  destruct Hhead as [b [t [E Hb]]].
  unfold parse_array. replace (91 =? 91) with true by reflexivity.
  assert (Hfuel : (length l <= length (91%N :: join_comma (map encode_string l) ++ 93%N :: rest))%nat)
    by (simpl; rewrite app_length; lia).
  revert Hfuel. generalize (length (91 :: join_comma (map encode_string l) ++ 93 :: rest)). intros fuel Hfuel.
  pose proof (parse_array_items_ok l Hl Hne fuel rest Hfuel) as Hp.
  rewrite E in *. rewrite Hb. exact Hp.
Qed.

Definition req_strings_ok (r : req) : Prop := utf8 (r_name r) /\ utf8 (r_path r) /\ utf8 (r_version r).

Lemma parse_req_line_ok r rest : req_strings_ok r -> parse_req_line (req_line r ++ rest) = Some (r, rest).
Proof.
  intros [Hn [Hp Hv]]. destruct r as [n p v]. simpl in *. unfold req_line, parse_req_line. simpl r_name; simpl r_path; simpl r_version.
  rewrite <- !app_assoc.
  change (s_eq_path ++ encode_string p ++ s_comma_version ++ encode_string v ++ s_close ++ rest)
    with (32 :: skipn 1 s_eq_path ++ encode_string p ++ s_comma_version ++ encode_string v ++ s_close ++ rest).
  rewrite (parse_key_ok n _ Hn). cbn [bind].
  change (32 :: skipn 1 s_eq_path ++ encode_string p ++ s_comma_version ++ encode_string v ++ s_close ++ rest)
    with (s_eq_path ++ encode_string p ++ s_comma_version ++ encode_string v ++ s_close ++ rest).
  rewrite strip_prefix_app. cbn [bind].
  rewrite (parse_string_ok p _ Hp). cbn [bind].
  rewrite strip_prefix_app. cbn [bind].
  rewrite (parse_string_ok v _ Hv). cbn [bind].
  rewrite strip_prefix_app. reflexivity.
Qed.

Lemma isnil_length {A} (l : list A) : (0 < length l)%nat -> isnil l = false.
Proof. destruct l; simpl; [lia|reflexivity]. Qed.

Lemma length_req_line r : (2 <= length (req_line r))%nat.
Proof. unfold req_line. rewrite !app_length. simpl. lia. Qed.

Lemma length_flat_map_req rs : (length rs <= length (flat_map req_line rs))%nat.
Proof.
  induction rs as [|r rs IH]; [simpl; lia|]. simpl. rewrite app_length. pose proof (length_req_line r). lia.
Qed.

Lemma parse_req_lines_ok rs : Forall req_strings_ok rs -> forall fuel, (length rs <= fuel)%nat ->
  parse_req_lines fuel (flat_map req_line rs) = Some rs.
Proof.
  induction 1 as [|r rs Hr _ IH]; intros fuel Hf.
  - destruct fuel; reflexivity.
  - destruct fuel as [|f]; [simpl in Hf; lia|]. simpl in Hf. simpl flat_map.
    cbn [parse_req_lines]. rewrite isnil_length by (rewrite app_length; pose proof (length_req_line r); lia).
    rewrite (parse_req_line_ok r _ Hr). cbn [bind]. rewrite IH by lia. reflexivity.
Qed.

(** * The document *)

Definition Dpart (h : bool) (rs : list req) : str :=
  if isnil rs then [] else sep h ++ s_requirements ++ flat_map req_line rs.

Definition Cpart (h h' : bool) (ig : list str) (rs : list req) : str :=
  (if isnil ig then [] else sep h ++ s_ignore_eq ++ encode_array ig ++ [10]) ++ Dpart h' rs.

Definition opt_str (prefix s : str) : str := if isnil s then [] else prefix ++ encode_string s ++ [10].

Lemma reqs_part_ok rs h : Forall req_strings_ok rs -> parse_reqs_part (Dpart h rs) = Some rs.
Proof.
  intros Hrs. destruct rs as [|r rs]; [reflexivity|].
  assert (E : parse_reqs_part (Dpart h (r :: rs)) =
              parse_req_lines (length (flat_map req_line (r :: rs))) (flat_map req_line (r :: rs))).
  { unfold parse_reqs_part, Dpart. cbn [isnil].
    destruct h; cbn [sep app]; change (skip_blank _) with (s_requirements ++ flat_map req_line (r :: rs));
      change (isnil (s_requirements ++ flat_map req_line (r :: rs))) with false; cbv iota;
      rewrite strip_prefix_app; reflexivity. }
  rewrite E. apply parse_req_lines_ok; [exact Hrs|apply length_flat_map_req].
Qed.

Lemma reqs_part_skip rs h : parse_reqs_part (skip_blank (Dpart h rs)) = parse_reqs_part (Dpart h rs).
Proof. destruct rs as [|r rs]; [reflexivity|]. destruct h; reflexivity. Qed.

Lemma opt_line_miss {A} prefix (p : str -> option (A * str)) dflt s :
  strip_prefix prefix s = None -> opt_line prefix p dflt s = Some (dflt, s).
Proof. intros H. unfold opt_line. now rewrite H. Qed.

Lemma ignore_part_ok ig h h' rs : Forall utf8 ig ->
  exists R', parse_ignore_part (Cpart h h' ig rs) = Some (ig, R') /\
             parse_reqs_part R' = parse_reqs_part (Dpart h' rs).
Proof.
  intros Hig. destruct ig as [|a ig].
  - exists (skip_blank (Dpart h' rs)). split; [|apply reqs_part_skip].
    unfold Cpart, parse_ignore_part. cbn [isnil app]. apply opt_line_miss.
    destruct rs as [|r rs]; [reflexivity|]. destruct h'; reflexivity.
  - exists (Dpart h' rs). split; [|reflexivity].
    unfold Cpart, parse_ignore_part. cbn [isnil].
    assert (E : skip_blank ((sep h ++ s_ignore_eq ++ encode_array (a :: ig) ++ [10]) ++ Dpart h' rs)
                = s_ignore_eq ++ encode_array (a :: ig) ++ 10 :: Dpart h' rs).
    { destruct h; cbn [sep]; rewrite <- !app_assoc; reflexivity. }
    rewrite E. unfold opt_line. rewrite strip_prefix_app.
    rewrite (parse_array_ok (a :: ig) _ Hig) by discriminate. reflexivity.
Qed.

Lemma head_C h h' ig rs :
  strip_prefix s_name_eq (Cpart h h' ig rs) = None /\ strip_prefix s_version_eq (Cpart h h' ig rs) = None.
Proof.
  unfold Cpart, Dpart. destruct ig as [|a ig]; destruct rs as [|r rs]; destruct h; destruct h'; split; reflexivity.
Qed.

Lemma opt_str_step prefix n X : utf8 n -> strip_prefix prefix X = None ->
  opt_line prefix parse_string [] (opt_str prefix n ++ X) = Some (n, X).
Proof.
  intros Hn HX. unfold opt_str. destruct (isnil n) eqn:En.
  - destruct n; [|discriminate]. simpl app. now apply opt_line_miss.
  - rewrite <- !app_assoc. unfold opt_line. rewrite strip_prefix_app.
    rewrite (parse_string_ok n _ Hn). reflexivity.
Qed.

Lemma head_B v X : strip_prefix s_name_eq X = None -> strip_prefix s_name_eq (opt_str s_version_eq v ++ X) = None.
Proof. intros HX. unfold opt_str. destruct (isnil v); [exact HX|reflexivity]. Qed.

Definition strings_ok (c : config) : Prop :=
  utf8 (c_name c) /\ utf8 (c_version c) /\ Forall utf8 (c_ignore c) /\ Forall req_strings_ok (c_reqs c).

Lemma parse_write c : strings_ok c -> parse (write c) = Some c.
Proof.
  destruct c as [n v ig rs]. intros [Hn [Hv [Hig Hrs]]]. simpl in Hn, Hv, Hig, Hrs.
  unfold write. cbn [c_name c_version c_ignore c_reqs].
  change (parse (opt_str s_name_eq n ++ opt_str s_version_eq v ++
                 Cpart (negb (isnil n) || negb (isnil v)) (negb (isnil n) || negb (isnil v) || negb (isnil ig)) ig rs)
          = Some (mkConfig n v ig rs)).
  set (h1 := negb (isnil n) || negb (isnil v)). set (h2 := h1 || negb (isnil ig)).
  destruct (head_C h1 h2 ig rs) as [HC1 HC2].
  unfold parse.
  rewrite (opt_str_step s_name_eq n _ Hn (head_B v _ HC1)). cbn [bind].
  rewrite (opt_str_step s_version_eq v _ Hv HC2). cbn [bind].
  destruct (ignore_part_ok ig h1 h2 rs Hig) as [R' [E1 E2]].
  rewrite E1. cbn [bind]. rewrite E2, (reqs_part_ok rs h2 Hrs). reflexivity.
Qed.

(** * Loading *)

Lemma valid_strings_ok c : valid c -> strings_ok c.
Proof.
  intros [Hn [Hv [Hig [Hrs _]]]]. repeat split; auto.
  eapply Forall_impl; [|exact Hrs]. intros r [H1 [H2 [H3 _]]]. repeat split; auto.
Qed.

Lemma map_clean rs : Forall valid_req rs ->
  map (fun r => mkReq (r_name r) (clean_path (r_path r)) (r_version r)) rs = rs.
Proof.
  induction 1 as [|r rs Hr _ IH]; [reflexivity|].
  simpl. rewrite IH. f_equal. destruct r as [rn rp rv]. destruct Hr as [_ [_ [_ [_ Hc]]]]. simpl in *. now rewrite Hc.
Qed.

Lemma load_write c : valid c -> load (write c) = Some c.
Proof.
  intros Hv. unfold load. rewrite (parse_write c (valid_strings_ok c Hv)).
  destruct Hv as [_ [_ [_ [Hrs _]]]].
  assert (Hsem : forallb (fun r => semver_canonical (r_version r)) (c_reqs c) = true).
  { apply forallb_forall. intros r Hr. rewrite Forall_forall in Hrs. apply Hrs in Hr. apply Hr. }
  rewrite Hsem, (map_clean _ Hrs). destruct c; reflexivity.
Qed.

Lemma write_stable c : valid c -> option_map write (load (write c)) = Some (write c).
Proof. intros Hv. now rewrite (load_write c Hv). Qed.

(** * The hypotheses are satisfiable *)

Lemma utf8_ascii s : Forall (fun b => b < 128) s -> utf8 s.
Proof.
  intros H. exists (map (fun b => [b]) s). split.
  - induction H as [|b s Hb _ IH]; constructor; [|exact IH].
    unfold is_uchar, utf8_take. replace (b <? 128) with true by lia. reflexivity.
  - clear H. induction s as [|b s IH]; [reflexivity|]. simpl. now rewrite <- IH.
Qed.

Lemma utf8_app a b : utf8 a -> utf8 b -> utf8 (a ++ b).
Proof.
  intros [ca [Ha ->]] [cb [Hb ->]]. exists (ca ++ cb). split; [now apply Forall_app|now rewrite concat_app].
Qed.

Lemma utf8_char ch : is_uchar ch = true -> utf8 ch.
Proof. intros H. exists [ch]. split; [now constructor|simpl; now rewrite app_nil_r]. Qed.
