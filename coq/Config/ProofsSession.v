(** Proofs for C19, process side: a load returns the last configuration written to the FILE, whatever the spellings
    and whatever the process did before; get and tidy lose nothing. *)
From Dawn Require Import Config.Model Config.File Config.Session Config.Proofs Config.ProofsFile.
From Coq Require Import Lia.

Local Open Scope N_scope.

Lemma fs_get_set_same s f b : fs_get (fs_set s f b) f = Some b.
Proof.
  induction s as [|[g x] s IH]; cbn [fs_set fs_get].
  - now rewrite N.eqb_refl.
  - destruct (g =? f) eqn:E; cbn [fs_get]; rewrite E; [reflexivity|exact IH].
Qed.

Lemma fs_get_set_other s f g b : g <> f -> fs_get (fs_set s g b) f = fs_get s f.
Proof.
  intros Hne. induction s as [|[h x] s IH]; cbn [fs_set fs_get].
  - destruct (g =? f) eqn:E; [apply N.eqb_eq in E; contradiction|reflexivity].
  - destruct (h =? g) eqn:E; cbn [fs_get].
    + apply N.eqb_eq in E. subst h. destruct (g =? f) eqn:E2; [apply N.eqb_eq in E2; contradiction|reflexivity].
    + destruct (h =? f); [reflexivity|exact IH].
Qed.

Lemma last_written_acc f ops : forall acc,
  last_written f ops acc = match last_written f ops None with Some c => Some c | None => acc end.
Proof.
  induction ops as [|o ops IH]; intros acc; [reflexivity|].
  destruct o as [sp g c|sp g]; cbn [last_written]; [|apply IH].
  destruct (g =? f); [|apply IH].
  rewrite (IH (Some c)). destruct (last_written f ops None); reflexivity.
Qed.

(** the state of file [f] after a session: the serialisation of the last configuration written to it, or what it
    was before when nothing was written to it *)
Lemma exec_file ops : forall s f,
  fs_get (exec s ops) f =
  match last_written f ops None with Some c => Some (write c) | None => fs_get s f end.
Proof.
  induction ops as [|o ops IH]; intros s f; [reflexivity|].
  destruct o as [sp g c|sp g]; cbn [last_written].
  - change (exec s (OWrite sp g c :: ops)) with (exec (step s (OWrite sp g c)) ops).
    rewrite IH. rewrite (last_written_acc f ops (if g =? f then Some c else None)).
    destruct (last_written f ops None) as [d|]; [reflexivity|].
    cbn [step]. destruct (g =? f) eqn:E.
    + apply N.eqb_eq in E. subst g. now rewrite fs_get_set_same, write_config_file_eq.
    + apply fs_get_set_other. intros ->. rewrite N.eqb_refl in E. discriminate.
  - change (exec s (OLoad sp g :: ops)) with (exec (step s (OLoad sp g)) ops). rewrite IH. reflexivity.
Qed.

Lemma results_app pre : forall s post, results s (pre ++ post) = results s pre ++ results (exec s pre) post.
Proof.
  induction pre as [|o pre IH]; intros s post; [reflexivity|].
  destruct o as [sp f c|sp f]; cbn [app results exec fold_left step].
  - apply IH.
  - rewrite (IH s post). reflexivity.
Qed.

(** a load, anywhere in a session, of a file to which the process wrote earlier - through any spelling *)
Lemma load_in_session s pre sp f post c :
  last_written f pre None = Some c -> valid c ->
  nth_error (results s (pre ++ OLoad sp f :: post)) (length (results s pre)) = Some (Some c).
Proof.
  intros L V. rewrite results_app. rewrite nth_error_app2 by lia. rewrite Nat.sub_diag.
  cbn [results nth_error]. rewrite exec_file, L. cbn [load_config_file]. now rewrite load_write.
Qed.

(** ... and the bytes of the file at that moment are those of a write to a fresh path, so that writing what was
    loaded reproduces them *)
Lemma file_in_session s pre f c :
  last_written f pre None = Some c -> valid c ->
  fs_get (exec s pre) f = Some (write_config_file None c) /\
  option_map (write_config_file None) (load_config_file (fs_get (exec s pre) f)) = Some (write_config_file None c).
Proof.
  intros L V. rewrite exec_file, L. rewrite (write_config_file_eq None c). split; [reflexivity|].
  cbn [load_config_file]. rewrite (load_write c V). cbn [option_map]. now rewrite write_config_file_eq.
Qed.

Lemma step_respell r s o : step s (respell r o) = step s o.
Proof. destruct o; reflexivity. Qed.

Lemma results_respell r ops : forall s, results s (map (respell r) ops) = results s ops.
Proof.
  induction ops as [|o ops IH]; intros s; [reflexivity|].
  destruct o as [sp f c|sp f]; cbn [map respell results step]; now rewrite IH.
Qed.

Lemma exec_respell r ops : forall s, exec s (map (respell r) ops) = exec s ops.
Proof.
  induction ops as [|o ops IH]; intros s; [reflexivity|].
  cbn [map exec fold_left]. rewrite step_respell. apply IH.
Qed.

Lemma spelling_irrelevant_full r s ops :
  results s (map (respell r) ops) = results s ops /\ exec s (map (respell r) ops) = exec s ops.
Proof. split; [apply results_respell|apply exec_respell]. Qed.

(** loads in between change nothing: a session and the same session without its loads leave the same files *)
Definition is_write (o : op) : bool := match o with OWrite _ _ _ => true | OLoad _ _ => false end.

Lemma loads_change_nothing ops : forall s, exec s (filter is_write ops) = exec s ops.
Proof.
  induction ops as [|o ops IH]; intros s; [reflexivity|].
  destruct o as [sp f c|sp f]; cbn [filter is_write exec fold_left step]; apply IH.
Qed.

(** ** get / tidy *)

Lemma command_failed f resolve c :
  load_config_file f = Some c -> resolve c = None -> command f resolve = f.
Proof. intros L R. unfold command. now rewrite L, R. Qed.

Lemma command_succeeded f resolve c rs :
  load_config_file f = Some c -> resolve c = Some rs -> valid (with_reqs c rs) ->
  command f resolve = Some (write (with_reqs c rs)) /\
  load_config_file (command f resolve) = Some (with_reqs c rs).
Proof.
  intros L R V. unfold command. rewrite L, R, write_config_file_eq. split; [reflexivity|].
  cbn [load_config_file]. now apply load_write.
Qed.

Lemma command_loses_nothing_full f resolve c :
  load_config_file f = Some c ->
  match resolve c with
  | None => command f resolve = f /\ load_config_file (command f resolve) = Some c
  | Some rs => valid (with_reqs c rs) ->
      load_config_file (command f resolve) = Some (mkConfig (c_name c) (c_version c) (c_ignore c) rs) /\
      command f resolve = Some (write (with_reqs c rs))
  end.
Proof.
  intros L. destruct (resolve c) as [rs|] eqn:R.
  - intros V. destruct (command_succeeded f resolve c rs L R V) as [A B]. split; [exact B|exact A].
  - rewrite (command_failed f resolve c L R). split; [reflexivity|exact L].
Qed.

Lemma command_unloadable f resolve : load_config_file f = None -> command f resolve = f.
Proof. intros L. unfold command. now rewrite L. Qed.
