(** C19: the fields the quantifier leaves unrestricted (project name, project version, ignore patterns) are free text. *)
From Coq Require Import List NArith Bool.
From Dawn Require Import Base.Bytes Config.Model Config.Proofs.
Import ListNotations.
Open Scope N_scope.

Lemma free_fields_verbatim_full : forall n v ig rs,
  utf8 n -> utf8 v -> Forall utf8 ig -> Forall valid_req rs -> keys_ascending rs = true ->
  load (write (mkConfig n v ig rs)) = Some (mkConfig n v ig rs) /\
  option_map write (load (write (mkConfig n v ig rs))) = Some (write (mkConfig n v ig rs)).
Proof.
  intros n v ig rs Hn Hv Hig Hrs Hk.
  assert (Hval : valid (mkConfig n v ig rs)) by (repeat split; assumption).
  split; [apply load_write; exact Hval | apply write_stable; exact Hval].
Qed.
