From Dawn Require Import Config.Model.
Theorem write_empty : write (mkConfig [] [] [] []) = [].
Proof. reflexivity. Qed.
Print Assumptions write_empty.
