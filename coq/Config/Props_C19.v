(** C19 — Project configuration round-trips through its file format.
    Vocabulary (Config/Model.v): [write c] = the bytes WriteConfigFile produces; [load s] = LoadConfigBytes
    (decode, validate requirement versions, CleanPath the requirement paths; [None] = error);
    [utf8 s] = the byte string [s] is valid UTF-8 (a concatenation of well-formed characters): arbitrary Unicode,
    quotes and control characters included; [valid c] = every string of [c] is valid UTF-8, every requirement
    version is canonical semver, every requirement path is a fixed point of CleanPath, and the requirements are
    the key-sorted association list of a map.  Go's nil and empty slices/maps are the same model value, so the
    "normalise" of the design is the identity here.  go-toml, x/mod/semver and path.Clean are modelled. *)
From Dawn Require Import Config.Model Config.File Config.Session Config.Proofs Config.ProofsFile Config.ProofsSession Config.ProofsFree.

(** Every string value: decoding its encoding gives it back, whatever follows it in the document. *)
Theorem string_roundtrip : forall s rest, utf8 s -> parse_string (encode_string s ++ rest) = Some (s, rest).
Proof. exact parse_string_ok. Qed.
Print Assumptions string_roundtrip.

(** Every requirement name (bare when plain, quoted otherwise, the empty name included), followed by " = ..". *)
Theorem key_roundtrip : forall k rest, utf8 k -> parse_key (encode_key k ++ 32 :: rest) = Some (k, 32 :: rest).
Proof. exact parse_key_ok. Qed.
Print Assumptions key_roundtrip.

(** Writing a valid configuration and loading it back yields the same configuration. *)
Theorem config_roundtrip : forall c, valid c -> load (write c) = Some c.
Proof. exact load_write. Qed.
Print Assumptions config_roundtrip.

(** ... and writing the loaded configuration again produces identical bytes. *)
Theorem write_stable : forall c, valid c -> option_map write (load (write c)) = Some (write c).
Proof. exact Proofs.write_stable. Qed.
Print Assumptions write_stable.

(** What "valid" does NOT restrict: the project's name, the project's version and the ignore patterns (an ordered list,
    repetitions and empty patterns included) are free text - any valid UTF-8, whether or not it looks like a version,
    a canonical or a non-canonical one, a clean or an unclean path, a number - and come back verbatim; only the
    requirements carry the version and path conditions. *)
Theorem free_fields_verbatim : forall n v ig rs,
  utf8 n -> utf8 v -> Forall utf8 ig -> Forall valid_req rs -> keys_ascending rs = true ->
  load (write (mkConfig n v ig rs)) = Some (mkConfig n v ig rs) /\
  option_map write (load (write (mkConfig n v ig rs))) = Some (write (mkConfig n v ig rs)).
Proof. exact free_fields_verbatim_full. Qed.
Print Assumptions free_fields_verbatim.

(** Rewriting in place (dawn get, dawn tidy): [write_config_file old c] = the bytes at the path after
    WriteConfigFile(path, c) when the path was in state [old] before ([None] = absent, [Some b] = a file holding
    [b]: a longer or shorter earlier serialisation, a hand-written file with comments, anything).  The file left
    behind is the serialisation of [c] and nothing else ... *)
Theorem rewrite_ignores_previous_contents : forall old c, write_config_file old c = write c.
Proof. exact write_config_file_eq. Qed.
Print Assumptions rewrite_ignores_previous_contents.

(** ... so loading the rewritten file yields the configuration written, whatever the file held before, and
    writing the loaded configuration over it again gives the bytes of a write to a fresh path. *)
Theorem rewrite_roundtrip : forall old c, valid c ->
  load_config_file (Some (write_config_file old c)) = Some c /\
  option_map (write_config_file (Some (write_config_file old c))) (load_config_file (Some (write_config_file old c)))
  = Some (write_config_file None c).
Proof. exact rewrite_roundtrip_full. Qed.
Print Assumptions rewrite_roundtrip.

(** Any history of rewrites of one path: the file holds exactly the last configuration written. *)
Theorem rewrite_history : forall old cs c, valid c ->
  rewrites old (cs ++ [c]) = Some (write c) /\ load_config_file (rewrites old (cs ++ [c])) = Some c.
Proof. exact rewrite_history_full. Qed.
Print Assumptions rewrite_history.

(** WriteConfigFile's Fprintf calls, one after the other, are one write of the concatenation. *)
Theorem consecutive_writes : forall content off a b, (off <= length content)%nat ->
  write_at (write_at content off a) (off + length a) b = write_at content off (a ++ b).
Proof. exact write_at_app. Qed.
Print Assumptions consecutive_writes.

(** A PROCESS that writes and loads configuration files (Config/Session.v): an operation names its file by some
    spelling of a path; [OWrite sp f c] / [OLoad sp f] carry the spelling [sp] and the file [f] that spelling named
    when the operation ran; [results s ops] = what the loads of the session return, [exec s ops] = the files left.
    Wherever in a session a file is loaded, if the process wrote to that FILE earlier - through this spelling or any
    other, with any loads and any writes to this or other files before or in between - the load yields the last
    configuration written to it ... *)
Theorem load_sees_last_write : forall s pre sp f post c,
  last_written f pre None = Some c -> valid c ->
  nth_error (results s (pre ++ OLoad sp f :: post)) (length (results s pre)) = Some (Some c).
Proof. exact load_in_session. Qed.
Print Assumptions load_sees_last_write.

(** ... the file holds the bytes of a write to a fresh path, and writing what it loads as reproduces them. *)
Theorem file_is_last_write : forall s pre f c,
  last_written f pre None = Some c -> valid c ->
  fs_get (exec s pre) f = Some (write_config_file None c) /\
  option_map (write_config_file None) (load_config_file (fs_get (exec s pre) f)) = Some (write_config_file None c).
Proof. exact file_in_session. Qed.
Print Assumptions file_is_last_write.

(** How the paths are spelled is irrelevant: re-spelling every path of a session (the files named staying the
    same) changes neither what its loads return nor the files it leaves; and loads change nothing. *)
Theorem spelling_irrelevant : forall r s ops,
  results s (map (respell r) ops) = results s ops /\ exec s (map (respell r) ops) = exec s ops.
Proof. exact spelling_irrelevant_full. Qed.
Print Assumptions spelling_irrelevant.

Theorem loads_leave_files_alone : forall ops s, exec s (filter is_write ops) = exec s ops.
Proof. exact loads_change_nothing. Qed.
Print Assumptions loads_leave_files_alone.

(** dawn get / dawn tidy ([command f resolve]: load dawn.toml, resolve the new requirements, replace them, write;
    [resolve] = mvs.Get / UpgradeAll / Tidy, [None] = it failed).  On a dawn.toml that loads as [c]: when resolution
    fails the file is left exactly as it was; when it yields [rs] the file loads back as [c] with the requirements
    [rs] - name, version and ignore patterns as before - and holds the canonical bytes of that configuration:
    nothing is lost but comments and layout. *)
Theorem command_loses_nothing : forall f resolve c,
  load_config_file f = Some c ->
  match resolve c with
  | None => command f resolve = f /\ load_config_file (command f resolve) = Some c
  | Some rs => valid (with_reqs c rs) ->
      load_config_file (command f resolve) = Some (mkConfig (c_name c) (c_version c) (c_ignore c) rs) /\
      command f resolve = Some (write (with_reqs c rs))
  end.
Proof. exact command_loses_nothing_full. Qed.
Print Assumptions command_loses_nothing.

(** ASCII strings with any control characters and quotes are within the quantifier. *)
Theorem ascii_is_utf8 : forall s, Forall (fun b => b < 128) s -> utf8 s.
Proof. exact utf8_ascii. Qed.
Print Assumptions ascii_is_utf8.

(** A valid configuration with a control character, both quote styles, a two-byte, a three-byte and a
    four-byte character, an empty requirement name, a name needing quotes, a versioned path, a prerelease. *)
Definition example : config :=
  mkConfig [105; 116; 39; 115; 32; 34; 0; 10; 195; 169; 226; 130; 172; 240; 159; 152; 128]   (* i t apostrophe s space dquote NUL LF e-acute euro emoji *)
           [49] [[42; 46; 111]; []; [92; 39]]
           [mkReq [] [97; 47; 98; 64; 118; 50] [118; 49; 46; 50; 46; 51];                      (* empty name : a/b@v2 v1.2.3 *)
            mkReq [97; 46; 98] [46] [118; 49; 46; 48; 46; 48; 45; 114; 99; 46; 49]].           (* a.b : . v1.0.0-rc.1 *)

Example example_valid : valid example.
Proof.
  assert (Hname : utf8 (c_name example)).
  { exists [[105]; [116]; [39]; [115]; [32]; [34]; [0]; [10]; [195; 169]; [226; 130; 172]; [240; 159; 152; 128]].
    split; [repeat constructor|reflexivity]. }
  repeat split; try exact Hname; try reflexivity;
    repeat (apply Forall_cons || apply Forall_nil); repeat split; try reflexivity;
    apply utf8_ascii; repeat constructor.
Qed.

Example example_roundtrip : load (write example) = Some example.
Proof. vm_compute. reflexivity. Qed.

(** Text of the restricted fields' domains in the free fields: a project named "a//b/" (not a clean path) at version
    "v1.2.3+build" (semver, not canonical), ignore patterns "./a", "a", "./a", a requirement named "v1": the loader
    would reject or change these strings as a requirement's version or path, and keeps them as they are here. *)
Definition free_text : config :=
  mkConfig [97; 47; 47; 98; 47] [118; 49; 46; 50; 46; 51; 43; 98; 117; 105; 108; 100] [[46; 47; 97]; [97]; [46; 47; 97]]
           [mkReq [118; 49] [97] [118; 49; 46; 50; 46; 51]].

Example free_text_roundtrip :
  semver_canonical (c_version free_text) = false /\ clean_path (c_name free_text) <> c_name free_text /\
  load (write free_text) = Some free_text /\
  load (write (mkConfig [] [] [] [mkReq [97] (c_name free_text) [118; 49; 46; 50; 46; 51]])) <>
    Some (mkConfig [] [] [] [mkReq [97] (c_name free_text) [118; 49; 46; 50; 46; 51]]) /\
  load (write (mkConfig [] [] [] [mkReq [97] [97] (c_version free_text)])) = None.
Proof. split; [vm_compute; reflexivity|]. split; [vm_compute; discriminate|]. split; [vm_compute; reflexivity|]. split; [vm_compute; discriminate|vm_compute; reflexivity]. Qed.

(** Why the model of os.Create truncates: writing over the old bytes WITHOUT emptying the file first is not a
    rewrite.  tidy dropping the last requirement [b] of {a, b}: the new serialisation is a prefix of the old one,
    the old tail survives, and the file still loads - as the OLD configuration. *)
Definition two_reqs : config :=
  mkConfig [] [] [] [mkReq [97] [97] [118; 49; 46; 50; 46; 51]; mkReq [98] [98] [118; 49; 46; 50; 46; 51]].
Definition one_req : config := mkConfig [] [] [] [mkReq [97] [97] [118; 49; 46; 50; 46; 51]].

Example truncation_is_needed :
  valid two_reqs /\ valid one_req /\ two_reqs <> one_req /\
  load (write_at (write two_reqs) 0 (write one_req)) = Some two_reqs /\
  load_config_file (Some (write_config_file (Some (write two_reqs)) one_req)) = Some one_req.
Proof.
  assert (V2 : valid two_reqs).
  { repeat split; try reflexivity; try (apply utf8_ascii; repeat constructor);
      repeat (apply Forall_cons || apply Forall_nil); repeat split; try reflexivity;
      apply utf8_ascii; repeat constructor. }
  assert (V1 : valid one_req).
  { repeat split; try reflexivity; try (apply utf8_ascii; repeat constructor);
      repeat (apply Forall_cons || apply Forall_nil); repeat split; try reflexivity;
      apply utf8_ascii; repeat constructor. }
  split; [exact V2|]. split; [exact V1|]. split; [discriminate|]. split; vm_compute; reflexivity.
Qed.

(** Why the commands must not write after a failed resolution: the requirements computed are then the nil map, and
    writing the configuration with them yields a file that still loads - with name, version and ignore patterns, but
    without any requirement. *)
Example failed_resolution_must_not_write :
  load_config_file (Some (write two_reqs)) = Some two_reqs /\
  command (Some (write two_reqs)) (fun _ => None) = Some (write two_reqs) /\
  load_config_file (Some (write_config_file (Some (write two_reqs)) (with_reqs two_reqs []))) = Some (with_reqs two_reqs []) /\
  with_reqs two_reqs [] <> two_reqs.
Proof. split; [vm_compute; reflexivity|]. split; [vm_compute; reflexivity|]. split; [vm_compute; reflexivity|discriminate]. Qed.

(** A three-step session on one file under two spellings (1 and 2 both name file 0): the second load sees the rewrite. *)
Example two_spellings :
  results [] [OWrite 1 0 two_reqs; OLoad 1 0; OWrite 2 0 one_req; OLoad 1 0] = [Some two_reqs; Some one_req].
Proof. vm_compute. reflexivity. Qed.

(** Why LoadConfigFile must hand the WHOLE file to the decoder, however long it is: a reader that stops after the first
    [k] bytes (a size limit, a buffer, a scanner that gives up) and happens to stop at the end of a line leaves a
    well-formed shorter document.  Nothing is reported and the last requirement is gone; the next dawn get / dawn tidy
    writes the shortened configuration back.  ([load_config_file] reads everything: config_roundtrip has no bound on
    the size of [c]; the correspondence check holds the implementation to that with files of every size class.) *)
Example whole_file_is_needed :
  let k := length (write one_req) in
  (k < length (write two_reqs))%nat /\
  load (firstn k (write two_reqs)) = Some one_req /\ one_req <> two_reqs /\
  load_config_file (Some (write two_reqs)) = Some two_reqs.
Proof. split; [vm_compute; repeat constructor|]. split; [vm_compute; reflexivity|]. split; [discriminate|vm_compute; reflexivity]. Qed.
