(** Executable model of internal/project/config.go (WriteConfigFile, LoadConfigBytes) and version.go (CleanPath).

    Strings are Go strings: lists of bytes.  A map[string]RequirementConfig is modelled by its association list
    in ascending key order, the order slices.Sorted(maps.Keys(..)) produces; Go's nil and empty slices/maps are
    the same model value [[]] (the writer tests len(..) only and the loader cannot distinguish them), so the
    "normalise" of DESIGN C19 is the identity on model values.

    Third-party code is MODELLED, not verified; the correspondence check is what ties these parts to reality:
    - go-toml v2.2.0's string encoder as dawn calls it (marshaler.go: encodeString / needsQuoting /
      encodeLiteralString / encodeQuotedString, encodeSliceAsArray): [encode_string], [encode_array];
    - go-toml's decoder, restricted to THE GRAMMAR THE WRITER EMITS (key/value lines in the writer's order,
      literal and basic strings with the escapes the encoder produces, one-line arrays of strings, one
      [requirements] header, inline tables {path = .., version = ..}, bare and quoted keys): [parse].
      [parse] returning [None] on other input says nothing about go-toml.  UTF-8 validation of string contents
      is part of the model (go-toml rejects invalid UTF-8 and raw control characters);
    - golang.org/x/mod/semver (IsValid && Canonical(v) == v): [semver_canonical];
    - Go's path.Clean: [gp_clean] from Label/Model.v.
    No proofs in this file. *)
From Dawn Require Export Base.Bytes.
From Dawn Require Import Label.Model.

Record req := mkReq { r_name : str; r_path : str; r_version : str }.
Record config := mkConfig { c_name : str; c_version : str; c_ignore : list str; c_reqs : list req }.

Definition isnil {A} (l : list A) : bool := match l with [] => true | _ => false end.

(** ** go-toml: string encoder *)

(** characters.InvalidAscii: the control characters other than TAB, LF, CR; and DEL *)
Definition invalid_ascii (b : N) : bool :=
  (b <=? 8) || (b =? 11) || (b =? 12) || ((14 <=? b) && (b <=? 31)) || (b =? 127).

Definition needs_quoting_byte (b : N) : bool :=
  (b =? 39) || (b =? 13) || (b =? 10) || invalid_ascii b.

Definition needs_quoting (s : str) : bool := existsb needs_quoting_byte s.

Definition hex_upper (n : N) : N := if n <? 10 then 48 + n else 55 + n.

(** one byte inside "..." *)
Definition enc_byte (b : N) : str :=
  if b =? 92 then [92; 92]
  else if b =? 34 then [92; 34]
  else if b =? 8 then [92; 98]
  else if b =? 12 then [92; 102]
  else if b =? 10 then [92; 110]
  else if b =? 13 then [92; 114]
  else if b =? 9 then [92; 116]
  else if (b <=? 8) || ((10 <=? b) && (b <=? 31)) || (b =? 127)
       then [92; 117; 48; 48; hex_upper (b / 16); hex_upper (b mod 16)]
  else [b].

Definition encode_string (s : str) : str :=
  if needs_quoting s then 34 :: flat_map enc_byte s ++ [34] else 39 :: s ++ [39].

Fixpoint join_comma (l : list str) : str :=
  match l with
  | [] => []
  | [a] => a
  | a :: l' => a ++ 44 :: 32 :: join_comma l'
  end.

(** encodeSlice on a []string: "[]" when empty, else [a, b, c] on one line *)
Definition encode_array (l : list str) : str := 91 :: join_comma (map encode_string l) ++ [93].

(** ** config.go: WriteConfigFile *)

Definition is_plain_byte (b : N) : bool :=
  ((65 <=? b) && (b <=? 90)) || ((97 <=? b) && (b <=? 122)) || ((48 <=? b) && (b <=? 57)) || (b =? 95) || (b =? 45).

(** name == "" || strings.ContainsFunc(name, !isPlainRune): a rune that is not one plain ASCII byte has only
    bytes >= 128 (or is an invalid byte), so the test on runes equals the test on bytes. *)
Definition must_quote (name : str) : bool := isnil name || existsb (fun b => negb (is_plain_byte b)) name.

Definition encode_key (name : str) : str := if must_quote name then encode_string name else name.

Definition s_name_eq : str := [110; 97; 109; 101; 32; 61; 32].                          (* "name = " *)
Definition s_version_eq : str := [118; 101; 114; 115; 105; 111; 110; 32; 61; 32].         (* "version = " *)
Definition s_ignore_eq : str := [105; 103; 110; 111; 114; 101; 32; 61; 32].               (* "ignore = " *)
Definition s_requirements : str :=
  [91; 114; 101; 113; 117; 105; 114; 101; 109; 101; 110; 116; 115; 93; 10].               (* "[requirements]\n" *)
Definition s_eq_path : str := [32; 61; 32; 123; 112; 97; 116; 104; 32; 61; 32].           (* " = {path = " *)
Definition s_comma_version : str := [44; 32; 118; 101; 114; 115; 105; 111; 110; 32; 61; 32]. (* ", version = " *)
Definition s_close : str := [125; 10].                                                    (* "}\n" *)

Definition req_line (r : req) : str :=
  encode_key (r_name r) ++ s_eq_path ++ encode_string (r_path r) ++ s_comma_version ++
  encode_string (r_version r) ++ s_close.

(** [sep has] = printSection's blank line *)
Definition sep (has : bool) : str := if has then [10] else [].

Definition write (c : config) : str :=
  let has1 := negb (isnil (c_name c)) || negb (isnil (c_version c)) in
  let has2 := has1 || negb (isnil (c_ignore c)) in
  (if isnil (c_name c) then [] else s_name_eq ++ encode_string (c_name c) ++ [10]) ++
  (if isnil (c_version c) then [] else s_version_eq ++ encode_string (c_version c) ++ [10]) ++
  (if isnil (c_ignore c) then [] else sep has1 ++ s_ignore_eq ++ encode_array (c_ignore c) ++ [10]) ++
  (if isnil (c_reqs c) then [] else sep has2 ++ s_requirements ++ flat_map req_line (c_reqs c)).

(** ** UTF-8 (go-toml internal/characters/utf8.go = Go's utf8.Valid) *)

Definition between (lo b hi : N) : bool := (lo <=? b) && (b <=? hi).
Definition cont (b : N) : bool := between 128 b 191.

(** the first character of [s] (its bytes) and the rest *)
Definition utf8_take (s : str) : option (str * str) :=
  match s with
  | [] => None
  | b0 :: r =>
      if b0 <? 128 then Some ([b0], r)
      else if between 194 b0 223 then
        match r with
        | b1 :: r' => if cont b1 then Some ([b0; b1], r') else None
        | _ => None
        end
      else if between 224 b0 239 then
        match r with
        | b1 :: b2 :: r' =>
            if (if b0 =? 224 then between 160 b1 191 else if b0 =? 237 then between 128 b1 159 else cont b1) && cont b2
            then Some ([b0; b1; b2], r') else None
        | _ => None
        end
      else if between 240 b0 244 then
        match r with
        | b1 :: b2 :: b3 :: r' =>
            if (if b0 =? 240 then between 144 b1 191 else if b0 =? 244 then between 128 b1 143 else cont b1)
               && cont b2 && cont b3
            then Some ([b0; b1; b2; b3], r') else None
        | _ => None
        end
      else None
  end.

(** [ch] is exactly one well-formed UTF-8 character *)
Definition is_uchar (ch : str) : bool :=
  match utf8_take ch with Some (_, []) => true | _ => false end.

(** the string is valid UTF-8: a concatenation of characters *)
Definition utf8 (s : str) : Prop := exists cs, Forall (fun ch => is_uchar ch = true) cs /\ s = concat cs.

(** ** go-toml: decoder, for the writer's grammar *)

Definition map_fst {A B C} (f : A -> C) (o : option (A * B)) : option (C * B) :=
  match o with Some (a, b) => Some (f a, b) | None => None end.

Definition hex_val (c : N) : option N :=
  if between 48 c 57 then Some (c - 48) else if between 65 c 70 then Some (c - 55) else None.

(** raw control characters are not allowed inside strings (TAB is) *)
Definition raw_bad (b : N) : bool := (b =? 10) || (b =? 13) || invalid_ascii b.

(** after the opening ' : up to the closing ' *)
Fixpoint parse_lit (fuel : nat) (s : str) : option (str * str) :=
  match fuel with
  | O => None
  | S f =>
      match s with
      | [] => None
      | b :: r =>
          if b =? 39 then Some ([], r)
          else if b <? 128 then (if raw_bad b then None else map_fst (cons b) (parse_lit f r))
          else match utf8_take s with
               | Some (ch, r') => map_fst (app ch) (parse_lit f r')
               | None => None
               end
      end
  end.

(** one escape sequence after the backslash: the ones the encoder produces *)
Definition parse_escape (s : str) : option (N * str) :=
  match s with
  | 92 :: r => Some (92, r)
  | 34 :: r => Some (34, r)
  | 98 :: r => Some (8, r)
  | 102 :: r => Some (12, r)
  | 110 :: r => Some (10, r)
  | 114 :: r => Some (13, r)
  | 116 :: r => Some (9, r)
  | 117 :: 48 :: 48 :: h1 :: h2 :: r =>
      match hex_val h1, hex_val h2 with
      | Some x, Some y => if 16 * x + y <? 128 then Some (16 * x + y, r) else None
      | _, _ => None
      end
  | _ => None
  end.

(** after the opening " : up to the closing " *)
Fixpoint parse_basic (fuel : nat) (s : str) : option (str * str) :=
  match fuel with
  | O => None
  | S f =>
      match s with
      | [] => None
      | b :: r =>
          if b =? 34 then Some ([], r)
          else if b =? 92 then
            match parse_escape r with
            | Some (c, r') => map_fst (cons c) (parse_basic f r')
            | None => None
            end
          else if b <? 128 then (if raw_bad b then None else map_fst (cons b) (parse_basic f r))
          else match utf8_take s with
               | Some (ch, r') => map_fst (app ch) (parse_basic f r')
               | None => None
               end
      end
  end.

Definition parse_string (s : str) : option (str * str) :=
  match s with
  | b :: r => if b =? 39 then parse_lit (length s) r
              else if b =? 34 then parse_basic (length s) r
              else None
  | [] => None
  end.

Fixpoint strip_prefix (p s : str) : option str :=
  match p, s with
  | [], _ => Some s
  | x :: p', y :: s' => if x =? y then strip_prefix p' s' else None
  | _ :: _, [] => None
  end.

(** after "[" : strings separated by ", " up to "]" *)
Fixpoint parse_array_items (fuel : nat) (s : str) : option (list str * str) :=
  match fuel with
  | O => None
  | S f =>
      match parse_string s with
      | None => None
      | Some (v, r) =>
          match r with
          | b :: r' =>
              if b =? 93 then Some ([v], r')
              else if b =? 44 then
                match r' with
                | b' :: r'' => if b' =? 32 then map_fst (cons v) (parse_array_items f r'') else None
                | [] => None
                end
              else None
          | [] => None
          end
      end
  end.

Definition parse_array (s : str) : option (list str * str) :=
  match s with
  | b :: r =>
      if b =? 91 then
        match r with
        | b' :: r' => if b' =? 93 then Some ([], r') else parse_array_items (length s) r
        | [] => None
        end
      else None
  | [] => None
  end.

Fixpoint span (p : N -> bool) (s : str) : str * str :=
  match s with
  | x :: s' => if p x then let (a, b) := span p s' in (x :: a, b) else ([], s)
  | [] => ([], [])
  end.

Definition parse_key (s : str) : option (str * str) :=
  match s with
  | b :: _ =>
      if (b =? 39) || (b =? 34) then parse_string s
      else let (k, r) := span is_plain_byte s in if isnil k then None else Some (k, r)
  | [] => None
  end.

Definition bind {A B} (o : option A) (f : A -> option B) : option B :=
  match o with Some a => f a | None => None end.

(** one line  key = {path = S, version = S}\n *)
Definition parse_req_line (s : str) : option (req * str) :=
  bind (parse_key s) (fun '(k, s1) =>
  bind (strip_prefix s_eq_path s1) (fun s2 =>
  bind (parse_string s2) (fun '(p, s3) =>
  bind (strip_prefix s_comma_version s3) (fun s4 =>
  bind (parse_string s4) (fun '(v, s5) =>
  bind (strip_prefix s_close s5) (fun s6 => Some (mkReq k p v, s6))))))).

Fixpoint parse_req_lines (fuel : nat) (s : str) : option (list req) :=
  if isnil s then Some []
  else match fuel with
       | O => None
       | S f => bind (parse_req_line s) (fun '(r, s') => option_map (cons r) (parse_req_lines f s'))
       end.

(** optional  "<prefix><value>\n"  *)
Definition opt_line {A} (prefix : str) (p : str -> option (A * str)) (dflt : A) (s : str) : option (A * str) :=
  match strip_prefix prefix s with
  | None => Some (dflt, s)
  | Some s1 => bind (p s1) (fun '(v, s2) => match s2 with 10 :: s3 => Some (v, s3) | _ => None end)
  end.

Definition skip_blank (s : str) : str := match s with 10 :: s' => s' | _ => s end.

(** [ignore = [..]] preceded by an optional blank line *)
Definition parse_ignore_part (s : str) : option (list str * str) :=
  opt_line s_ignore_eq parse_array [] (skip_blank s).

(** the [requirements] section, preceded by an optional blank line, up to the end of the document *)
Definition parse_reqs_part (s : str) : option (list req) :=
  let s4 := skip_blank s in
  if isnil s4 then Some []
  else bind (strip_prefix s_requirements s4) (fun s5 => parse_req_lines (length s5) s5).

(** The document: the four items in the writer's order, each optional. *)
Definition parse (s : str) : option config :=
  bind (opt_line s_name_eq parse_string [] s) (fun '(name, s1) =>
  bind (opt_line s_version_eq parse_string [] s1) (fun '(version, s2) =>
  bind (parse_ignore_part s2) (fun '(ignore, s3) =>
  option_map (mkConfig name version ignore) (parse_reqs_part s3)))).

(** ** golang.org/x/mod/semver: IsValid(v) && Canonical(v) == v *)

Definition is_digit (c : N) : bool := between 48 c 57.

Definition parse_int (s : str) : option str :=
  let (d, r) := span is_digit s in
  match d with
  | [] => None
  | 48 :: _ :: _ => None
  | _ => Some r
  end.

Definition ident_char (c : N) : bool := is_digit c || between 65 c 90 || between 97 c 122 || (c =? 45).

Definition bad_num (id : str) : bool :=
  forallb is_digit id && match id with 48 :: _ :: _ => true | _ => false end.

Definition prerelease_ok (s : str) : bool :=
  forallb (fun c => ident_char c || (c =? 46)) s &&
  forallb (fun id => negb (isnil id) && negb (bad_num id)) (split_on 46 s).

Definition semver_canonical (v : str) : bool :=
  match v with
  | 118 :: r =>
      match parse_int r with
      | Some (46 :: r1) =>
          match parse_int r1 with
          | Some (46 :: r2) =>
              match parse_int r2 with
              | Some [] => true
              | Some (45 :: pre) => prerelease_ok pre
              | _ => false
              end
          | _ => false
          end
      | _ => false
      end
  | _ => false
  end.

(** ** version.go: CleanPath *)

Definition split_path_version (p : str) : str * str :=
  let (dir, seg) := match split_last 47 p with
                    | (a, Some seg) => (a ++ [47], seg)
                    | (_, None) => ([], p)
                    end in
  match split_last 64 seg with
  | (a, Some v) => (dir ++ a, v)
  | (_, None) => (p, [])
  end.

Definition join_path_version (p v : str) : str :=
  if isnil v || str_eqb v [118; 48] || str_eqb v [118; 49] then p else p ++ 64 :: v.

Definition clean_path (p : str) : str :=
  let (q, v) := split_path_version p in join_path_version (gp_clean q) v.

(** ** config.go: LoadConfigBytes = decode, validate versions, clean paths *)

Definition load (s : str) : option config :=
  match parse s with
  | None => None
  | Some c =>
      if forallb (fun r => semver_canonical (r_version r)) (c_reqs c)
      then Some (mkConfig (c_name c) (c_version c) (c_ignore c)
                   (map (fun r => mkReq (r_name r) (clean_path (r_path r)) (r_version r)) (c_reqs c)))
      else None
  end.

(** ** Valid configurations (the property's quantifier) *)

Fixpoint str_ltb (a b : str) : bool :=
  match a, b with
  | [], [] => false
  | [], _ :: _ => true
  | _ :: _, [] => false
  | x :: a', y :: b' => (x <? y) || ((x =? y) && str_ltb a' b')
  end.

(** strictly ascending keys: the association list of a map *)
Fixpoint keys_ascending (l : list req) : bool :=
  match l with
  | a :: ((b :: _) as l') => str_ltb (r_name a) (r_name b) && keys_ascending l'
  | _ => true
  end.

Definition valid_req (r : req) : Prop :=
  utf8 (r_name r) /\ utf8 (r_path r) /\ utf8 (r_version r) /\ semver_canonical (r_version r) = true /\ clean_path (r_path r) = r_path r.

Definition valid (c : config) : Prop :=
  utf8 (c_name c) /\ utf8 (c_version c) /\ Forall utf8 (c_ignore c) /\
  Forall valid_req (c_reqs c) /\ keys_ascending (c_reqs c) = true.
