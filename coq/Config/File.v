(** Executable model of the FILE side of internal/project/config.go: what WriteConfigFile(path, c) leaves at
    [path] given what was there before, and LoadConfigFile.  dawn get and dawn tidy (cmd/dawn/get.go, tidy.go)
    load dawn.toml, change the configuration and call WriteConfigFile on the SAME path, so the previous contents
    of the destination are an input of the writer.

    The operating system is modelled, not verified (the correspondence check runs the writer over destinations in
    many previous states and compares): os.Create, a sequence of File.Write calls at an advancing offset.
    No proofs in this file. *)
From Dawn Require Export Config.Model.

(** The state of a path: [None] = no such file, [Some b] = a regular file holding the bytes [b]. *)
Definition file := option str.

(** os.Create(path) = OpenFile(path, O_RDWR|O_CREATE|O_TRUNC, 0666): afterwards the file exists and is EMPTY,
    whatever it held (or whether it existed) before; the offset is 0. *)
Definition os_create (old : file) : str := [].

(** f.Write(b) with the file offset at [off] (at most the file's length): the bytes from [off] on are overwritten,
    the file grows as needed, and whatever lies beyond [off + len b] STAYS.  This is why the truncation in
    [os_create] matters: see Props_C19.truncation_is_needed. *)
Definition write_at (content : str) (off : nat) (b : str) : str :=
  firstn off content ++ b ++ skipn (off + length b) content.

(** WriteConfigFile(path, c): os.Create, then the Fprintf calls in order, each at the offset the previous one left
    (consecutive writes are one write of the concatenation, ProofsFile.write_at_app; the concatenation of the
    Fprintf outputs is [write c]), then Close. *)
Definition write_config_file (old : file) (c : config) : str := write_at (os_create old) 0 (write c).

(** LoadConfigFile(path): os.ReadFile, then LoadConfigBytes; [None] = error (no such file included). *)
Definition load_config_file (f : file) : option config :=
  match f with None => None | Some b => load b end.

(** A history of rewrites of one path (one dawn get / dawn tidy after another). *)
Definition rewrites (old : file) (cs : list config) : file :=
  fold_left (fun f c => Some (write_config_file f c)) cs old.
