(** Proofs for C19, file side: the file WriteConfigFile leaves does not depend on the destination's previous state. *)
From Dawn Require Import Config.Model Config.File Config.Proofs.
From Coq Require Import Lia.

Lemma write_at_empty b : write_at [] 0 b = b.
Proof. unfold write_at. rewrite skipn_nil. cbn. apply app_nil_r. Qed.

Lemma write_config_file_eq old c : write_config_file old c = write c.
Proof. unfold write_config_file, os_create. apply write_at_empty. Qed.

Lemma rewrite_roundtrip old c : valid c -> load_config_file (Some (write_config_file old c)) = Some c.
Proof. intros H. unfold load_config_file. rewrite write_config_file_eq. now apply load_write. Qed.

Lemma rewrite_stable old c : valid c ->
  option_map (write_config_file (Some (write_config_file old c))) (load_config_file (Some (write_config_file old c)))
  = Some (write_config_file None c).
Proof. intros H. rewrite (rewrite_roundtrip old c H). unfold option_map. now rewrite !write_config_file_eq. Qed.

Lemma rewrites_last old cs c : rewrites old (cs ++ [c]) = Some (write c).
Proof. unfold rewrites. rewrite fold_left_app. cbn [fold_left]. now rewrite write_config_file_eq. Qed.

Lemma rewrites_roundtrip old cs c : valid c -> load_config_file (rewrites old (cs ++ [c])) = Some c.
Proof. intros H. rewrite rewrites_last. unfold load_config_file. now apply load_write. Qed.

Lemma firstn_exact {A} (F a S : list A) n m :
  length F = n -> length a = m -> firstn (n + m) (F ++ a ++ S) = F ++ a.
Proof.
  intros <- <-. rewrite app_assoc, <- app_length.
  rewrite firstn_app, firstn_all, Nat.sub_diag, firstn_O. apply app_nil_r.
Qed.

Lemma skipn_exact {A} (F a S : list A) n m k :
  length F = n -> length a = m -> skipn (n + m + k) (F ++ a ++ S) = skipn k S.
Proof.
  intros <- <-. rewrite app_assoc, <- app_length.
  rewrite skipn_app. rewrite skipn_all2 by lia.
  replace (length (F ++ a) + k - length (F ++ a))%nat with k by lia. reflexivity.
Qed.

Lemma skipn_add {A} k n (l : list A) : skipn k (skipn n l) = skipn (n + k) l.
Proof.
  revert l. induction n as [|n IH]; intros l; [reflexivity|].
  destruct l as [|x l]; [now rewrite !skipn_nil|]. cbn [Nat.add skipn]. apply IH.
Qed.

(** two consecutive File.Write calls are one call with the concatenation *)
Lemma write_at_app content off a b : (off <= length content)%nat ->
  write_at (write_at content off a) (off + length a) b = write_at content off (a ++ b).
Proof.
  intros Hoff. unfold write_at.
  assert (Hl : length (firstn off content) = off) by (apply firstn_length_le; exact Hoff).
  rewrite (firstn_exact _ _ _ off (length a) Hl eq_refl).
  rewrite (skipn_exact _ _ _ off (length a) (length b) Hl eq_refl).
  rewrite skipn_add, app_length, <- !app_assoc.
  now rewrite Nat.add_assoc.
Qed.

Lemma rewrite_roundtrip_full old c : valid c ->
  load_config_file (Some (write_config_file old c)) = Some c /\
  option_map (write_config_file (Some (write_config_file old c))) (load_config_file (Some (write_config_file old c)))
  = Some (write_config_file None c).
Proof. intros H. split; [exact (rewrite_roundtrip old c H) | exact (rewrite_stable old c H)]. Qed.

Lemma rewrite_history_full old cs c : valid c ->
  rewrites old (cs ++ [c]) = Some (write c) /\ load_config_file (rewrites old (cs ++ [c])) = Some c.
Proof. intros H. split; [exact (rewrites_last old cs c) | exact (rewrites_roundtrip old cs c H)]. Qed.
