(** Executable model of WriteConfigFile / LoadConfigFile as operations of a PROCESS on a FILE SYSTEM, and of the
    two commands that rewrite dawn.toml (cmd/dawn/get.go, cmd/dawn/tidy.go).

    A process names a file by a path string; the same file has many spellings (a root reached through a symbolic
    link, a relative path, dir/./dawn.toml, a hard link), and one spelling can name different files at different
    moments (a relative path after a change of directory, a symbolic link that was re-pointed).  config.go keeps
    no state of its own: LoadConfigFile is os.ReadFile + LoadConfigBytes and WriteConfigFile is os.Create + writes,
    so what an operation does is a function of the FILE the path names at that moment and of nothing else - not of
    the spelling, and not of what the process loaded or wrote earlier.  The operating system's path resolution is
    not modelled: every operation carries, next to the spelling it used (kept only so that a theorem can say it is
    irrelevant), the identity of the file that spelling named when the operation ran.
    No proofs in this file. *)
From Dawn Require Export Config.Model Config.File.

Local Open Scope N_scope.

(** the files of the session: identity -> state; an identity that is not listed is an absent file *)
Definition fsys := list (N * str).

Fixpoint fs_get (s : fsys) (f : N) : file :=
  match s with
  | [] => None
  | (g, b) :: s' => if g =? f then Some b else fs_get s' f
  end.

Fixpoint fs_set (s : fsys) (f : N) (b : str) : fsys :=
  match s with
  | [] => [(f, b)]
  | (g, x) :: s' => if g =? f then (g, b) :: s' else (g, x) :: fs_set s' f b
  end.

Inductive op :=
| OWrite (spelling file_id : N) (c : config)   (* WriteConfigFile(path, c) *)
| OLoad (spelling file_id : N).                (* LoadConfigFile(path) *)

Definition op_file (o : op) : N := match o with OWrite _ f _ => f | OLoad _ f => f end.

(** the file system after one operation: a load changes nothing *)
Definition step (s : fsys) (o : op) : fsys :=
  match o with
  | OWrite _ f c => fs_set s f (write_config_file (fs_get s f) c)
  | OLoad _ _ => s
  end.

Definition exec (s : fsys) (ops : list op) : fsys := fold_left step ops s.

(** what the loads of a session return, in order ([None] = an error) *)
Fixpoint results (s : fsys) (ops : list op) : list (option config) :=
  match ops with
  | [] => []
  | OLoad sp f :: ops' => load_config_file (fs_get s f) :: results s ops'
  | o :: ops' => results (step s o) ops'
  end.

(** the configuration most recently written to file [f] in [ops] (through any spelling), if there was a write *)
Fixpoint last_written (f : N) (ops : list op) (acc : option config) : option config :=
  match ops with
  | [] => acc
  | OWrite _ g c :: ops' => last_written f ops' (if g =? f then Some c else acc)
  | OLoad _ _ :: ops' => last_written f ops' acc
  end.

(** the same session with every path spelled some other way (the files named stay the same) *)
Definition respell (r : N -> N) (o : op) : op :=
  match o with
  | OWrite sp f c => OWrite (r sp) f c
  | OLoad sp f => OLoad (r sp) f
  end.

(** ** dawn get / dawn tidy

    RunE of both commands: config <- LoadConfigFile(dawn.toml), or return the error; newReqs <- resolution
    (mvs.Get / mvs.UpgradeAll / mvs.Tidy over the network and the module cache: NOT modelled here, an argument:
    [None] = it failed), or return the error; config.Requirements = newReqs; WriteConfigFile(dawn.toml, config).
    The file is touched on exactly one path through the function: after a successful resolution. *)
Definition with_reqs (c : config) (rs : list req) : config := mkConfig (c_name c) (c_version c) (c_ignore c) rs.

Definition command (f : file) (resolve : config -> option (list req)) : file :=
  match load_config_file f with
  | None => f
  | Some c =>
      match resolve c with
      | None => f
      | Some rs => Some (write_config_file f (with_reqs c rs))
      end
  end.
