From Coq Require Import List NArith Arith Lia.
From Dawn Require Import Fingerprint.ValueMemo.
Import ListNotations.
Open Scope N_scope.

Lemma index_of_nth : forall k memo i, index_of k memo = Some i -> nth_error memo i = Some k.
Proof.
  intros k memo; induction memo as [|k' r IH]; intros i H; cbn in H; [discriminate|].
  destruct (N.eqb k k') eqn:E.
  - inversion H; subst. apply N.eqb_eq in E; subst. reflexivity.
  - destruct (index_of k r) as [j|]; cbn in H; [|discriminate]. inversion H; subst. cbn. apply IH. reflexivity.
Qed.

Lemma faithful_tail : forall x l, faithful (x :: l) -> faithful l.
Proof. intros x l F k c c' H H'. apply (F k); right; assumption. Qed.

Lemma roundtrip_gen : forall l memo seen,
  length memo = length seen ->
  (forall i k, nth_error memo i = Some k -> forall c, In (k, c) l -> nth_error seen i = Some c) ->
  faithful l ->
  vread seen (vemit memo l) = Some (map snd l).
Proof.
  induction l as [|[k c] r IH]; intros memo seen L INV F; [reflexivity|].
  cbn [vemit]. destruct (index_of k memo) as [i|] eqn:E.
  - apply index_of_nth in E. cbn [vread].
    rewrite (INV i k E c (or_introl eq_refl)).
    rewrite (IH memo seen L); [reflexivity| |exact (faithful_tail _ _ F)].
    intros j k0 Hj c0 Hin. apply (INV j k0 Hj c0). right; exact Hin.
  - cbn [vread].
    rewrite (IH (memo ++ [k]) (seen ++ [c])); [reflexivity| | |exact (faithful_tail _ _ F)].
    + rewrite !app_length. cbn. lia.
    + intros j k0 Hj c0 Hin.
      destruct (Nat.lt_ge_cases j (length memo)) as [Hlt|Hge].
      * rewrite nth_error_app1 in Hj by exact Hlt.
        rewrite nth_error_app1 by (rewrite <- L; exact Hlt).
        apply (INV j k0 Hj c0). right; exact Hin.
      * rewrite nth_error_app2 in Hj by exact Hge.
        destruct (j - length memo)%nat as [|m] eqn:D.
        -- cbn in Hj. inversion Hj; subst k0.
           assert (j = length seen) by lia. subst j.
           rewrite nth_error_app2 by lia. rewrite Nat.sub_diag. cbn.
           f_equal. apply (F k); [left; reflexivity|right; exact Hin].
        -- cbn in Hj. destruct m; discriminate.
Qed.

(** what is read back is what the function references, value by value *)
Theorem value_memo_roundtrip : forall l, faithful l -> vread [] (vemit [] l) = Some (map snd l).
Proof.
  intros l F. apply roundtrip_gen; [reflexivity| |exact F].
  intros i k H. destruct i; discriminate.
Qed.

(** sensitivity: with a faithful key, two sequences of referenced values with the same emission have the same contents *)
Theorem value_memo_sensitive : forall l1 l2, faithful l1 -> faithful l2 -> vemit [] l1 = vemit [] l2 -> map snd l1 = map snd l2.
Proof.
  intros l1 l2 F1 F2 E.
  pose proof (value_memo_roundtrip l1 F1) as R1. pose proof (value_memo_roundtrip l2 F2) as R2.
  rewrite E in R1. rewrite R1 in R2. inversion R2. reflexivity.
Qed.

Lemma index_of_map : forall f, (forall a b, f a = f b -> a = b) -> forall k memo, index_of (f k) (map f memo) = index_of k memo.
Proof.
  intros f INJ k memo; induction memo as [|k' r IH]; [reflexivity|]. cbn.
  destruct (N.eqb k k') eqn:E.
  - apply N.eqb_eq in E; subst. rewrite N.eqb_refl. reflexivity.
  - destruct (N.eqb (f k) (f k')) eqn:E'.
    + apply N.eqb_eq in E'. apply INJ in E'. subst. rewrite N.eqb_refl in E. discriminate.
    + rewrite IH. reflexivity.
Qed.

Lemma vemit_rename_gen : forall f, (forall a b, f a = f b -> a = b) ->
  forall l memo, vemit (map f memo) (map (fun kc => (f (fst kc), snd kc)) l) = vemit memo l.
Proof.
  intros f INJ; induction l as [|[k c] r IH]; intros memo; [reflexivity|].
  cbn [map vemit fst snd]. rewrite (index_of_map f INJ).
  destruct (index_of k memo).
  - rewrite IH. reflexivity.
  - rewrite <- (IH (memo ++ [k])). rewrite map_app. reflexivity.
Qed.

(** determinism: the emission depends on the keys only through WHICH meetings have equal keys -- renaming the keys
    one-to-one (other addresses in another process, another load order) leaves it unchanged *)
Theorem value_memo_deterministic : forall f, (forall a b, f a = f b -> a = b) ->
  forall l, vemit [] (map (fun kc => (f (fst kc), snd kc)) l) = vemit [] l.
Proof. intros f INJ l. exact (vemit_rename_gen f INJ l []). Qed.

(** the hypothesis is needed: a key that is not faithful -- a tuple filed under the address of its first element, so
    that T = 100, T[:2] = 101 and T[:3] = 102 all have key 1 -- gives equal emissions for different referenced values *)
Theorem unfaithful_key_refuted :
  exists l1 l2, vemit [] l1 = vemit [] l2 /\ map snd l1 <> map snd l2.
Proof. exists [(1, 100); (1, 101)], [(1, 100); (1, 102)]. split; [reflexivity|discriminate]. Qed.
