(** Model of how a target function's environment is traversed when it is fingerprinted: function.go's
    recursionPickler/envPickler driven by pickle.Encoder's memo (encode.go).  No proofs in this file.

    The model keeps exactly what the termination and coverage arguments need: which *starlark.Function objects a
    function's pickled parts mention, in pickling order (defaults, free variables, then -- through its code object --
    constants, predeclared and universal values, nested code objects, globals; containers flattened in element order).
    Everything else a part contains (numbers, strings, builtins, bytecode ...) is the code/atom identity [f_code].

    Encoder logic per mention of a function f (encode.go [encode] + function.go [recursionPickler.Pickle]):
      - f already memoized as a finished object      -> a memo reference to the finished environment  ([TRef])
      - f asked about before and still in progress   -> the placeholder ("dawn","Recursive",(name,))   ([TRec])
        (the first such request creates the placeholder and memoizes it under f; later ones hit that memo entry)
      - otherwise: mark f as asked, pickle its parts, memoize f                                         ([TFun]) *)
From Coq Require Export List NArith Bool Lia.
Export ListNotations.
Open Scope N_scope.

Record fn := mkFn { f_name : N; f_code : N; f_mentions : list N }.
Definition graph := list (N * fn).

Fixpoint lookup {A} (k : N) (m : list (N * A)) : option A :=
  match m with
  | [] => None
  | (k', v) :: r => if k =? k' then Some v else lookup k r
  end.
Definition mem (k : N) (l : list N) : bool := existsb (N.eqb k) l.

Inductive tree :=
| TFun (name code : N) (children : list tree)
| TRec (name : N)
| TRef (name : N)
| TUnknown.                       (* a mention of an object outside the graph: never produced by the reifier *)

Record st := mkSt { asked : list N; finished : list N }.

Inductive res := Done (t : list tree) (s : st) | OutOfFuel.

(** [walk fuel g s fs]: pickle the mentions [fs] in order; fuel bounds the nesting of function environments *)
Fixpoint walk (fuel : nat) (g : graph) : st -> list N -> res :=
  fix go (s : st) (fs : list N) {struct fs} : res :=
    match fs with
    | [] => Done [] s
    | f :: rest =>
        let continue t s' := match go s' rest with
                             | Done ts s'' => Done (t :: ts) s''
                             | OutOfFuel => OutOfFuel
                             end in
        match lookup f g with
        | None => continue TUnknown s
        | Some fd =>
            if mem f (finished s) then continue (TRef (f_name fd)) s
            else if mem f (asked s) then continue (TRec (f_name fd)) s
            else match fuel with
                 | O => OutOfFuel
                 | S fuel' =>
                     match walk fuel' g (mkSt (f :: asked s) (finished s)) (f_mentions fd) with
                     | OutOfFuel => OutOfFuel
                     | Done children s1 =>
                         continue (TFun (f_name fd) (f_code fd) children) (mkSt (asked s1) (f :: finished s1))
                     end
                 end
        end
    end.

(** the fingerprint skeleton of target function [f] *)
Definition fingerprint (g : graph) (f : N) : res := walk (S (length g)) g (mkSt [] []) [f].
