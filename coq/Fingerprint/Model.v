(** Model of how a target function's environment is traversed when it is fingerprinted: function.go's
    recursionPickler/envPickler driven by pickle.Encoder's memo (encode.go).  No proofs in this file.

    The model keeps exactly what the termination and coverage arguments need: which *starlark.Function objects a
    function's pickled parts mention, in pickling order (defaults, free variables, then -- through its code object --
    constants, predeclared and universal values, nested code objects, globals; containers flattened in element order).
    Everything else a part contains (numbers, strings, builtins, bytecode ...) is the code/atom identity [f_code].

    Encoder logic per mention of a function f (encode.go [encode] + function.go [recursionPickler.Pickle]):
      - f already memoized as a finished object      -> a memo reference to the finished environment  ([TRef])
      - f asked about before and still in progress   -> the placeholder ("dawn","Recursive",(name, ordinal))  ([TRec])
        (the first such request creates the placeholder and memoizes it under f; later ones hit that memo entry)
      - otherwise: mark f as asked, pickle its parts, memoize f                                         ([TFun])

    [ordinal]: recursionPickler.seen maps a function to len(seen) at the moment it is first asked about, i.e. to the
    number of functions asked about before it; [asked] lists the functions asked about, latest first, so the ordinal of
    a function is the length of the list behind it.  The placeholder carries it (function.go, since 7738be5).
    A memo reference is BINGET <memo id> in the stamp and the shared decoded object in the decoded environment: either
    identifies the function object referred to.  Memo ids count every memoized value (strings, containers ...), which this
    model does not have; [TRef] carries the same identification in the model's own terms: the ordinal of the function
    referred to (equal stamps have equal memo ids at equal positions, which denote the objects memoized at equal earlier
    positions, hence functions of equal ordinal -- the abstraction loses nothing the stamp does not have). *)
From Coq Require Export List NArith Bool Lia.
Export ListNotations.
Open Scope N_scope.

Record fn := mkFn { f_name : N; f_code : N; f_mentions : list N }.
Definition graph := list (N * fn).

Fixpoint lookup {A} (k : N) (m : list (N * A)) : option A :=
  match m with
  | [] => None
  | (k', v) :: r => if k =? k' then Some v else lookup k r
  end.
Definition mem (k : N) (l : list N) : bool := existsb (N.eqb k) l.

(** position of [f] in the order of first requests, [l] = functions asked about so far, latest first *)
Fixpoint ordinal (f : N) (l : list N) : N :=
  match l with
  | [] => 0
  | a :: r => if f =? a then N.of_nat (length r) else ordinal f r
  end.

Inductive tree :=
| TFun (name code : N) (children : list tree)
| TRec (name ord : N)
| TRef (name ord : N)
| TUnknown.                       (* a mention of an object outside the graph: never produced by the reifier *)

Record st := mkSt { asked : list N; finished : list N }.

Inductive res := Done (t : list tree) (s : st) | OutOfFuel.

(** [walk fuel g s fs]: pickle the mentions [fs] in order; fuel bounds the nesting of function environments *)
Fixpoint walk (fuel : nat) (g : graph) : st -> list N -> res :=
  fix go (s : st) (fs : list N) {struct fs} : res :=
    match fs with
    | [] => Done [] s
    | f :: rest =>
        let continue t s' := match go s' rest with
                             | Done ts s'' => Done (t :: ts) s''
                             | OutOfFuel => OutOfFuel
                             end in
        match lookup f g with
        | None => continue TUnknown s
        | Some fd =>
            if mem f (finished s) then continue (TRef (f_name fd) (ordinal f (asked s))) s
            else if mem f (asked s) then continue (TRec (f_name fd) (ordinal f (asked s))) s
            else match fuel with
                 | O => OutOfFuel
                 | S fuel' =>
                     match walk fuel' g (mkSt (f :: asked s) (finished s)) (f_mentions fd) with
                     | OutOfFuel => OutOfFuel
                     | Done children s1 =>
                         continue (TFun (f_name fd) (f_code fd) children) (mkSt (asked s1) (f :: finished s1))
                     end
                 end
        end
    end.

(** the fingerprint skeleton of target function [f] *)
Definition fingerprint (g : graph) (f : N) : res := walk (S (length g)) g (mkSt [] []) [f].
