(** Fingerprinting terminates on every function graph (recursion and mutual recursion included), and its output
    contains the code of every function reachable from the target. *)
From Dawn Require Import Fingerprint.Model.

Lemma mem_In x l : mem x l = true <-> In x l.
Proof.
  unfold mem. rewrite existsb_exists. split.
  - intros (y & Hy & E). apply N.eqb_eq in E. subst. exact Hy.
  - intros H. exists x. split; [exact H|apply N.eqb_refl].
Qed.

Definition subset (a b : list N) : Prop := forall x, In x a -> In x b.

(** number of graph entries whose function has not been asked about yet *)
Definition unasked (g : graph) (a : list N) : nat :=
  length (filter (fun kf => negb (mem (fst kf) a)) g).

Lemma unasked_mono g a1 a2 : subset a1 a2 -> (unasked g a2 <= unasked g a1)%nat.
Proof.
  intros H. unfold unasked. induction g as [|[k fd] g IH]; simpl; [lia|].
  destruct (mem k a1) eqn:E1; simpl.
  - apply mem_In in E1. apply H in E1. apply mem_In in E1. rewrite E1. simpl. exact IH.
  - destruct (mem k a2); simpl; lia.
Qed.

Lemma mem_cons x y l : mem x (y :: l) = (x =? y) || mem x l.
Proof. reflexivity. Qed.

Lemma unasked_cons g a k fd :
  unasked ((k, fd) :: g) a = if mem k a then unasked g a else S (unasked g a).
Proof. unfold unasked. cbn [filter fst]. destruct (mem k a); reflexivity. Qed.

Lemma unasked_strict g a f fd :
  lookup f g = Some fd -> mem f a = false -> (unasked g (f :: a) < unasked g a)%nat.
Proof.
  induction g as [|[k fd'] g IH]; [discriminate|].
  cbn [lookup]. rewrite !unasked_cons, mem_cons.
  destruct (N.eqb_spec f k) as [->|Hne].
  - intros _ Ha. rewrite Ha, N.eqb_refl. cbn [orb].
    pose proof (unasked_mono g a (k :: a) (fun x Hx => or_intror Hx)). lia.
  - intros Hl Ha. specialize (IH Hl Ha).
    assert (E : (k =? f) = false) by (apply N.eqb_neq; congruence).
    rewrite E. cbn [orb]. destruct (mem k a); lia.
Qed.

(** ** termination *)
Lemma walk_terminates_gen fuel : forall g s fs,
  (unasked g (asked s) < fuel)%nat ->
  exists ts s', walk fuel g s fs = Done ts s' /\ subset (asked s) (asked s').
Proof.
  induction fuel as [|fuel IHf]; intros g s fs Hlt; [lia|].
  revert s Hlt. induction fs as [|f rest IHr]; intros s Hlt.
  - exists [], s. split; [reflexivity|intros x Hx; exact Hx].
  - cbn [walk]. fold (walk (S fuel) g).
    assert (Hcont : forall t s1, subset (asked s) (asked s1) ->
              exists ts s', match walk (S fuel) g s1 rest with
                            | Done ts0 s'' => Done (t :: ts0) s''
                            | OutOfFuel => OutOfFuel
                            end = Done ts s' /\ subset (asked s) (asked s')).
    { intros t s1 Hsub.
      assert (Hlt1 : (unasked g (asked s1) < S fuel)%nat).
      { pose proof (unasked_mono g _ _ Hsub). lia. }
      destruct (IHr s1 Hlt1) as (ts & s' & E & Hs'). rewrite E. exists (t :: ts), s'. split; [reflexivity|].
      intros x Hx. apply Hs', Hsub, Hx. }
    destruct (lookup f g) as [fd|] eqn:Hl.
    2:{ apply Hcont. intros x Hx; exact Hx. }
    destruct (mem f (finished s)). { apply Hcont. intros x Hx; exact Hx. }
    destruct (mem f (asked s)) eqn:Ha. { apply Hcont. intros x Hx; exact Hx. }
    assert (Hlt' : (unasked g (asked (mkSt (f :: asked s) (finished s))) < fuel)%nat).
    { cbn [asked]. pose proof (unasked_strict g (asked s) f fd Hl Ha). lia. }
    destruct (IHf g (mkSt (f :: asked s) (finished s)) (f_mentions fd) Hlt') as (children & s1 & E & Hs1).
    rewrite E. apply Hcont. cbn [asked] in *. intros x Hx. apply Hs1. right; exact Hx.
Qed.

(** C08: fingerprinting terminates for every graph of functions, whatever refers to whatever *)
Theorem fingerprint_terminates g f : exists ts s, fingerprint g f = Done ts s.
Proof.
  unfold fingerprint.
  destruct (walk_terminates_gen (S (length g)) g (mkSt [] []) [f]) as (ts & s & E & _).
  - cbn [asked]. unfold unasked.
    assert (H : forall (p : N * fn -> bool) (l : list (N * fn)), (length (filter p l) <= length l)%nat).
    { intros p l. induction l as [|x l IH]; simpl; [lia|]. destruct (p x); simpl; lia. }
    pose proof (H (fun kf => negb (mem (fst kf) [])) g). lia.
  - exists ts, s. exact E.
Qed.

(** ** coverage: the code of every reachable function is in the fingerprint *)
Fixpoint nodes (t : tree) : list (N * N) :=
  match t with
  | TFun n c ch => (n, c) :: (fix go (l : list tree) := match l with [] => [] | x :: r => nodes x ++ go r end) ch
  | _ => []
  end.
Definition nodes_l (ts : list tree) : list (N * N) := flat_map nodes ts.

Lemma nodes_TFun n c ch : nodes (TFun n c ch) = (n, c) :: nodes_l ch.
Proof. reflexivity. Qed.

Definition closed (g : graph) (s : st) : Prop :=
  forall x fd, In x (finished s) -> lookup x g = Some fd ->
    forall m, In m (f_mentions fd) -> lookup m g <> None -> In m (asked s).

Record winv (g : graph) (s : st) (fs : list N) (ts : list tree) (s' : st) : Prop := {
  wi_asked : subset (asked s) (asked s');
  wi_fin : subset (finished s) (finished s');
  wi_new : forall x, In x (asked s') -> In x (asked s) \/ In x (finished s');
  wi_nodes : forall x, In x (finished s') -> In x (finished s) \/
               exists fd, lookup x g = Some fd /\ In (f_name fd, f_code fd) (nodes_l ts);
  wi_closed : closed g s -> closed g s';
  wi_fs : forall f, In f fs -> lookup f g <> None -> In f (asked s')
}.

Definition cont (r : res) (t : tree) : res :=
  match r with Done ts s'' => Done (t :: ts) s'' | OutOfFuel => OutOfFuel end.

Lemma walk_cons fuel g s f rest :
  walk fuel g s (f :: rest) =
  match lookup f g with
  | None => cont (walk fuel g s rest) TUnknown
  | Some fd =>
      if mem f (finished s) then cont (walk fuel g s rest) (TRef (f_name fd) (ordinal f (asked s)))
      else if mem f (asked s) then cont (walk fuel g s rest) (TRec (f_name fd) (ordinal f (asked s)))
      else match fuel with
           | O => OutOfFuel
           | S fuel' =>
               match walk fuel' g (mkSt (f :: asked s) (finished s)) (f_mentions fd) with
               | OutOfFuel => OutOfFuel
               | Done children s1 =>
                   cont (walk fuel g (mkSt (asked s1) (f :: finished s1)) rest) (TFun (f_name fd) (f_code fd) children)
               end
           end
  end.
Proof. destruct fuel; reflexivity. Qed.

Lemma winv_nil g s : subset (finished s) (asked s) -> winv g s [] [] s /\ subset (finished s) (asked s).
Proof.
  intros Hfa. split; [|exact Hfa].
  constructor; try (intros x Hx; exact Hx); try (intros x Hx; left; exact Hx); try (intros Hc; exact Hc).
  intros f [].
Qed.

Lemma winv_cont g s f rest fu t s1 ts0 s' :
  (forall s ts s', subset (finished s) (asked s) -> walk fu g s rest = Done ts s' ->
                   winv g s rest ts s' /\ subset (finished s') (asked s')) ->
  subset (finished s1) (asked s1) ->
  subset (asked s) (asked s1) -> subset (finished s) (finished s1) ->
  (forall x, In x (asked s1) -> In x (asked s) \/ In x (finished s1)) ->
  (forall x, In x (finished s1) -> In x (finished s) \/
        exists fd, lookup x g = Some fd /\ In (f_name fd, f_code fd) (nodes t)) ->
  (closed g s -> closed g s1) ->
  (lookup f g <> None -> In f (asked s1)) ->
  walk fu g s1 rest = Done ts0 s' ->
  winv g s (f :: rest) (t :: ts0) s' /\ subset (finished s') (asked s').
Proof.
  intros IH Hfa1 Ha Hf Hn Hnd Hc Hfin E.
  destruct (IH s1 ts0 s' Hfa1 E) as [[A1 A2 A3 A4 A5 A6] Hfa'].
  split; [|exact Hfa'].
  constructor.
  - intros x Hx; apply A1, Ha, Hx.
  - intros x Hx; apply A2, Hf, Hx.
  - intros x Hx. destruct (A3 x Hx) as [Hx1|Hx1]; [|right; exact Hx1].
    destruct (Hn x Hx1) as [Hx2|Hx2]; [left; exact Hx2|right; apply A2, Hx2].
  - intros x Hx. destruct (A4 x Hx) as [Hx1|(fd & Hl & Hin)].
    + destruct (Hnd x Hx1) as [Hx2|(fd & Hl & Hin)]; [left; exact Hx2|].
      right; exists fd; split; [exact Hl|]. unfold nodes_l; cbn [flat_map]. apply in_or_app; left; exact Hin.
    + right; exists fd; split; [exact Hl|]. unfold nodes_l; cbn [flat_map]. apply in_or_app; right; exact Hin.
  - intros Hcl; apply A5, Hc, Hcl.
  - intros f' [<-|Hin] Hl'; [apply A1, Hfin, Hl'|apply A6; assumption].
Qed.

Ltac same_state := try (intros x Hx; exact Hx); try (intros x Hx; left; exact Hx); try (intros Hc; exact Hc).

Lemma walk_winv fuel : forall g s fs ts s',
  subset (finished s) (asked s) ->
  walk fuel g s fs = Done ts s' -> winv g s fs ts s' /\ subset (finished s') (asked s').
Proof.
  induction fuel as [|fuel IHf]; intros g s fs; revert s;
    induction fs as [|f rest IHr]; intros s ts s' Hfa H.
  - cbn [walk] in H. inversion H; subst. apply winv_nil, Hfa.
  - (* fuel = 0 *)
    rewrite walk_cons in H. unfold cont in H.
    destruct (lookup f g) as [fd|] eqn:Hl.
    + destruct (mem f (finished s)) eqn:Hfm.
      * destruct (walk 0 g s rest) as [ts0 s0|] eqn:E; [|discriminate]. inversion H; subst.
        apply (winv_cont g s f rest 0%nat (TRef (f_name fd) (ordinal f (asked s))) s ts0 s' IHr Hfa); same_state; try exact E.
        intros _. apply Hfa. apply mem_In. exact Hfm.
      * destruct (mem f (asked s)) eqn:Ham; [|discriminate].
        destruct (walk 0 g s rest) as [ts0 s0|] eqn:E; [|discriminate]. inversion H; subst.
        apply (winv_cont g s f rest 0%nat (TRec (f_name fd) (ordinal f (asked s))) s ts0 s' IHr Hfa); same_state; try exact E.
        intros _. apply mem_In. exact Ham.
    + destruct (walk 0 g s rest) as [ts0 s0|] eqn:E; [|discriminate]. inversion H; subst.
      apply (winv_cont g s f rest 0%nat TUnknown s ts0 s' IHr Hfa); same_state; try exact E.
      intros Hne. contradiction.
  - cbn [walk] in H. inversion H; subst. apply winv_nil, Hfa.
  - (* fuel = S fuel *)
    rewrite walk_cons in H. unfold cont in H.
    destruct (lookup f g) as [fd|] eqn:Hl.
    + destruct (mem f (finished s)) eqn:Hfm.
      * destruct (walk (S fuel) g s rest) as [ts0 s0|] eqn:E; [|discriminate]. inversion H; subst.
        apply (winv_cont g s f rest (S fuel) (TRef (f_name fd) (ordinal f (asked s))) s ts0 s' IHr Hfa); same_state; try exact E.
        intros _. apply Hfa. apply mem_In. exact Hfm.
      * destruct (mem f (asked s)) eqn:Ham.
        -- destruct (walk (S fuel) g s rest) as [ts0 s0|] eqn:E; [|discriminate]. inversion H; subst.
           apply (winv_cont g s f rest (S fuel) (TRec (f_name fd) (ordinal f (asked s))) s ts0 s' IHr Hfa); same_state; try exact E.
           intros _. apply mem_In. exact Ham.
        -- (* enter f *)
           destruct (walk fuel g (mkSt (f :: asked s) (finished s)) (f_mentions fd)) as [children s1|] eqn:Ech; [|discriminate].
           assert (Hfa0 : subset (finished (mkSt (f :: asked s) (finished s))) (asked (mkSt (f :: asked s) (finished s)))).
           { cbn [asked finished]. intros x Hx. right. apply Hfa, Hx. }
           destruct (IHf g _ _ _ _ Hfa0 Ech) as [[B1 B2 B3 B4 B5 B6] Hfa1]. cbn [asked finished] in *.
           destruct (walk (S fuel) g (mkSt (asked s1) (f :: finished s1)) rest) as [ts0 s0|] eqn:E; [|discriminate].
           inversion H; subst.
           apply (winv_cont g s f rest (S fuel) (TFun (f_name fd) (f_code fd) children) (mkSt (asked s1) (f :: finished s1)) ts0 s' IHr);
             cbn [asked finished]; try exact E.
           ++ intros x [<-|Hx]; [apply B1; left; reflexivity|apply Hfa1, Hx].
           ++ intros x Hx. apply B1. right; exact Hx.
           ++ intros x Hx. right. apply B2, Hx.
           ++ intros x Hx. destruct (B3 x Hx) as [[<-|Hx1]|Hx1]; [right; left; reflexivity|left; exact Hx1|right; right; exact Hx1].
           ++ intros x [<-|Hx].
              ** right. exists fd. split; [exact Hl|]. rewrite nodes_TFun. left; reflexivity.
              ** destruct (B4 x Hx) as [Hx1|(fd' & Hl' & Hin)]; [left; exact Hx1|].
                 right. exists fd'. split; [exact Hl'|]. rewrite nodes_TFun. right; exact Hin.
           ++ intros Hcl x fdx [<-|Hx] Hlx m Hm Hmg.
              ** rewrite Hl in Hlx. inversion Hlx; subst fdx. apply B6; assumption.
              ** assert (Hcl0 : closed g (mkSt (f :: asked s) (finished s))).
                 { intros y fdy Hy Hly m' Hm' Hmg'. cbn [asked finished] in *. right. apply (Hcl y fdy Hy Hly m' Hm' Hmg'). }
                 apply (B5 Hcl0 x fdx Hx Hlx m Hm Hmg).
           ++ intros _. apply B1. left; reflexivity.
    + destruct (walk (S fuel) g s rest) as [ts0 s0|] eqn:E; [|discriminate]. inversion H; subst.
      apply (winv_cont g s f rest (S fuel) TUnknown s ts0 s' IHr Hfa); same_state; try exact E.
      intros Hne. contradiction.
Qed.

(** functions reachable from [f] through mentions that resolve in the graph *)
Inductive reach (g : graph) (f : N) : N -> Prop :=
| reach_refl : lookup f g <> None -> reach g f f
| reach_step x fd m : reach g f x -> lookup x g = Some fd -> In m (f_mentions fd) -> lookup m g <> None -> reach g f m.

(** C08 (sensitivity skeleton): the fingerprint of [f] contains a node carrying the name and the code identity of every
    function reachable from [f] -- whatever the recursion structure.  Changing the code of any of them changes the tree. *)
Theorem fingerprint_covers_reachable g f ts s :
  fingerprint g f = Done ts s ->
  forall x, reach g f x -> exists fd, lookup x g = Some fd /\ In (f_name fd, f_code fd) (nodes_l ts).
Proof.
  unfold fingerprint. intros H.
  assert (Hfa0 : subset (finished (mkSt [] [])) (asked (mkSt [] []))) by (intros x []).
  destruct (walk_winv _ _ _ _ _ _ Hfa0 H) as [[A1 A2 A3 A4 A5 A6] Hfa]. cbn [asked finished] in *.
  assert (Hcl : closed g s) by (apply A5; intros x fd []).
  assert (Hfin : forall x, In x (asked s) -> In x (finished s)).
  { intros x Hx. destruct (A3 x Hx) as [[]|Hx']. exact Hx'. }
  assert (Hreach : forall x, reach g f x -> In x (finished s)).
  { intros x Hr. induction Hr as [Hne|x fd m Hr IH Hl Hm Hmg].
    - apply Hfin. apply A6; [left; reflexivity|exact Hne].
    - apply Hfin. apply (Hcl x fd IH Hl m Hm Hmg). }
  intros x Hr. destruct (A4 x (Hreach x Hr)) as [[]|Hex]. exact Hex.
Qed.

(** ** determinism: the fingerprint does not depend on the identities (addresses) of the function objects *)
Section Renaming.
  Variable f : N -> N.
  Hypothesis f_inj : forall a b, f a = f b -> a = b.

  Definition ren_fn (fd : fn) : fn := mkFn (f_name fd) (f_code fd) (map f (f_mentions fd)).
  Definition ren_graph (g : graph) : graph := map (fun kf => (f (fst kf), ren_fn (snd kf))) g.
  Definition ren_st (s : st) : st := mkSt (map f (asked s)) (map f (finished s)).
  Definition ren_res (r : res) : res :=
    match r with Done ts s => Done ts (ren_st s) | OutOfFuel => OutOfFuel end.

  Lemma lookup_ren g k : lookup (f k) (ren_graph g) = option_map ren_fn (lookup k g).
  Proof.
    induction g as [|[a fd] g IH]; simpl; [reflexivity|].
    destruct (N.eqb_spec k a) as [->|Hne].
    - rewrite N.eqb_refl. reflexivity.
    - destruct (N.eqb_spec (f k) (f a)) as [E|_]; [apply f_inj in E; contradiction|exact IH].
  Qed.

  Lemma mem_ren k l : mem (f k) (map f l) = mem k l.
  Proof.
    induction l as [|a l IH]; simpl; [reflexivity|].
    rewrite IH. f_equal.
    destruct (N.eqb_spec k a) as [->|Hne]; [apply N.eqb_refl|].
    destruct (N.eqb_spec (f k) (f a)) as [E|_]; [apply f_inj in E; contradiction|reflexivity].
  Qed.

  Lemma ordinal_ren k l : ordinal (f k) (map f l) = ordinal k l.
  Proof.
    induction l as [|a l IH]; simpl; [reflexivity|].
    rewrite IH, map_length.
    destruct (N.eqb_spec k a) as [->|Hne]; [rewrite N.eqb_refl; reflexivity|].
    destruct (N.eqb_spec (f k) (f a)) as [E|_]; [apply f_inj in E; contradiction|reflexivity].
  Qed.

  Lemma cont_ren r t : ren_res (cont r t) = cont (ren_res r) t.
  Proof. destruct r; reflexivity. Qed.

  Lemma walk_ren fuel : forall g s fs,
    walk fuel (ren_graph g) (ren_st s) (map f fs) = ren_res (walk fuel g s fs).
  Proof.
    induction fuel as [|fuel IHf]; intros g s fs; revert s;
      induction fs as [|x rest IHr]; intros s; try reflexivity.
    - cbn [map]. rewrite !walk_cons, lookup_ren.
      destruct (lookup x g) as [fd|]; cbn [option_map].
      + cbn [ren_st asked finished ren_fn f_name]. rewrite !mem_ren, !ordinal_ren.
        destruct (mem x (finished s)); [rewrite cont_ren, <- IHr; reflexivity|].
        destruct (mem x (asked s)); [rewrite cont_ren, <- IHr; reflexivity|reflexivity].
      + rewrite cont_ren, <- IHr. reflexivity.
    - cbn [map]. rewrite !walk_cons, lookup_ren.
      destruct (lookup x g) as [fd|]; cbn [option_map].
      + cbn [ren_st asked finished ren_fn f_name f_code f_mentions]. rewrite !mem_ren, !ordinal_ren.
        destruct (mem x (finished s)); [rewrite cont_ren, <- IHr; reflexivity|].
        destruct (mem x (asked s)); [rewrite cont_ren, <- IHr; reflexivity|].
        change (mkSt (f x :: map f (asked s)) (map f (finished s))) with (ren_st (mkSt (x :: asked s) (finished s))).
        rewrite IHf. destruct (walk fuel g (mkSt (x :: asked s) (finished s)) (f_mentions fd)) as [children s1|]; [|reflexivity].
        cbn [ren_res ren_st asked finished].
        change (mkSt (map f (asked s1)) (f x :: map f (finished s1))) with (ren_st (mkSt (asked s1) (x :: finished s1))).
        rewrite cont_ren, <- IHr. reflexivity.
      + rewrite cont_ren, <- IHr. reflexivity.
  Qed.

  (** two loads whose function objects differ only in identity (address, allocation order) yield the same fingerprint *)
  Theorem fingerprint_independent_of_identities g x :
    match fingerprint g x, fingerprint (ren_graph g) (f x) with
    | Done t1 _, Done t2 _ => t1 = t2
    | OutOfFuel, OutOfFuel => True
    | _, _ => False
    end.
  Proof.
    unfold fingerprint.
    assert (E : length (ren_graph g) = length g) by (unfold ren_graph; apply map_length).
    rewrite E.
    assert (W : walk (S (length g)) (ren_graph g) (mkSt [] []) [f x] = ren_res (walk (S (length g)) g (mkSt [] []) [x])).
    { exact (walk_ren (S (length g)) g (mkSt [] []) [x]). }
    rewrite W.
    destruct (walk (S (length g)) g (mkSt [] []) [x]); cbn [ren_res]; [reflexivity|exact I].
  Qed.
End Renaming.
